import OptunaVerif.Model.Basic
import OptunaVerif.Model.Direction
/-
  C13 / C09 — TPE's trial split and weighting (optuna/samplers/_tpe/sampler.py), the whole pipeline
  at the decision level:

    TPESampler._sample            states by `constant_liar`, `n` = non-RUNNING trials, `gamma(n)`
    _split_trials                 classification loop (RUNNING | infeasible | COMPLETE | PRUNED |
                                  `assert False`), the three sub-splits with the quota arithmetic
                                  `n_below = max(0, n_below - len(below_x))`, concatenation, the two
                                  final `sort(key=number)`
    _split_complete_trials        `min(n_below, len)`, single / multi objective
    _split_complete_trials_single_objective   `sorted(key=value)` / `sorted(..., reverse=True)`
    _split_complete_trials_multi_objective    n_below = 0 / = len shortcuts, loss matrix `lvals *= ±1`,
                                  `last_rank_before_tiebreak`, `indices_below`, the HSSP tie-break call,
                                  membership filter in the original order
    _get_pruned_trial_score, _split_pruned_trials
    _get_infeasible_trial_score, _split_infeasible_trials
    default_gamma, hyperopt_default_gamma, default_weights
    _calculate_weights_below_for_multi_objective   (feasibility mask, EPS, n_feasible ≤ 1 and
                                  infinite-hypervolume shortcuts, normalisation by the largest contribution)

  Values are `XVal`s (finite rational, ±inf, NaN).  Python's `sorted` / `list.sort` are stable and use
  `<` only; for keys without NaN (COMPLETE values are never NaN, a NaN report is replaced by `inf` in
  the pruned score, NaN constraint entries are skipped by `v > 0`) they are the stable insertion sort
  `Direction.sortBy` with `≤`; `reverse=True` KEEPS the original order of equal keys, i.e. it is the
  stable sort with `≥`.  The single-objective path contains no numpy argsort / argpartition.

  External numeric kernels are parameters (`Kernels`): `_fast_non_domination_rank(lvals, n_below)` and
  `_solve_hssp(rank_i_lvals, rank_i_indices, subset_size, reference_point)` (modelled and proved in
  C15: Model/Rank.lean, Model/Hssp.lean); for the multi-objective weights the hypervolume
  contributions are an input.  The tie records what the real functions returned inside the real
  `_split_trials` call and hands exactly that to the model.

  `n_below` is a natural number here (`gamma(n) ≥ 0`; a user `gamma` returning a negative number makes
  `sorted_trials[:n_below]` a from-the-end slice in the code — outside the model).

  Core Lean only (linked into the driver).
-/
namespace OptunaVerif.TpeSplit
open OptunaVerif OptunaVerif.Direction

/-- `TrialState` -/
inductive St where
  | running | complete | pruned | fail | waiting
deriving DecidableEq, Repr, Inhabited

/-- a trial as the split sees it (no `_trial_id`: nothing below can depend on it) -/
structure Trial where
  number : Nat
  state : St
  /-- `trial.values` (COMPLETE: one finite-or-±inf entry per objective) -/
  values : List XVal
  /-- `trial.intermediate_values` (distinct steps, insertion order) -/
  iv : List (Int × XVal)
  /-- `trial.system_attrs.get("constraints")` -/
  cons : Option (List XVal)
deriving DecidableEq, Repr, Inhabited

/-! ## float-like helpers -/

def xneg : XVal → XVal
  | .nan => .nan
  | .ninf => .pinf
  | .pinf => .ninf
  | .fin a => .fin (-a)

/-- Python `v > 0` -/
def xpos : XVal → Bool
  | .pinf => true
  | .fin q => decide (0 < q)
  | _ => false

/-- float addition without rounding (only non-negative operands reach it) -/
def xadd : XVal → XVal → XVal
  | .nan, _ => .nan
  | _, .nan => .nan
  | .fin a, .fin b => .fin (a + b)
  | .pinf, .ninf => .nan
  | .ninf, .pinf => .nan
  | .pinf, _ => .pinf
  | _, .pinf => .pinf
  | .ninf, _ => .ninf
  | _, .ninf => .ninf

/-- `XVal.le`, the order `sorted` sees on NaN-free keys -/
def xle (a b : XVal) : Bool := XVal.le a b

/-! ## scores -/

/-- `sum(v for v in constraint if v > 0)` -/
def violation : List XVal → XVal
  | [] => .fin 0
  | v :: t => if xpos v then xadd v (violation t) else violation t

/-- `_get_infeasible_trial_score` (`None` ↦ `inf`, with a warning) -/
def infeasibleScore (t : Trial) : XVal :=
  match t.cons with
  | none => .pinf
  | some c => violation c

/-- `max(trial.intermediate_values.items())`: the entry with the largest step -/
def lastEntry : List (Int × XVal) → Option (Int × XVal)
  | [] => none
  | p :: t => match lastEntry t with
    | none => some p
    | some m => if m.1 < p.1 then some p else some m

/-- `_get_pruned_trial_score(trial, study)` for `study.direction = d` -/
def prunedScore (d : Dir) (t : Trial) : Int × XVal :=
  match lastEntry t.iv with
  | none => (1, .fin 0)
  | some (step, .nan) => (-step, .pinf)
  | some (step, v) =>
    match d with
    | .minimize => (-step, v)
    | .maximize => (-step, xneg v)

/-- tuple comparison `a <= b` of two scores -/
def scoreLe (a b : Int × XVal) : Bool := decide (a.1 < b.1) || (decide (a.1 = b.1) && xle a.2 b.2)

/-! ## classification loop of `_split_trials` -/

inductive Cls where
  | running | infeasible | complete | pruned | bad
deriving DecidableEq, Repr

def classify (consEnabled : Bool) (t : Trial) : Cls :=
  if t.state = .running then .running
  else if consEnabled && xpos (infeasibleScore t) then .infeasible
  else if t.state = .complete then .complete
  else if t.state = .pruned then .pruned
  else .bad

def ofClass (ce : Bool) (c : Cls) (ts : List Trial) : List Trial := ts.filter (fun t => classify ce t = c)

/-! ## single objective -/

def value0 (t : Trial) : XVal := t.values.headD .nan

/-- `_split_complete_trials_single_objective` (`n` already clipped) -/
def splitCompleteSingle (d : Dir) (ts : List Trial) (n : Nat) : List Trial × List Trial :=
  let sorted := match d with
    | .minimize => sortBy (fun a b => xle (value0 a) (value0 b)) ts
    | .maximize => sortBy (fun a b => xle (value0 b) (value0 a)) ts
  (sorted.take n, sorted.drop n)

/-! ## multi objective -/

/-- the numeric kernels that are proved elsewhere (C15) and are inputs here -/
structure Kernels where
  /-- `_fast_non_domination_rank(lvals, n_below=n_below)` -/
  rank : List (List XVal) → Nat → List Nat
  /-- `_solve_hssp(rank_i_lvals, rank_i_indices, subset_size, _get_reference_point(rank_i_lvals))` -/
  hssp : List (List XVal) → List Nat → Nat → List Nat

/-- one row of `lvals *= np.array([-1.0 if d == MAXIMIZE else 1.0 for d in directions])` -/
def lossRow : List Dir → List XVal → List XVal
  | d :: ds, v :: vs => (match d with | .maximize => xneg v | .minimize => v) :: lossRow ds vs
  | _, _ => []

def lossMatrix (dirs : List Dir) (ts : List Trial) : List (List XVal) := ts.map (fun t => lossRow dirs t.values)

/-- `np.cumsum(rank_counts)` at the unique rank `r`: how many rows have rank ≤ r -/
def countLe (ranks : List Nat) (r : Nat) : Nat := (ranks.filter (fun x => decide (x ≤ r))).length

/-- `int(np.max(ranks[np.cumsum(rank_counts) <= n_below], initial=-1))` -/
def lastRank (ranks : List Nat) (nBelow : Nat) : Int :=
  (ranks.filter (fun r => decide (countLe ranks r ≤ nBelow))).foldl (fun (m : Int) (r : Nat) => max m (r : Int)) (-1)

/-- positions `i` with `p ranks[i]` (ascending) -/
def indicesWhere (p : Nat → Bool) (ranks : List Nat) : List Nat :=
  (ranks.zipIdx.filter (fun e => p e.1)).map (·.2)

def pick {α : Type} (l : List α) (idx : List Nat) : List α := idx.filterMap (fun i => l[i]?)

/-- what is handed to `_solve_hssp`, if it is called: the rows and positions of rank
`last_rank_before_tiebreak + 1`, and the subset size -/
structure HsspCall where
  rows : List (List XVal)
  indices : List Nat
  size : Nat
deriving DecidableEq, Repr

structure MoTrace where
  ranks : List Nat
  last : Int
  idxBelow : List Nat
  call : Option HsspCall
  selected : List Nat
deriving DecidableEq, Repr

/-- the index computation of `_split_complete_trials_multi_objective` for `0 < n < len(trials)` -/
def moSelect (K : Kernels) (dirs : List Dir) (ts : List Trial) (n : Nat) : MoTrace :=
  let lvals := lossMatrix dirs ts
  let ranks := K.rank lvals n
  let last := lastRank ranks n
  let idxBelow := indicesWhere (fun r => decide ((r : Int) ≤ last)) ranks
  if idxBelow.length < n then
    let tie := indicesWhere (fun r => decide ((r : Int) = last + 1)) ranks
    let call : HsspCall := ⟨pick lvals tie, tie, n - idxBelow.length⟩
    let sel := K.hssp call.rows call.indices call.size
    ⟨ranks, last, idxBelow, some call, idxBelow ++ sel⟩
  else ⟨ranks, last, idxBelow, none, idxBelow⟩

/-- `[trials[i] for i in range(len(trials)) if i in below_indices_set]` and its complement -/
def byMembership (ts : List Trial) (sel : List Nat) : List Trial × List Trial :=
  ((ts.zipIdx.filter (fun e => sel.contains e.2)).map (·.1),
   (ts.zipIdx.filter (fun e => !sel.contains e.2)).map (·.1))

/-- `_split_complete_trials_multi_objective` (`n` already clipped) -/
def splitCompleteMulti (K : Kernels) (dirs : List Dir) (ts : List Trial) (n : Nat) : List Trial × List Trial :=
  if n = 0 then ([], ts)
  else if n = ts.length then (ts, [])
  else byMembership ts (moSelect K dirs ts n).selected

/-- `study.direction` of a single-objective study -/
def dir0 (dirs : List Dir) : Dir := dirs.headD .minimize

/-- `_split_complete_trials` -/
def splitComplete (K : Kernels) (dirs : List Dir) (ts : List Trial) (nBelow : Nat) : List Trial × List Trial :=
  let n := min nBelow ts.length
  if dirs.length ≤ 1 then splitCompleteSingle (dir0 dirs) ts n else splitCompleteMulti K dirs ts n

/-- `_split_pruned_trials` -/
def splitPruned (d : Dir) (ts : List Trial) (nBelow : Nat) : List Trial × List Trial :=
  let n := min nBelow ts.length
  let sorted := sortBy (fun a b => scoreLe (prunedScore d a) (prunedScore d b)) ts
  (sorted.take n, sorted.drop n)

/-- `_split_infeasible_trials` -/
def splitInfeasible (ts : List Trial) (nBelow : Nat) : List Trial × List Trial :=
  let n := min nBelow ts.length
  let sorted := sortBy (fun a b => xle (infeasibleScore a) (infeasibleScore b)) ts
  (sorted.take n, sorted.drop n)

/-- `list.sort(key=lambda trial: trial.number)` -/
def sortByNumber (ts : List Trial) : List Trial := sortBy (fun a b => decide (a.number ≤ b.number)) ts

/-- what the real call raises instead of returning -/
inductive Err where
  /-- `assert False` in the classification loop (a FAIL / WAITING trial that is not classified infeasible) -/
  | assertFalse
  /-- `study.direction` of a multi-objective study, reached from `_get_pruned_trial_score` for a
  PRUNED trial whose last intermediate value is not NaN (only `add_trial` can create one; the NaN
  test comes first in the code and returns without looking at the direction) -/
  | runtimeError
deriving DecidableEq, Repr

/-- does `_get_pruned_trial_score` read `study.direction` for this trial? -/
def needsDirection (t : Trial) : Bool :=
  match lastEntry t.iv with
  | none => false
  | some (_, .nan) => false
  | some _ => true

def err (dirs : List Dir) (ce : Bool) (ts : List Trial) : Option Err :=
  if ts.any (fun t => classify ce t = .bad) then some .assertFalse
  else if decide (1 < dirs.length) && (ofClass ce .pruned ts).any needsDirection then some .runtimeError
  else none

/-- `_split_trials(study, trials, n_below, constraints_enabled)` (meaningful when `err = none`) -/
def splitTrials (K : Kernels) (dirs : List Dir) (ce : Bool) (ts : List Trial) (nBelow : Nat) :
    List Trial × List Trial :=
  let c := splitComplete K dirs (ofClass ce .complete ts) nBelow
  let n1 := nBelow - c.1.length
  let p := splitPruned (dir0 dirs) (ofClass ce .pruned ts) n1
  let n2 := n1 - p.1.length
  let i := splitInfeasible (ofClass ce .infeasible ts) n2
  (sortByNumber (c.1 ++ p.1 ++ i.1), sortByNumber (c.2 ++ p.2 ++ i.2 ++ ofClass ce .running ts))

/-! ## `TPESampler._sample`: which trials are considered, and `n_below` -/

/-- `study._get_trials(states=...)`: COMPLETE, PRUNED and, with `constant_liar`, RUNNING -/
def considered (constantLiar : Bool) (all : List Trial) : List Trial :=
  all.filter (fun t => t.state = .complete || t.state = .pruned || (constantLiar && t.state = .running))

/-- `n = sum(trial.state != TrialState.RUNNING for trial in trials)` -/
def nFinished (ts : List Trial) : Nat := (ts.filter (fun t => t.state ≠ .running)).length

def sampleSplit (K : Kernels) (gamma : Nat → Nat) (constantLiar : Bool) (dirs : List Dir) (ce : Bool)
    (all : List Trial) : List Trial × List Trial :=
  let ts := considered constantLiar all
  splitTrials K dirs ce ts (gamma (nFinished ts))

/-! ## gamma -/

/-- `default_gamma(x) = min(int(np.ceil(0.1 * x)), 25)`; the float product never changes the ceiling
below the cap (tie: exhaustive over 0 ≤ x ≤ 20000). -/
def defaultGamma (x : Nat) : Nat := min ((x + 9) / 10) 25

/-- `⌈√x⌉` -/
def ceilSqrt (x : Nat) : Nat := let s := Nat.sqrt x; if s * s = x then s else s + 1

/-- `hyperopt_default_gamma(x) = min(int(np.ceil(0.25 * np.sqrt(x))), 25)`
(`⌈y/4⌉ = ⌈⌈y⌉/4⌉`) -/
def hyperoptGamma (x : Nat) : Nat := min ((ceilSqrt x + 3) / 4) 25

/-! ## weights -/

/-- `np.linspace(a, b, num)[i]` (`num = 1` gives `[a]`) -/
def linspaceAt (a b : Rat) (num i : Nat) : Rat :=
  if num ≤ 1 then a else a + (i : Rat) * ((b - a) / ((num : Rat) - 1))

def linspace (a b : Rat) (num : Nat) : List Rat := (List.range num).map (linspaceAt a b num)

/-- `default_weights(x)` -/
def defaultWeights (x : Nat) : List Rat :=
  if x = 0 then []
  else if x < 25 then List.replicate x 1
  else linspace (1 / (x : Rat)) 1 (x - 25) ++ List.replicate 25 1

/-- `EPS = 1e-12` -/
def eps : Rat := 1 / 1000000000000

def maxR : List Rat → Rat
  | [] => 0
  | [x] => x
  | x :: t => rmax x (maxR t)

/-- `weights_below = np.where(is_feasible, 1.0, EPS)` then `weights_below[is_feasible] = vals`:
infeasible positions get `EPS`, feasible ones the next entry of `vals` (1.0 when `vals` is used up) -/
def fill : List Bool → List Rat → List Rat
  | [], _ => []
  | false :: ms, vs => eps :: fill ms vs
  | true :: ms, v :: vs => v :: fill ms vs
  | true :: ms, [] => 1 :: fill ms []

/-- `_calculate_weights_below_for_multi_objective`: `feasible[i]` = `constraints_func is None or
all(c <= 0 ...)`; `contribs` = `none` when the hypervolume of the feasible Pareto set is infinite,
otherwise the leave-one-out contributions of the feasible rows (0 off the front). -/
def moWeights (feasible : List Bool) (contribs : Option (List Rat)) : List Rat :=
  let nFeas := (feasible.filter id).length
  if nFeas ≤ 1 then fill feasible []
  else
    match contribs with
    | none => fill feasible []
    | some cs =>
      let m := rmax (maxR cs) eps
      fill feasible (cs.map (fun c => rmax (c / m) eps))

end OptunaVerif.TpeSplit
