import OptunaVerif.Model.Dist
/-!
# C11 / C10 — the IR that `verif/translators/ttransform.py` emits from `optuna/_transform.py`, and its
interpreters (core Lean only; linked into the driver).

`Generated/TransformGen.lean` is DATA of the types below (`prog : Prog`), regenerated from the source on every run:

* `tnum`, `unum`        — the decision trees of `_transform_numerical_param` / `_untransform_numerical_param`
                          (guards `isinstance`, `d.log`, `d.step is not None`, `d.single()`, `transform_log`;
                          leaves = expression trees over `param`/`trans_param`, `d.low`, `d.high`, `d.step`);
* `nbG/nbThen/nbElse`   — the width expression of `n_bounds`;
* `ssCat/ssBds/ssNum`   — the loop body of `_transform_search_space`: the statements of the categorical arm, the tree
                          that computes `bds` (half-step widening, log of the bounds), the statements of the numerical arm;
* `tCat/tNum/tInit`     — the loop body of `_SearchSpaceTransform.transform` (one-hot write, numerical write, window advance);
* `tMask/tScale`        — the `transform_0_1` block: the zero-width mask and the two masked assignments;
* `uUnscale/uCat`       — `untransform`: the affine un-scaling and the index handed to `to_external_repr`;
* `unitLo/unitHi`       — the rows of the `bounds` property under `transform_0_1`.

Only whitelisted shapes are representable; everything else makes the translator report "untranslatable".
The IR is a little wider than today's code (`np.isclose` masks, `not`, reversed views, `max`, …) so that plausible
edits of the source still translate and then fail a NAMED equality of `Props/C11Gen.lean` instead of the translator.

Numbers are exact rationals; `math.log` / `math.exp` / `np.nextafter(h, h - 1)` are the abstract `Env` of
`Model/Dist.lean`; `np.round` is `roundHE`, `int(·)` is `truncI`, `np.clip` is `clip`.

Arrays that the code allocates with `np.empty`/`np.zeros` and then fills front to back are interpreted
*append-only*: a write is accepted only into the window `[bound_idx, bound_idx + width)` that is being filled, any other
write makes the interpreter answer `none` / an error (so an edit that mis-advances `bound_idx` cannot be equal to
the hand model).
-/
namespace OptunaVerif.TransformIR
open OptunaVerif.Dist

/-! ## guards, variables, expressions -/

/-- a guard of an `if` / conditional expression -/
inductive G where
  | isCat | isFloat | isInt   -- `isinstance(d, CategoricalDistribution / FloatDistribution / IntDistribution)`
  | isNum                     -- `isinstance(d, (FloatDistribution, IntDistribution))`
  | dLog                      -- `d.log`
  | hasStep                   -- `d.step is not None`
  | single                    -- `d.single()`
  | tLog | tStep              -- `transform_log`, `transform_step`
  | not (g : G)
deriving DecidableEq, Repr, Inhabited

inductive V where
  | arg                       -- `param` / `trans_param`
  | low | high | step         -- `d.low`, `d.high`, `d.step`
  | x | lo | hi               -- 0-1 scaling: `trans_params[m]`, `raw_bounds[m, 0]`, `raw_bounds[m, 1]`
deriving DecidableEq, Repr, Inhabited

inductive X where
  | var (v : V)
  | num (q : Rat)
  | add (a b : X) | sub (a b : X) | mul (a b : X) | div (a b : X) | neg (a : X)
  | lg (a : X) | ex (a : X)           -- `math.log`, `math.exp`
  | toFloat (a : X)                   -- `float(·)`
  | toInt (a : X)                     -- `int(·)`
  | round (a : X)                     -- `np.round(·)` (half to even)
  | clip (a lo hi : X)                -- `np.clip(·, lo, hi)`
  | min (a b : X) | max (a b : X)
  | nextBelow (a : X)                 -- `np.nextafter(a, a - 1)`
  | ite (g : G) (a b : X)             -- `a if g else b`
  | tnum (a : X)                      -- `_transform_numerical_param(a, d, transform_log)`
deriving DecidableEq, Repr, Inhabited

def lowQ : Dist → Rat
  | .flt _ l _ _ _ => l
  | .int _ l _ _ _ => (l : Rat)
  | .cat _ => 0

def highQ : Dist → Rat
  | .flt _ _ h _ _ => h
  | .int _ _ h _ _ => (h : Rat)
  | .cat _ => 0

def stepQ : Dist → Rat
  | .flt _ _ _ _ (some s) => s
  | .flt _ _ _ _ Option.none => 0
  | .int _ _ _ _ s => (s : Rat)
  | .cat _ => 0

def G.eval (c : TCfg) (d : Dist) : G → Bool
  | .isCat => match d with | .cat _ => true | _ => false
  | .isFloat => match d with | .flt _ _ _ _ _ => true | _ => false
  | .isInt => match d with | .int _ _ _ _ _ => true | _ => false
  | .isNum => match d with | .cat _ => false | _ => true
  | .dLog => d.isLog
  | .hasStep => match d with | .flt _ _ _ _ s => s.isSome | .int _ _ _ _ _ => true | .cat _ => false
  | .single => d.single
  | .tLog => c.tlog
  | .tStep => c.tstep
  | .not g => !(g.eval c d)

/-- the variables of the per-distribution functions -/
def rhoD (d : Dist) (v : Rat) : V → Rat
  | .arg => v | .low => lowQ d | .high => highQ d | .step => stepQ d
  | _ => 0

/-- the variables of the column-wise 0-1 scaling -/
def rhoS (b : Rat × Rat) (x : Rat) : V → Rat
  | .x => x | .lo => b.1 | .hi => b.2
  | _ => 0

def X.eval (E : Env) (c : TCfg) (d : Dist) (call : Rat → Rat) (ρ : V → Rat) : X → Rat
  | .var v => ρ v
  | .num q => q
  | .add a b => a.eval E c d call ρ + b.eval E c d call ρ
  | .sub a b => a.eval E c d call ρ - b.eval E c d call ρ
  | .mul a b => a.eval E c d call ρ * b.eval E c d call ρ
  | .div a b => a.eval E c d call ρ / b.eval E c d call ρ
  | .neg a => - a.eval E c d call ρ
  | .lg a => E.lg (a.eval E c d call ρ)
  | .ex a => E.ex (a.eval E c d call ρ)
  | .toFloat a => a.eval E c d call ρ
  | .toInt a => (truncI (a.eval E c d call ρ) : Rat)
  | .round a => (roundHE (a.eval E c d call ρ) : Rat)
  | .clip a lo hi => Dist.clip (a.eval E c d call ρ) (lo.eval E c d call ρ) (hi.eval E c d call ρ)
  | .min a b => Min.min (a.eval E c d call ρ) (b.eval E c d call ρ)
  | .max a b => Max.max (a.eval E c d call ρ) (b.eval E c d call ρ)
  | .nextBelow a => E.below (a.eval E c d call ρ)
  | .ite g a b => if g.eval c d then a.eval E c d call ρ else b.eval E c d call ρ
  | .tnum a => call (a.eval E c d call ρ)

/-- a decision tree (`if / elif / else` chains after inlining the straight-line assignments) -/
inductive T (α : Type) where
  | ret (a : α)
  | unreachable               -- `assert False`
  | ite (g : G) (t e : T α)
deriving Repr, Inhabited

def T.pick {α : Type} (c : TCfg) (d : Dist) : T α → Option α
  | .ret a => some a
  | .unreachable => Option.none
  | .ite g t e => if g.eval c d then t.pick c d else e.pick c d

/-! ## statements of the three loops -/

/-- a width: the literal `1` or `len(d.choices)` -/
inductive W where
  | one | nChoices
deriving DecidableEq, Repr, Inhabited

def W.eval (d : Dist) : W → Nat
  | .one => 1
  | .nChoices => match d with | .cat cs => cs.length | _ => 0

/-- statements of one arm of the loop of `_transform_search_space` -/
inductive BStmt where
  | rowsConst (w : W) (lo hi : Rat)   -- `bounds[bound_idx : bound_idx + w] = (lo, hi)`
  | rowBds                            -- `bounds[bound_idx] = bds`
  | colsArange (w : W)                -- `cols = np.arange(bound_idx, bound_idx + w)`
  | colsOne                           -- `cols = np.atleast_1d(bound_idx)`
  | backMap                           -- `encoded_column_to_column[cols] = len(column_to_encoded_columns)`
  | appendCols                        -- `column_to_encoded_columns.append(cols)`
  | advance (w : W)                   -- `bound_idx += w`
deriving DecidableEq, Repr, Inhabited

/-- statements of one arm of the loop of `transform` -/
inductive TStmt where
  | choiceIdx                 -- `choice_idx = int(distribution.to_internal_repr(param))`
  | setHot (q : Rat)          -- `trans_params[bound_idx + choice_idx] = q`
  | setNum                    -- `trans_params[bound_idx] = _transform_numerical_param(param, distribution, self._transform_log)`
  | advance (w : W)           -- `bound_idx += w`
deriving DecidableEq, Repr, Inhabited

/-- the zero-width mask of the 0-1 scaling -/
inductive Mask where
  | eq                        -- `raw[:, 0] == raw[:, 1]`
  | isclose                   -- `np.isclose(raw[:, 0], raw[:, 1])`  (|a - b| ≤ 1e-8 + 1e-5·|b|)
deriving DecidableEq, Repr, Inhabited

def Mask.eval (b : Rat × Rat) : Mask → Bool
  | .eq => b.1 == b.2
  | .isclose => decide (Rat.abs (b.1 - b.2) ≤ 1 / 100000000 + 1 / 100000 * Rat.abs b.2)

/-- `trans_params[m] = rhs` (`neg = false`) or `trans_params[~m] = rhs` (`neg = true`); `rhs` reads the same rows -/
structure MAssign where
  neg : Bool
  rhs : X
deriving DecidableEq, Repr, Inhabited

/-- a view of the columns of one categorical parameter -/
inductive VE where
  | cols | rev (v : VE)       -- `trans_param`, `v[::-1]`
deriving DecidableEq, Repr, Inhabited

/-- the index handed to `to_external_repr` -/
inductive IE where
  | argmax (v : VE)           -- `v.argmax()` / `np.argmax(v)`: FIRST maximal index
  | len                       -- `len(trans_param)`
  | lit (n : Int)
  | sub (a b : IE) | add (a b : IE)
deriving DecidableEq, Repr, Inhabited

def VE.eval (cols : List Rat) : VE → List Rat
  | .cols => cols
  | .rev v => (v.eval cols).reverse

def IE.eval (cols : List Rat) : IE → Int
  | .argmax v => (Dist.argmax (v.eval cols) : Nat)
  | .len => (cols.length : Nat)
  | .lit n => n
  | .sub a b => a.eval cols - b.eval cols
  | .add a b => a.eval cols + b.eval cols

/-- everything the translator reads from `optuna/_transform.py` -/
structure Prog where
  tnum : T X
  unum : T X
  nbG : G
  nbThen : W
  nbElse : W
  ssCatG : G
  ssNumG : G
  ssCat : List BStmt
  ssBds : T (X × X)
  ssNum : List BStmt
  tInit : Rat
  tCatG : G
  tCat : List TStmt
  tNum : List TStmt
  tMask : Mask
  tScale : List MAssign
  uUnscale : X
  uCatG : G
  uCat : IE
  unitLo : Rat
  unitHi : Rat
deriving Repr, Inhabited

/-! ## the interpreters -/

/-- `_transform_numerical_param(v, d, transform_log)` as generated -/
def tnumEval (P : Prog) (E : Env) (c : TCfg) (d : Dist) (v : Rat) : Option Rat :=
  (P.tnum.pick c d).map (X.eval E c d (fun _ => 0) (rhoD d v))

def tnumCall (P : Prog) (E : Env) (c : TCfg) (d : Dist) (v : Rat) : Rat := (tnumEval P E c d v).getD 0

/-- the Python value of a leaf: `int(…)` yields an `int`, everything else a `float` -/
def leafTok (E : Env) (c : TCfg) (d : Dist) (call : Rat → Rat) (ρ : V → Rat) : X → Tok
  | .toInt a => .int (truncI (a.eval E c d call ρ))
  | x => .flt (x.eval E c d call ρ)

/-- `_untransform_numerical_param(x, d, transform_log)` as generated -/
def unumEval (P : Prog) (E : Env) (c : TCfg) (d : Dist) (x : Rat) : Option Tok :=
  (P.unum.pick c d).map (leafTok E c d (tnumCall P E c d) (rhoD d x))

/-- `bds` of one numerical distribution as generated -/
def bdsEval (P : Prog) (E : Env) (c : TCfg) (d : Dist) : Option (Rat × Rat) :=
  (P.ssBds.pick c d).map (fun p =>
    (p.1.eval E c d (tnumCall P E c d) (rhoD d 0), p.2.eval E c d (tnumCall P E c d) (rhoD d 0)))

/-- state of the loop of `_transform_search_space` -/
structure SS where
  idx : Nat
  rows : List (Rat × Rat)
  c2e : List (List Nat)
  e2c : List Nat
  cur : Option (List Nat)
deriving Repr, Inhabited

def SS.init : SS := ⟨0, [], [], [], Option.none⟩

def BStmt.step (d : Dist) (bds : Option (Rat × Rat)) (s : SS) : BStmt → Option SS
  | .rowsConst w lo hi =>
    if s.rows.length = s.idx then some { s with rows := s.rows ++ List.replicate (w.eval d) (lo, hi) } else Option.none
  | .rowBds =>
    match bds with
    | some b => if s.rows.length = s.idx then some { s with rows := s.rows ++ [b] } else Option.none
    | Option.none => Option.none
  | .colsArange w => some { s with cur := some (List.range' s.idx (w.eval d)) }
  | .colsOne => some { s with cur := some [s.idx] }
  | .backMap =>
    match s.cur with
    | some cs =>
      if cs = List.range' s.e2c.length cs.length then
        some { s with e2c := s.e2c ++ List.replicate cs.length s.c2e.length }
      else Option.none
    | Option.none => Option.none
  | .appendCols =>
    match s.cur with
    | some cs => some { s with c2e := s.c2e ++ [cs] }
    | Option.none => Option.none
  | .advance w => some { s with idx := s.idx + w.eval d }

def runB (d : Dist) (bds : Option (Rat × Rat)) : List BStmt → SS → Option SS
  | [], s => some s
  | st :: rest, s =>
    match st.step d bds s with
    | some s' => runB d bds rest s'
    | Option.none => Option.none

/-- one iteration of the loop of `_transform_search_space` -/
def ssStep (P : Prog) (E : Env) (c : TCfg) (s : SS) (d : Dist) : Option SS :=
  if P.ssCatG.eval c d then runB d Option.none P.ssCat { s with cur := Option.none }
  else if P.ssNumG.eval c d then
    match bdsEval P E c d with
    | some b => runB d (some b) P.ssNum { s with cur := Option.none }
    | Option.none => Option.none
  else Option.none

def ssLoop (P : Prog) (E : Env) (c : TCfg) : List Dist → SS → Option SS
  | [], s => some s
  | d :: ds, s =>
    match ssStep P E c s d with
    | some s' => ssLoop P E c ds s'
    | Option.none => Option.none

/-- `n_bounds` -/
def nBounds (P : Prog) (c : TCfg) : List Dist → Nat
  | [] => 0
  | d :: ds => (if P.nbG.eval c d then P.nbThen.eval d else P.nbElse.eval d) + nBounds P c ds

/-- `_transform_search_space(space, transform_log, transform_step)` as generated:
`(bounds, column_to_encoded_columns, encoded_column_to_column)`; `none` = an assertion fails / an array is not
filled front to back -/
def runSS (P : Prog) (E : Env) (c : TCfg) (space : List Dist) :
    Option (List (Rat × Rat) × List (List Nat) × List Nat) :=
  match ssLoop P E c space SS.init with
  | some s =>
    let n := nBounds P c space
    if s.idx = n ∧ s.rows.length = n ∧ s.e2c.length = n then some (s.rows, s.c2e, s.e2c) else Option.none
  | Option.none => Option.none

/-- the `bounds` property as generated -/
def boundsGen (P : Prog) (E : Env) (c : TCfg) (space : List Dist) : Option (List (Rat × Rat)) :=
  (runSS P E c space).map (fun r => if c.t01 then r.1.map (fun _ => (P.unitLo, P.unitHi)) else r.1)

/-- state of the loop of `transform`: the filled prefix of `trans_params`, the writes into the current window -/
structure TS where
  out : List Rat
  pend : List (Nat × Rat)
  ch : Option Nat
deriving Repr, Inhabited

/-- value of slot `j` of the current window: the last write to it, else the initial value of the array -/
def window (init : Rat) (pend : List (Nat × Rat)) (j : Nat) : Rat :=
  pend.foldl (fun acc p => if p.1 = j then p.2 else acc) init

def TStmt.step (tn : Rat → Option Rat) (init : Rat) (d : Dist) (v : Tok) (s : TS) : TStmt → R TS
  | .choiceIdx =>
    match d with
    | .cat cs => (catIndex cs v).map (fun i => { s with ch := some i })
    | _ => .error .typeError
  | .setHot q =>
    match s.ch with
    | some i => .ok { s with pend := s.pend ++ [(i, q)] }
    | Option.none => .error .keyError
  | .setNum =>
    match v.num? with
    | some q =>
      match tn q with
      | some y => .ok { s with pend := s.pend ++ [(0, y)] }
      | Option.none => .error .typeError
    | Option.none => .error .typeError
  | .advance w =>
    if s.pend.all (fun p => decide (p.1 < w.eval d)) then
      .ok { out := s.out ++ (List.range (w.eval d)).map (window init s.pend), pend := [], ch := Option.none }
    else .error .keyError

/-- one arm of the loop of `transform`; `tn` = the generated `_transform_numerical_param` for this distribution,
`init` = the value the array was allocated with -/
def runT (tn : Rat → Option Rat) (init : Rat) (d : Dist) (v : Tok) : List TStmt → TS → R TS
  | [], s => .ok s
  | st :: rest, s =>
    match st.step tn init d v s with
    | .ok s' => runT tn init d v rest s'
    | .error e => .error e

/-- the loop of `transform` (positional configuration, as in `Dist.transform`) -/
def tLoop (P : Prog) (E : Env) (c : TCfg) : List Dist → List Tok → List Rat → R (List Rat)
  | [], [], out => .ok out
  | d :: ds, v :: vs, out =>
    match runT (tnumEval P E c d) P.tInit d v (if P.tCatG.eval c d then P.tCat else P.tNum) ⟨out, [], Option.none⟩ with
    | .ok s => if s.pend.isEmpty then tLoop P E c ds vs s.out else .error .keyError
    | .error e => .error e
  | _, _, _ => .error .keyError

/-- the two masked assignments of the `transform_0_1` block, on one column -/
def applyScale (E : Env) (c : TCfg) (m : Mask) (as : List MAssign) (b : Rat × Rat) (x : Rat) : Rat :=
  as.foldl (fun x a => if (m.eval b) != a.neg then a.rhs.eval E c default (fun _ => 0) (rhoS b x) else x) x

/-- `transform(params)` as generated -/
def transformGen (P : Prog) (E : Env) (c : TCfg) (space : List Dist) (params : List Tok) : R (List Rat) :=
  match tLoop P E c space params [] with
  | .ok out =>
    if c.t01 then
      match runSS P E c space with
      | some r => .ok (List.zipWith (applyScale E c P.tMask P.tScale) r.1 out)
      | Option.none => .error .keyError
    else .ok out
  | .error e => .error e

/-- `trans_params[encoded_columns]` -/
def gather (ys : List Rat) : List Nat → Option (List Rat)
  | [] => some []
  | i :: is =>
    match ys[i]?, gather ys is with
    | some y, some r => some (y :: r)
    | _, _ => Option.none

/-- one parameter of `untransform` as generated, on its (un-scaled) columns -/
def decodeGen (P : Prog) (E : Env) (c : TCfg) (d : Dist) (cols : List Rat) : Option Tok :=
  if P.uCatG.eval c d then
    match d with
    | .cat cs => let i := P.uCat.eval cols; if 0 ≤ i then cs[i.toNat]? else Option.none
    | _ => Option.none
  else
    match cols with
    | [x] => unumEval P E c d x          -- `trans_param.item()`
    | _ => Option.none

def uLoop (P : Prog) (E : Env) (c : TCfg) (ys : List Rat) : List Dist → List (List Nat) → Option (List Tok)
  | [], _ => some []                      -- `zip` stops at the shorter one
  | _ :: _, [] => some []
  | d :: ds, cs :: css =>
    match gather ys cs with
    | some seg =>
      match decodeGen P E c d seg, uLoop P E c ys ds css with
      | some v, some r => some (v :: r)
      | _, _ => Option.none
    | Option.none => Option.none

/-- `untransform(x)` as generated -/
def untransformGen (P : Prog) (E : Env) (c : TCfg) (space : List Dist) (xs : List Rat) : Option (List Tok) :=
  match runSS P E c space with
  | some r =>
    if xs.length = r.1.length then
      let ys := if c.t01 then List.zipWith (fun b x => P.uUnscale.eval E c default (fun _ => 0) (rhoS b x)) r.1 xs else xs
      uLoop P E c ys space r.2.1
    else Option.none
  | Option.none => Option.none

end OptunaVerif.TransformIR
