import OptunaVerif.Model.Basic
/-!
# C18 — the small expression IR that `verif/translators/truncnorm.py` emits from
`optuna/samplers/_tpe/_truncnorm.py` (core Lean only).

Only the whitelisted shapes of the source are representable: arithmetic on names and literals, calls of the
known numerical primitives, and comparisons of a name with a literal.  Everything else in the source makes the
translator report "untranslatable" (a broken tie).  The IR is given its real-number meaning in
`Lemmas/TruncNorm.lean` (`E.eval`), and the theorems of `Props/C18.lean` are stated about the *generated*
expressions.
-/
namespace OptunaVerif.TruncNormIR

/-- Unary primitives that may occur in the translated formulas. -/
inductive Fn1 where
  | log | log1p | exp | sqrt
  | erf | erfc            -- `math.erf`, `math.erfc`, `_erf.erf`
  | ndtr | ndtrSingle     -- `_ndtr`, `_ndtr_single`
  | logNdtr               -- `_log_ndtr`, `_log_ndtr_single`
  | ndtriExp              -- `_ndtri_exp`
  | normLogpdf            -- `_norm_logpdf`
deriving DecidableEq, Repr, Inhabited

/-- Binary primitives. -/
inductive Fn2 where
  | logaddexp             -- `np.logaddexp`
  | logSum | logDiff      -- `_log_sum`, `_log_diff`
  | massLeft              -- `mass_case_left`
  | logGaussMass          -- `_log_gauss_mass`
deriving DecidableEq, Repr, Inhabited

inductive E where
  | var (name : String)
  | num (q : Rat)
  | pi
  | neg (e : E)
  | add (x y : E) | sub (x y : E) | mul (x y : E) | div (x y : E)
  | sq (e : E)            -- `e ** 2`
  | call1 (f : Fn1) (x : E)
  | call2 (f : Fn2) (x y : E)
deriving DecidableEq, Repr, Inhabited

/-- Comparison operators of the branch conditions. -/
inductive Cmp where
  | lt | le | gt | ge
deriving DecidableEq, Repr, Inhabited

def Cmp.evalRat : Cmp → Rat → Rat → Bool
  | .lt, x, y => x < y
  | .le, x, y => x ≤ y
  | .gt, x, y => y < x
  | .ge, x, y => y ≤ x

def XVal.lt : XVal → XVal → Bool
  | .nan, _ => false
  | _, .nan => false
  | .pinf, _ => false
  | _, .ninf => false
  | .ninf, _ => true
  | _, .pinf => true
  | .fin a, .fin b => a < b

/-- numpy comparison semantics on extended values (anything with NaN is false). -/
def Cmp.evalX : Cmp → XVal → XVal → Bool
  | .lt, x, y => XVal.lt x y
  | .le, x, y => XVal.le x y
  | .gt, x, y => XVal.lt y x
  | .ge, x, y => XVal.le y x

/-- `name op literal`, e.g. `b <= 0`. -/
structure Cond where
  name : String
  op : Cmp
  rhs : Rat
deriving DecidableEq, Repr, Inhabited

/-- The stability lint: no `log(1 - e)`, `log(1 + e)` (must be `log1p`) and no `exp(e) - 1`. -/
def E.stable : E → Bool
  | .call1 .log (.sub (.num 1) _) => false
  | .call1 .log (.add (.num 1) _) => false
  | .call1 .log (.add _ (.num 1)) => false
  | .sub (.call1 .exp _) (.num 1) => false
  | .var _ | .num _ | .pi => true
  | .neg e | .sq e => e.stable
  | .add x y | .sub x y | .mul x y | .div x y => x.stable && y.stable
  | .call1 _ x => x.stable
  | .call2 _ x y => x.stable && y.stable

end OptunaVerif.TruncNormIR
