import OptunaVerif.Generated.TruncNormGen
/-!
# C18 — executable rational model of the *control flow* of `optuna/samplers/_tpe/_truncnorm.py` and `_erf.py`

Which case / branch is taken for given arguments, the bisection loop, and the purely rational pieces of `erf`
(`calc_case_tiny/small1/small2`).  Thresholds, comparison operators, iteration count, bracket and
coefficient tables are *not* written here: they come from `Generated/TruncNormGen.lean`, which the translator
re-emits from the Python source on every run.  Core Lean only (the compiled driver links this file); it is
tied to the code by `verif/props/c18.py` through the sub-driver `truncnormq` (observed Python branch vs model
branch; `_bisect` run on `fractions.Fraction` vs `bisect`, exactly).
-/
namespace OptunaVerif.TruncNormQ
open OptunaVerif OptunaVerif.TruncNormIR
open OptunaVerif.Generated.TruncNorm

/-- Evaluate `name op literal` with numpy semantics on extended values. -/
def condX (c : Cond) (env : String → XVal) : Bool := c.op.evalX (env c.name) (.fin c.rhs)

def env2 (a b : XVal) : String → XVal := fun n => if n = "a" then a else if n = "b" then b else .nan

/-! ## `_log_gauss_mass`: which formula computes the entry -/

inductive MassCase where
  | left | right | central
deriving DecidableEq, Repr, Inhabited

/-- `out[case_left] = …; out[case_right] = …; out[case_central] = …` (in this order, so where both the left
and the right mask hold the right formula is the one that stays). -/
def massCase (a b : XVal) : MassCase :=
  let l := condX massCaseLeft (env2 a b)
  let r := condX massCaseRight (env2 a b)
  if r then .right else if l then .left else .central

/-! ## `ppf` -/

inductive PpfCase where
  | nan | hi | lo | left | right
deriving DecidableEq, Repr, Inhabited

/-- numpy `==` (NaN equals nothing). -/
def XVal.eqB : XVal → XVal → Bool
  | .nan, _ => false
  | _, .nan => false
  | x, y => x == y

/-- `ppf`: the branch formulas first, then `out[q == 0] = a`, `out[q == 1] = b`, `out[a == b] = nan`
(later writes win). -/
def ppfCase (q : Rat) (a b : XVal) : PpfCase :=
  if XVal.eqB a b then .nan
  else if q == 1 then .hi
  else if q == 0 then .lo
  else if condX ppfCaseLeft (env2 a b) then .left
  else .right

/-! ## `_log_ndtr_single`, `_ndtr_single`, `erf`: index of the arm that is executed -/

/-- Index of the first condition that holds (`conds.length` = the final `else` / fall-through). -/
def firstTrue (conds : List Cond) (env : String → XVal) : Nat :=
  match conds with
  | [] => 0
  | c :: t => if condX c env then 0 else firstTrue t env + 1

/-- 0 = `-_ndtr_single(-a)` (`a > 6`), 1 = `log(_ndtr_single(a))` (`a > -20`), 2 = asymptotic series. -/
def logNdtrCase (a : XVal) : Nat := firstTrue logNdtrConds (fun _ => a)

/-- Three-way comparison of `a / √2` with a rational `t`, exactly (√2 is irrational, so equality only at 0). -/
def cmpRat (x y : Rat) : Ordering := if x < y then .lt else if x = y then .eq else .gt

def cmpDivSqrt2 (a t : Rat) : Ordering :=
  -- a/√2 ? t  ⇔  a ? t·√2
  if t ≥ 0 then
    if a < 0 then .lt
    else cmpRat (a * a) (2 * t * t)
  else
    if a ≥ 0 then .gt
    else cmpRat (2 * t * t) (a * a)

def evalOrd : Cmp → Ordering → Bool
  | .lt, o => o == .lt
  | .le, o => o != .gt
  | .gt, o => o == .gt
  | .ge, o => o != .lt

/-- `_ndtr_single(a)`: arm taken when `x = a / 2**0.5` is compared in exact arithmetic:
0 = `0.5*erfc(-x)`, 1 = `0.5+0.5*erf(x)`, 2 = `1-0.5*erfc(x)`. -/
def ndtrSingleCase (a : Rat) : Nat :=
  let rec go : List Cond → Nat
    | [] => 0
    | c :: t => if evalOrd c.op (cmpDivSqrt2 a c.rhs) then 0 else go t + 1
  go ndtrSingleConds

inductive ErfCase where
  | nan | idx (i : Nat)
deriving DecidableEq, Repr, Inhabited

def inBounds (x : Rat) : Option Rat × Option Rat → Bool
  | (lo, hi) => (match lo with | none => true | some l => l ≤ x) && (match hi with | none => true | some h => x < h)

def findCase (x : Rat) : List (Option Rat × Option Rat) → Nat
  | [] => 0
  | b :: t => if inBounds x b then 0 else findCase x t + 1

/-- The arm whose range has no upper bound (`a >= 6`): it also holds for `|x| = ∞`. -/
def findUnbounded : List (Option Rat × Option Rat) → Nat
  | [] => 0
  | (_, none) :: _ => 0
  | _ :: t => findUnbounded t + 1

/-- `erf`: index into `erfCaseNames` (`tiny, small1, small2, med1, med2, big`) of the arm that writes the
result last, selected by `|x|`.  For `x = ±∞` the masks `case_posinf/neginf` *and* `case_big` hold; the arms
are written after the special values, so `calc_case_big` (`sign(x)`, the same value) is what stays.  NaN
satisfies no comparison: no arm runs. -/
def erfCase : XVal → ErfCase
  | .nan => .nan
  | .pinf => .idx (findUnbounded erfCaseBounds)
  | .ninf => .idx (findUnbounded erfCaseBounds)
  | .fin x => .idx (findCase (if x < 0 then -x else x) erfCaseBounds)

/-! ## the rational arms of `erf` -/

/-- `numpy.polynomial.Polynomial.__call__` (Horner, lowest degree first). -/
def horner (cs : List Rat) (z : Rat) : Rat := cs.foldr (fun c acc => c + z * acc) 0

def sign (x : Rat) : Rat := if x < 0 then -1 else if x = 0 then 0 else 1
def absQ (x : Rat) : Rat := if x < 0 then -x else x

/-- `calc_case_tiny`: `x + efx * x`. -/
def erfTiny (x : Rat) : Rat := x + erf_efx * x

/-- `calc_case_small1`: `z = x*x; r = pp(z); s = qq(z); y = r/s; x + x*y`. -/
def erfSmall1 (x : Rat) : Rat :=
  let z := x * x
  x + x * (horner erf_pp z / horner erf_qq z)

/-- `calc_case_small2`: `s = |x| - one; absout = erx + pa(s)/qa(s); absout * sign(x)`. -/
def erfSmall2 (x : Rat) : Rat :=
  let s := absQ x - erf_one
  (erf_erx + horner erf_pa s / horner erf_qa s) * sign x

/-- Exact value of the rational arms (`none` for the arms that involve `exp`). -/
def erfRat (x : Rat) : Option Rat :=
  match findCase (absQ x) erfCaseBounds with
  | 0 => some (erfTiny x)
  | 1 => some (erfSmall1 x)
  | 2 => some (erfSmall2 x)
  | _ => none

/-! ## `_bisect` -/

/-- The `for _ in range(n)` loop of `_bisect` with `f(m) < c` given as an oracle. -/
def bisectLoop (below : Rat → Bool) : Nat → Rat → Rat → Rat
  | 0, a, b => (a + b) / 2
  | n + 1, a, b =>
    let m := (a + b) / 2
    if a == m || b == m then m
    else if below m then bisectLoop below n m b
    else bisectLoop below n a m

/-- `_bisect(f, a, b, c)`; `above x` stands for `f(x) > c`, `below x` for `f(x) < c`. -/
def bisect (above below : Rat → Bool) (iters : Nat) (a b : Rat) : Rat :=
  if above a then bisectLoop below iters b a else bisectLoop below iters a b

/-- The bracket after `n` rounds (ignoring the early exit, which over `ℚ` fires only when `a = b`). -/
def bracket (below : Rat → Bool) : Nat → Rat → Rat → Rat × Rat
  | 0, a, b => (a, b)
  | n + 1, a, b =>
    let m := (a + b) / 2
    if below m then bracket below n m b else bracket below n a m

/-- The midpoints at which the loop evaluates `f` (what the harness records from the Python run). -/
def bisectMids (below : Rat → Bool) : Nat → Rat → Rat → List Rat
  | 0, _, _ => []
  | n + 1, a, b =>
    let m := (a + b) / 2
    if a == m || b == m then []
    else m :: (if below m then bisectMids below n m b else bisectMids below n a m)

/-- `_ndtri_exp_single(y)` with the generated bracket and iteration count. -/
def ndtriExp (above below : Rat → Bool) : Rat := bisect above below bisectIters bracketLo bracketHi

/-- A strictly increasing test function from a table of knots `(x₀,y₀) … (xₙ,yₙ)` (sorted, strictly
increasing in both coordinates): linear interpolation, slope 1 outside. -/
def interp : List (Rat × Rat) → Rat → Rat
  | [], x => x
  | [(x0, y0)], x => y0 + (x - x0)
  | (x0, y0) :: (x1, y1) :: t, x =>
    if x < x0 then y0 + (x - x0)
    else if x ≤ x1 then y0 + (x - x0) * (y1 - y0) / (x1 - x0)
    else interp ((x1, y1) :: t) x

/-- Oracle answers replayed from a recorded run (the float run of the real code). -/
def replayOracle (answers : List (Rat × Bool)) (x : Rat) : Bool :=
  match answers with
  | [] => false
  | (m, r) :: t => if m == x then r else replayOracle t x

end OptunaVerif.TruncNormQ
