/-
  One `RDBStorage` call as the sequence of requests it sends to a database with atomic commit (C05).

  `optuna/storages/_rdb/storage.py`: every method wraps its statements in
  `with _create_scoped_session(self.scoped_session, ...) as session:` — a context manager that
  yields the thread's SQLAlchemy session, calls `session.commit()` when the block is left normally
  (also by `return`), `session.rollback()` in every `except` branch, and `session.close()` at the end.
  SQLAlchemy begins a transaction implicitly at the first statement of a block.

  The database is abstract (`σ`), a write request is abstract (`ω`, applied by `ap`).  What is
  **trusted** (not modelled further): SQLite's atomic commit — a crash keeps exactly the effects of
  the transactions whose `COMMIT` had completed.  `Db.durable` is that state; `Db.work` is the view
  of the open transaction, lost by a crash.

  The static side (`Block`, `Method`) is what `verif/translators/tsession.py` extracts from the
  Python source into `Generated/RdbSessions.lean`; `conforms` says when a dynamic execution (a list
  of transaction instances) is one that code of that static shape can produce.
-/
namespace OptunaVerif.Txn

/-! ## dynamic side: requests, the database, crashes -/

/-- What the database is asked to do, in program order. -/
inductive Step (ω : Type) where
  /-- implicit `BEGIN` at the first statement of a session block -/
  | begin
  /-- an `INSERT` / `UPDATE` / `DELETE` (sent at once or at flush time) -/
  | write (w : ω)
  /-- `session.flush()`: pending rows are sent inside the open transaction; nothing becomes durable -/
  | flush
  | commit
  | rollback
deriving DecidableEq, Repr

structure Db (σ : Type) where
  /-- what a crash leaves behind = what every other connection reads -/
  durable : σ
  /-- the open transaction's own view (`none`: no transaction is open) -/
  work : Option σ
deriving DecidableEq, Repr

variable {σ ω : Type}

def exec1 (ap : σ → ω → σ) (db : Db σ) : Step ω → Db σ
  | .begin =>
    match db.work with
    | some _ => db
    | none => { db with work := some db.durable }
  | .write w =>
    match db.work with
    | some x => { db with work := some (ap x w) }
    -- a statement outside any transaction: autocommit, durable at once
    | none => { db with durable := ap db.durable w }
  | .flush => db
  | .commit => { durable := db.work.getD db.durable, work := none }
  | .rollback => { db with work := none }

def run (ap : σ → ω → σ) (db : Db σ) (steps : List (Step ω)) : Db σ := steps.foldl (exec1 ap) db

/-- The worker dies after `k` of the call's requests have been executed (any `k`, also inside a
transaction); uncommitted work is lost.  This is what a survivor and a fresh opener read. -/
def crashView (ap : σ → ω → σ) (d : σ) (steps : List (Step ω)) (k : Nat) : σ :=
  (run ap { durable := d, work := none } (steps.take k)).durable

/-- the state after the whole call -/
def postState (ap : σ → ω → σ) (d : σ) (steps : List (Step ω)) : σ :=
  (run ap { durable := d, work := none } steps).durable

/-- durable state after every prefix of `steps` (the empty prefix first) -/
def durs (ap : σ → ω → σ) (db : Db σ) : List (Step ω) → List σ
  | [] => [db.durable]
  | s :: r => db.durable :: durs ap (exec1 ap db s) r

def Step.isWrite : Step ω → Bool
  | .write _ => true
  | _ => false

/-- `write` or `flush`: what the body of a session block consists of when the block contains no
explicit `session.commit()` / `session.rollback()` and no call that opens the session again -/
def Step.isPlain : Step ω → Bool
  | .write _ | .flush => true
  | _ => false

def writesOf : List (Step ω) → List ω
  | [] => []
  | .write w :: r => w :: writesOf r
  | _ :: r => writesOf r

/-- One execution of one `with _create_scoped_session(...)` block. -/
structure Inst (ω : Type) where
  /-- index of the block in the method's static block list -/
  blk : Nat
  /-- the requests between the implicit `BEGIN` and the end of the block -/
  body : List (Step ω)
  /-- the block was left normally (→ `commit`) or by an exception (→ `rollback`) -/
  committed : Bool
deriving DecidableEq, Repr

def Inst.steps (i : Inst ω) : List (Step ω) :=
  .begin :: i.body ++ [if i.committed then .commit else .rollback]

def Inst.plain (i : Inst ω) : Bool := i.body.all Step.isPlain
def Inst.hasWrite (i : Inst ω) : Bool := i.body.any Step.isWrite
/-- plain, or without any write (then an inner commit is harmless) -/
def Inst.safe (i : Inst ω) : Bool := i.plain || !i.hasWrite
/-- a transaction that changes the durable state -/
def Inst.effective (i : Inst ω) : Bool := i.committed && i.hasWrite

/-- durable state after the whole (safe) instance, started on `d` with no transaction open -/
def Inst.after (ap : σ → ω → σ) (i : Inst ω) (d : σ) : σ :=
  if i.committed then (writesOf i.body).foldl ap d else d

/-- the requests of a whole call: its block executions one after the other -/
def trace (is : List (Inst ω)) : List (Step ω) := is.flatMap Inst.steps

/-- the durable states at transaction boundaries: after 0, 1, 2, … whole block executions -/
def boundaries (ap : σ → ω → σ) (d : σ) : List (Inst ω) → List σ
  | [] => [d]
  | i :: r => d :: boundaries ap (i.after ap d) r

def finalState (ap : σ → ω → σ) (d : σ) (is : List (Inst ω)) : σ := is.foldl (fun d i => i.after ap d) d

/-! ## static side: what the translator extracts per method -/

inductive Rep where
  /-- the block is not inside a loop -/
  | once
  /-- inside a retry loop, and a normally-left execution returns from the method: every execution
      but the last ends by an exception (rollback) -/
  | retry
  /-- inside a loop, one committed execution per iteration -/
  | perItem
deriving DecidableEq, Repr

/-- One `with _create_scoped_session(...)` block (helpers that receive the session are inlined). -/
structure Block where
  /-- number of write sites: `session.add/delete/merge`, `query.update/delete`,
      `session.execute(insert/update/delete …)`, attribute assignment on a model instance -/
  writes : Nat
  flushes : Nat
  /-- explicit `session.commit()` inside the block -/
  commits : Nat
  /-- explicit `session.rollback()` inside the block -/
  rollbacks : Nat
  /-- calls, inside the block, of methods that open the (same, thread-local) session themselves:
      their exit commits whatever the outer block has written so far (guards not counted) -/
  nested : Nat
  /-- in-block calls of `check_trial_is_updatable`, which — only when the trial is finished — re-opens
      the session (`self.get_trial`) and then raises: the block is abandoned -/
  guards : Nat
  /-- every guard is *dominating* (reached unconditionally before any write site of the block),
      *covered* (same subject as the dominating one: the ORM identity map hands out the row loaded
      first, so it decides alike) or *fresh* (its subject is a `TrialModel(state=RUNNING)` constructed
      in this block whose state has not been assigned yet: it cannot fire).  Modelling assumption
      (G): under `guardsSafe` a guard fires only before the first write of the block execution. -/
  guardsSafe : Bool
  rep : Rep
  /-- `ignore_integrity_error=True` -/
  ignoreIntegrity : Bool
deriving DecidableEq, Repr

structure Method where
  name : String
  /-- part of the storage API (called from outside the class) -/
  isPublic : Bool
  blocks : List Block
  /-- database-changing statements outside every session block (alembic, raw connections) -/
  external : Nat
deriving DecidableEq, Repr

/-- a helper that receives the caller's session (`…_without_commit`, model class methods) -/
structure Helper where
  name : String
  writes : Nat
  flushes : Nat
  commits : Nat
  rollbacks : Nat
  guards : Nat
  nested : Nat
deriving DecidableEq, Repr

/-- the shape of the context manager `_create_scoped_session` itself -/
structure Ctx where
  /-- `yield session` is followed by `session.commit()` inside the `try` -/
  commitAfterYield : Bool
  /-- every `except` branch starts with `session.rollback()` -/
  rollbackInEveryHandler : Bool
  /-- there is an `except Exception` branch -/
  catchesException : Bool
  /-- `finally: session.close()` (releases — i.e. rolls back — whatever is still open) -/
  closeInFinally : Bool
  /-- no other statement of the function touches the session -/
  nothingElse : Bool
deriving DecidableEq, Repr

def Ctx.ok (c : Ctx) : Bool :=
  c.commitAfterYield && c.rollbackInEveryHandler && c.catchesException && c.closeInFinally && c.nothingElse

def Block.hasWrites (b : Block) : Bool := b.writes != 0
/-- no explicit commit / rollback, no re-opened session except through safe guards -/
def Block.plain (b : Block) : Bool := b.commits == 0 && b.rollbacks == 0 && b.nested == 0 && b.guardsSafe

def Method.hasWrites (m : Method) : Bool := m.external != 0 || m.blocks.any Block.hasWrites

/-- positions of the blocks that contain a write site -/
def writeIdx (bs : List Block) : List Nat :=
  (List.range bs.length).filter (fun j => match bs[j]? with | some b => b.hasWrites | none => false)

/-- **The shape that makes a call atomic**: every block that writes is plain (no inner commit /
rollback / re-opened session) and is not executed once per loop item, and there is at most one such
block. -/
def oneTxnShape (bs : List Block) : Bool :=
  bs.all (fun b => !b.hasWrites || (b.plain && b.rep != .perItem)) && (writeIdx bs).length ≤ 1

def Method.oneTxn (m : Method) : Bool := m.external == 0 && oneTxnShape m.blocks

/-- every writing block is plain: each loop item is one transaction -/
def perItemShape (bs : List Block) : Bool := bs.all (fun b => !b.hasWrites || b.plain)

/-! ## which executions a static shape can produce -/

def instOk (bs : List Block) (i : Inst ω) : Bool :=
  match bs[i.blk]? with
  | none => false
  | some b => (b.hasWrites || !i.hasWrite) && (!b.plain || i.safe)

def committedOf (is : List (Inst ω)) (j : Nat) : Nat :=
  (is.filter (fun i => i.blk == j && i.committed)).length

/-- Every block execution belongs to a block of the method, writes only if the block has a write
site; an execution of a plain block is plain — or, when a safe guard fired, contains the inner
commit of the guard's `get_trial` but no write (assumption (G)) —, and a block that is not per-item is left normally at most once
(`once`: executed at most once; `retry`: all executions but the last end by an exception). -/
def conforms (bs : List Block) (is : List (Inst ω)) : Bool :=
  is.all (instOk bs) &&
  (List.range bs.length).all (fun j =>
    match bs[j]? with
    | some b => b.rep == .perItem || decide (committedOf is j ≤ 1)
    | none => true)

end OptunaVerif.Txn
