import OptunaVerif.Model.Basic
import OptunaVerif.Model.Direction
/-
  C16 / C13 — `WilcoxonPruner.prune` (optuna/pruners/_wilcoxon.py), the decision structure exactly as
  coded, statement by statement:

    if len(trial.intermediate_values) == 0: return False
    steps, step_values = np.array(list(trial.intermediate_values.items())).T
    if np.any(~np.isfinite(step_values)): warn; return False
    try: best_trial = study.best_trial
    except ValueError: return False
    if len(best_trial.intermediate_values) == 0: warn; return False
    best_steps, best_step_values = ...
    if np.any(~np.isfinite(best_step_values)): warn; return False
    _, idx1, idx2 = np.intersect1d(steps, best_steps, return_indices=True)
    if len(idx1) < len(step_values): warn                      (no return)
    diff_values = step_values[idx1] - best_step_values[idx2]
    if len(diff_values) < max(2, self._n_startup_steps): return False
    alt, average_is_best by direction
    p = ss.wilcoxon(diff_values, alternative=alt, zero_method="zsplit").pvalue
    if p < self._p_threshold and average_is_best: return False
    return p < self._p_threshold

  Intermediate values are `XVal`s (finite rational, ±inf, NaN); `intermediate_values` is a dict, here
  a list of `(step, value)` in insertion order with pairwise distinct steps.  `np.intersect1d(...,
  return_indices=True)` returns the common steps in ASCENDING order (with the positions of their first
  occurrence), so `diff_values` is ordered by step, not by report order: `common`.

  The p-value is NOT modelled: `pv alt diffs` is an abstract function of the alternative and the
  difference list (`none` = NaN, every comparison with it is false).  The only fact the theorems ever
  need about it is the mirror hypothesis of `wilcoxon_direction_mirror`
  (`pv less d = pv greater (-d)`); the tie passes the real scipy p-value in.

  `study.best_trial` is an input (`none` = it raised `ValueError`: no feasible COMPLETE trial);
  `pruneInStudy` composes with the first-extremal COMPLETE trial (`Direction.bestTrial`, the in-memory
  cache without constraints).

  Not modelled: float rounding of `a - b` and of the two means (values are exact rationals: an
  overflow of a difference or a sum to ±inf cannot happen here), steps beyond 2^53 (the code turns
  the step keys into float64), multi-objective studies (`study.best_trial` raises RuntimeError there).

  Core Lean only (linked into the driver).
-/
namespace OptunaVerif.Wilcoxon
open OptunaVerif OptunaVerif.Direction

/-- `intermediate_values` (insertion order, distinct steps) -/
abbrev IV := List (Int × XVal)

structure Cfg where
  pThr : Rat
  nStartup : Nat
deriving Repr, DecidableEq

/-- the three `warnings.warn` calls that return False and the one that goes on -/
inductive Warn where
  | curNotFinite | bestNoReports | bestNotFinite | missingSteps
deriving DecidableEq, Repr

/-- which `return` statement produced the answer (in source order) -/
inductive Exit where
  | noReports | curNotFinite | noBestTrial | bestNoReports | bestNotFinite | fewCommon | safety | final
deriving DecidableEq, Repr

structure Res where
  prune : Bool
  warns : List Warn
  exit : Exit
deriving DecidableEq, Repr

def xneg : XVal → XVal
  | .nan => .nan
  | .ninf => .pinf
  | .pinf => .ninf
  | .fin a => .fin (-a)

def negIV (iv : IV) : IV := iv.map (fun p => (p.1, xneg p.2))

/-- `np.isfinite` -/
def isFin : XVal → Bool
  | .fin _ => true
  | _ => false

/-- `not np.any(~np.isfinite(step_values))` -/
def allFinite (iv : IV) : Bool := iv.all (fun p => isFin p.2)

/-- the values as rationals (used only after `allFinite`; a non-finite entry would be dropped) -/
def finPart : IV → List (Int × Rat)
  | [] => []
  | (s, .fin q) :: t => (s, q) :: finPart t
  | _ :: t => finPart t

/-- `np.intersect1d(steps, best_steps, return_indices=True)` followed by
`step_values[idx1] - best_step_values[idx2]`: the common steps in ascending order, each with the
difference current − best. -/
def common (cur best : List (Int × Rat)) : List (Int × Rat) :=
  (sortBy (fun (a b : Int × Rat) => decide (a.1 ≤ b.1)) cur).filterMap
    (fun p => (lookupStep p.1 best).map (fun b => (p.1, p.2 - b)))

def diffValues (cur best : List (Int × Rat)) : List Rat := (common cur best).map (·.2)

/-- `max(2, self._n_startup_steps)` -/
def minSteps (c : Cfg) : Nat := max 2 c.nStartup

/-- `p < self._p_threshold` (`p` NaN: false) -/
def pLt (p : V) (thr : Rat) : Bool :=
  match p with
  | none => false
  | some q => decide (q < thr)

/-- `WilcoxonPruner.prune(study, trial)`; `best` = `study.best_trial.intermediate_values`, or `none`
when the property raised `ValueError`. -/
def prune (pv : Alt → List Rat → V) (c : Cfg) (d : Dir) (best : Option IV) (cur : IV) : Res :=
  if cur.length = 0 then ⟨false, [], .noReports⟩
  else if !allFinite cur then ⟨false, [.curNotFinite], .curNotFinite⟩
  else
    match best with
    | none => ⟨false, [], .noBestTrial⟩
    | some b =>
      if b.length = 0 then ⟨false, [.bestNoReports], .bestNoReports⟩
      else if !allFinite b then ⟨false, [.bestNotFinite], .bestNotFinite⟩
      else
        let cq := finPart cur
        let bq := finPart b
        let df := diffValues cq bq
        let w : List Warn := if df.length < cq.length then [.missingSteps] else []
        if df.length < minSteps c then ⟨false, w, .fewCommon⟩
        else
          let avg := avgIsBest d (bq.map (·.2)) (cq.map (·.2))
          let p := pv (wilcoxonAlt d) df
          if pLt p c.pThr && avg then ⟨false, w, .safety⟩
          else ⟨pLt p c.pThr, w, .final⟩

/-- a COMPLETE trial of the study as the pruner sees it -/
structure Done where
  number : Nat
  value : Rat
  iv : IV
deriving Repr

/-- `study.best_trial` of a single-objective study without constraints on the in-memory storage: the
first COMPLETE trial with the extremal value; `none` = `ValueError` (no COMPLETE trial). -/
def bestOf (d : Dir) (done : List Done) : Option Done :=
  match bestTrial d (done.map (fun t => (t.number, t.value))) with
  | none => none
  | some (n, _) => done.find? (fun t => t.number = n)

def pruneInStudy (pv : Alt → List Rat → V) (c : Cfg) (d : Dir) (done : List Done) (cur : IV) : Res :=
  prune pv c d ((bestOf d done).map (·.iv)) cur

end OptunaVerif.Wilcoxon
