import OptunaVerif.Lemmas.Storage
/-!
# C01 — the storage contract (property theorems)

Every theorem quantifies over **all** states reachable by any finite history of `BaseStorage`
calls (`after s ops`, no bound on length, ids or sizes) of the contract model `Storage.step`.
The backends are tied to this model call by call by `verif/props/c01.py`.
-/
namespace OptunaVerif.C01
open OptunaVerif OptunaVerif.Storage

/-- The state after a finite history of calls. -/
def after (s : Spec) (ops : List Op) : Spec := ops.foldl (fun s op => (step s op).1) s

theorem after_cons (s : Spec) (op : Op) (ops : List Op) :
    after s (op :: ops) = after (step s op).1 ops := rfl

/-! ## ids: an id names exactly one object, for ever -/

theorem studies_length_mono (s : Spec) (op : Op) :
    s.studies.length ≤ (step s op).1.studies.length := by
  cases step_studies s op with
  | same h => simp [h]
  | append st h _ => simp [h]
  | delete sid h _ => simp [h]
  | upd sid f h _ => simp [h]

theorem trials_length_mono (s : Spec) (op : Op) :
    s.trials.length ≤ (step s op).1.trials.length := by
  cases step_trials s op with
  | same h => simp [h]
  | append t h _ _ => simp [h]
  | upd tid f t0 h _ _ => simp [h]

/-- A new study gets an id that no earlier (live or deleted) study ever had. -/
theorem new_study_id_fresh (s s' : Spec) (name : String) (dirs : List Nat) (i : Nat)
    (h : step s (.createStudy name dirs) = (s', .newId i)) :
    i = s.studies.length ∧ s'.study? i = some ⟨name, dirs, [], [], []⟩ := by
  simp only [step] at h
  split at h
  · simp at h
  · simp only [Prod.mk.injEq, Out.newId.injEq] at h
    obtain ⟨h1, h2⟩ := h
    subst h1; subst h2
    simp [Spec.study?]

/-- A new trial gets an id that no earlier trial ever had. -/
theorem new_trial_id_fresh (s s' : Spec) (sid : Nat) (tm : Option Template) (ir : Bool) (i : Nat)
    (h : step s (.createTrial sid tm ir) = (s', .newId i)) : i = s.trials.length := by
  simp only [step] at h
  split at h
  · simp at h
  · split at h
    · simp at h
    · simp only [Prod.mk.injEq, Out.newId.injEq] at h
      exact h.2.symm

/-! ## a deleted study and its trials are gone, for ever -/

/-- `sid` was created once and has been deleted. -/
def Dead (s : Spec) (sid : Nat) : Prop := s.studies[sid]? = some none

theorem dead_study_none (s : Spec) (sid : Nat) (h : Dead s sid) : s.study? sid = none := by
  simp [Spec.study?, Dead] at *; simp [h]

theorem delete_makes_dead (s s' : Spec) (sid : Nat) (h : step s (.deleteStudy sid) = (s', .unit)) :
    Dead s' sid := by
  simp only [step] at h
  split at h
  · simp at h
  · rename_i st hst
    simp only [Prod.mk.injEq, and_true] at h
    subst h
    have : ∃ o, s.studies[sid]? = some o := by
      unfold Spec.study? at hst
      cases hh : s.studies[sid]? with
      | none => simp [hh] at hst
      | some o => exact ⟨o, rfl⟩
    obtain ⟨o, ho⟩ := this
    simp [Dead, updAt_getElem?, ho]

theorem dead_step (s : Spec) (op : Op) (sid : Nat) (h : Dead s sid) : Dead (step s op).1 sid := by
  unfold Dead at *
  have hlt : sid < s.studies.length := by
    rcases Nat.lt_or_ge sid s.studies.length with h' | h'
    · exact h'
    · simp [List.getElem?_eq_none h'] at h
  cases step_studies s op with
  | same h' => rw [h']; exact h
  | append st h' _ => rw [h', List.getElem?_append_left hlt]; exact h
  | delete sid' h' _ =>
    rw [h', updAt_getElem?]
    split <;> simp [h]
  | upd sid' f h' _ =>
    rw [h', updAt_getElem?]
    split <;> simp [h]

/-- Once deleted, a study id stays dead through every later history. -/
theorem dead_forever (s : Spec) (ops : List Op) (sid : Nat) (h : Dead s sid) :
    Dead (after s ops) sid := by
  induction ops generalizing s with
  | nil => exact h
  | cons op ops ih => exact ih _ (dead_step s op sid h)

/-- The `study` field of an existing trial record never changes. -/
theorem trial_study_step (s : Spec) (op : Op) (tid : Nat) (t : TrialS)
    (h : s.trials[tid]? = some t) :
    ∃ t', (step s op).1.trials[tid]? = some t' ∧ t'.study = t.study ∧ t'.number = t.number := by
  have hlt : tid < s.trials.length := by
    rcases Nat.lt_or_ge tid s.trials.length with h' | h'
    · exact h'
    · simp [List.getElem?_eq_none h'] at h
  cases step_trials s op with
  | same h' => exact ⟨t, by rw [h']; exact h, rfl, rfl⟩
  | append t1 h' _ _ => exact ⟨t, by rw [h', List.getElem?_append_left hlt]; exact h, rfl, rfl⟩
  | upd tid' f t0 h' _ hf =>
    rw [h', updAt_getElem?]
    split
    · exact ⟨f t, by simp [h], (hf t).1, (hf t).2⟩
    · exact ⟨t, h, rfl, rfl⟩

theorem trial_study_forever (s : Spec) (ops : List Op) (tid : Nat) (t : TrialS)
    (h : s.trials[tid]? = some t) :
    ∃ t', (after s ops).trials[tid]? = some t' ∧ t'.study = t.study ∧ t'.number = t.number := by
  induction ops generalizing s t with
  | nil => exact ⟨t, h, rfl, rfl⟩
  | cons op ops ih =>
    obtain ⟨t1, h1, hs1, hn1⟩ := trial_study_step s op tid t h
    obtain ⟨t2, h2, hs2, hn2⟩ := ih _ t1 h1
    exact ⟨t2, h2, hs2.trans hs1, hn2.trans hn1⟩

/-- **deleted_gone**: after `delete_study`, the study and every trial it had answer `KeyError`
(are not live) in every later state, whatever calls follow. -/
theorem deleted_gone (s : Spec) (ops : List Op) (sid tid : Nat) (t : TrialS)
    (hd : Dead s sid) (ht : s.trials[tid]? = some t) (hs : t.study = sid) :
    (after s ops).study? sid = none ∧ (after s ops).trial? tid = none := by
  have hd' := dead_forever s ops sid hd
  refine ⟨dead_study_none _ _ hd', ?_⟩
  obtain ⟨t', ht', hst', _⟩ := trial_study_forever s ops tid t ht
  unfold Spec.trial?
  rw [ht']
  simp [hst', hs, dead_study_none _ _ hd']

/-- Calls that address a dead study are rejected with `KeyError` and change nothing. -/
theorem dead_study_calls_rejected (s : Spec) (sid : Nat) (h : s.study? sid = none)
    (tm : Option Template) (ir : Bool) (k v : String) (states : Option (List TState)) :
    step s (.createTrial sid tm ir) = (s, .err .keyError) ∧
    step s (.deleteStudy sid) = (s, .err .keyError) ∧
    step s (.setStudyUserAttr sid k v) = (s, .err .keyError) ∧
    step s (.setStudySystemAttr sid k v) = (s, .err .keyError) ∧
    step s (.getAllTrials sid states) = (s, .err .keyError) ∧
    step s (.getNTrials sid states) = (s, .err .keyError) ∧
    step s (.getStudyNameFromId sid) = (s, .err .keyError) ∧
    step s (.getStudyDirections sid) = (s, .err .keyError) ∧
    step s (.getStudyUserAttrs sid) = (s, .err .keyError) ∧
    step s (.getStudySystemAttrs sid) = (s, .err .keyError) ∧
    step s (.getBestTrial sid) = (s, .err .keyError) := by
  simp [step, h]

/-- Calls that address a trial that is not live are rejected with `KeyError`. -/
theorem dead_trial_calls_rejected (s : Spec) (tid : Nat) (h : s.trial? tid = none)
    (name k v : String) (p : Param) (ir : Bool) (st : TState) (vals : Option (List XVal))
    (stp : Int) (x : XVal) :
    step s (.setTrialParam tid name p ir) = (s, .err .keyError) ∧
    step s (.setTrialStateValues tid st vals) = (s, .err .keyError) ∧
    step s (.setTrialInter tid stp x) = (s, .err .keyError) ∧
    step s (.setTrialUserAttr tid k v) = (s, .err .keyError) ∧
    step s (.setTrialSystemAttr tid k v) = (s, .err .keyError) ∧
    step s (.getTrial tid) = (s, .err .keyError) ∧
    step s (.getTrialNumberFromId tid) = (s, .err .keyError) ∧
    step s (.getTrialParam tid name) = (s, .err .keyError) := by
  simp [step, Spec.writable, h]

/-! ## finished trials reject every write and never change -/

theorem writable_ok (s : Spec) (tid : Nat) (t : TrialS) (h : s.writable tid = .ok t) :
    s.trials[tid]? = some t ∧ t.state.isFinished = false := by
  obtain ⟨h1, h2⟩ := (writable_ok_iff s tid t).1 h
  exact ⟨((trial?_some_iff s tid t).1 h1).1, h2⟩

theorem writable_live (s : Spec) (tid : Nat) (t : TrialS) (h : s.writable tid = .ok t) :
    (s.study? t.study).isSome = true :=
  ((trial?_some_iff s tid t).1 ((writable_ok_iff s tid t).1 h).1).2

theorem finished_frozen_step (s : Spec) (op : Op) (tid : Nat) (t : TrialS)
    (h : s.trials[tid]? = some t) (hf : t.state.isFinished = true) :
    (step s op).1.trials[tid]? = some t := by
  have hlt : tid < s.trials.length := by
    rcases Nat.lt_or_ge tid s.trials.length with h' | h'
    · exact h'
    · simp [List.getElem?_eq_none h'] at h
  cases step_trials s op with
  | same h' => rw [h']; exact h
  | append t1 h' _ _ => rw [h', List.getElem?_append_left hlt]; exact h
  | upd tid' f t0 h' hw _ =>
    rw [h', updAt_getElem?]
    split
    · rename_i heq
      subst heq
      obtain ⟨h1, h2⟩ := writable_ok s tid t0 hw
      rw [h] at h1
      simp only [Option.some.injEq] at h1
      subst h1
      simp [hf] at h2
    · exact h

/-- **finished_frozen**: the record of a finished trial is the same in every later state. -/
theorem finished_frozen (s : Spec) (ops : List Op) (tid : Nat) (t : TrialS)
    (h : s.trials[tid]? = some t) (hf : t.state.isFinished = true) :
    (after s ops).trials[tid]? = some t := by
  induction ops generalizing s with
  | nil => exact h
  | cons op ops ih => exact ih _ (finished_frozen_step s op tid t h hf)

/-- ... and every setter answers `UpdateFinishedTrialError` without changing anything. -/
theorem finished_rejects_writes (s : Spec) (tid : Nat) (t : TrialS) (h : s.trial? tid = some t)
    (hf : t.state.isFinished = true)
    (name k v : String) (p : Param) (ir : Bool) (st : TState) (vals : Option (List XVal))
    (stp : Int) (x : XVal) :
    step s (.setTrialParam tid name p ir) = (s, .err .updateFinished) ∧
    step s (.setTrialStateValues tid st vals) = (s, .err .updateFinished) ∧
    step s (.setTrialInter tid stp x) = (s, .err .updateFinished) ∧
    step s (.setTrialUserAttr tid k v) = (s, .err .updateFinished) ∧
    step s (.setTrialSystemAttr tid k v) = (s, .err .updateFinished) := by
  simp [step, Spec.writable, h, hf]

/-! ## WAITING → RUNNING succeeds exactly once -/

/-- A claim is answered `True` exactly when the trial is live and WAITING at that moment. -/
theorem claim_true_iff_waiting (s : Spec) (tid : Nat) (vals : Option (List XVal)) :
    (step s (.setTrialStateValues tid .running vals)).2 = .bool true ↔
      ∃ t, s.trial? tid = some t ∧ t.state = .waiting := by
  simp only [step, Spec.writable]
  cases h : s.trial? tid with
  | none => simp
  | some t =>
    cases hst : t.state <;> simp [hst, TState.isFinished]

/-- After a successful claim the trial is RUNNING, so a second claim is answered `False`
(RUNNING→RUNNING included) until somebody puts it back to WAITING. -/
theorem claim_once (s : Spec) (tid : Nat) (vals vals' : Option (List XVal))
    (h : (step s (.setTrialStateValues tid .running vals)).2 = .bool true) :
    (step (step s (.setTrialStateValues tid .running vals)).1
      (.setTrialStateValues tid .running vals')).2 = .bool false := by
  obtain ⟨t, ht, hw⟩ := (claim_true_iff_waiting s tid vals).1 h
  clear h
  have hw' : s.writable tid = .ok t := by simp [Spec.writable, ht, hw, TState.isFinished]
  obtain ⟨hget, _⟩ := writable_ok s tid t hw'
  have hlive := writable_live s tid t hw'
  -- the state after the claim: the record at `tid` is RUNNING and still live
  obtain ⟨t', ht', hst'⟩ : ∃ t', (step s (.setTrialStateValues tid .running vals)).1.trial? tid = some t'
      ∧ t'.state = .running := by
    have hb : (TState.running == TState.running && TState.waiting != TState.waiting) = false := by decide
    simp only [step, hw', hw, hb, Bool.false_eq_true, ↓reduceIte]
    exact ⟨_, (trial?_some_iff _ _ _).2 ⟨updTrial_get_same s tid _ t hget, hlive⟩, rfl⟩
  generalize (step s (.setTrialStateValues tid .running vals)).1 = s1 at ht'
  have hw2 : s1.writable tid = .ok t' := by
    rw [writable_ok_iff]; exact ⟨ht', by simp [hst', TState.isFinished]⟩
  simp only [step, hw2]
  simp [hst']

/-! ## trial numbers are 0,1,2,… in creation order per study -/

/-- Number of trials of study `sid` among the first `i` trial records. -/
def countBefore (s : Spec) (sid i : Nat) : Nat := ((s.trials.take i).filter (fun t => t.study == sid)).length

/-- The numbering invariant: a trial's number is the count of earlier trials of its study. -/
def Numbered (s : Spec) : Prop :=
  ∀ i t, s.trials[i]? = some t → t.number = countBefore s t.study i

theorem trialsFrom_length (sid : Nat) (l : List TrialS) (i : Nat) :
    (trialsFrom sid l i).length = (l.filter (fun t => t.study == sid)).length := by
  induction l generalizing i with
  | nil => simp [trialsFrom]
  | cons a r ih =>
    simp only [trialsFrom, List.filter_cons]
    split <;> simp [ih]

theorem filter_study_updAt (l : List TrialS) (j : Nat) (f : TrialS → TrialS) (sid : Nat)
    (hf : ∀ t, (f t).study = t.study) :
    ((updAt l j f).filter (fun t => t.study == sid)).length =
      (l.filter (fun t => t.study == sid)).length := by
  induction l generalizing j with
  | nil => simp [updAt]
  | cons a r ih =>
    cases j with
    | zero =>
      simp only [updAt, List.filter_cons, hf]
      split <;> simp
    | succ j =>
      simp only [updAt, List.filter_cons]
      split <;> simp [ih]

theorem take_updAt {α : Type} (l : List α) (i j : Nat) (f : α → α) :
    (updAt l j f).take i = updAt (l.take i) j f := by
  induction l generalizing i j with
  | nil => simp [updAt]
  | cons a r ih =>
    cases i with
    | zero => simp [updAt]
    | succ i =>
      cases j with
      | zero => simp [updAt]
      | succ j => simp [updAt, ih]

theorem numbered_step (s : Spec) (op : Op) (h : Numbered s) : Numbered (step s op).1 := by
  intro i t hi
  unfold countBefore
  cases step_trials s op with
  | same h' =>
    rw [h'] at hi ⊢
    exact h i t hi
  | append t1 h' hnum _ =>
    rw [h'] at hi ⊢
    rcases Nat.lt_or_ge i s.trials.length with hlt | hge
    · rw [List.getElem?_append_left hlt] at hi
      rw [List.take_append_of_le_length (Nat.le_of_lt hlt)]
      exact h i t hi
    · rw [List.getElem?_append_right hge] at hi
      have : i - s.trials.length = 0 := by
        rcases Nat.eq_zero_or_pos (i - s.trials.length) with h0 | hp
        · exact h0
        · have : ([t1] : List TrialS)[i - s.trials.length]? = none := by
            apply List.getElem?_eq_none; simp; omega
          rw [this] at hi; simp at hi
      rw [this] at hi
      simp only [List.getElem?_cons_zero, Option.some.injEq] at hi
      subst hi
      have hi' : i = s.trials.length := by omega
      subst hi'
      rw [List.take_append_of_le_length (Nat.le_refl _), List.take_length, hnum,
        Spec.trialsOf, trialsFrom_length]
  | upd tid f t0 h' _ hf =>
    rw [h'] at hi ⊢
    rw [take_updAt, filter_study_updAt _ _ _ _ (fun t => (hf t).1)]
    rw [updAt_getElem?] at hi
    split at hi
    · cases hh : s.trials[i]? with
      | none => simp [hh] at hi
      | some t' =>
        simp only [hh, Option.map_some, Option.some.injEq] at hi
        subst hi
        rw [(hf t').1, (hf t').2]
        exact h i t' hh
    · exact h i t hi

/-- **numbers_dense**: in every reachable state, the trial with number `n` of a study is its
`n`-th created trial — numbers are 0,1,2,… in creation order, unique and gap-free per study. -/
theorem numbers_dense (ops : List Op) : Numbered (after init ops) := by
  suffices ∀ s, Numbered s → Numbered (after s ops) from this init (by intro i t h; simp [init] at h)
  induction ops with
  | nil => intro s h; exact h
  | cons op ops ih => intro s h; exact ih _ (numbered_step s op h)

/-! ## writes overwrite by key; reads return the last write; other objects are untouched -/

theorem set_user_attr_read (s : Spec) (tid : Nat) (k v : String)
    (h : (step s (.setTrialUserAttr tid k v)).2 = .unit) :
    ∃ t, (step s (.setTrialUserAttr tid k v)).1.trials[tid]? = some t ∧
      t.userAttrs.get? k = some v ∧
      (∀ k', k' ≠ k → t.userAttrs.get? k' = ((s.trials[tid]?).bind (fun t0 => t0.userAttrs.get? k'))) ∧
      (∀ tid', tid' ≠ tid → (step s (.setTrialUserAttr tid k v)).1.trials[tid']? = s.trials[tid']?) ∧
      (step s (.setTrialUserAttr tid k v)).1.studies = s.studies := by
  simp only [step] at h ⊢
  split at h
  · simp at h
  · rename_i t0 hw
    obtain ⟨hget, _⟩ := writable_ok s tid t0 hw
    refine ⟨_, updTrial_get_same s tid _ t0 hget, ?_, ?_, ?_, rfl⟩
    · exact AList.get?_set_same _ _ _
    · intro k' hk'
      rw [hget]
      exact AList.get?_set_other _ _ _ _ hk'
    · intro tid' hne
      exact updTrial_get_other s tid tid' _ hne

theorem set_inter_read (s : Spec) (tid : Nat) (stp : Int) (x : XVal)
    (h : (step s (.setTrialInter tid stp x)).2 = .unit) :
    ∃ t, (step s (.setTrialInter tid stp x)).1.trials[tid]? = some t ∧
      t.inter.lookup stp = some x := by
  simp only [step] at h ⊢
  split at h
  · simp at h
  · rename_i t0 hw
    obtain ⟨hget, _⟩ := writable_ok s tid t0 hw
    refine ⟨_, updTrial_get_same s tid _ t0 hget, ?_⟩
    show (setInter t0.inter stp x).lookup stp = some x
    generalize t0.inter = l
    induction l with
    | nil => simp [setInter]
    | cons a r ih =>
      obtain ⟨s1, w⟩ := a
      simp only [setInter]
      split
      · simp
      · rename_i hne
        have : (stp == s1) = false := by
          simp only [beq_eq_false_iff_ne, ne_eq]
          exact fun e => hne e.symm
        simp [List.lookup_cons, this, ih]

/-- **template_stored_fieldwise**: a trial created from a template holds every field of the
template (values, params, attrs, intermediate values incl. NaN/±∞ tokens, timestamps' presence),
its number is the next free one and it belongs to the addressed study. -/
theorem template_stored_fieldwise (s s' : Spec) (sid : Nat) (tm : Template) (ir : Bool) (i : Nat)
    (h : step s (.createTrial sid (some tm) ir) = (s', .newId i)) :
    ∃ t, s'.trial? i = some t ∧ t.study = sid ∧ t.number = (s.trialsOf sid).length ∧
      t.state = tm.state ∧ t.values = tm.values ∧ t.params = tm.params ∧
      t.userAttrs = tm.userAttrs ∧ t.systemAttrs = tm.systemAttrs ∧ t.inter = tm.inter ∧
      t.hasStart = tm.hasStart ∧ t.hasComplete = tm.hasComplete := by
  simp only [step] at h
  split at h
  · simp at h
  · rename_i st hst
    split at h
    · simp at h
    · simp only [Prod.mk.injEq, Out.newId.injEq] at h
      obtain ⟨h1, h2⟩ := h
      subst h1; subst h2
      refine ⟨mkTrial sid (s.trialsOf sid).length (some tm), ?_, rfl, rfl, rfl, rfl, rfl, rfl, rfl, rfl, rfl, rfl⟩
      have hst' : (s.studies[sid]?).join = some st := hst
      rw [trial?_some_iff]
      refine ⟨?_, ?_⟩
      · show (s.trials ++ [mkTrial sid (s.trialsOf sid).length (some tm)])[s.trials.length]? = _
        rw [List.getElem?_append_right (Nat.le_refl _), Nat.sub_self]; rfl
      · show ((s.studies[sid]?).join).isSome = true
        rw [hst']; rfl

/-! ## distribution compatibility is an equivalence (so it does not matter which earlier
distribution of a name a backend compares against) -/

theorem compat_refl (a : Dist) : a.compat a = true := by
  unfold Dist.compat; split <;> simp

theorem compat_symm (a b : Dist) (h : a.compat b = true) : b.compat a = true := by
  unfold Dist.compat at *
  simp only [Bool.and_eq_true, beq_iff_eq] at h ⊢
  obtain ⟨hk, h2⟩ := h
  refine ⟨hk.symm, ?_⟩
  rw [← hk]
  by_cases hc : a.kind = 2
  · simp only [hc, if_true, beq_iff_eq] at h2 ⊢
    exact h2.symm
  · simp only [hc, if_false, beq_iff_eq] at h2 ⊢
    exact h2.symm

theorem compat_trans (a b c : Dist) (h1 : a.compat b = true) (h2 : b.compat c = true) :
    a.compat c = true := by
  unfold Dist.compat at *
  simp only [Bool.and_eq_true, beq_iff_eq] at h1 h2 ⊢
  obtain ⟨hk1, h1'⟩ := h1
  obtain ⟨hk2, h2'⟩ := h2
  refine ⟨hk1.trans hk2, ?_⟩
  rw [← hk1] at h2'
  by_cases hc : a.kind = 2
  · simp only [hc, if_true, beq_iff_eq] at h1' h2' ⊢
    exact h1'.trans h2'
  · simp only [hc, if_false, beq_iff_eq] at h1' h2' ⊢
    exact h1'.trans h2'

/-! ## non-vacuity: a concrete history that exercises the hypotheses above -/

def demoTemplate : Template :=
  { state := .complete, values := some [.pinf], params := [], userAttrs := [("u", "1")],
    systemAttrs := [], inter := [(0, .nan), (3, .ninf)], hasStart := true, hasComplete := true }

def demo : List Op :=
  [ .createStudy "a" [1], .createStudy "b" [2], .createTrial 0 none false,
    .createTrial 1 (some demoTemplate) false, .createTrial 0 (some { demoTemplate with state := .waiting }) false,
    .setTrialStateValues 2 .running none, .setTrialUserAttr 0 "k" "v", .setTrialStateValues 0 .complete (some [.fin 1]),
    .deleteStudy 1 ]

example : Dead (after init demo) 1 := by unfold Dead; decide
example : ((after init demo).trials[0]?).map (fun t => t.state.isFinished) = some true := by decide
example : (step (after init (demo.take 5)) (.setTrialStateValues 2 .running none)).2 = .bool true := by decide
example : (step (after init demo) (.setTrialStateValues 2 .running none)).2 = .bool false := by decide
example : (step (after init demo) (.setTrialUserAttr 0 "k" "w")).2 = .err .updateFinished := by decide
example : (step (after init demo) (.getTrial 1)).2 = .err .keyError := by decide

end OptunaVerif.C01
