import OptunaVerif.Props.C01
/-!
# C01 — read-your-writes, frame and atomicity for EVERY mutating call of the contract (audit follow-up)

For the contract model `Model/Storage.lean` and each of the ten mutating calls:
* (a) `<op>_read` — when the call succeeds, the matching getter issued right after returns exactly what
  was written (for the overwriting calls the WHOLE new record is given: the new value under the key, every
  other key and every other field unchanged, the contract's state / timestamp changes spelled out);
* (b) `step_frame_study` / `step_frame_trial_raw` / `step_frame_trial` / `step_frame_getters` — ONE generic
  statement over all calls: every study and every trial the call does not ADDRESS (`addrStudy`, `addrTrial`
  make the relation explicit per call) reads the same before and after;
* (c) `failed_op_changes_nothing` — a call answered with an error leaves the whole state, hence every getter's
  answer, unchanged (atomicity).
All statements are for EVERY state `s`, so in particular for every reachable state `after init ops`
(`*_reachable` corollaries are instances; none is needed beyond substituting `s := after init ops`).
-/
set_option linter.unusedVariables false
namespace OptunaVerif.C01
open OptunaVerif OptunaVerif.Storage

/-! ## (c) atomicity -/

/-- **failed_op_changes_nothing**: a call that answers an error changes nothing — the state after it is the
state before it, so every getter answers as before. -/
theorem failed_op_changes_nothing (s : Spec) (op : Op) (e : Err) (h : (step s op).2 = .err e) :
    (step s op).1 = s ∧ ∀ g, (step (step s op).1 g) = (step s g) := by
  have h1 : (step s op).1 = s := by
    cases op <;> simp only [step] at h ⊢ <;> (repeat' split at h) <;> (repeat' split) <;> simp_all
  exact ⟨h1, fun g => by rw [h1]⟩

/-! ## (b) frame -/

/-- the study whose record the call may change (`create_new_study`: the slot it fills; `set_trial_param`: the
study of the trial, whose fixed-distribution table `paramDist` grows) -/
def addrStudy (s : Spec) : Op → Option Nat
  | .createStudy .. => some s.studies.length
  | .deleteStudy sid | .setStudyUserAttr sid _ _ | .setStudySystemAttr sid _ _ => some sid
  | .setTrialParam tid _ _ _ => (s.trials[tid]?).map (·.study)
  | _ => none

/-- the trial whose record the call may change (`create_new_trial`: the slot it fills) -/
def addrTrial (s : Spec) : Op → Option Nat
  | .createTrial .. => some s.trials.length
  | .setTrialParam tid _ _ _ | .setTrialStateValues tid _ _ | .setTrialInter tid _ _
  | .setTrialUserAttr tid _ _ | .setTrialSystemAttr tid _ _ => some tid
  | _ => none

theorem updStudy_study?_other (s : Spec) (sid sid' : Nat) (f : StudyS → StudyS) (h : sid' ≠ sid) :
    (s.updStudy sid f).study? sid' = s.study? sid' := by
  simp only [Spec.study?, Spec.updStudy, updAt_getElem?, h, if_false]

theorem updStudy_isSome (s : Spec) (sid sid' : Nat) (f : StudyS → StudyS) :
    ((s.updStudy sid f).study? sid').isSome = (s.study? sid').isSome := by
  simp only [Spec.study?, Spec.updStudy, updAt_getElem?]
  by_cases h : sid' = sid
  · subst h; cases hs : s.studies[sid']? with
    | none => simp [hs]
    | some o => cases o <;> simp [hs]
  · simp [h]

/-- **step_frame_study**: every study the call does not address reads the same before and after. -/
theorem step_frame_study (s : Spec) (op : Op) (sid' : Nat) (h : addrStudy s op ≠ some sid') :
    (step s op).1.study? sid' = s.study? sid' := by
  cases op with
  | createStudy name dirs =>
    simp only [step]; split
    · rfl
    · simp only [addrStudy, ne_eq, Option.some.injEq] at h
      simp only [Spec.study?]
      by_cases hl : sid' < s.studies.length
      · rw [List.getElem?_append_left hl]
      · have : s.studies.length < sid' := by omega
        rw [List.getElem?_eq_none (by simp; omega), List.getElem?_eq_none (by omega)]
  | deleteStudy sid =>
    simp only [addrStudy, ne_eq, Option.some.injEq] at h
    simp only [step]; split
    · rfl
    · simp only [Spec.study?, updAt_getElem?]; simp [Ne.symm h]
  | setStudyUserAttr sid k v =>
    simp only [addrStudy, ne_eq, Option.some.injEq] at h
    simp only [step]; split
    · rfl
    · exact updStudy_study?_other s sid sid' _ (Ne.symm h)
  | setStudySystemAttr sid k v =>
    simp only [addrStudy, ne_eq, Option.some.injEq] at h
    simp only [step]; split
    · rfl
    · exact updStudy_study?_other s sid sid' _ (Ne.symm h)
  | setTrialParam tid name p ir =>
    simp only [step]
    repeat' split
    all_goals first
      | rfl
      | (rename_i _ t hw _ _ _ _ _
         obtain ⟨hget, _⟩ := writable_ok s tid t hw
         simp only [addrStudy, hget, Option.map_some, ne_eq, Option.some.injEq] at h
         rw [updStudy_study?_other _ _ _ _ (Ne.symm h)]; rfl)
  | _ => simp only [step] <;> (repeat' split) <;> rfl

/-- **step_frame_trial_raw**: the stored record of every trial the call does not address is the same before and after. -/
theorem step_frame_trial_raw (s : Spec) (op : Op) (tid' : Nat) (h : addrTrial s op ≠ some tid') :
    (step s op).1.trials[tid']? = s.trials[tid']? := by
  cases op with
  | createTrial sid tmpl ir =>
    simp only [addrTrial, ne_eq, Option.some.injEq] at h
    simp only [step]; repeat' split
    all_goals first
      | rfl
      | (show (s.trials ++ _)[tid']? = _
         by_cases hl : tid' < s.trials.length
         · rw [List.getElem?_append_left hl]
         · rw [List.getElem?_eq_none (by simp; omega), List.getElem?_eq_none (by omega)])
  | setTrialParam tid name p ir =>
    simp only [addrTrial, ne_eq, Option.some.injEq] at h
    simp only [step]; repeat' split
    all_goals first
      | rfl
      | exact updTrial_get_other s tid tid' _ (Ne.symm h)
  | setTrialStateValues tid st vals =>
    simp only [addrTrial, ne_eq, Option.some.injEq] at h
    simp only [step]; repeat' split
    all_goals first
      | rfl
      | exact updTrial_get_other s tid tid' _ (Ne.symm h)
  | setTrialInter tid stp v =>
    simp only [addrTrial, ne_eq, Option.some.injEq] at h
    simp only [step]; repeat' split
    all_goals first
      | rfl
      | exact updTrial_get_other s tid tid' _ (Ne.symm h)
  | setTrialUserAttr tid k v =>
    simp only [addrTrial, ne_eq, Option.some.injEq] at h
    simp only [step]; repeat' split
    all_goals first
      | rfl
      | exact updTrial_get_other s tid tid' _ (Ne.symm h)
  | setTrialSystemAttr tid k v =>
    simp only [addrTrial, ne_eq, Option.some.injEq] at h
    simp only [step]; repeat' split
    all_goals first
      | rfl
      | exact updTrial_get_other s tid tid' _ (Ne.symm h)
  | _ => simp only [step] <;> (repeat' split) <;> rfl


/-- a live study stays live under every call except its own deletion -/
theorem step_study_live (s : Spec) (op : Op) (sid : Nat) (h : op ≠ .deleteStudy sid)
    (hl : (s.study? sid).isSome = true) : ((step s op).1.study? sid).isSome = true := by
  by_cases ha : addrStudy s op = some sid
  · cases op with
    | createStudy name dirs =>
      simp only [addrStudy, Option.some.injEq] at ha
      have : s.study? sid = none := by
        simp only [Spec.study?]; rw [List.getElem?_eq_none (by omega)]; rfl
      rw [this] at hl; cases hl
    | deleteStudy sid0 =>
      simp only [addrStudy, Option.some.injEq] at ha; subst ha; exact absurd rfl h
    | setStudyUserAttr sid0 k v =>
      simp only [step]; split
      · exact hl
      · rw [updStudy_isSome]; exact hl
    | setStudySystemAttr sid0 k v =>
      simp only [step]; split
      · exact hl
      · rw [updStudy_isSome]; exact hl
    | setTrialParam tid name p ir =>
      simp only [step]; repeat' split
      all_goals first
        | exact hl
        | (rw [updStudy_isSome]; exact hl)
    | _ => simp [addrStudy] at ha
  · rw [step_frame_study s op sid ha]; exact hl

/-- **step_frame_trial**: every live trial the call does not address — and whose study the call does not delete —
reads the same before and after. -/
theorem step_frame_trial (s : Spec) (op : Op) (tid' : Nat) (t : TrialS) (h1 : addrTrial s op ≠ some tid')
    (h2 : s.trial? tid' = some t) (h3 : op ≠ .deleteStudy t.study) : (step s op).1.trial? tid' = some t := by
  obtain ⟨hraw, hlive⟩ := (trial?_some_iff s tid' t).1 h2
  exact (trial?_some_iff _ tid' t).2 ⟨by rw [step_frame_trial_raw s op tid' h1]; exact hraw,
    step_study_live s op t.study h3 hlive⟩

/-- the getters that read ONE study / ONE trial by id -/
def readsStudy (sid : Nat) : Op → Bool
  | .getStudyNameFromId x | .getStudyDirections x | .getStudyUserAttrs x | .getStudySystemAttrs x => x == sid
  | _ => false
def readsTrial (tid : Nat) : Op → Bool
  | .getTrial x | .getTrialNumberFromId x | .getTrialParam x _ => x == tid
  | _ => false

/-- **step_frame_getters**: after ANY call `op`, every by-id getter of a study `op` does not address, and of a live
trial `op` does not address (in a study `op` does not delete), answers what it answered before. -/
theorem step_frame_getters (s : Spec) (op g : Op) :
    (∀ sid', readsStudy sid' g = true → addrStudy s op ≠ some sid' → (step (step s op).1 g).2 = (step s g).2) ∧
    (∀ tid' t, readsTrial tid' g = true → addrTrial s op ≠ some tid' → s.trial? tid' = some t →
      op ≠ .deleteStudy t.study → (step (step s op).1 g).2 = (step s g).2) := by
  constructor
  · intro sid' hr ha
    have e := step_frame_study s op sid' ha
    generalize (step s op).1 = s' at e ⊢
    cases g <;> simp [readsStudy] at hr <;> subst hr <;> simp only [step, e] <;> (split <;> rfl)
  · intro tid' t hr ha ht hd
    have e := step_frame_trial s op tid' t ha ht hd
    generalize (step s op).1 = s' at e ⊢
    cases g <;> simp [readsTrial] at hr <;> subst hr <;> simp only [step, e, ht] <;> (try (split <;> rfl))


/-! ## (a) read your writes -/

theorem updTrial_read (s : Spec) (tid : Nat) (t : TrialS) (f : TrialS → TrialS) (hw : s.writable tid = .ok t)
    (hf : (f t).study = t.study) : (s.updTrial tid f).trial? tid = some (f t) := by
  obtain ⟨hget, _⟩ := writable_ok s tid t hw
  refine (trial?_some_iff _ tid (f t)).2 ⟨updTrial_get_same s tid f t hget, ?_⟩
  rw [hf, updTrial_study?]; exact writable_live s tid t hw

theorem getTrial_of (s : Spec) (tid : Nat) (t : TrialS) (h : s.trial? tid = some t) :
    (step s (.getTrial tid)).2 = .trial tid t := by simp [step, h]

/-- **setTrialUserAttr_read**: the trial read right after is the old record with `k ↦ v` in `user_attrs` — the new value
under the key, every other key and every other field unchanged. -/
theorem setTrialUserAttr_read (s : Spec) (tid : Nat) (k v : String) (h : (step s (.setTrialUserAttr tid k v)).2 = .unit) :
    ∃ t, s.trial? tid = some t ∧
      (step (step s (.setTrialUserAttr tid k v)).1 (.getTrial tid)).2 = .trial tid { t with userAttrs := t.userAttrs.set k v } ∧
      (t.userAttrs.set k v).get? k = some v ∧ ∀ k', k' ≠ k → (t.userAttrs.set k v).get? k' = t.userAttrs.get? k' := by
  simp only [step] at h
  split at h
  · simp at h
  · rename_i t hw
    refine ⟨t, ((writable_ok_iff s tid t).1 hw).1, ?_, AList.get?_set_same _ _ _, fun k' hk => AList.get?_set_other _ _ _ _ hk⟩
    apply getTrial_of
    simp only [step, hw]
    exact updTrial_read s tid t _ hw rfl

theorem setTrialSystemAttr_read (s : Spec) (tid : Nat) (k v : String) (h : (step s (.setTrialSystemAttr tid k v)).2 = .unit) :
    ∃ t, s.trial? tid = some t ∧
      (step (step s (.setTrialSystemAttr tid k v)).1 (.getTrial tid)).2 = .trial tid { t with systemAttrs := t.systemAttrs.set k v } ∧
      (t.systemAttrs.set k v).get? k = some v ∧ ∀ k', k' ≠ k → (t.systemAttrs.set k v).get? k' = t.systemAttrs.get? k' := by
  simp only [step] at h
  split at h
  · simp at h
  · rename_i t hw
    refine ⟨t, ((writable_ok_iff s tid t).1 hw).1, ?_, AList.get?_set_same _ _ _, fun k' hk => AList.get?_set_other _ _ _ _ hk⟩
    apply getTrial_of
    simp only [step, hw]
    exact updTrial_read s tid t _ hw rfl

/-- **setTrialInter_read**: the trial read right after is the old record with `step ↦ value` in `intermediate_values`. -/
theorem setTrialInter_read (s : Spec) (tid : Nat) (stp : Int) (x : XVal) (h : (step s (.setTrialInter tid stp x)).2 = .unit) :
    ∃ t, s.trial? tid = some t ∧
      (step (step s (.setTrialInter tid stp x)).1 (.getTrial tid)).2 = .trial tid { t with inter := setInter t.inter stp x } := by
  simp only [step] at h
  split at h
  · simp at h
  · rename_i t hw
    refine ⟨t, ((writable_ok_iff s tid t).1 hw).1, ?_⟩
    apply getTrial_of
    simp only [step, hw]
    exact updTrial_read s tid t _ hw rfl

/-- **setTrialStateValues_read**: when the call answers `True`, the trial read right after has the new state, the new values
(the old ones when `None` was passed), `datetime_start` present if it was or the state is RUNNING, `datetime_complete`
present if it was or the state is finished — and every other field unchanged. -/
theorem setTrialStateValues_read (s : Spec) (tid : Nat) (st : TState) (vals : Option (List XVal))
    (h : (step s (.setTrialStateValues tid st vals)).2 = .bool true) :
    ∃ t, s.trial? tid = some t ∧
      (step (step s (.setTrialStateValues tid st vals)).1 (.getTrial tid)).2 = .trial tid { t with
        state := st, values := vals.or t.values, hasStart := t.hasStart || st == .running,
        hasComplete := t.hasComplete || st.isFinished } := by
  simp only [step] at h
  split at h
  · simp at h
  · rename_i t hw
    split at h
    · simp at h
    · rename_i hb
      refine ⟨t, ((writable_ok_iff s tid t).1 hw).1, ?_⟩
      apply getTrial_of
      simp only [step, hw, hb]
      exact updTrial_read s tid t _ hw rfl

/-- **setTrialParam_read**: the trial read right after is the old record with `name ↦ (value, distribution)` in its
parameters, and `get_trial_param` returns the stored internal value. -/
theorem setTrialParam_read (s : Spec) (tid : Nat) (name : String) (p : Param) (ir : Bool)
    (h : (step s (.setTrialParam tid name p ir)).2 = .unit) :
    ∃ t, s.trial? tid = some t ∧
      (step (step s (.setTrialParam tid name p ir)).1 (.getTrial tid)).2 = .trial tid { t with params := t.params.set name p } ∧
      (step (step s (.setTrialParam tid name p ir)).1 (.getTrialParam tid name)).2 = .str p.internal := by
  simp only [step] at h
  split at h
  · simp at h
  · rename_i t hw
    split at h
    · simp at h
    · rename_i st hst
      split at h
      · simp at h
      · rename_i hf
        split at h
        · simp at h
        · rename_i hc
          have hread : (step s (.setTrialParam tid name p ir)).1.trial? tid = some { t with params := t.params.set name p } := by
            simp only [step, hw, hst, hf, hc, Bool.false_eq_true, ↓reduceIte]
            have h0 := updTrial_read s tid t (fun t => { t with params := t.params.set name p }) hw rfl
            obtain ⟨hraw, hlive⟩ := (trial?_some_iff _ tid _).1 h0
            exact (trial?_some_iff _ tid _).2 ⟨by rw [updStudy_trials]; exact hraw, by rw [updStudy_isSome]; exact hlive⟩
          refine ⟨t, ((writable_ok_iff s tid t).1 hw).1, getTrial_of _ tid _ hread, ?_⟩
          generalize (step s (.setTrialParam tid name p ir)).1 = s' at hread
          simp [step, hread, AList.get?_set_same]

/-- **createTrial_read** (plain and template): the call answers the next unused id, and the trial read right after under
that id is the template's record field by field (`mkTrial`: RUNNING with a start time and nothing else when no template
was given), numbered with the count of the study's trials. -/
theorem createTrial_read (s : Spec) (sid : Nat) (tmpl : Option Template) (ir : Bool) (n : Nat)
    (h : (step s (.createTrial sid tmpl ir)).2 = .newId n) :
    n = s.trials.length ∧
    (step (step s (.createTrial sid tmpl ir)).1 (.getTrial n)).2 = .trial n (mkTrial sid (s.trialsOf sid).length tmpl) := by
  simp only [step] at h
  split at h
  · simp at h
  · rename_i st hst
    split at h
    · simp at h
    · rename_i hc
      simp only [Out.newId.injEq] at h
      subst h
      refine ⟨rfl, ?_⟩
      apply getTrial_of
      simp only [step, hst, hc]
      have hst' : (mkTrial sid (s.trialsOf sid).length tmpl).study = sid := by cases tmpl <;> rfl
      refine (trial?_some_iff _ _ _).2 ⟨by simp, ?_⟩
      rw [hst']
      show (Spec.study? { s with trials := _ } sid).isSome = true
      have : Spec.study? { s with trials := s.trials ++ [mkTrial sid (s.trialsOf sid).length tmpl] } sid = s.study? sid := rfl
      rw [this, hst]; rfl

/-- **setStudyUserAttr_read** / **setStudySystemAttr_read**: the attributes read right after are the old ones with `k ↦ v`. -/
theorem setStudyUserAttr_read (s : Spec) (sid : Nat) (k v : String) (h : (step s (.setStudyUserAttr sid k v)).2 = .unit) :
    ∃ st, s.study? sid = some st ∧
      (step (step s (.setStudyUserAttr sid k v)).1 (.getStudyUserAttrs sid)).2 = .attrs (st.userAttrs.set k v) ∧
      (step (step s (.setStudyUserAttr sid k v)).1 (.getStudySystemAttrs sid)).2 = .attrs st.systemAttrs ∧
      (st.userAttrs.set k v).get? k = some v ∧ ∀ k', k' ≠ k → (st.userAttrs.set k v).get? k' = st.userAttrs.get? k' := by
  simp only [step] at h
  split at h
  · simp at h
  · rename_i st hst
    have hnew : (step s (.setStudyUserAttr sid k v)).1.study? sid = some { st with userAttrs := st.userAttrs.set k v } := by
      have hst0 := hst
      simp only [step, hst]
      simp only [Spec.study?, Spec.updStudy, updAt_getElem?] at hst0 ⊢
      cases hs : s.studies[sid]? with
      | none => simp [hs] at hst0
      | some o => cases o <;> simp_all
    generalize (step s (.setStudyUserAttr sid k v)).1 = s' at hnew
    exact ⟨st, hst, by simp [step, hnew], by simp [step, hnew], AList.get?_set_same _ _ _,
      fun k' hk => AList.get?_set_other _ _ _ _ hk⟩

theorem setStudySystemAttr_read (s : Spec) (sid : Nat) (k v : String) (h : (step s (.setStudySystemAttr sid k v)).2 = .unit) :
    ∃ st, s.study? sid = some st ∧
      (step (step s (.setStudySystemAttr sid k v)).1 (.getStudySystemAttrs sid)).2 = .attrs (st.systemAttrs.set k v) ∧
      (step (step s (.setStudySystemAttr sid k v)).1 (.getStudyUserAttrs sid)).2 = .attrs st.userAttrs ∧
      (st.systemAttrs.set k v).get? k = some v ∧ ∀ k', k' ≠ k → (st.systemAttrs.set k v).get? k' = st.systemAttrs.get? k' := by
  simp only [step] at h
  split at h
  · simp at h
  · rename_i st hst
    have hnew : (step s (.setStudySystemAttr sid k v)).1.study? sid = some { st with systemAttrs := st.systemAttrs.set k v } := by
      have hst0 := hst
      simp only [step, hst]
      simp only [Spec.study?, Spec.updStudy, updAt_getElem?] at hst0 ⊢
      cases hs : s.studies[sid]? with
      | none => simp [hs] at hst0
      | some o => cases o <;> simp_all
    generalize (step s (.setStudySystemAttr sid k v)).1 = s' at hnew
    exact ⟨st, hst, by simp [step, hnew], by simp [step, hnew], AList.get?_set_same _ _ _,
      fun k' hk => AList.get?_set_other _ _ _ _ hk⟩

/-- **createStudy_read**: the call answers the next unused id and the study read right after under that id has the given
name and directions and no attributes. -/
theorem createStudy_read (s : Spec) (name : String) (dirs : List Nat) (n : Nat)
    (h : (step s (.createStudy name dirs)).2 = .newId n) :
    n = s.studies.length ∧
    (step (step s (.createStudy name dirs)).1 (.getStudyNameFromId n)).2 = .str name ∧
    (step (step s (.createStudy name dirs)).1 (.getStudyDirections n)).2 = .nats dirs ∧
    (step (step s (.createStudy name dirs)).1 (.getStudyUserAttrs n)).2 = .attrs [] ∧
    (step (step s (.createStudy name dirs)).1 (.getStudySystemAttrs n)).2 = .attrs [] := by
  simp only [step] at h
  split at h
  · simp at h
  · rename_i hn
    simp only [Out.newId.injEq] at h
    subst h
    have hnew : (step s (.createStudy name dirs)).1.study? s.studies.length = some (StudyS.mk name dirs [] [] []) := by
      simp [step, hn, Spec.study?]
    generalize (step s (.createStudy name dirs)).1 = s' at hnew
    exact ⟨rfl, by simp [step, hnew], by simp [step, hnew], by simp [step, hnew], by simp [step, hnew]⟩

/-- **deleteStudy_read**: right after a successful deletion every getter of the study answers `KeyError`, and so does
`get_trial` for each of its trials. -/
theorem deleteStudy_read (s : Spec) (sid : Nat) (h : (step s (.deleteStudy sid)).2 = .unit) :
    (step (step s (.deleteStudy sid)).1 (.getStudyNameFromId sid)).2 = .err .keyError ∧
    (step (step s (.deleteStudy sid)).1 (.getAllTrials sid none)).2 = .err .keyError ∧
    ∀ tid t, s.trials[tid]? = some t → t.study = sid →
      (step (step s (.deleteStudy sid)).1 (.getTrial tid)).2 = .err .keyError := by
  simp only [step] at h
  split at h
  · simp at h
  · rename_i st hst
    have hnew : (step s (.deleteStudy sid)).1.study? sid = none := by
      simp only [step, hst]
      show Spec.study? { s with studies := updAt s.studies sid (fun _ => none) } sid = none
      simp only [Spec.study?, updAt_getElem?, if_true]
      cases hs : s.studies[sid]? <;> rfl
    have htr : (step s (.deleteStudy sid)).1.trials = s.trials := by simp [step, hst]
    generalize (step s (.deleteStudy sid)).1 = s' at hnew htr
    refine ⟨by simp [step, hnew], by simp [step, hnew], ?_⟩
    intro tid t ht hs
    have : s'.trial? tid = none := by
      simp only [Spec.trial?, htr, ht, hs, hnew]; rfl
    simp [step, this]

/-! ## non-vacuity -/

def demoF : Spec := after init [.createStudy "a" [1], .createStudy "b" [2], .createTrial 0 none false, .createTrial 1 none false]

example : (step demoF (.setTrialUserAttr 0 "k" "v")).2 = .unit := by decide
example : addrTrial demoF (.setTrialUserAttr 0 "k" "v") ≠ some 1 := by decide
example : demoF.trial? 1 = some (mkTrial 1 0 none) := by decide
example : (step demoF (.setTrialUserAttr 9 "k" "v")).2 = .err .keyError := by decide
example : (step demoF (.createStudy "a" [1])).2 = .err .duplicated := by decide
example : (step demoF (.deleteStudy 0)).2 = .unit ∧ addrStudy demoF (.deleteStudy 0) ≠ some 1 := by decide
example : (step demoF (.setTrialStateValues 0 .complete (some [.fin 1]))).2 = .bool true := by decide
example : (step demoF (.setTrialParam 0 "x" ⟨"1", ⟨0, false, "F"⟩⟩ false)).2 = .unit := by decide
example : (step demoF (.createTrial 1 (some ⟨.waiting, none, [], [("u", "1")], [], [], false, false⟩) false)).2 = .newId 2 := by decide

end OptunaVerif.C01
