import OptunaVerif.Lemmas.ProtoRefine
import OptunaVerif.Props.C01
/-!
# C01, gRPC proxy — the wire level (property theorems)

`GrpcStorageProxy` in front of `OptunaStorageProxyService` must give the same return values, error
classes and state as the backend behind it.  The model is `Model/Proto.lean` (`proxyStep`: encode the
request, `Storage.step` on the backend, encode the reply or abort with a status code, decode); the
tables of except-clauses, status codes and enum conversions are `Generated/GrpcTables.lean`, rewritten
from servicer.py / client.py / api.proto on every run, so every theorem below is re-proved against
what the code says now.  Tie: verif/props/c01_grpc.py.

The precise normal form ("what a value looks like after one trip over the wire"):
`normTemplate` / `normTrial` / `normStudy` / `normOp` / `normOut` —
  * `values = []` becomes `None` (`normValues`);
  * every dictionary (params, user/system attributes, intermediate values) becomes the key-sorted
    representative of the same finite map (`smap`, `imap`; same look-ups, a permutation of the items);
  * a direction other than MINIMIZE becomes MAXIMIZE (`normDir`; identity on MINIMIZE and MAXIMIZE);
  * an empty study name becomes `"no-name-" ++ uuid4()`;
  * model-only bookkeeping that `FrozenTrial` / `FrozenStudy` do not carry (`TrialS.study`,
    `StudyS.paramDist`) is blanked.
-/
namespace OptunaVerif.C01Grpc
open OptunaVerif OptunaVerif.Storage OptunaVerif.Proto OptunaVerif.Generated
open OptunaVerif.Generated.GrpcTables (Exc Status Rpc ValuesDecode)

/-! ## the codecs -/

/-- **proto_state_roundtrip**: every `TrialState` has a wire code and comes back as itself. -/
theorem proto_state_roundtrip (s : TState) : (stateToProto s).bind stateFromProto = some s := by
  obtain ⟨c, h1, h2⟩ := state_roundtrip s
  simp [h1, h2]

example : (stateToProto .waiting).bind stateFromProto = some .waiting := by decide

/-- the state tables are inverse to each other in the other direction too: a wire code that decodes at all
re-encodes to itself -/
theorem proto_state_wire_roundtrip (n : Nat) (s : TState) (h : stateFromProto n = some s) : stateToProto s = some n := by
  match n with
  | 0 | 1 | 2 | 3 | 4 => revert h; cases s <;> decide
  | n + 5 => simp [stateFromProto, lookup, GrpcTables.stateFromProto] at h

example : stateFromProto 3 = some .fail := by decide

/-- **proto_direction_roundtrip**: MINIMIZE and MAXIMIZE come back as themselves. -/
theorem proto_direction_roundtrip (d : Nat) (h : d = 1 ∨ d = 2) : dirFromProto (dirToProto d) = d := by
  rcases h with rfl | rfl <;> decide

example : dirFromProto (dirToProto 1) = 1 := by decide

/-- … and nothing else does: `StudyDirection.NOT_SET` (0), accepted by every backend's
`create_new_study`, is stored as MAXIMIZE by a backend behind the proxy (the conversions are
`MINIMIZE if d == MINIMIZE else MAXIMIZE`).  Full-strength `∀ d, dirFromProto (dirToProto d) = d` is false. -/
theorem proto_direction_not_set_witness : dirFromProto (dirToProto 0) = 2 := by decide

/-- every conversion site in servicer.py / client.py is the same conditional expression -/
theorem dir_sites_uniform :
    (∀ s ∈ GrpcTables.dirToProtoSites, s.2 = (GrpcTables.dirToProtoTest, GrpcTables.dirToProtoThen, GrpcTables.dirToProtoElse)) ∧
    (∀ s ∈ GrpcTables.dirFromProtoSites, s.2 = (GrpcTables.dirFromProtoTest, GrpcTables.dirFromProtoThen, GrpcTables.dirFromProtoElse)) ∧
    GrpcTables.dirToProtoSites.length = 3 ∧ GrpcTables.dirFromProtoSites.length = 3 := by decide

example : ("client.py:create_new_study", 1, 0, 1) ∈ GrpcTables.dirToProtoSites := by decide

/-- the statement shapes the model assumes beyond the tables (template flag, datetime '' convention, the
parameter join, the GetTrials filter, the empty-name default, delegation of get_all_trials) are in the source -/
theorem shape_checks_hold : ∀ c ∈ GrpcTables.shapeChecks, c.2 = true := by decide

example : GrpcTables.shapeChecks.length = 13 := by decide

/-- **proto_values**: `None` and `[]` are the same empty field; both receivers read it as `None`. -/
theorem proto_values_roundtrip (v : Option (List XVal)) :
    decodeValues GrpcTables.trialValuesDecode (encodeValues v) = normValues v ∧
    decodeValues GrpcTables.setStateValuesDecode (encodeValues v) = normValues v :=
  ⟨values_roundtrip v, setStateValues_roundtrip v⟩

example : decodeValues GrpcTables.trialValuesDecode (encodeValues (some [])) = none ∧
    normValues (some [XVal.nan]) = some [XVal.nan] := by decide

/-- **proto_frozen_roundtrip**: `_from_proto_trial(_to_proto_trial(t))` is `t` in normal form, for every
`FrozenTrial` (any state, any values incl. NaN/±inf, any dictionaries, any id/number). -/
theorem proto_frozen_roundtrip (f : Frozen) :
    ∃ p, toProtoTrial f = some p ∧ fromProtoTrial p = .ok (normFrozen f) := frozen_roundtrip f

/-- **proto_template_roundtrip**: the template of `create_new_trial` as the servicer's backend receives it. -/
theorem proto_template_roundtrip (t : Template) :
    ∃ p, toProtoTrial { id := -1, number := -1, body := t } = some p ∧
      (fromProtoTrial p).map (·.body) = .ok (normTemplate t) := by
  obtain ⟨p, h1, h2⟩ := proto_frozen_roundtrip { id := -1, number := -1, body := t }
  exact ⟨p, h1, by rw [h2]; rfl⟩

/-- **proto_trial_roundtrip**: a stored trial as `get_trial` / `get_all_trials` hand it to the caller. -/
theorem proto_trial_roundtrip (id : Nat) (t : TrialS) :
    ∃ p, toProtoTrial (frozenOf (id, t)) = some p ∧
      (fromProtoTrial p).map trialOfFrozen = .ok (id, normTrial t) := by
  obtain ⟨p, h1, h2⟩ := proto_frozen_roundtrip (frozenOf (id, t))
  refine ⟨p, h1, ?_⟩
  rw [h2]
  simp [Except.map, trialOfFrozen, normFrozen, frozenOf, normTrial, normTemplate, TrialS.template]

example : ∃ p, toProtoTrial (frozenOf (4, mkTrial 2 7 none)) = some p ∧
    (fromProtoTrial p).map trialOfFrozen = .ok (4, { mkTrial 0 7 none with study := 0 }) :=
  proto_trial_roundtrip 4 (mkTrial 2 7 none)

def exampleTemplate : Template :=
  { state := .complete, values := some [], hasStart := true, hasComplete := false,
    params := [("z", ⟨"1/2", ⟨0, false, "F"⟩⟩), ("a", ⟨"2/1", ⟨1, false, "I"⟩⟩)],
    userAttrs := [("k9", "1"), ("b", "[1, 2]")], systemAttrs := [],
    inter := [(5, .nan), (1, .pinf), (-3, .fin 2)] }

/-- non-vacuity: a template whose every normalisation is visible (values `[]`, three unsorted dictionaries) -/
example :
    (toProtoTrial { id := -1, number := -1, body := exampleTemplate }).map (·.values) = some [] ∧
    (toProtoTrial { id := -1, number := -1, body := exampleTemplate }).map (·.params) = some [("a", "2/1"), ("z", "1/2")] ∧
    (toProtoTrial { id := -1, number := -1, body := exampleTemplate }).map (·.intermediateValues) =
      some [(-3, .fin 2), (1, .pinf), (5, .nan)] ∧
    (toProtoTrial { id := -1, number := -1, body := exampleTemplate }).bind
      (fun p => (fromProtoTrial p).toOption.map (·.body)) = some (normTemplate exampleTemplate) ∧
    normTemplate exampleTemplate ≠ exampleTemplate ∧ (normTemplate exampleTemplate).values = none := by
  decide

/-- **proto_study_roundtrip** -/
theorem proto_study_roundtrip (p : Nat × StudyS) : fromProtoStudy (toProtoStudy p) = (p.1, normStudy p.2) := by
  simp [fromProtoStudy, toProtoStudy, normStudy, List.map_map, normDir, Function.comp_def]

example : fromProtoStudy (toProtoStudy (3, ⟨"s", [1, 2], [("b", "1"), ("a", "2")], [], [("p", ⟨0, false, "F"⟩)]⟩)) =
    (3, ⟨"s", [1, 2], [("a", "2"), ("b", "1")], [], []⟩) := by decide

/-! ### the normal form is a projection that changes no look-up -/

theorem normTemplate_idem (t : Template) : normTemplate (normTemplate t) = normTemplate t := by
  simp [normTemplate, smap_idem, imap_idem, normValues_idem]

theorem normTrial_idem (t : TrialS) : normTrial (normTrial t) = normTrial t := by
  simp [normTrial, smap_idem, imap_idem, normValues_idem]

example : normTemplate (normTemplate exampleTemplate) = normTemplate exampleTemplate ∧
    normTemplate exampleTemplate ≠ exampleTemplate := by decide

/-- every parameter / attribute read of a normalised trial gives what the original gives -/
theorem normTrial_lookups (t : TrialS) (k : String) :
    (normTrial t).params.get? k = t.params.get? k ∧
    (normTrial t).userAttrs.get? k = t.userAttrs.get? k ∧
    (normTrial t).systemAttrs.get? k = t.systemAttrs.get? k ∧
    (∀ step, lookup (normTrial t).inter step = lookup t.inter step) ∧
    (normTrial t).number = t.number ∧ (normTrial t).state = t.state ∧
    (normTrial t).hasStart = t.hasStart ∧ (normTrial t).hasComplete = t.hasComplete :=
  ⟨get?_smap _ k, get?_smap _ k, get?_smap _ k, fun st => lookup_ofList intLt _ st, rfl, rfl, rfl, rfl⟩

/-- … and (keys being unique, as in any Python dict) holds the same items -/
theorem normTrial_perm (t : TrialS) (hp : (t.params.map (·.1)).Nodup) (hu : (t.userAttrs.map (·.1)).Nodup)
    (hs : (t.systemAttrs.map (·.1)).Nodup) (hi : (t.inter.map (·.1)).Nodup) :
    (normTrial t).params.Perm t.params ∧ (normTrial t).userAttrs.Perm t.userAttrs ∧
    (normTrial t).systemAttrs.Perm t.systemAttrs ∧ (normTrial t).inter.Perm t.inter :=
  ⟨ofList_perm strLt _ hp, ofList_perm strLt _ hu, ofList_perm strLt _ hs, ofList_perm intLt _ hi⟩

example : (normTrial (mkTrial 0 0 (some exampleTemplate))).params = [("a", ⟨"2/1", ⟨1, false, "I"⟩⟩), ("z", ⟨"1/2", ⟨0, false, "F"⟩⟩)] := by
  decide

/-! ## error classes -/

/-- which contract error classes a backend can raise inside which rpc (`step_err_raisable`: this is all of them) -/
def raisable : List (Rpc × Err) := [
  (.createNewStudy, .duplicated),
  (.deleteStudy, .keyError), (.setStudyUserAttribute, .keyError), (.setStudySystemAttribute, .keyError),
  (.getStudyIdFromName, .keyError), (.getStudyNameFromId, .keyError), (.getStudyDirections, .keyError),
  (.getStudyUserAttributes, .keyError), (.getStudySystemAttributes, .keyError),
  (.createNewTrial, .keyError), (.createNewTrial, .valueError),
  (.setTrialParameter, .keyError), (.setTrialParameter, .updateFinished), (.setTrialParameter, .valueError),
  (.getTrialIdFromStudyIdTrialNumber, .keyError),
  (.setTrialStateValues, .keyError), (.setTrialStateValues, .updateFinished),
  (.setTrialIntermediateValue, .keyError), (.setTrialIntermediateValue, .updateFinished),
  (.setTrialUserAttribute, .keyError), (.setTrialUserAttribute, .updateFinished),
  (.setTrialSystemAttribute, .keyError), (.setTrialSystemAttribute, .updateFinished),
  (.getTrial, .keyError), (.getTrials, .keyError)]

/-- the table `raisable` is complete: whatever error the contract answers inside an rpc is listed -/
theorem step_err_raisable (s : Spec) (op : Op) (rpc : Rpc) (e : Err)
    (hr : rpcOf op = some rpc) (he : (step s op).2 = .err e) : (rpc, e) ∈ raisable := by
  cases op <;> simp only [rpcOf, Option.some.injEq, reduceCtorEq] at hr <;> subst hr <;> simp only [step] at he
  all_goals (repeat' split at he)
  all_goals first
    | (simp only [Out.err.injEq, reduceCtorEq] at he; try subst he) <;> simp [raisable]
    | skip
  all_goals
    rename_i heq
    rcases writable_err _ _ _ heq with h | h <;> simp [h]

example : (step Storage.init (.deleteStudy 0)).2 = .err .keyError ∧ (Rpc.deleteStudy, Err.keyError) ∈ raisable := by decide

/-- **error_class_preserved**: a contract exception raised by the backend inside an rpc — caught by the first
matching `except` clause of the servicer method, turned into a status code, turned back by the client method —
reaches the caller as the same class; for every (rpc, class) pair the contract can produce (`step_err_raisable`),
`create_new_trial` + `ValueError` (U1: SQLite rejecting a conflicting template) included.  Checked against the
tables read from today's servicer.py / client.py / exceptions.py. -/
theorem error_class_preserved : ∀ p ∈ raisable, transport p.1 p.2 = .ok (.err p.2) := by decide

/-- the pair that was lost before the repair of `CreateNewTrial` / `create_new_trial` now goes INVALID_ARGUMENT and back -/
example : (Rpc.createNewTrial, Err.valueError) ∈ raisable ∧
    abortStatus .createNewTrial .valueError = .invalidArgument ∧
    transport .createNewTrial .valueError = .ok (.err .valueError) := by decide

example : (Rpc.setTrialParameter, Err.valueError) ∈ raisable ∧
    transport .setTrialParameter .valueError = .ok (.err .valueError) ∧
    abortStatus .setTrialParameter .updateFinished = .failedPrecondition := by decide

/-- table level: on every rpc the client's chain inverts the servicer's clauses (each status code the servicer can
abort with is turned back into the class it was chosen for), no two clauses of a method share a status code, and
a clause for a class never sits behind a clause for one of its base classes (the first match is the exact one) -/
theorem client_inverts_servicer :
    ∀ rpc ∈ Rpc.all, ∀ c ∈ GrpcTables.servicerCatches rpc,
      lookup (GrpcTables.clientRaises rpc) c.2 = some c.1 ∧
      (GrpcTables.servicerCatches rpc).find? (fun q => isSubclass c.1 q.1) = some c := by decide

example : (Exc.keyError, Status.notFound) ∈ GrpcTables.servicerCatches .getTrials := by decide

/-- `UpdateFinishedTrialError` is a `RuntimeError` (optuna/exceptions.py): a clause for `RuntimeError` placed before
it would swallow it; `isSubclass` is what decides the first matching clause -/
example : isSubclass .updateFinishedTrialError .runtimeError = true ∧ isSubclass .keyError .valueError = false ∧
    isSubclass .duplicatedStudyError .exception = true := by decide

/-- each servicer method calls the `BaseStorage` method the model says it calls, each stub method is called from
the client function the model says calls it -/
theorem rpc_call_sites :
    Rpc.all.map GrpcTables.servicerBackend =
      ["create_new_study", "delete_study", "set_study_user_attr", "set_study_system_attr", "get_study_id_from_name",
       "get_study_name_from_id", "get_study_directions", "get_study_user_attrs", "get_study_system_attrs",
       "get_all_studies", "create_new_trial", "set_trial_param", "get_trial_id_from_study_id_trial_number",
       "set_trial_state_values", "set_trial_intermediate_value", "set_trial_user_attr", "set_trial_system_attr",
       "get_trial", "get_all_trials"] ∧
    Rpc.all.map GrpcTables.clientMethod =
      ["GrpcStorageProxy.create_new_study", "GrpcStorageProxy.delete_study", "GrpcStorageProxy.set_study_user_attr",
       "GrpcStorageProxy.set_study_system_attr", "GrpcStorageProxy.get_study_id_from_name",
       "GrpcStorageProxy.get_study_name_from_id", "GrpcStorageProxy.get_study_directions",
       "GrpcStorageProxy.get_study_user_attrs", "GrpcStorageProxy.get_study_system_attrs",
       "GrpcStorageProxy.get_all_studies", "GrpcStorageProxy.create_new_trial", "GrpcStorageProxy.set_trial_param",
       "GrpcStorageProxy.get_trial_id_from_study_id_trial_number", "GrpcStorageProxy.set_trial_state_values",
       "GrpcStorageProxy.set_trial_intermediate_value", "GrpcStorageProxy.set_trial_user_attr",
       "GrpcStorageProxy.set_trial_system_attr", "GrpcStorageProxy.get_trial",
       "GrpcClientCache._read_trials_from_remote_storage"] := by decide

example : Rpc.all.length = 19 := by decide

/-! ## the proxy refines the backend -/

/-- what the caller sees for the backend's answer `out` inside `rpc`: an exception goes through the two error
tables, a return value comes back in normal form -/
def wireOut (rpc : Rpc) : Out → POut
  | .err e => transport rpc e
  | o => .ok (normOut o)

/-- a 3-call history after which a conflicting template makes the backend (with the U1 bit set, as SQLite
behaves) raise `ValueError` -/
def u1State : Spec :=
  C01.after Storage.init [.createStudy "s" [1], .createTrial 0 none false,
    .setTrialParam 0 "p" ⟨"1/2", ⟨0, false, "F"⟩⟩ false]

def u1Template : Template :=
  { state := .running, values := none, params := [("p", ⟨"0/1", ⟨2, false, "C"⟩⟩)], userAttrs := [], systemAttrs := [],
    inter := [], hasStart := true, hasComplete := false }

/-- `GetTrials` for any cache state `(included, greater_than)`: the decoded reply is the servicer's selection
(`Cache.servicerFilter`, the function C08 reasons about) of the backend's list, in normal form -/
theorem getTrials_wire (s : Spec) (ir : Bool) (sid : Nat) (inc : List Nat) (w : Int) :
    (servicer s ir (.getTrials sid inc w)).1 = s ∧
    match s.study? sid with
    | none => (servicer s ir (.getTrials sid inc w)).2 = .abort (abortStatus .getTrials .keyError)
    | some _ => ∃ ps, (servicer s ir (.getTrials sid inc w)).2 = .ok (.trials ps) ∧
        (fromProtoTrials ps).map (·.map trialOfFrozen) = .ok ((Cache.servicerFilter inc w (s.trialsOf sid)).map normIdTrial) := by
  simp only [servicer, step]
  cases h : s.study? sid with
  | none => simp [finish]
  | some st =>
    obtain ⟨ps, h1, h2⟩ := trials_roundtrip (Cache.servicerFilter inc w ((s.trialsOf sid).filter (fun p => stateIn none p.2.state)))
    have hf : (s.trialsOf sid).filter (fun p => stateIn none p.2.state) = s.trialsOf sid := by
      apply List.filter_eq_self.2; intro p _; rfl
    rw [hf] at h1 h2
    refine ⟨by simp [finish, hf, h1], ps, by simp [finish, hf, h1], ?_⟩
    rw [h2]
    simp [Except.map, List.map_map, Function.comp_def, trialOfFrozen_norm]

example : (servicer u1State false (.getTrials 0 [] 5)).2 = .ok (.trials []) ∧
    (servicer u1State false (.getTrials 0 [0] 5)).2 ≠ .ok (.trials []) ∧
    (servicer u1State false (.getTrials 7 [] (-1))).2 = .abort .notFound := by decide

/-- `get_all_trials` with an empty cache entry (`included = []`, `greater_than = -1`): the backend's whole list in
normal form, or the backend's `KeyError` through the two error tables -/
theorem fetchAll_spec (s : Spec) (sid : Nat) :
    fetchAll s sid = match s.study? sid with
      | none => (s, .error (transport .getTrials .keyError))
      | some _ => (s, .ok ((s.trialsOf sid).map normIdTrial)) := by
  have hw := getTrials_wire s false sid [] (-1)
  unfold fetchAll
  generalize servicer s false (.getTrials sid [] (-1)) = r at hw
  obtain ⟨s', resp⟩ := r
  obtain ⟨h1, hw⟩ := hw
  simp only at h1 hw ⊢
  subst h1
  cases h : s'.study? sid with
  | none =>
    rw [h] at hw
    simp only at hw
    simp only [hw, transport]
  | some st =>
    rw [h] at hw
    obtain ⟨ps, h2, h3⟩ := hw
    simp only [h2]
    rw [servicerFilter_all] at h3
    cases hf : fromProtoTrials ps with
    | error e => rw [hf] at h3; simp [Except.map] at h3
    | ok fs =>
      rw [hf] at h3
      simp only [Except.map, Except.ok.injEq] at h3
      simp only [h3]

example : (fetchAll u1State 0).2.toOption.map (·.map (·.1)) = some [0] := by decide

/-- `get_trial` over the wire: the stored trial in normal form, or the backend's `KeyError` through the tables -/
theorem fetchTrial_spec (s : Spec) (tid : Nat) :
    fetchTrial s tid = match s.trial? tid with
      | none => (s, .error (transport .getTrial .keyError))
      | some t => (s, .ok (tid, normTrial t)) := by
  unfold fetchTrial
  simp only [servicer, step]
  cases h : s.trial? tid with
  | none => simp [finish, transport]
  | some t =>
    obtain ⟨p, h1, h2⟩ := proto_frozen_roundtrip (frozenOf (tid, t))
    simp only [finish, h1, Option.map_some, h2]
    rw [trialOfFrozen_norm]
    rfl

example : (fetchTrial u1State 0).2.toOption.map (·.2.params) = some [("p", ⟨"1/2", ⟨0, false, "F"⟩⟩)] := by decide

/-- the shape of a proxied call, for every operation that has an rpc of its own: the backend performs
`Storage.step` on the operation in normal form (state and answer), and the caller sees that answer through
`wireOut` — whatever the error tables say -/
theorem proxy_primary (s : Spec) (u : String) (op : Op) (rpc : Rpc) (h : rpcOf op = some rpc) :
    proxyStep s u op = ((step s (normOp u op)).1, wireOut rpc (step s (normOp u op)).2) := by
  cases op <;> simp only [rpcOf, Option.some.injEq, reduceCtorEq] at h <;> subst h
  case createStudy name dirs =>
    simp only [proxyStep, servicer, normOp, List.map_map]
    have : (dirFromProto ∘ dirToProto) = normDir := rfl
    rw [this]
    simp only [step]
    split <;> simp [finish, recv, wireOut, normOut, transport]
  case deleteStudy sid =>
    simp only [proxyStep, servicer, normOp, step]
    split <;> simp [finish, recv, replyEmpty, recvEmpty, wireOut, normOut, transport]
  case setStudyUserAttr sid k v =>
    simp only [proxyStep, servicer, normOp, step]
    split <;> simp [finish, recv, replyEmpty, recvEmpty, wireOut, normOut, transport]
  case setStudySystemAttr sid k v =>
    simp only [proxyStep, servicer, normOp, step]
    split <;> simp [finish, recv, replyEmpty, recvEmpty, wireOut, normOut, transport]
  case createTrial sid tmpl ir =>
    cases tmpl with
    | none =>
      simp only [proxyStep, servicer, normOp, if_true, step]
      split
      · simp [finish, recv, wireOut, transport]
      · split <;> simp [finish, recv, wireOut, normOut, transport]
    | some t =>
      obtain ⟨p, h1, h2⟩ := proto_frozen_roundtrip { id := -1, number := -1, body := t }
      simp only [proxyStep, h1, servicer, Bool.false_eq_true, if_false, h2, normOp, normFrozen, step]
      split
      · simp [finish, recv, wireOut, transport]
      · split <;> simp [finish, recv, wireOut, normOut, transport]
  case setTrialParam tid name p ir =>
    simp only [proxyStep, servicer, normOp, step]
    repeat' split
    all_goals simp [finish, recv, replyEmpty, recvEmpty, wireOut, normOut, transport]
  case setTrialStateValues tid st values =>
    obtain ⟨c, h1, h2⟩ := state_roundtrip st
    simp only [proxyStep, h1, servicer, h2, setStateValues_roundtrip, normOp, step]
    repeat' split
    all_goals simp [finish, recv, wireOut, normOut, transport]
  case setTrialInter tid stp v =>
    simp only [proxyStep, servicer, normOp, step]
    split <;> simp [finish, recv, replyEmpty, recvEmpty, wireOut, normOut, transport]
  case setTrialUserAttr tid k v =>
    simp only [proxyStep, servicer, normOp, step]
    split <;> simp [finish, recv, replyEmpty, recvEmpty, wireOut, normOut, transport]
  case setTrialSystemAttr tid k v =>
    simp only [proxyStep, servicer, normOp, step]
    split <;> simp [finish, recv, replyEmpty, recvEmpty, wireOut, normOut, transport]
  case getStudyIdFromName name =>
    simp only [proxyStep, servicer, normOp, step]
    split <;> simp [finish, recv, wireOut, normOut, transport]
  case getStudyNameFromId sid =>
    simp only [proxyStep, servicer, normOp, step]
    split <;> simp [finish, recv, wireOut, normOut, transport]
  case getStudyDirections sid =>
    simp only [proxyStep, servicer, normOp, step]
    split <;> simp [finish, recv, wireOut, normOut, transport, List.map_map, normDir, Function.comp_def]
  case getStudyUserAttrs sid =>
    simp only [proxyStep, servicer, normOp, step]
    split <;> simp [finish, recv, wireOut, normOut, transport]
  case getStudySystemAttrs sid =>
    simp only [proxyStep, servicer, normOp, step]
    split <;> simp [finish, recv, wireOut, normOut, transport]
  case getAllStudies =>
    simp [proxyStep, servicer, normOp, step, finish, recv, wireOut, normOut, List.map_map, Function.comp_def,
      proto_study_roundtrip]
  case getTrialIdFromNumber sid n =>
    simp only [proxyStep, servicer, normOp, step]
    repeat' split
    all_goals simp [finish, recv, wireOut, normOut, transport]
  case getTrial tid =>
    simp only [proxyStep, fetchTrial_spec, normOp, step]
    cases s.trial? tid with
    | none => simp [wireOut]
    | some t => simp [wireOut, normOut]
  case getAllTrials sid states =>
    simp only [proxyStep, fetchAll_spec, normOp, step]
    cases s.study? sid with
    | none => simp [wireOut]
    | some st => simp [wireOut, normOut, List.filter_map, Function.comp_def, normIdTrial, normTrial]

example : rpcOf (.getTrial 0) = some .getTrial ∧
    proxyStep Storage.init "u" (.getTrial 0) = (Storage.init, .ok (.err .keyError)) := by decide

/-! ### the `BaseStorage` defaults that run in the client -/

/-- `get_trial_number_from_id`, `get_trial_param`, `get_n_trials`, `get_best_trial` are not rpcs: the
`BaseStorage` code runs in the client on what `GetTrial` / `GetTrials` / `GetStudyDirections` returned; the
answer is the backend's own, in normal form -/
theorem proxy_derived (s : Spec) (u : String) (op : Op) (h : rpcOf op = none) :
    proxyStep s u op = ((step s op).1, .ok (normOut (step s op).2)) := by
  have hk1 : transport .getTrial .keyError = .ok (.err .keyError) := by decide
  have hk2 : transport .getTrials .keyError = .ok (.err .keyError) := by decide
  cases op <;> simp only [rpcOf, reduceCtorEq] at h
  case getTrialNumberFromId tid =>
    simp only [proxyStep, fetchTrial_spec, step]
    cases s.trial? tid with
    | none => simp [hk1, normOut]
    | some t => simp [normOut, normTrial]
  case getTrialParam tid name =>
    simp only [proxyStep, fetchTrial_spec, step]
    cases s.trial? tid with
    | none => simp [hk1, normOut]
    | some t =>
      simp only [trialParamOut_norm]
      unfold Cache.trialParamOut
      cases t.params.get? name <;> rfl
  case getNTrials sid states =>
    simp only [proxyStep, fetchAll_spec, step]
    cases s.study? sid with
    | none => simp [hk2, normOut]
    | some st => simp [normOut, List.filter_map, Function.comp_def, normIdTrial, normTrial]
  case getBestTrial sid =>
    cases hst : s.study? sid with
    | none => simp [proxyStep, fetchAll_spec, step, hst, hk2, normOut]
    | some st =>
      rw [step_getBestTrial s sid st hst]
      simp only [proxyStep, fetchAll_spec, hst, servicer, step, finish, recv, List.map_map]
      have : (dirFromProto ∘ dirToProto) = normDir := rfl
      rw [this, bestOut_norm]

example : rpcOf (.getBestTrial 0) = none ∧
    proxyStep Storage.init "u" (.getBestTrial 0) = (Storage.init, .ok (.err .keyError)) := by decide

/-! ### the refinement -/

/-- **proxy_refines_backend** (all operations, all states, all arguments): a call through the proxy leaves the
backend in the state `Storage.step` gives for the operation in normal form, and returns / raises what
`Storage.step` answers, in normal form. -/
theorem proxy_refines_backend (s : Spec) (u : String) (op : Op) :
    proxyStep s u op = ((step s (normOp u op)).1, .ok (normOut (step s (normOp u op)).2)) := by
  cases hr : rpcOf op with
  | none => rw [normOp_of_derived u op hr]; exact proxy_derived s u op hr
  | some rpc =>
    rw [proxy_primary s u op rpc hr]
    congr 1
    cases hout : (step s (normOp u op)).2 with
    | err e =>
      have hm := step_err_raisable s (normOp u op) rpc e (by rw [rpcOf_normOp]; exact hr) hout
      simpa [wireOut, normOut] using error_class_preserved (rpc, e) hm
    | _ => simp [wireOut]

/-- in particular the backend's state is the contract's -/
theorem proxy_state_refines (s : Spec) (u : String) (op : Op) :
    (proxyStep s u op).1 = (step s (normOp u op)).1 := by
  cases hr : rpcOf op with
  | none => rw [normOp_of_derived u op hr, proxy_derived s u op hr]
  | some rpc => rw [proxy_primary s u op rpc hr]

/-- so a history through the proxy drives the backend through a history of the contract model … -/
theorem proxy_run_is_contract_run (s : Spec) (h : List (String × Op)) :
    (proxyRun s h).1 = C01.after s (h.map (fun p => normOp p.1 p.2)) := by
  induction h generalizing s with
  | nil => rfl
  | cons hd t ih =>
    obtain ⟨u, op⟩ := hd
    simp only [proxyRun, List.map_cons, C01.after_cons, ih, proxy_state_refines]

/-- … and every invariant of C01 holds of the proxied storage; for instance `numbers_dense` -/
theorem proxy_numbers_dense (h : List (String × Op)) : C01.Numbered (proxyRun Storage.init h).1 := by
  rw [proxy_run_is_contract_run]; exact C01.numbers_dense _

/-- the U1 case: the backend (with the U1 bit set, as SQLite behaves) rejects the conflicting template with
`ValueError`, and that is what the caller of the proxy gets (before the repair: `grpc.RpcError(UNKNOWN)`) -/
example :
    (step u1State (normOp "u" (.createTrial 0 (some u1Template) true))).2 = .err .valueError ∧
    proxyStep u1State "u" (.createTrial 0 (some u1Template) true) = (u1State, .ok (.err .valueError)) := by decide

/-- non-vacuity of the refinement: a history that is *changed* by the wire at every normal-form clause
(NOT_SET direction, empty name, values `[]` in a template and in `set_trial_state_values`, unsorted
dictionaries) and whose answers come back through every reply shape -/
example :
    let h : List (String × Op) := [
      ("u1", .createStudy "" [0]), ("", .createTrial 0 (some exampleTemplate) false), ("", .createTrial 0 none false),
      ("", .setTrialStateValues 1 .fail (some [])), ("", .setTrialUserAttr 1 "k" "v"), ("", .getAllTrials 0 (some [.complete])),
      ("", .getStudyDirections 0), ("", .getAllStudies), ("", .getBestTrial 0), ("", .getTrialParam 0 "z")]
    (proxyRun Storage.init h).2.drop 5 =
      [.ok (.trials [(0, normTrial (mkTrial 0 0 (some exampleTemplate)))]), .ok (.nats [2]),
       .ok (.studies [(0, ⟨"no-name-u1", [2], [], [], []⟩)]), .ok (.err .valueError), .ok (.str "1/2")] ∧
    (proxyRun Storage.init h).1.trials.map (·.values) = [none, none] := by
  decide

end OptunaVerif.C01Grpc
