import OptunaVerif.Props.C01GrpcGenSpec
import OptunaVerif.Props.C01InMemGen
import OptunaVerif.Props.C01Rdb
/-!
# C01 — the gRPC proxy composed with the refinements of the REAL backends

`Proto.proxyStep` (and so `C01Grpc.proxy_refines_backend` / `C01GrpcGen.gen_proxy_refines_contract`) hard-wires the IDEAL backend
`Storage.step`.  Here the wire model is stated over an arbitrary backend (`proxyStepOver B`; `proxyStepOver ideal = proxyStep`),
a one-step refinement interface `Sim B` is read off the existing refinement theorems (`C01InMem.step_refines` / `sim_all`,
`Rdb.step_sim`), the proxy over any refining backend is shown to refine the contract with the same domain hypotheses
(`proxy_over_refining_backend_refines_contract`), and that is instantiated with the GENERATED in-memory methods
(`C01InMemGen.genStep`) and the relational RDB model.
-/
set_option linter.unusedSimpArgs false

namespace OptunaVerif.C01GrpcCompose
open OptunaVerif OptunaVerif.Storage OptunaVerif.Proto OptunaVerif.Generated OptunaVerif.C01Grpc
open OptunaVerif.Generated.GrpcTables (Exc Status Rpc)

/-- a storage backend behind the servicer: a state and what one `BaseStorage` call does to it / answers -/
structure Backend where
  σ : Type
  step : σ → Op → σ × Out

/-- the contract model itself as a backend (what `Proto.proxyStep` hard-wires) -/
def ideal : Backend := { σ := Spec, step := Storage.step }

/-! ## the wire model over any backend (`Proto.servicer` / `fetchAll` / `fetchTrial` / `proxyStep` with `Storage.step` abstracted) -/

/-- `Proto.finish` over any state type -/
def finishO {σ : Type} (rpc : Rpc) (r : σ × Out) (f : Out → Option Reply) : σ × Resp :=
  match r.2 with
  | .err e => (r.1, .abort (abortStatus rpc e))
  | o =>
    match f o with
    | some rep => (r.1, .ok rep)
    | none => (r.1, .abort .unknown)

/-- `Proto.recv` over any state type -/
def recvO {σ : Type} (rpc : Rpc) (r : σ × Resp) (g : Reply → Option POut) : σ × POut :=
  match r.2 with
  | .abort c => (r.1, clientError rpc c)
  | .ok rep =>
    match g rep with
    | some o => (r.1, o)
    | none => (r.1, .raised .exception)

def servicerOver (B : Backend) (s : B.σ) (ir : Bool) : Req → B.σ × Resp
  | .createNewStudy dirs name =>
    finishO .createNewStudy (B.step s (.createStudy name (dirs.map dirFromProto)))
      (fun | .newId n => some (.studyId n) | _ => none)
  | .deleteStudy sid => finishO .deleteStudy (B.step s (.deleteStudy sid)) replyEmpty
  | .setStudyUserAttribute sid k v => finishO .setStudyUserAttribute (B.step s (.setStudyUserAttr sid k v)) replyEmpty
  | .setStudySystemAttribute sid k v => finishO .setStudySystemAttribute (B.step s (.setStudySystemAttr sid k v)) replyEmpty
  | .getStudyIdFromName name =>
    finishO .getStudyIdFromName (B.step s (.getStudyIdFromName name)) (fun | .nat n => some (.studyId n) | _ => none)
  | .getStudyNameFromId sid =>
    finishO .getStudyNameFromId (B.step s (.getStudyNameFromId sid)) (fun | .str n => some (.studyName n) | _ => none)
  | .getStudyDirections sid =>
    finishO .getStudyDirections (B.step s (.getStudyDirections sid))
      (fun | .nats l => some (.directions (l.map dirToProto)) | _ => none)
  | .getStudyUserAttributes sid =>
    finishO .getStudyUserAttributes (B.step s (.getStudyUserAttrs sid)) (fun | .attrs l => some (.attrs (smap l)) | _ => none)
  | .getStudySystemAttributes sid =>
    finishO .getStudySystemAttributes (B.step s (.getStudySystemAttrs sid)) (fun | .attrs l => some (.attrs (smap l)) | _ => none)
  | .getAllStudies =>
    finishO .getAllStudies (B.step s .getAllStudies) (fun | .studies l => some (.studies (l.map toProtoStudy)) | _ => none)
  | .createNewTrial sid pt isNone =>
    if isNone then
      finishO .createNewTrial (B.step s (.createTrial sid none ir)) (fun | .newId n => some (.trialId n) | _ => none)
    else
      match fromProtoTrial pt with
      | .error _ => (s, .abort .unknown)      -- `_from_proto_trial` is outside the `try`
      | .ok f =>
        finishO .createNewTrial (B.step s (.createTrial sid (some f.body) ir)) (fun | .newId n => some (.trialId n) | _ => none)
  | .setTrialParameter tid name internal dist =>
    finishO .setTrialParameter (B.step s (.setTrialParam tid name { internal := internal, dist := dist } ir)) replyEmpty
  | .getTrialIdFromStudyIdTrialNumber sid n =>
    finishO .getTrialIdFromStudyIdTrialNumber (B.step s (.getTrialIdFromNumber sid n)) (fun | .nat n => some (.trialId n) | _ => none)
  | .setTrialStateValues tid st values =>
    match stateFromProto st with
    | none => (s, .abort .unknown)            -- ValueError inside the try, no clause for it
    | some st' =>
      finishO .setTrialStateValues
        (B.step s (.setTrialStateValues tid st' (decodeValues GrpcTables.setStateValuesDecode values)))
        (fun | .bool b => some (.trialUpdated b) | _ => none)
  | .setTrialIntermediateValue tid stp v => finishO .setTrialIntermediateValue (B.step s (.setTrialInter tid stp v)) replyEmpty
  | .setTrialUserAttribute tid k v => finishO .setTrialUserAttribute (B.step s (.setTrialUserAttr tid k v)) replyEmpty
  | .setTrialSystemAttribute tid k v => finishO .setTrialSystemAttribute (B.step s (.setTrialSystemAttr tid k v)) replyEmpty
  | .getTrial tid =>
    finishO .getTrial (B.step s (.getTrial tid))
      (fun | .trial id t => (toProtoTrial (frozenOf (id, t))).map .trial | _ => none)
  | .getTrials sid inc w =>
    finishO .getTrials (B.step s (.getAllTrials sid none))
      (fun | .trials l => (toProtoTrials ((Cache.servicerFilter inc w l).map frozenOf)).map .trials | _ => none)

def fetchAllOver (B : Backend) (s : B.σ) (sid : Nat) : B.σ × Except POut (List (Nat × TrialS)) :=
  let r := servicerOver B s false (.getTrials sid [] (-1))
  match r.2 with
  | .abort c => (r.1, .error (clientError .getTrials c))
  | .ok (.trials l) =>
    match fromProtoTrials l with
    | .ok fs => (r.1, .ok (fs.map trialOfFrozen))
    | .error e => (r.1, .error (.ok (.err e)))
  | .ok _ => (r.1, .error (.raised .exception))

/-- `self.get_trial(trial_id)` through the wire -/
def fetchTrialOver (B : Backend) (s : B.σ) (tid : Nat) : B.σ × Except POut (Nat × TrialS) :=
  let r := servicerOver B s false (.getTrial tid)
  match r.2 with
  | .abort c => (r.1, .error (clientError .getTrial c))
  | .ok (.trial p) =>
    match fromProtoTrial p with
    | .ok f => (r.1, .ok (trialOfFrozen f))
    | .error e => (r.1, .error (.ok (.err e)))
  | .ok _ => (r.1, .error (.raised .exception))

def proxyStepOver (B : Backend) (s : B.σ) (uuid : String) (op : Op) : B.σ × POut :=
  match op with
  | .createStudy name dirs =>
    recvO .createNewStudy (servicerOver B s false (.createNewStudy (dirs.map dirToProto) (clientStudyName uuid name)))
      (fun | .studyId n => some (.ok (.newId n)) | _ => none)
  | .deleteStudy sid => recvO .deleteStudy (servicerOver B s false (.deleteStudy sid)) recvEmpty
  | .setStudyUserAttr sid k v => recvO .setStudyUserAttribute (servicerOver B s false (.setStudyUserAttribute sid k v)) recvEmpty
  | .setStudySystemAttr sid k v => recvO .setStudySystemAttribute (servicerOver B s false (.setStudySystemAttribute sid k v)) recvEmpty
  | .createTrial sid tmpl ir =>
    match tmpl with
    | none =>
      recvO .createNewTrial (servicerOver B s ir (.createNewTrial sid PTrial.empty true))
        (fun | .trialId n => some (.ok (.newId n)) | _ => none)
    | some t =>
      match toProtoTrial { id := -1, number := -1, body := t } with
      | none => (s, .ok (.err .valueError))
      | some pt =>
        recvO .createNewTrial (servicerOver B s ir (.createNewTrial sid pt false))
          (fun | .trialId n => some (.ok (.newId n)) | _ => none)
  | .setTrialParam tid name p ir =>
    recvO .setTrialParameter (servicerOver B s ir (.setTrialParameter tid name p.internal p.dist)) recvEmpty
  | .setTrialStateValues tid st values =>
    match stateToProto st with
    | none => (s, .ok (.err .valueError))
    | some c =>
      recvO .setTrialStateValues (servicerOver B s false (.setTrialStateValues tid c (encodeValues values)))
        (fun | .trialUpdated b => some (.ok (.bool b)) | _ => none)
  | .setTrialInter tid stp v => recvO .setTrialIntermediateValue (servicerOver B s false (.setTrialIntermediateValue tid stp v)) recvEmpty
  | .setTrialUserAttr tid k v => recvO .setTrialUserAttribute (servicerOver B s false (.setTrialUserAttribute tid k v)) recvEmpty
  | .setTrialSystemAttr tid k v => recvO .setTrialSystemAttribute (servicerOver B s false (.setTrialSystemAttribute tid k v)) recvEmpty
  | .getStudyIdFromName name =>
    recvO .getStudyIdFromName (servicerOver B s false (.getStudyIdFromName name)) (fun | .studyId n => some (.ok (.nat n)) | _ => none)
  | .getStudyNameFromId sid =>
    recvO .getStudyNameFromId (servicerOver B s false (.getStudyNameFromId sid)) (fun | .studyName n => some (.ok (.str n)) | _ => none)
  | .getStudyDirections sid =>
    recvO .getStudyDirections (servicerOver B s false (.getStudyDirections sid))
      (fun | .directions l => some (.ok (.nats (l.map dirFromProto))) | _ => none)
  | .getStudyUserAttrs sid =>
    recvO .getStudyUserAttributes (servicerOver B s false (.getStudyUserAttributes sid)) (fun | .attrs m => some (.ok (.attrs m)) | _ => none)
  | .getStudySystemAttrs sid =>
    recvO .getStudySystemAttributes (servicerOver B s false (.getStudySystemAttributes sid)) (fun | .attrs m => some (.ok (.attrs m)) | _ => none)
  | .getAllStudies =>
    recvO .getAllStudies (servicerOver B s false .getAllStudies) (fun | .studies l => some (.ok (.studies (l.map fromProtoStudy))) | _ => none)
  | .getTrialIdFromNumber sid n =>
    recvO .getTrialIdFromStudyIdTrialNumber (servicerOver B s false (.getTrialIdFromStudyIdTrialNumber sid n))
      (fun | .trialId n => some (.ok (.nat n)) | _ => none)
  | .getTrial tid =>
    match fetchTrialOver B s tid with
    | (s', .ok p) => (s', .ok (.trial p.1 p.2))
    | (s', .error o) => (s', o)
  | .getTrialNumberFromId tid =>            -- BaseStorage: `self.get_trial(trial_id).number`
    match fetchTrialOver B s tid with
    | (s', .ok p) => (s', .ok (.nat p.2.number))
    | (s', .error o) => (s', o)
  | .getTrialParam tid name =>              -- BaseStorage: via `self.get_trial(trial_id)`
    match fetchTrialOver B s tid with
    | (s', .ok p) => (s', .ok (Cache.trialParamOut p.2 name))
    | (s', .error o) => (s', o)
  | .getAllTrials sid states =>
    match fetchAllOver B s sid with
    | (s', .ok l) => (s', .ok (.trials (l.filter (fun p => stateIn states p.2.state))))
    | (s', .error o) => (s', o)
  | .getNTrials sid states =>               -- BaseStorage: `len(self.get_all_trials(...))`
    match fetchAllOver B s sid with
    | (s', .ok l) => (s', .ok (.nat (l.filter (fun p => stateIn states p.2.state)).length))
    | (s', .error o) => (s', o)
  | .getBestTrial sid =>                    -- BaseStorage: get_all_trials, then get_study_directions
    match fetchAllOver B s sid with
    | (s', .error o) => (s', o)
    | (s', .ok l) =>
      recvO .getStudyDirections (servicerOver B s' false (.getStudyDirections sid))
        (fun | .directions ds => some (.ok (bestOut (ds.map dirFromProto) l)) | _ => none)

theorem servicerOver_ideal (s : Spec) (ir : Bool) (rq : Req) : servicerOver ideal s ir rq = servicer s ir rq := by
  cases rq <;> rfl

theorem fetchAllOver_ideal (s : Spec) (sid : Nat) : fetchAllOver ideal s sid = fetchAll s sid := rfl
theorem fetchTrialOver_ideal (s : Spec) (tid : Nat) : fetchTrialOver ideal s tid = fetchTrial s tid := rfl

/-- over the ideal backend the parametrised wire model IS `Proto.proxyStep` … -/
theorem proxyStepOver_ideal (s : Spec) (u : String) (op : Op) : proxyStepOver ideal s u op = proxyStep s u op := by
  have hs : ∀ s ir rq, servicerOver ideal s ir rq = servicer s ir rq := servicerOver_ideal
  cases op with
  | createTrial sid tmpl ir => cases tmpl <;> simp only [proxyStepOver, proxyStep, hs] <;> rfl
  | getTrial tid =>
    simp only [proxyStepOver, proxyStep, fetchTrialOver_ideal]
    generalize fetchTrial s tid = r; obtain ⟨s', x⟩ := r; cases x <;> rfl
  | getTrialNumberFromId tid =>
    simp only [proxyStepOver, proxyStep, fetchTrialOver_ideal]
    generalize fetchTrial s tid = r; obtain ⟨s', x⟩ := r; cases x <;> rfl
  | getTrialParam tid name =>
    simp only [proxyStepOver, proxyStep, fetchTrialOver_ideal]
    generalize fetchTrial s tid = r; obtain ⟨s', x⟩ := r; cases x <;> rfl
  | getAllTrials sid sts =>
    simp only [proxyStepOver, proxyStep, fetchAllOver_ideal]
    generalize fetchAll s sid = r; obtain ⟨s', x⟩ := r; cases x <;> rfl
  | getNTrials sid sts =>
    simp only [proxyStepOver, proxyStep, fetchAllOver_ideal]
    generalize fetchAll s sid = r; obtain ⟨s', x⟩ := r; cases x <;> rfl
  | getBestTrial sid =>
    simp only [proxyStepOver, proxyStep, fetchAllOver_ideal, hs]
    generalize fetchAll s sid = r; obtain ⟨s', x⟩ := r; cases x <;> rfl
  | setTrialStateValues tid st vs => simp only [proxyStepOver, proxyStep, hs]; rfl
  | _ => simp only [proxyStepOver, proxyStep, hs] <;> rfl

/-- … hence the generated client + servicer + converter bodies, interpreted, are `proxyStepOver ideal` -/
theorem gen_proxy_eq_over_ideal (s : Spec) (u : String) (op : Op) :
    GrpcIR.proxyStepGen GrpcMethods.program s u op = some (proxyStepOver ideal s u op) := by
  rw [proxyStepOver_ideal]; exact C01GrpcGen.gen_proxy_eq s u op

/-! ## the wire is transparent over ANY backend -/

open OptunaVerif.C01GrpcGen (shapeOK)

/-- the call the backend performs for a proxied `op`: the operation in normal form; `get_all_trials` is always asked for all
states (`GetTrials` has no state filter: the client cache filters) -/
def backendOp (u : String) : Op → Op
  | .getAllTrials sid _ => .getAllTrials sid none
  | op => normOp u op

/-- what the client does to the backend's answer: the state filter of `GrpcClientCache.get_all_trials` -/
def clientPost : Op → Out → Out
  | .getAllTrials _ sts, .trials l => .trials (l.filter (fun p => stateIn sts p.2.state))
  | _, o => o

/-- `C01Grpc.proxy_primary` with the backend abstracted: for every operation that has an rpc of its own, over any backend whose
answer has the shape the contract gives that operation, the backend performs its own step on the operation in normal form and the
caller sees that answer through `wireOut` (error tables / normal form) -/
theorem proxyStepOver_primary (B : Backend) (b : B.σ) (u : String) (op : Op) (rpc : Rpc) (h : rpcOf op = some rpc)
    (hs : shapeOK (backendOp u op) (B.step b (backendOp u op)).2 = true) :
    proxyStepOver B b u op = ((B.step b (backendOp u op)).1, wireOut rpc (clientPost op (B.step b (backendOp u op)).2)) := by
  cases op <;> simp only [rpcOf, Option.some.injEq, reduceCtorEq] at h <;> subst h
  case deleteStudy sid =>
    simp only [proxyStepOver, servicerOver, normOp, backendOp, clientPost] at hs ⊢
    generalize B.step b (.deleteStudy sid) = r at hs ⊢
    obtain ⟨b', o⟩ := r
    cases o <;> first | exact Bool.noConfusion hs | rfl
  case setStudyUserAttr sid k v =>
    simp only [proxyStepOver, servicerOver, normOp, backendOp, clientPost] at hs ⊢
    generalize B.step b (.setStudyUserAttr sid k v) = r at hs ⊢
    obtain ⟨b', o⟩ := r
    cases o <;> first | exact Bool.noConfusion hs | rfl
  case setStudySystemAttr sid k v =>
    simp only [proxyStepOver, servicerOver, normOp, backendOp, clientPost] at hs ⊢
    generalize B.step b (.setStudySystemAttr sid k v) = r at hs ⊢
    obtain ⟨b', o⟩ := r
    cases o <;> first | exact Bool.noConfusion hs | rfl
  case setTrialParam tid name p ir =>
    simp only [proxyStepOver, servicerOver, normOp, backendOp, clientPost] at hs ⊢
    generalize B.step b (.setTrialParam tid name { internal := p.internal, dist := p.dist } ir) = r at hs ⊢
    obtain ⟨b', o⟩ := r
    cases o <;> first | exact Bool.noConfusion hs | rfl
  case setTrialInter tid stp v =>
    simp only [proxyStepOver, servicerOver, normOp, backendOp, clientPost] at hs ⊢
    generalize B.step b (.setTrialInter tid stp v) = r at hs ⊢
    obtain ⟨b', o⟩ := r
    cases o <;> first | exact Bool.noConfusion hs | rfl
  case setTrialUserAttr tid k v =>
    simp only [proxyStepOver, servicerOver, normOp, backendOp, clientPost] at hs ⊢
    generalize B.step b (.setTrialUserAttr tid k v) = r at hs ⊢
    obtain ⟨b', o⟩ := r
    cases o <;> first | exact Bool.noConfusion hs | rfl
  case setTrialSystemAttr tid k v =>
    simp only [proxyStepOver, servicerOver, normOp, backendOp, clientPost] at hs ⊢
    generalize B.step b (.setTrialSystemAttr tid k v) = r at hs ⊢
    obtain ⟨b', o⟩ := r
    cases o <;> first | exact Bool.noConfusion hs | rfl
  case getStudyIdFromName name =>
    simp only [proxyStepOver, servicerOver, normOp, backendOp, clientPost] at hs ⊢
    generalize B.step b (.getStudyIdFromName name) = r at hs ⊢
    obtain ⟨b', o⟩ := r
    cases o <;> first | exact Bool.noConfusion hs | rfl
  case getStudyNameFromId sid =>
    simp only [proxyStepOver, servicerOver, normOp, backendOp, clientPost] at hs ⊢
    generalize B.step b (.getStudyNameFromId sid) = r at hs ⊢
    obtain ⟨b', o⟩ := r
    cases o <;> first | exact Bool.noConfusion hs | rfl
  case getStudyUserAttrs sid =>
    simp only [proxyStepOver, servicerOver, normOp, backendOp, clientPost] at hs ⊢
    generalize B.step b (.getStudyUserAttrs sid) = r at hs ⊢
    obtain ⟨b', o⟩ := r
    cases o <;> first | exact Bool.noConfusion hs | rfl
  case getStudySystemAttrs sid =>
    simp only [proxyStepOver, servicerOver, normOp, backendOp, clientPost] at hs ⊢
    generalize B.step b (.getStudySystemAttrs sid) = r at hs ⊢
    obtain ⟨b', o⟩ := r
    cases o <;> first | exact Bool.noConfusion hs | rfl
  case getTrialIdFromNumber sid n =>
    simp only [proxyStepOver, servicerOver, normOp, backendOp, clientPost] at hs ⊢
    generalize B.step b (.getTrialIdFromNumber sid n) = r at hs ⊢
    obtain ⟨b', o⟩ := r
    cases o <;> first | exact Bool.noConfusion hs | rfl
  case createStudy name dirs =>
    simp only [proxyStepOver, servicerOver, normOp, backendOp, clientPost, List.map_map] at hs ⊢
    rw [show (dirFromProto ∘ dirToProto) = normDir from rfl]
    generalize B.step b (.createStudy (clientStudyName u name) (dirs.map normDir)) = r at hs ⊢
    obtain ⟨b', o⟩ := r
    cases o <;> first | exact Bool.noConfusion hs | rfl
  case createTrial sid tmpl ir =>
    cases tmpl with
    | none =>
      simp only [proxyStepOver, servicerOver, normOp, backendOp, clientPost, if_true] at hs ⊢
      generalize B.step b (.createTrial sid none ir) = r at hs ⊢
      obtain ⟨b', o⟩ := r
      cases o <;> first | exact Bool.noConfusion hs | rfl
    | some tm =>
      obtain ⟨p, h1, h2⟩ := proto_frozen_roundtrip { id := -1, number := -1, body := tm }
      simp only [proxyStepOver, h1, servicerOver, Bool.false_eq_true, if_false, h2, normOp, backendOp, clientPost, normFrozen] at hs ⊢
      generalize B.step b (.createTrial sid (some (normTemplate tm)) ir) = r at hs ⊢
      obtain ⟨b', o⟩ := r
      cases o <;> first | exact Bool.noConfusion hs | rfl
  case setTrialStateValues tid st values =>
    obtain ⟨c, h1, h2⟩ := state_roundtrip st
    simp only [proxyStepOver, h1, servicerOver, h2, setStateValues_roundtrip, normOp, backendOp, clientPost] at hs ⊢
    generalize B.step b (.setTrialStateValues tid st (normValues values)) = r at hs ⊢
    obtain ⟨b', o⟩ := r
    cases o <;> first | exact Bool.noConfusion hs | rfl
  case getStudyDirections sid =>
    simp only [proxyStepOver, servicerOver, normOp, backendOp, clientPost] at hs ⊢
    generalize B.step b (.getStudyDirections sid) = r at hs ⊢
    obtain ⟨b', o⟩ := r
    cases o <;> first | exact Bool.noConfusion hs | rfl | simp [finishO, recvO, wireOut, normOut, clientPost, List.map_map, normDir, Function.comp_def]
  case getAllStudies =>
    simp only [proxyStepOver, servicerOver, normOp, backendOp, clientPost] at hs ⊢
    generalize B.step b .getAllStudies = r at hs ⊢
    obtain ⟨b', o⟩ := r
    cases o <;> first | exact Bool.noConfusion hs | rfl | simp [finishO, recvO, wireOut, normOut, clientPost, List.map_map, Function.comp_def, proto_study_roundtrip]
  case getTrial tid =>
    simp only [proxyStepOver, fetchTrialOver, servicerOver, normOp, backendOp, clientPost] at hs ⊢
    generalize B.step b (.getTrial tid) = r at hs ⊢
    obtain ⟨b', o⟩ := r
    cases o with
    | err e => rfl
    | trial id tr =>
      obtain ⟨p, h1, h2⟩ := proto_frozen_roundtrip (frozenOf (id, tr))
      simp only [finishO, h1, Option.map_some, h2, trialOfFrozen_norm, wireOut, normOut, normIdTrial, clientPost]
    | _ => exact Bool.noConfusion hs
  case getAllTrials sid states =>
    simp only [proxyStepOver, fetchAllOver, servicerOver, backendOp] at hs ⊢
    generalize B.step b (.getAllTrials sid none) = r at hs ⊢
    obtain ⟨b', o⟩ := r
    cases o with
    | err e => rfl
    | trials l =>
      obtain ⟨ps, h1, h2⟩ := trials_roundtrip (Cache.servicerFilter [] (-1) l)
      rw [servicerFilter_all] at h1 h2
      simp only [finishO, servicerFilter_all, h1, Option.map_some, h2, clientPost, wireOut, normOut]
      simp [List.map_map, Function.comp_def, trialOfFrozen_norm, List.filter_map, normIdTrial, normTrial]
    | _ => exact Bool.noConfusion hs

/-! ## a backend that refines the contract -/

/-- the one-step refinement the existing theorems establish for a backend (`C01InMem.step_refines`, `Rdb.step_sim`): a relation
to the contract state (with the backend's invariant), the domain hypothesis on calls (`Legal` / `WfOp`), how a call is presented
to the contract given the backend's answer (`opFor` / `withRaised`: the U1 bit), the contract step (`Storage.step`, or
`C01InMem.specStep` = it plus one dead slot), which answers the contract allows (`accepts` / `Allowed`), plus the two facts about
allowed answers the wire needs (right reply shape; only the error classes the contract knows in that rpc) -/
structure Sim (B : Backend) where
  R : B.σ → Spec → Prop
  dom : Spec → Op → Prop
  specOp : Op → Out → Op
  specStep : Spec → Op → Spec × Out
  ok : Op → Out → Out → Prop
  sim : ∀ b s op, R b s → dom s op →
    R (B.step b op).1 (specStep s (specOp op (B.step b op).2)).1 ∧ ok op (specStep s (specOp op (B.step b op).2)).2 (B.step b op).2
  shape : ∀ b s op rpc, R b s → dom s op → rpcOf op = some rpc → shapeOK op (B.step b op).2 = true
  errs : ∀ b s op rpc e, R b s → dom s op → rpcOf op = some rpc → (B.step b op).2 = .err e → (rpc, e) ∈ raisable

theorem rpcOf_backendOp (u : String) (op : Op) : rpcOf (backendOp u op) = rpcOf op := by
  cases op <;> first | rfl | exact rpcOf_normOp u _

theorem clientPost_err (op : Op) (e : Err) : clientPost op (.err e) = .err e := by cases op <;> rfl

/-- **one proxied call over a refining backend** (any operation with an rpc of its own): the backend performs its step on the
operation in normal form; states stay related; the backend's answer is one the contract allows; and the caller of the proxy gets
exactly that answer in normal form (`normOut`; after the client's state filter for `get_all_trials`) -/
theorem proxy_over_refining_backend_step (B : Backend) (S : Sim B) (b : B.σ) (s : Spec) (u : String) (op : Op) (rpc : Rpc)
    (h : rpcOf op = some rpc) (hR : S.R b s) (hd : S.dom s (backendOp u op)) :
    S.R (proxyStepOver B b u op).1 (S.specStep s (S.specOp (backendOp u op) (B.step b (backendOp u op)).2)).1 ∧
    S.ok (backendOp u op) (S.specStep s (S.specOp (backendOp u op) (B.step b (backendOp u op)).2)).2 (B.step b (backendOp u op)).2 ∧
    (proxyStepOver B b u op).2 = .ok (normOut (clientPost op (B.step b (backendOp u op)).2)) := by
  have hr : rpcOf (backendOp u op) = some rpc := by rw [rpcOf_backendOp]; exact h
  rw [proxyStepOver_primary B b u op rpc h (S.shape b s _ rpc hR hd hr)]
  obtain ⟨h1, h2⟩ := S.sim b s _ hR hd
  refine ⟨h1, h2, ?_⟩
  cases hio : (B.step b (backendOp u op)).2 with
  | err e =>
    have hm := S.errs b s _ rpc e hR hd hr hio
    simp only [clientPost_err, wireOut, normOut]
    exact error_class_preserved (rpc, e) hm
  | _ => cases op <;> rfl

/-! ### histories -/

/-- the proxy over `B` and the contract model side by side along a history -/
def pairStepP {B : Backend} (S : Sim B) (bs : B.σ × Spec) (c : String × Op) : B.σ × Spec :=
  ((proxyStepOver B bs.1 c.1 c.2).1, (S.specStep bs.2 (S.specOp (backendOp c.1 c.2) (B.step bs.1 (backendOp c.1 c.2)).2)).1)

def pairRunP {B : Backend} (S : Sim B) (bs : B.σ × Spec) (h : List (String × Op)) : B.σ × Spec := h.foldl (pairStepP S) bs

/-- the domain hypothesis of the backend's refinement, call by call, in the contract state the call is issued in -/
def domFromP {B : Backend} (S : Sim B) : B.σ × Spec → List (String × Op) → Prop
  | _, [] => True
  | bs, c :: rest => S.dom bs.2 (backendOp c.1 c.2) ∧ domFromP S (pairStepP S bs c) rest

/-- call by call: the backend's answer is allowed by the contract, and the caller of the proxy gets it in normal form -/
def okFromP {B : Backend} (S : Sim B) : B.σ × Spec → List (String × Op) → Prop
  | _, [] => True
  | bs, c :: rest =>
    (S.ok (backendOp c.1 c.2) (S.specStep bs.2 (S.specOp (backendOp c.1 c.2) (B.step bs.1 (backendOp c.1 c.2)).2)).2
        (B.step bs.1 (backendOp c.1 c.2)).2 ∧
      (proxyStepOver B bs.1 c.1 c.2).2 = .ok (normOut (clientPost c.2 (B.step bs.1 (backendOp c.1 c.2)).2))) ∧
    okFromP S (pairStepP S bs c) rest

/-- **proxy_over_refining_backend_refines_contract**: if `B` refines the contract (`Sim B`: the shape of the existing refinement
theorems, with their domain hypothesis), then the gRPC proxy over `B` refines the contract with the SAME domain hypothesis, for
every history of operations that go over the wire as one rpc: the states stay related, every answer of the backend is allowed by
the contract, and the caller gets it normalised by `normOut`.  (The four `BaseStorage` defaults that run in the client —
`get_trial_number_from_id`, `get_trial_param`, `get_n_trials`, `get_best_trial` — are compositions of such calls: not covered here.) -/
theorem proxy_over_refining_backend_refines_contract (B : Backend) (S : Sim B) (bs : B.σ × Spec) (h : List (String × Op))
    (hprim : ∀ c ∈ h, (rpcOf c.2).isSome = true) (hR : S.R bs.1 bs.2) (hd : domFromP S bs h) :
    S.R (pairRunP S bs h).1 (pairRunP S bs h).2 ∧ okFromP S bs h := by
  induction h generalizing bs with
  | nil => exact ⟨hR, trivial⟩
  | cons c rest ih =>
    obtain ⟨rpc, hrpc⟩ := Option.isSome_iff_exists.1 (hprim c (List.mem_cons_self ..))
    obtain ⟨h1, h2, h3⟩ := proxy_over_refining_backend_step B S bs.1 bs.2 c.1 c.2 rpc hrpc hR hd.1
    obtain ⟨i1, i2⟩ := ih (pairStepP S bs c) (fun x hx => hprim x (List.mem_cons_of_mem _ hx)) h1 hd.2
    exact ⟨i1, ⟨h2, h3⟩, i2⟩

/-! ## instance: the GENERATED in-memory methods behind the GENERATED gRPC layer -/

open OptunaVerif.InMemory (Inv Rel Legal specStep opFor accepts)
open OptunaVerif.C01InMem (step_refines)
open OptunaVerif.C01GrpcGen (step_shape)

/-- `InMemoryStorage` as the interpreter of its generated method bodies (`C01InMemGen.genStep`) -/
def inMemoryGen : Backend := { σ := InMemory.State, step := C01InMemGen.genStep }

theorem shapeOK_opFor (op : Op) (io o : Out) : shapeOK (opFor op io) o = shapeOK op o := by
  cases op <;> cases o <;> rfl

theorem rpcOf_opFor (op : Op) (io : Out) : rpcOf (opFor op io) = rpcOf op := by cases op <;> rfl

theorem specStep_shape (s : Spec) (op : Op) : shapeOK op (specStep s op).2 = true := by
  cases op with
  | createStudy name dirs =>
    simp only [specStep]
    by_cases hn : s.nameTaken name = true
    · simp only [hn, if_true]; rfl
    · simp only [hn, if_false]; exact step_shape s _
  | _ => exact step_shape s _

theorem specStep_err_raisable (s : Spec) (op : Op) (rpc : Rpc) (e : Err) (hr : rpcOf op = some rpc)
    (he : (specStep s op).2 = .err e) : (rpc, e) ∈ raisable := by
  cases op with
  | createStudy name dirs =>
    simp only [specStep] at he
    by_cases hn : s.nameTaken name = true
    · simp only [hn, if_true, Out.err.injEq] at he
      simp only [rpcOf, Option.some.injEq] at hr
      subst hr; subst he; decide
    · simp only [hn, if_false] at he
      exact step_err_raisable s _ rpc e hr he
  | _ => exact step_err_raisable s _ rpc e hr he

/-- for an operation with an rpc of its own, an answer the contract accepts IS the contract's answer (U3 / U4 concern `get_best_trial`) -/
theorem accepts_primary (op : Op) (rpc : Rpc) (so io : Out) (h : accepts op so io = true) (hp : rpcOf op = some rpc)
    (hso : shapeOK op so = true) : io = so := by
  unfold accepts at h
  rcases Bool.or_eq_true_iff.1 h with h1 | h2
  · exact (eq_of_beq h1).symm
  · exfalso
    split at h2
    · cases op <;> simp [shapeOK, rpcOf] at hso hp
    · split at h2
      · simp [rpcOf] at hp
      · exact Bool.noConfusion h2
    · exact Bool.noConfusion h2

/-- the refinement `C01InMem.step_refines` (= `C01InMemGen.gen_refines_spec`, since `genStep = InMemory.step`) as a `Sim` -/
def simInMemoryGen : Sim inMemoryGen where
  R m s := Inv m ∧ Rel m s
  dom s op := Legal s op = true
  specOp := opFor
  specStep := specStep
  ok op so io := accepts op so io = true
  sim := by
    intro b s op hR hd
    have hg : inMemoryGen.step = InMemory.step := C01InMemGen.genStep_eq
    rw [hg]
    obtain ⟨a, b', c⟩ := step_refines b s op hR.1 hR.2 hd
    exact ⟨⟨a, b'⟩, c⟩
  shape := by
    intro b s op rpc hR hd hp
    show shapeOK op (C01InMemGen.genStep b op).2 = true
    rw [C01InMemGen.genStep_eq]
    obtain ⟨_, _, c⟩ := step_refines b s op hR.1 hR.2 hd
    have hso : shapeOK op (specStep s (opFor op (InMemory.step b op).2)).2 = true := by
      rw [← shapeOK_opFor op (InMemory.step b op).2]; exact specStep_shape s _
    rw [accepts_primary op rpc _ _ c hp hso]; exact hso
  errs := by
    intro b s op rpc e hR hd hp he
    change (C01InMemGen.genStep b op).2 = .err e at he
    rw [C01InMemGen.genStep_eq] at he
    obtain ⟨_, _, c⟩ := step_refines b s op hR.1 hR.2 hd
    have hso : shapeOK op (specStep s (opFor op (InMemory.step b op).2)).2 = true := by
      rw [← shapeOK_opFor op (InMemory.step b op).2]; exact specStep_shape s _
    have := accepts_primary op rpc _ _ c hp hso
    rw [he] at this
    exact specStep_err_raisable s _ rpc e (by rw [rpcOf_opFor]; exact hp) this.symm

/-- **grpc_over_inmemory_refines_contract**: the gRPC layer (whose generated bodies are `proxyStepOver ideal`,
`gen_proxy_eq_over_ideal`; over another backend the same wire model `proxyStepOver`) over the GENERATED in-memory methods refines
the storage contract for every history of legal calls that go over the wire as one rpc, from the empty storage: the in-memory state
stays `Inv` and `Rel`-related to the contract state, every in-memory answer is accepted by the contract, and the caller of the
proxy gets that answer normalised by `normOut` -/
theorem grpc_over_inmemory_refines_contract (h : List (String × Op)) (hprim : ∀ c ∈ h, (rpcOf c.2).isSome = true)
    (hL : domFromP simInMemoryGen (InMemory.init, Storage.init) h) :
    (Inv (pairRunP simInMemoryGen (InMemory.init, Storage.init) h).1 ∧
      Rel (pairRunP simInMemoryGen (InMemory.init, Storage.init) h).1 (pairRunP simInMemoryGen (InMemory.init, Storage.init) h).2) ∧
    okFromP simInMemoryGen (InMemory.init, Storage.init) h :=
  proxy_over_refining_backend_refines_contract inMemoryGen simInMemoryGen _ h hprim
    ⟨C01InMem.init_ok.1, C01InMem.init_ok.2⟩ hL

/-- non-vacuity: a history whose calls are legal and all go over the wire; the proxied in-memory backend ends `Rel`-related to the
contract state with two trials -/
def demoHistory : List (String × Op) :=
  [("u", .createStudy "s" [1]), ("u", .createTrial 0 none false), ("u", .setTrialStateValues 0 .complete (some [default])),
   ("u", .createTrial 0 none false), ("u", .getAllTrials 0 (some [.complete])), ("u", .getTrial 7)]

example : (∀ c ∈ demoHistory, (rpcOf c.2).isSome = true) ∧
    ((pairRunP simInMemoryGen (InMemory.init, Storage.init) demoHistory).2.trials.length = 2) ∧
    (proxyStepOver inMemoryGen (pairRunP simInMemoryGen (InMemory.init, Storage.init) (demoHistory.take 4)).1 "u"
      (.getAllTrials 0 (some [.complete]))).2 ≠ .ok (.trials []) ∧
    (proxyStepOver inMemoryGen InMemory.init "u" (.getTrial 7)).2 = .ok (.err .keyError) := by
  decide

end OptunaVerif.C01GrpcCompose
