import OptunaVerif.Generated.GrpcMethods
/-!
# C01, gRPC layer — the method bodies as written today, interpreted, are the wire model (T-grpc2)

`Generated/GrpcMethods.lean` is rewritten from optuna/storages/_grpc/servicer.py and client.py on every run
(verif/translators/tgrpc2.py); `Model/GrpcIR.lean` interprets it.  This file proves, for ALL backend states and ALL
arguments:

* `interp_toProtoState` … `interp_fromProtoTrial`: the generated converter functions are `Proto.stateToProto` /
  `stateFromProto` / `toProtoTrial` / `fromProtoTrial`;
* `interp_servicer_<Rpc>` (19): the generated rpc method is `Proto.servicer` on that request; `gen_servicer_eq`;
* `interp_client_<method>` (19 + the wire half of `_read_trials_from_remote_storage`): the generated client method over
  the servicer is `Proto.proxyStep` on that operation; `gen_proxy_eq`;
* hence `gen_proxy_refines_contract`, `gen_error_mapping_roundtrip`, `gen_every_contract_method_has_rpc`
  (the theorems of Props/C01Grpc.lean, restated for the interpreter of the generated bodies).
-/
set_option linter.unusedSimpArgs false

namespace OptunaVerif.C01GrpcGen
open OptunaVerif OptunaVerif.Storage OptunaVerif.Proto OptunaVerif.GrpcIR OptunaVerif.Generated
open OptunaVerif.Generated.GrpcTables (Exc Status Rpc)
open OptunaVerif.Generated.GrpcMethods (program)

/-! ## the shape of the contract's answers -/

/-- the shape of the answer `Storage.step` gives to each operation -/
def shapeOK : Op → Out → Bool
  | _, .err _ => true
  | .createStudy .., .newId _ => true
  | .deleteStudy .., .unit => true
  | .setStudyUserAttr .., .unit => true
  | .setStudySystemAttr .., .unit => true
  | .createTrial .., .newId _ => true
  | .setTrialParam .., .unit => true
  | .setTrialStateValues .., .bool _ => true
  | .setTrialInter .., .unit => true
  | .setTrialUserAttr .., .unit => true
  | .setTrialSystemAttr .., .unit => true
  | .getStudyIdFromName .., .nat _ => true
  | .getStudyNameFromId .., .str _ => true
  | .getStudyDirections .., .nats _ => true
  | .getStudyUserAttrs .., .attrs _ => true
  | .getStudySystemAttrs .., .attrs _ => true
  | .getAllStudies, .studies _ => true
  | .getTrialIdFromNumber .., .nat _ => true
  | .getTrialNumberFromId .., .nat _ => true
  | .getTrialParam .., .str _ => true
  | .getTrial .., .trial .. => true
  | .getAllTrials .., .trials _ => true
  | .getNTrials .., .nat _ => true
  | .getBestTrial .., .oneOf _ => true
  | _, _ => false

theorem step_shape (s : Spec) (op : Op) : shapeOK op (step s op).2 = true := by
  cases op <;> simp only [step]
  all_goals (repeat' split)
  all_goals first | rfl | skip

example : shapeOK (.deleteStudy 0) (.newId 0) = false ∧ shapeOK (.deleteStudy 0) (step Storage.init (.deleteStudy 0)).2 = true := by
  decide

/-- the converter denotations a servicer / client method sees are the hand model's -/
structure Conv (c : Ctx) : Prop where
  toTrial : c.toProtoTrial = toProtoTrial
  fromTrial : c.fromProtoTrial = fromProtoTrial
  toState : c.toProtoState = stateToProto
  fromState : c.fromProtoState = stateFromProto

theorem conv_hand (ir : Bool) (u : String) : Conv (Ctx.hand ir u) := ⟨rfl, rfl, rfl, rfl⟩

/-! ## evaluation lemmas (each by `rfl`; they keep `simp` from unfolding the big matchers) -/

theorem opOf_1 (ir) (dirs : List Nat) (name : String) : opOf ir .create_new_study [.nats dirs, .str name] = some (.createStudy name dirs) := rfl
theorem opOf_2 (ir) (sid : Nat) : opOf ir .delete_study [.nat sid] = some (.deleteStudy sid) := rfl
theorem opOf_3 (ir) (sid : Nat) (k v : String) : opOf ir .set_study_user_attr [.nat sid, .str k, .str v] = some (.setStudyUserAttr sid k v) := rfl
theorem opOf_4 (ir) (sid : Nat) (k v : String) : opOf ir .set_study_system_attr [.nat sid, .str k, .str v] = some (.setStudySystemAttr sid k v) := rfl
theorem opOf_5 (ir) (n : String) : opOf ir .get_study_id_from_name [.str n] = some (.getStudyIdFromName n) := rfl
theorem opOf_6 (ir) (sid : Nat) : opOf ir .get_study_name_from_id [.nat sid] = some (.getStudyNameFromId sid) := rfl
theorem opOf_7 (ir) (sid : Nat) : opOf ir .get_study_directions [.nat sid] = some (.getStudyDirections sid) := rfl
theorem opOf_8 (ir) (sid : Nat) : opOf ir .get_study_user_attrs [.nat sid] = some (.getStudyUserAttrs sid) := rfl
theorem opOf_9 (ir) (sid : Nat) : opOf ir .get_study_system_attrs [.nat sid] = some (.getStudySystemAttrs sid) := rfl
theorem opOf_10 (ir) : opOf ir .get_all_studies [] = some .getAllStudies := rfl
theorem opOf_11 (ir) (sid : Nat) : opOf ir .create_new_trial [.nat sid, .none] = some (.createTrial sid none ir) := rfl
theorem opOf_12 (ir) (sid : Nat) (f : Frozen) : opOf ir .create_new_trial [.nat sid, .frozen f] = some (.createTrial sid (some f.body) ir) := rfl
theorem opOf_13 (ir) (tid : Nat) (n i : String) (d : Dist) :
    opOf ir .set_trial_param [.nat tid, .str n, .str i, .dist d] = some (.setTrialParam tid n { internal := i, dist := d } ir) := rfl
theorem opOf_14 (ir) (sid n : Nat) : opOf ir .get_trial_id_from_study_id_trial_number [.nat sid, .nat n] = some (.getTrialIdFromNumber sid n) := rfl
theorem opOf_15 (ir) (tid : Nat) (st : TState) : opOf ir .set_trial_state_values [.nat tid, .state st, .none] = some (.setTrialStateValues tid st none) := rfl
theorem opOf_16 (ir) (tid : Nat) (st : TState) (l : List XVal) :
    opOf ir .set_trial_state_values [.nat tid, .state st, .xvals l] = some (.setTrialStateValues tid st (some l)) := rfl
theorem opOf_17 (ir) (tid : Nat) (stp : Int) (v : XVal) : opOf ir .set_trial_intermediate_value [.nat tid, .int stp, .xval v] = some (.setTrialInter tid stp v) := rfl
theorem opOf_18 (ir) (tid : Nat) (k v : String) : opOf ir .set_trial_user_attr [.nat tid, .str k, .str v] = some (.setTrialUserAttr tid k v) := rfl
theorem opOf_19 (ir) (tid : Nat) (k v : String) : opOf ir .set_trial_system_attr [.nat tid, .str k, .str v] = some (.setTrialSystemAttr tid k v) := rfl
theorem opOf_20 (ir) (tid : Nat) : opOf ir .get_trial [.nat tid] = some (.getTrial tid) := rfl
theorem opOf_21 (ir) (sid : Nat) : opOf ir .get_all_trials [.nat sid] = some (.getAllTrials sid none) := rfl

theorem thenExec_next (k : St → St × Flow) (st : St) : thenExec k (st, .next) = k st := rfl
theorem thenExec_ret (k : St → St × Flow) (st : St) (v : Val) : thenExec k (st, .ret v) = (st, .ret v) := rfl
theorem thenExec_raised (k : St → St × Flow) (st : St) (e : Exn) : thenExec k (st, .raised e) = (st, .raised e) := rfl
theorem handleTry_next (k : St → St × Flow) (st : St) : handleTry k (st, .next) = (st, .next) := rfl
theorem handleTry_raised (k : St → St × Flow) (st : St) (e : Exn) : handleTry k (st, .raised e) = k { st with cur := some e } := rfl

/-! ## list lemmas for the comprehensions -/

theorem mapAllE_map_ok {α β γ : Type} (g : α → β) (f : β → Except Exn γ) (h : α → γ) (l : List α)
    (hf : ∀ a, f (g a) = .ok (h a)) : mapAllE f (l.map g) = .ok (l.map h) := by
  induction l with
  | nil => rfl
  | cons a t ih => simp only [List.map_cons, mapAllE, hf, ih]

theorem mapAll_map_some {α β γ : Type} (g : α → β) (f : β → Option γ) (h : α → γ) (l : List α)
    (hf : ∀ a, f (g a) = some (h a)) : mapAll f (l.map g) = some (l.map h) := by
  induction l with
  | nil => rfl
  | cons a t ih => simp only [List.map_cons, mapAll, hf, ih]

theorem filterE_map_ok {α β : Type} (g : α → β) (f : β → Except Exn Bool) (p : α → Bool) (l : List α)
    (hf : ∀ a, f (g a) = .ok (p a)) : filterE f (l.map g) = .ok ((l.filter p).map g) := by
  induction l with
  | nil => rfl
  | cons a t ih =>
    simp only [List.map_cons, filterE, hf, ih, List.filter_cons]
    cases p a <;> rfl

/-- `[_to_proto_trial(t) for t in fs]` is `Proto.toProtoTrials` (the first failure is a `ValueError` in both) -/
theorem mapAllE_toProtoTrials (F : Val → Except Exn Val)
    (hF : ∀ f, F (.frozen f) = match toProtoTrial f with | some p => .ok (.ptrial p) | none => .error (.exc .valueError))
    (fs : List Frozen) :
    mapAllE F (fs.map .frozen) = match toProtoTrials fs with
      | some ps => .ok (ps.map .ptrial)
      | none => .error (.exc .valueError) := by
  induction fs with
  | nil => rfl
  | cons f t ih =>
    simp only [List.map_cons, mapAllE, hF, ih, toProtoTrials]
    cases toProtoTrial f <;> cases toProtoTrials t <;> rfl

/-! ## the servicer -/

syntax "srv_expose" ident : tactic
macro_rules
  | `(tactic| srv_expose $b) => `(tactic|
    simp only [$b:ident, interpServicer, block, exec, eval, evalFields, evalList, Env.get, Env.set, getField, reqField, opOf_1, opOf_2, opOf_3, opOf_4, opOf_5, opOf_6, opOf_7, opOf_8, opOf_9, opOf_10, opOf_11, opOf_12,
      opOf_13, opOf_14, opOf_15, opOf_16, opOf_17, opOf_18, opOf_19, opOf_20, opOf_21, servicer,
      thenExec_next, handleTry_next, applyFn, truthy, bindInto, String.reduceBEq, cond_true, cond_false, if_true, if_false, Bool.not_true, Bool.not_false, Bool.false_eq_true])

/-- close a goal in which the backend's answer has been generalised to `(s', o)` with `hs : shapeOK op (s', o).2` -/
syntax "srv_close" ident ident : tactic
macro_rules
  | `(tactic| srv_close $o $hs) => `(tactic|
    (cases $o:ident with
     | err e => cases e <;> rfl
     | _ => first | (exact Bool.noConfusion $hs) | rfl))

theorem interp_servicer_deleteStudy (c : Ctx) (s : Spec) (sid : Nat) :
    interpServicer GrpcMethods.servicerDeleteStudy c s (.deleteStudy sid) = some (servicer s c.ir (.deleteStudy sid)) := by
  have hs := step_shape s (.deleteStudy sid)
  srv_expose GrpcMethods.servicerDeleteStudy
  generalize step s (.deleteStudy sid) = r at hs ⊢
  obtain ⟨s', o⟩ := r
  srv_close o hs

theorem interp_servicer_setStudyUserAttribute (c : Ctx) (s : Spec) (sid : Nat) (k v : String) :
    interpServicer GrpcMethods.servicerSetStudyUserAttribute c s (.setStudyUserAttribute sid k v) = some (servicer s c.ir (.setStudyUserAttribute sid k v)) := by
  have hs := step_shape s (.setStudyUserAttr sid k v)
  srv_expose GrpcMethods.servicerSetStudyUserAttribute
  generalize step s (.setStudyUserAttr sid k v) = r at hs ⊢
  obtain ⟨s', o⟩ := r
  srv_close o hs

theorem interp_servicer_setStudySystemAttribute (c : Ctx) (s : Spec) (sid : Nat) (k v : String) :
    interpServicer GrpcMethods.servicerSetStudySystemAttribute c s (.setStudySystemAttribute sid k v) = some (servicer s c.ir (.setStudySystemAttribute sid k v)) := by
  have hs := step_shape s (.setStudySystemAttr sid k v)
  srv_expose GrpcMethods.servicerSetStudySystemAttribute
  generalize step s (.setStudySystemAttr sid k v) = r at hs ⊢
  obtain ⟨s', o⟩ := r
  srv_close o hs

theorem interp_servicer_getStudyIdFromName (c : Ctx) (s : Spec) (name : String) :
    interpServicer GrpcMethods.servicerGetStudyIdFromName c s (.getStudyIdFromName name) = some (servicer s c.ir (.getStudyIdFromName name)) := by
  have hs := step_shape s (.getStudyIdFromName name)
  srv_expose GrpcMethods.servicerGetStudyIdFromName
  generalize step s (.getStudyIdFromName name) = r at hs ⊢
  obtain ⟨s', o⟩ := r
  srv_close o hs

theorem interp_servicer_getStudyNameFromId (c : Ctx) (s : Spec) (sid : Nat) :
    interpServicer GrpcMethods.servicerGetStudyNameFromId c s (.getStudyNameFromId sid) = some (servicer s c.ir (.getStudyNameFromId sid)) := by
  have hs := step_shape s (.getStudyNameFromId sid)
  srv_expose GrpcMethods.servicerGetStudyNameFromId
  generalize step s (.getStudyNameFromId sid) = r at hs ⊢
  obtain ⟨s', o⟩ := r
  srv_close o hs

theorem interp_servicer_getStudyUserAttributes (c : Ctx) (s : Spec) (sid : Nat) :
    interpServicer GrpcMethods.servicerGetStudyUserAttributes c s (.getStudyUserAttributes sid) = some (servicer s c.ir (.getStudyUserAttributes sid)) := by
  have hs := step_shape s (.getStudyUserAttrs sid)
  srv_expose GrpcMethods.servicerGetStudyUserAttributes
  generalize step s (.getStudyUserAttrs sid) = r at hs ⊢
  obtain ⟨s', o⟩ := r
  srv_close o hs

theorem interp_servicer_getStudySystemAttributes (c : Ctx) (s : Spec) (sid : Nat) :
    interpServicer GrpcMethods.servicerGetStudySystemAttributes c s (.getStudySystemAttributes sid) = some (servicer s c.ir (.getStudySystemAttributes sid)) := by
  have hs := step_shape s (.getStudySystemAttrs sid)
  srv_expose GrpcMethods.servicerGetStudySystemAttributes
  generalize step s (.getStudySystemAttrs sid) = r at hs ⊢
  obtain ⟨s', o⟩ := r
  srv_close o hs

theorem interp_servicer_setTrialParameter (c : Ctx) (s : Spec) (tid : Nat) (name internal : String) (d : Dist) :
    interpServicer GrpcMethods.servicerSetTrialParameter c s (.setTrialParameter tid name internal d) = some (servicer s c.ir (.setTrialParameter tid name internal d)) := by
  have hs := step_shape s (.setTrialParam tid name { internal := internal, dist := d } c.ir)
  srv_expose GrpcMethods.servicerSetTrialParameter
  generalize step s (.setTrialParam tid name { internal := internal, dist := d } c.ir) = r at hs ⊢
  obtain ⟨s', o⟩ := r
  srv_close o hs

theorem interp_servicer_getTrialIdFromStudyIdTrialNumber (c : Ctx) (s : Spec) (sid n : Nat) :
    interpServicer GrpcMethods.servicerGetTrialIdFromStudyIdTrialNumber c s (.getTrialIdFromStudyIdTrialNumber sid n) = some (servicer s c.ir (.getTrialIdFromStudyIdTrialNumber sid n)) := by
  have hs := step_shape s (.getTrialIdFromNumber sid n)
  srv_expose GrpcMethods.servicerGetTrialIdFromStudyIdTrialNumber
  generalize step s (.getTrialIdFromNumber sid n) = r at hs ⊢
  obtain ⟨s', o⟩ := r
  srv_close o hs

theorem interp_servicer_setTrialIntermediateValue (c : Ctx) (s : Spec) (tid : Nat) (stp : Int) (v : XVal) :
    interpServicer GrpcMethods.servicerSetTrialIntermediateValue c s (.setTrialIntermediateValue tid stp v) = some (servicer s c.ir (.setTrialIntermediateValue tid stp v)) := by
  have hs := step_shape s (.setTrialInter tid stp v)
  srv_expose GrpcMethods.servicerSetTrialIntermediateValue
  generalize step s (.setTrialInter tid stp v) = r at hs ⊢
  obtain ⟨s', o⟩ := r
  srv_close o hs

theorem interp_servicer_setTrialUserAttribute (c : Ctx) (s : Spec) (tid : Nat) (k v : String) :
    interpServicer GrpcMethods.servicerSetTrialUserAttribute c s (.setTrialUserAttribute tid k v) = some (servicer s c.ir (.setTrialUserAttribute tid k v)) := by
  have hs := step_shape s (.setTrialUserAttr tid k v)
  srv_expose GrpcMethods.servicerSetTrialUserAttribute
  generalize step s (.setTrialUserAttr tid k v) = r at hs ⊢
  obtain ⟨s', o⟩ := r
  srv_close o hs

theorem interp_servicer_setTrialSystemAttribute (c : Ctx) (s : Spec) (tid : Nat) (k v : String) :
    interpServicer GrpcMethods.servicerSetTrialSystemAttribute c s (.setTrialSystemAttribute tid k v) = some (servicer s c.ir (.setTrialSystemAttribute tid k v)) := by
  have hs := step_shape s (.setTrialSystemAttr tid k v)
  srv_expose GrpcMethods.servicerSetTrialSystemAttribute
  generalize step s (.setTrialSystemAttr tid k v) = r at hs ⊢
  obtain ⟨s', o⟩ := r
  srv_close o hs

theorem interp_servicer_createNewStudy (c : Ctx) (s : Spec) (dirs : List Nat) (name : String) :
    interpServicer GrpcMethods.servicerCreateNewStudy c s (.createNewStudy dirs name) = some (servicer s c.ir (.createNewStudy dirs name)) := by
  have hs := step_shape s (.createStudy name (dirs.map dirFromProto))
  srv_expose GrpcMethods.servicerCreateNewStudy
  rw [show (fun d : Nat => if d = 0 then 1 else 2) = dirFromProto from rfl]
  generalize step s (.createStudy name (dirs.map dirFromProto)) = r at hs ⊢
  obtain ⟨s', o⟩ := r
  srv_close o hs

theorem interp_servicer_getStudyDirections (c : Ctx) (s : Spec) (sid : Nat) :
    interpServicer GrpcMethods.servicerGetStudyDirections c s (.getStudyDirections sid) = some (servicer s c.ir (.getStudyDirections sid)) := by
  have hs := step_shape s (.getStudyDirections sid)
  srv_expose GrpcMethods.servicerGetStudyDirections
  generalize step s (.getStudyDirections sid) = r at hs ⊢
  obtain ⟨s', o⟩ := r
  srv_close o hs

theorem interp_servicer_createNewTrial (c : Ctx) (hc : Conv c) (s : Spec) (sid : Nat) (pt : PTrial) (b : Bool) :
    interpServicer GrpcMethods.servicerCreateNewTrial c s (.createNewTrial sid pt b) = some (servicer s c.ir (.createNewTrial sid pt b)) := by
  cases b
  · cases hf : fromProtoTrial pt with
    | error e =>
      srv_expose GrpcMethods.servicerCreateNewTrial
      simp only [hc.fromTrial, hf]
      cases e <;> rfl
    | ok f =>
      have hs := step_shape s (.createTrial sid (some f.body) c.ir)
      srv_expose GrpcMethods.servicerCreateNewTrial
      simp only [hc.fromTrial, hf, thenExec_next, Env.get, String.reduceBEq, cond_true, cond_false, opOf_12]
      generalize step s (.createTrial sid (some f.body) c.ir) = r at hs ⊢
      obtain ⟨s', o⟩ := r
      srv_close o hs
  · have hs := step_shape s (.createTrial sid none c.ir)
    srv_expose GrpcMethods.servicerCreateNewTrial
    generalize step s (.createTrial sid none c.ir) = r at hs ⊢
    obtain ⟨s', o⟩ := r
    srv_close o hs

theorem interp_servicer_setTrialStateValues (c : Ctx) (hc : Conv c) (s : Spec) (tid st : Nat) (vs : List XVal) :
    interpServicer GrpcMethods.servicerSetTrialStateValues c s (.setTrialStateValues tid st vs) = some (servicer s c.ir (.setTrialStateValues tid st vs)) := by
  cases hst : stateFromProto st with
  | none =>
    srv_expose GrpcMethods.servicerSetTrialStateValues
    cases vs <;> simp only [List.isEmpty, Bool.not_true, Bool.not_false, Bool.false_eq_true, if_true, if_false, exec, evalList, eval, Env.get,
      String.reduceBEq, cond_true, cond_false, thenExec_next, applyFn, hc.fromState, hst] <;> rfl
  | some st' =>
    cases vs with
    | nil =>
      have hs := step_shape s (.setTrialStateValues tid st' none)
      srv_expose GrpcMethods.servicerSetTrialStateValues
      simp only [List.isEmpty, Bool.not_true, Bool.not_false, Bool.false_eq_true, if_true, if_false, exec, evalList, eval, Env.get,
        String.reduceBEq, cond_true, cond_false, thenExec_next, applyFn, hc.fromState, hst, opOf_15,
        show decodeValues GrpcTables.setStateValuesDecode ([] : List XVal) = none from rfl]
      generalize step s (.setTrialStateValues tid st' none) = r at hs ⊢
      obtain ⟨s', o⟩ := r
      srv_close o hs
    | cons v vs =>
      have hs := step_shape s (.setTrialStateValues tid st' (some (v :: vs)))
      srv_expose GrpcMethods.servicerSetTrialStateValues
      simp only [List.isEmpty, Bool.not_true, Bool.not_false, Bool.false_eq_true, if_true, if_false, exec, evalList, eval, Env.get,
        String.reduceBEq, cond_true, cond_false, thenExec_next, applyFn, hc.fromState, hst, opOf_16,
        show decodeValues GrpcTables.setStateValuesDecode (v :: vs) = some (v :: vs) from rfl]
      generalize step s (.setTrialStateValues tid st' (some (v :: vs))) = r at hs ⊢
      obtain ⟨s', o⟩ := r
      srv_close o hs

theorem interp_servicer_getTrial (c : Ctx) (hc : Conv c) (s : Spec) (tid : Nat) :
    interpServicer GrpcMethods.servicerGetTrial c s (.getTrial tid) = some (servicer s c.ir (.getTrial tid)) := by
  have hs := step_shape s (.getTrial tid)
  srv_expose GrpcMethods.servicerGetTrial
  generalize step s (.getTrial tid) = r at hs ⊢
  obtain ⟨s', o⟩ := r
  cases o with
  | err e => cases e <;> rfl
  | trial id t =>
    simp only [afterBackend, outVal, bindInto, handleTry_next, thenExec_next, Env.get, Env.set, String.reduceBEq, cond_true, cond_false,
      applyFn, hc.toTrial, finish]
    cases toProtoTrial (frozenOf (id, t)) <;> rfl
  | _ => exact Bool.noConfusion hs

theorem interp_servicer_getAllStudies (c : Ctx) (s : Spec) :
    interpServicer GrpcMethods.servicerGetAllStudies c s .getAllStudies = some (servicer s c.ir .getAllStudies) := by
  have hs := step_shape s .getAllStudies
  srv_expose GrpcMethods.servicerGetAllStudies
  generalize step s .getAllStudies = r at hs ⊢
  obtain ⟨s', o⟩ := r
  cases o with
  | err e => cases e <;> rfl
  | studies l =>
    simp only [afterBackend, outVal, bindInto, thenExec_next, Env.get, Env.set, String.reduceBEq, cond_true, cond_false, elems, finish]
    rw [mapAllE_map_ok Val.study _ (fun p => Val.pstudy (toProtoStudy p)) l (fun a => rfl)]
    simp only [collect]
    rw [mapAll_map_some (fun p => Val.pstudy (toProtoStudy p)) asPStudy toProtoStudy l (fun a => rfl)]
    rfl
  | _ => exact Bool.noConfusion hs

theorem interp_servicer_getTrials (c : Ctx) (hc : Conv c) (s : Spec) (sid : Nat) (inc : List Nat) (w : Int) :
    interpServicer GrpcMethods.servicerGetTrials c s (.getTrials sid inc w) = some (servicer s c.ir (.getTrials sid inc w)) := by
  have hs := step_shape s (.getAllTrials sid none)
  srv_expose GrpcMethods.servicerGetTrials
  generalize step s (.getAllTrials sid none) = r at hs ⊢
  obtain ⟨s', o⟩ := r
  cases o with
  | err e => cases e <;> rfl
  | trials l =>
    simp only [afterBackend, outVal, bindInto, handleTry_next, thenExec_next, Env.get, Env.set, String.reduceBEq, cond_true, cond_false,
      elems, finish, List.map_map, exec, eval, getField, frozenField, truthy, applyFn, hc.toTrial]
    rw [filterE_map_ok (Val.frozen ∘ frozenOf) _ (fun p => decide ((p.1 : Int) > w) || inc.contains p.1) l (by
      intro a
      simp only [Function.comp, frozenOf, Int.natCast_nonneg, decide_true, Bool.true_and, Int.toNat_natCast]
      cases decide ((a.1 : Int) > w) <;> rfl)]
    simp only [← List.map_map]
    rw [mapAllE_toProtoTrials _ (fun f => rfl)]
    unfold Cache.servicerFilter
    cases toProtoTrials ((l.filter (fun p => decide ((p.1 : Int) > w) || inc.contains p.1)).map frozenOf) with
    | none => rfl
    | some ps =>
      simp only [collect]
      rw [mapAll_map_some Val.ptrial asPTrial id ps (fun a => rfl)]
      simp only [List.map_id, Option.map_some]
      rfl
  | _ => exact Bool.noConfusion hs

/-- **every rpc method of `OptunaStorageProxyService`, as written today, is `Proto.servicer`** — for every request, every backend
state, whatever denotations of the four converter functions agree with the hand model -/
theorem gen_servicer_hand (c : Ctx) (hc : Conv c) (s : Spec) (rq : Req) :
    interpServicer (program.servicer rq.rpc) c s rq = some (servicer s c.ir rq) := by
  cases rq with
  | createNewStudy d n => exact interp_servicer_createNewStudy c s d n
  | deleteStudy sid => exact interp_servicer_deleteStudy c s sid
  | setStudyUserAttribute sid k v => exact interp_servicer_setStudyUserAttribute c s sid k v
  | setStudySystemAttribute sid k v => exact interp_servicer_setStudySystemAttribute c s sid k v
  | getStudyIdFromName n => exact interp_servicer_getStudyIdFromName c s n
  | getStudyNameFromId sid => exact interp_servicer_getStudyNameFromId c s sid
  | getStudyDirections sid => exact interp_servicer_getStudyDirections c s sid
  | getStudyUserAttributes sid => exact interp_servicer_getStudyUserAttributes c s sid
  | getStudySystemAttributes sid => exact interp_servicer_getStudySystemAttributes c s sid
  | getAllStudies => exact interp_servicer_getAllStudies c s
  | createNewTrial sid pt b => exact interp_servicer_createNewTrial c hc s sid pt b
  | setTrialParameter tid n i d => exact interp_servicer_setTrialParameter c s tid n i d
  | getTrialIdFromStudyIdTrialNumber sid n => exact interp_servicer_getTrialIdFromStudyIdTrialNumber c s sid n
  | setTrialStateValues tid st vs => exact interp_servicer_setTrialStateValues c hc s tid st vs
  | setTrialIntermediateValue tid stp v => exact interp_servicer_setTrialIntermediateValue c s tid stp v
  | setTrialUserAttribute tid k v => exact interp_servicer_setTrialUserAttribute c s tid k v
  | setTrialSystemAttribute tid k v => exact interp_servicer_setTrialSystemAttribute c s tid k v
  | getTrial tid => exact interp_servicer_getTrial c hc s tid
  | getTrials sid inc w => exact interp_servicer_getTrials c hc s sid inc w

/-! ## the converter functions -/

/-- `_to_proto_trial_state` as written today is the table function of the hand model -/
theorem interp_toProtoState (t : TState) : program.toProtoStateG t = stateToProto t := by
  cases t <;> rfl

/-- `_from_proto_trial_state` as written today, on every number -/
theorem interp_fromProtoState (n : Nat) : program.fromProtoStateG n = stateFromProto n := by
  match n with
  | 0 => rfl
  | 1 => rfl
  | 2 => rfl
  | 3 => rfl
  | 4 => rfl
  | n + 5 => rfl

example : program.fromProtoStateG 3 = some .fail ∧ program.fromProtoStateG 9 = none ∧ program.toProtoStateG .pruned = some 2 := by decide

theorem lookup_map_isSome (ps : AList Param) (p : String × Param) (hp : p ∈ ps) :
    (Proto.lookup (ps.map fun q => (q.1, q.2.dist)) p.1).isSome = true := by
  induction ps with
  | nil => cases hp
  | cons q t ih =>
    simp only [List.map_cons, Proto.lookup]
    by_cases h : q.1 = p.1
    · simp [h]
    · simp only [h, if_false]
      rcases List.mem_cons.1 hp with rfl | hm
      · exact absurd rfl h
      · exact ih hm

theorem all_lookup_self (ps : AList Param) :
    (ps.all fun p => (lookupD (ps.map fun q => (q.1, q.2.dist)) p.1).isSome) = true := by
  rw [List.all_eq_true]
  intro p hp
  exact lookup_map_isSome ps p hp

/-- `_to_proto_trial` as written today is `Proto.toProtoTrial` (over the generated `_to_proto_trial_state`) -/
theorem interp_toProtoTrial (f : Frozen) : program.toProtoTrialG f = toProtoTrial f := by
  have hall := all_lookup_self f.body.params
  have hp : program.toProtoTrial = GrpcMethods.conv_to_proto_trial := rfl
  obtain ⟨id, number, ⟨state, values, params, ua, sa, inter, hasStart, hasComplete⟩⟩ := f
  simp only [Program.toProtoTrialG, interpFn, interpClient, hp, GrpcMethods.conv_to_proto_trial, bindParams, Option.map, block, exec,
    eval, evalFields, Env.get, Env.set, String.reduceBEq, cond_true, cond_false, getField, frozenField, hall, if_true, applyFn, Program.ctx1,
    thenExec_next, interp_toProtoState, toProtoTrial]
  cases stateToProto state with
  | none => rfl
  | some st => cases hasStart <;> cases hasComplete <;> cases values <;> rfl

/-- `_from_proto_trial` as written today is `Proto.fromProtoTrial` (over the generated `_from_proto_trial_state`): the same
decoded trial, the same error class, in the same order of precedence (parameter without distribution before unknown state) -/
theorem interp_fromProtoTrial (p : PTrial) : program.fromProtoTrialG p = fromProtoTrial p := by
  have hp : program.fromProtoTrial = GrpcMethods.conv_from_proto_trial := rfl
  obtain ⟨tid, number, state, values, ds, dc, params, dists, ua, sa, inter⟩ := p
  cases h1 : (ds == "") <;> cases h2 : (dc == "") <;> cases hj : joinParams dists params <;> cases hst : stateFromProto state <;>
    cases values <;>
    simp only [Program.fromProtoTrialG, interpFn, interpClient, hp, GrpcMethods.conv_from_proto_trial, bindParams, Option.map, block, exec,
      eval, evalFields, Env.get, Env.set, String.reduceBEq, cond_true, cond_false, getField, ptrialField, if_true, if_false, applyFn,
      Program.ctx1, thenExec_next, interp_fromProtoState, fromProtoTrial, truthy, bne, h1, h2, hj, hst, Bool.not_true, Bool.not_false,
      Bool.false_eq_true, decodeDt, List.isEmpty] <;> rfl

example : program.fromProtoTrialG { PTrial.empty with params := [("a", "1")] } = .error .keyError ∧
    program.fromProtoTrialG { PTrial.empty with state := 9 } = .error .valueError ∧
    (program.toProtoTrialG { id := 3, number := 1, body := { state := .complete, values := some [], params := [("z", ⟨"1/2", ⟨0, false, "F"⟩⟩), ("a", ⟨"2/1", ⟨1, false, "I"⟩⟩)], userAttrs := [], systemAttrs := [], inter := [], hasStart := true, hasComplete := false } }).map (·.params) = some [("a", "2/1"), ("z", "1/2")] :=
  ⟨rfl, rfl, rfl⟩

/-! ## the whole servicer over the generated converters -/

theorem conv_ctx2 (ir : Bool) : Conv (program.ctx2 ir) :=
  ⟨funext interp_toProtoTrial, funext interp_fromProtoTrial, funext interp_toProtoState, funext interp_fromProtoState⟩

/-- **the generated servicer (generated rpc methods over the generated converter functions) is `Proto.servicer`** -/
theorem gen_servicer_eq (s : Spec) (ir : Bool) (rq : Req) : program.serveG s ir rq = servicer s ir rq := by
  unfold Program.serveG
  rw [gen_servicer_hand _ (conv_ctx2 ir)]
  rfl

example : program.serveG Storage.init false (.getTrial 0) = (Storage.init, .abort .notFound) := by decide

/-! ## the client -/

/-- what a client method's callees denote: the hand model's converters, servicer and cold cache read -/
structure Wired (c : Ctx) : Prop extends Conv c where
  serve : c.serve = servicer
  read : c.readTrials = readTrialsHand

syntax "cli_expose" ident : tactic
macro_rules
  | `(tactic| cli_expose $b) => `(tactic|
    simp only [callPrimary, clientCall, $b:ident, interpClient, bindParams, Option.map, block, exec, eval, evalFields, Env.get, Env.set,
      String.reduceBEq, cond_true, cond_false, thenExec_next, mkMsg, mkRequest, kNat, kInt, kStr, kBool, kNats, kXvals, kXval, kDist, kPTrial,
      KV.get, if_true, if_false, reduceCtorEq, Option.bind, bind, Req.rpc, proxyStep, implRaisedOf, applyFn, truthy, optXvals, optStates])

/-- close a goal in which the servicer's answer has been generalised to `(s', resp)` -/
syntax "cli_close" ident : tactic
macro_rules
  | `(tactic| cli_close $r) => `(tactic|
    (cases $r:ident with
     | abort code => cases code <;> rfl
     | ok rep => cases rep <;> rfl))

theorem interp_client_deleteStudy (c : Ctx) (hw : Wired c) (s : Spec) (sid : Nat) (hir : c.ir = implRaisedOf (.deleteStudy sid)) :
    callPrimary program c s (.deleteStudy sid) = some (proxyStep s c.uuid (.deleteStudy sid)) := by
  have hp : program.deleteStudy = GrpcMethods.client_delete_study := rfl
  simp only [implRaisedOf] at hir
  cli_expose GrpcMethods.client_delete_study
  simp only [hp, GrpcMethods.client_delete_study]
  cli_expose GrpcMethods.client_delete_study
  simp only [hw.serve, hir, servicer]
  generalize step s (.deleteStudy sid) = r
  obtain ⟨s', o⟩ := r
  cases o with
  | err e => cases e <;> rfl
  | _ => rfl

theorem interp_client_setStudyUserAttr (c : Ctx) (hw : Wired c) (s : Spec) (sid : Nat) (k v : String) (hir : c.ir = implRaisedOf (.setStudyUserAttr sid k v)) :
    callPrimary program c s (.setStudyUserAttr sid k v) = some (proxyStep s c.uuid (.setStudyUserAttr sid k v)) := by
  have hp : program.setStudyUserAttr = GrpcMethods.client_set_study_user_attr := rfl
  simp only [implRaisedOf] at hir
  cli_expose GrpcMethods.client_set_study_user_attr
  simp only [hp, GrpcMethods.client_set_study_user_attr]
  cli_expose GrpcMethods.client_set_study_user_attr
  simp only [hw.serve, hir, servicer]
  generalize step s (.setStudyUserAttr sid k v) = r
  obtain ⟨s', o⟩ := r
  cases o with
  | err e => cases e <;> rfl
  | _ => rfl

theorem interp_client_setStudySystemAttr (c : Ctx) (hw : Wired c) (s : Spec) (sid : Nat) (k v : String) (hir : c.ir = implRaisedOf (.setStudySystemAttr sid k v)) :
    callPrimary program c s (.setStudySystemAttr sid k v) = some (proxyStep s c.uuid (.setStudySystemAttr sid k v)) := by
  have hp : program.setStudySystemAttr = GrpcMethods.client_set_study_system_attr := rfl
  simp only [implRaisedOf] at hir
  cli_expose GrpcMethods.client_set_study_system_attr
  simp only [hp, GrpcMethods.client_set_study_system_attr]
  cli_expose GrpcMethods.client_set_study_system_attr
  simp only [hw.serve, hir, servicer]
  generalize step s (.setStudySystemAttr sid k v) = r
  obtain ⟨s', o⟩ := r
  cases o with
  | err e => cases e <;> rfl
  | _ => rfl

theorem interp_client_getStudyIdFromName (c : Ctx) (hw : Wired c) (s : Spec) (name : String) (hir : c.ir = implRaisedOf (.getStudyIdFromName name)) :
    callPrimary program c s (.getStudyIdFromName name) = some (proxyStep s c.uuid (.getStudyIdFromName name)) := by
  have hp : program.getStudyIdFromName = GrpcMethods.client_get_study_id_from_name := rfl
  simp only [implRaisedOf] at hir
  cli_expose GrpcMethods.client_get_study_id_from_name
  simp only [hp, GrpcMethods.client_get_study_id_from_name]
  cli_expose GrpcMethods.client_get_study_id_from_name
  simp only [hw.serve, hir, servicer]
  generalize step s (.getStudyIdFromName name) = r
  obtain ⟨s', o⟩ := r
  cases o with
  | err e => cases e <;> rfl
  | _ => rfl

theorem interp_client_getStudyNameFromId (c : Ctx) (hw : Wired c) (s : Spec) (sid : Nat) (hir : c.ir = implRaisedOf (.getStudyNameFromId sid)) :
    callPrimary program c s (.getStudyNameFromId sid) = some (proxyStep s c.uuid (.getStudyNameFromId sid)) := by
  have hp : program.getStudyNameFromId = GrpcMethods.client_get_study_name_from_id := rfl
  simp only [implRaisedOf] at hir
  cli_expose GrpcMethods.client_get_study_name_from_id
  simp only [hp, GrpcMethods.client_get_study_name_from_id]
  cli_expose GrpcMethods.client_get_study_name_from_id
  simp only [hw.serve, hir, servicer]
  generalize step s (.getStudyNameFromId sid) = r
  obtain ⟨s', o⟩ := r
  cases o with
  | err e => cases e <;> rfl
  | _ => rfl

theorem interp_client_getStudyDirections (c : Ctx) (hw : Wired c) (s : Spec) (sid : Nat) (hir : c.ir = implRaisedOf (.getStudyDirections sid)) :
    callPrimary program c s (.getStudyDirections sid) = some (proxyStep s c.uuid (.getStudyDirections sid)) := by
  have hp : program.getStudyDirections = GrpcMethods.client_get_study_directions := rfl
  simp only [implRaisedOf] at hir
  cli_expose GrpcMethods.client_get_study_directions
  simp only [hp, GrpcMethods.client_get_study_directions]
  cli_expose GrpcMethods.client_get_study_directions
  simp only [hw.serve, hir, servicer]
  generalize step s (.getStudyDirections sid) = r
  obtain ⟨s', o⟩ := r
  cases o with
  | err e => cases e <;> rfl
  | _ => rfl

theorem interp_client_getStudyUserAttrs (c : Ctx) (hw : Wired c) (s : Spec) (sid : Nat) (hir : c.ir = implRaisedOf (.getStudyUserAttrs sid)) :
    callPrimary program c s (.getStudyUserAttrs sid) = some (proxyStep s c.uuid (.getStudyUserAttrs sid)) := by
  have hp : program.getStudyUserAttrs = GrpcMethods.client_get_study_user_attrs := rfl
  simp only [implRaisedOf] at hir
  cli_expose GrpcMethods.client_get_study_user_attrs
  simp only [hp, GrpcMethods.client_get_study_user_attrs]
  cli_expose GrpcMethods.client_get_study_user_attrs
  simp only [hw.serve, hir, servicer]
  generalize step s (.getStudyUserAttrs sid) = r
  obtain ⟨s', o⟩ := r
  cases o with
  | err e => cases e <;> rfl
  | _ => rfl

theorem interp_client_getStudySystemAttrs (c : Ctx) (hw : Wired c) (s : Spec) (sid : Nat) (hir : c.ir = implRaisedOf (.getStudySystemAttrs sid)) :
    callPrimary program c s (.getStudySystemAttrs sid) = some (proxyStep s c.uuid (.getStudySystemAttrs sid)) := by
  have hp : program.getStudySystemAttrs = GrpcMethods.client_get_study_system_attrs := rfl
  simp only [implRaisedOf] at hir
  cli_expose GrpcMethods.client_get_study_system_attrs
  simp only [hp, GrpcMethods.client_get_study_system_attrs]
  cli_expose GrpcMethods.client_get_study_system_attrs
  simp only [hw.serve, hir, servicer]
  generalize step s (.getStudySystemAttrs sid) = r
  obtain ⟨s', o⟩ := r
  cases o with
  | err e => cases e <;> rfl
  | _ => rfl

theorem interp_client_setTrialParam (c : Ctx) (hw : Wired c) (s : Spec) (tid : Nat) (name : String) (p : Param) (ir : Bool) (hir : c.ir = implRaisedOf (.setTrialParam tid name p ir)) :
    callPrimary program c s (.setTrialParam tid name p ir) = some (proxyStep s c.uuid (.setTrialParam tid name p ir)) := by
  have hp : program.setTrialParam = GrpcMethods.client_set_trial_param := rfl
  simp only [implRaisedOf] at hir
  cli_expose GrpcMethods.client_set_trial_param
  simp only [hp, GrpcMethods.client_set_trial_param]
  cli_expose GrpcMethods.client_set_trial_param
  simp only [hw.serve, hir, servicer]
  generalize step s (.setTrialParam tid name { internal := p.internal, dist := p.dist } ir) = r
  obtain ⟨s', o⟩ := r
  cases o with
  | err e => cases e <;> rfl
  | _ => rfl

theorem interp_client_setTrialInter (c : Ctx) (hw : Wired c) (s : Spec) (tid : Nat) (stp : Int) (v : XVal) (hir : c.ir = implRaisedOf (.setTrialInter tid stp v)) :
    callPrimary program c s (.setTrialInter tid stp v) = some (proxyStep s c.uuid (.setTrialInter tid stp v)) := by
  have hp : program.setTrialIntermediateValue = GrpcMethods.client_set_trial_intermediate_value := rfl
  simp only [implRaisedOf] at hir
  cli_expose GrpcMethods.client_set_trial_intermediate_value
  simp only [hp, GrpcMethods.client_set_trial_intermediate_value]
  cli_expose GrpcMethods.client_set_trial_intermediate_value
  simp only [hw.serve, hir, servicer]
  generalize step s (.setTrialInter tid stp v) = r
  obtain ⟨s', o⟩ := r
  cases o with
  | err e => cases e <;> rfl
  | _ => rfl

theorem interp_client_setTrialUserAttr (c : Ctx) (hw : Wired c) (s : Spec) (tid : Nat) (k v : String) (hir : c.ir = implRaisedOf (.setTrialUserAttr tid k v)) :
    callPrimary program c s (.setTrialUserAttr tid k v) = some (proxyStep s c.uuid (.setTrialUserAttr tid k v)) := by
  have hp : program.setTrialUserAttr = GrpcMethods.client_set_trial_user_attr := rfl
  simp only [implRaisedOf] at hir
  cli_expose GrpcMethods.client_set_trial_user_attr
  simp only [hp, GrpcMethods.client_set_trial_user_attr]
  cli_expose GrpcMethods.client_set_trial_user_attr
  simp only [hw.serve, hir, servicer]
  generalize step s (.setTrialUserAttr tid k v) = r
  obtain ⟨s', o⟩ := r
  cases o with
  | err e => cases e <;> rfl
  | _ => rfl

theorem interp_client_setTrialSystemAttr (c : Ctx) (hw : Wired c) (s : Spec) (tid : Nat) (k v : String) (hir : c.ir = implRaisedOf (.setTrialSystemAttr tid k v)) :
    callPrimary program c s (.setTrialSystemAttr tid k v) = some (proxyStep s c.uuid (.setTrialSystemAttr tid k v)) := by
  have hp : program.setTrialSystemAttr = GrpcMethods.client_set_trial_system_attr := rfl
  simp only [implRaisedOf] at hir
  cli_expose GrpcMethods.client_set_trial_system_attr
  simp only [hp, GrpcMethods.client_set_trial_system_attr]
  cli_expose GrpcMethods.client_set_trial_system_attr
  simp only [hw.serve, hir, servicer]
  generalize step s (.setTrialSystemAttr tid k v) = r
  obtain ⟨s', o⟩ := r
  cases o with
  | err e => cases e <;> rfl
  | _ => rfl

theorem interp_client_getTrialIdFromNumber (c : Ctx) (hw : Wired c) (s : Spec) (sid n : Nat) (hir : c.ir = implRaisedOf (.getTrialIdFromNumber sid n)) :
    callPrimary program c s (.getTrialIdFromNumber sid n) = some (proxyStep s c.uuid (.getTrialIdFromNumber sid n)) := by
  have hp : program.getTrialIdFromNumber = GrpcMethods.client_get_trial_id_from_study_id_trial_number := rfl
  simp only [implRaisedOf] at hir
  cli_expose GrpcMethods.client_get_trial_id_from_study_id_trial_number
  simp only [hp, GrpcMethods.client_get_trial_id_from_study_id_trial_number]
  cli_expose GrpcMethods.client_get_trial_id_from_study_id_trial_number
  simp only [hw.serve, hir, servicer]
  generalize step s (.getTrialIdFromNumber sid n) = r
  obtain ⟨s', o⟩ := r
  cases o with
  | err e => cases e <;> rfl
  | _ => rfl

theorem interp_client_createStudy (c : Ctx) (hw : Wired c) (s : Spec) (name : String) (dirs : List Nat)
    (hir : c.ir = implRaisedOf (.createStudy name dirs)) :
    callPrimary program c s (.createStudy name dirs) = some (proxyStep s c.uuid (.createStudy name dirs)) := by
  have hp : program.createNewStudy = GrpcMethods.client_create_new_study := rfl
  simp only [implRaisedOf] at hir
  have hd : (fun d : Nat => if d = 1 then 0 else 1) = dirToProto := rfl
  by_cases h : name = ""
  · subst h
    have hc : clientStudyName c.uuid "" = "no-name-" ++ c.uuid := rfl
    cli_expose GrpcMethods.client_create_new_study
    simp only [hp, GrpcMethods.client_create_new_study]
    cli_expose GrpcMethods.client_create_new_study
    simp only [bne, String.reduceBEq, Bool.not_true, Bool.false_eq_true, if_false]
    cli_expose GrpcMethods.client_create_new_study
    simp only [hw.serve, hir, servicer, hd, hc]
    generalize step s (.createStudy ("no-name-" ++ c.uuid) ((dirs.map dirToProto).map dirFromProto)) = r
    obtain ⟨s', o⟩ := r
    cases o with
    | err e => cases e <;> rfl
    | _ => rfl
  · have h' : (name != "") = true := by simpa using h
    have hc : clientStudyName c.uuid name = name := if_neg h
    cli_expose GrpcMethods.client_create_new_study
    simp only [hp, GrpcMethods.client_create_new_study]
    cli_expose GrpcMethods.client_create_new_study
    simp only [h', if_true]
    cli_expose GrpcMethods.client_create_new_study
    simp only [hw.serve, hir, servicer, hd, hc]
    generalize step s (.createStudy name ((dirs.map dirToProto).map dirFromProto)) = r
    obtain ⟨s', o⟩ := r
    cases o with
    | err e => cases e <;> rfl
    | _ => rfl

theorem interp_client_createTrial (c : Ctx) (hw : Wired c) (s : Spec) (sid : Nat) (tmpl : Option Template) (ir : Bool)
    (hir : c.ir = implRaisedOf (.createTrial sid tmpl ir)) :
    callPrimary program c s (.createTrial sid tmpl ir) = some (proxyStep s c.uuid (.createTrial sid tmpl ir)) := by
  have hp : program.createNewTrial = GrpcMethods.client_create_new_trial := rfl
  simp only [implRaisedOf] at hir
  cases tmpl with
  | none =>
    cli_expose GrpcMethods.client_create_new_trial
    simp only [hp, GrpcMethods.client_create_new_trial]
    cli_expose GrpcMethods.client_create_new_trial
    simp only [hw.serve, hir]
    generalize servicer s ir (.createNewTrial sid PTrial.empty true) = r
    obtain ⟨s', resp⟩ := r
    cli_close resp
  | some tm =>
    cli_expose GrpcMethods.client_create_new_trial
    simp only [hp, GrpcMethods.client_create_new_trial]
    cli_expose GrpcMethods.client_create_new_trial
    simp only [hw.toTrial]
    cases toProtoTrial { id := -1, number := -1, body := tm } with
    | none => rfl
    | some pt =>
      cli_expose GrpcMethods.client_create_new_trial
      simp only [hw.serve, hir]
      generalize servicer s ir (.createNewTrial sid pt false) = r
      obtain ⟨s', resp⟩ := r
      cli_close resp

theorem interp_client_setTrialStateValues (c : Ctx) (hw : Wired c) (s : Spec) (tid : Nat) (st : TState) (vs : Option (List XVal))
    (hir : c.ir = implRaisedOf (.setTrialStateValues tid st vs)) :
    callPrimary program c s (.setTrialStateValues tid st vs) = some (proxyStep s c.uuid (.setTrialStateValues tid st vs)) := by
  have hp : program.setTrialStateValues = GrpcMethods.client_set_trial_state_values := rfl
  simp only [implRaisedOf] at hir
  cli_expose GrpcMethods.client_set_trial_state_values
  simp only [hp, GrpcMethods.client_set_trial_state_values]
  cli_expose GrpcMethods.client_set_trial_state_values
  simp only [hw.toState]
  cases stateToProto st with
  | none => cases vs <;> rfl
  | some n =>
    cases vs with
    | none =>
      cli_expose GrpcMethods.client_set_trial_state_values
      simp only [hw.serve, hir, encodeValues]
      generalize servicer s false (.setTrialStateValues tid n []) = r
      obtain ⟨s', resp⟩ := r
      cli_close resp
    | some l =>
      cli_expose GrpcMethods.client_set_trial_state_values
      simp only [hw.serve, hir, encodeValues]
      generalize servicer s false (.setTrialStateValues tid n l) = r
      obtain ⟨s', resp⟩ := r
      cli_close resp

theorem poutOfExn_excOf (e : Err) : poutOfExn (excOf e) = .ok (.err e) := by cases e <;> rfl

theorem interp_client_getTrial (c : Ctx) (hw : Wired c) (s : Spec) (tid : Nat) (hir : c.ir = implRaisedOf (.getTrial tid)) :
    callPrimary program c s (.getTrial tid) = some (proxyStep s c.uuid (.getTrial tid)) := by
  have hp : program.getTrial = GrpcMethods.client_get_trial := rfl
  simp only [implRaisedOf] at hir
  cli_expose GrpcMethods.client_get_trial
  simp only [hp, GrpcMethods.client_get_trial]
  cli_expose GrpcMethods.client_get_trial
  simp only [hw.serve, hir, hw.fromTrial, fetchTrial]
  generalize servicer s false (.getTrial tid) = r
  obtain ⟨s', resp⟩ := r
  cases resp with
  | abort code => cases code <;> rfl
  | ok rep =>
    cases rep with
    | trial p =>
      simp only [afterStub, bindInto, handleTry_next, thenExec_next, Env.get, Env.set, String.reduceBEq, cond_true, cond_false, getField,
        replyField, finishClient, poutOf]
      cases fromProtoTrial p with
      | error e => cases e <;> rfl
      | ok f => rfl
    | _ => rfl

theorem interp_client_getAllStudies (c : Ctx) (hw : Wired c) (s : Spec) (hir : c.ir = implRaisedOf .getAllStudies) :
    callPrimary program c s .getAllStudies = some (proxyStep s c.uuid .getAllStudies) := by
  have hp : program.getAllStudies = GrpcMethods.client_get_all_studies := rfl
  simp only [implRaisedOf] at hir
  cli_expose GrpcMethods.client_get_all_studies
  simp only [hp, GrpcMethods.client_get_all_studies]
  cli_expose GrpcMethods.client_get_all_studies
  simp only [hw.serve, hir]
  generalize servicer s false .getAllStudies = r
  obtain ⟨s', resp⟩ := r
  cases resp with
  | abort code => cases code <;> rfl
  | ok rep =>
    cases rep with
    | studies ps =>
      simp only [afterStub, bindInto, thenExec_next, Env.get, Env.set, String.reduceBEq, cond_true, cond_false, getField, replyField, elems]
      rw [mapAllE_map_ok Val.pstudy _ (fun p => Val.study (fromProtoStudy p)) ps (fun a => rfl)]
      simp only [collect]
      rw [mapAll_map_some (fun p => Val.study (fromProtoStudy p)) asStudy fromProtoStudy ps (fun a => rfl)]
      rfl
    | _ => rfl

/-- `[_from_proto_trial(p) for p in ps]` is `Proto.fromProtoTrials` (the first failure decides the class in both) -/
theorem mapAllE_fromProtoTrials (F : Val → Except Exn Val)
    (hF : ∀ p, F (.ptrial p) = match fromProtoTrial p with | .ok f => .ok (.frozen f) | .error e => .error (excOf e))
    (ps : List PTrial) :
    mapAllE F (ps.map .ptrial) = match fromProtoTrials ps with
      | .ok fs => .ok (fs.map .frozen)
      | .error e => .error (excOf e) := by
  induction ps with
  | nil => rfl
  | cons p t ih =>
    simp only [List.map_cons, mapAllE, hF, ih, fromProtoTrials]
    cases fromProtoTrial p <;> cases fromProtoTrials t <;> rfl

/-- the wire half of `GrpcClientCache._read_trials_from_remote_storage` as written today, on a fresh entry -/
theorem interp_client_readTrials (c : Ctx) (hw : Wired c) (hir : c.ir = false) (s : Spec) (sid : Nat) :
    (match interpClient program.readTrials c s [.nat sid, .entry [] (-1)] with
      | some (s', .ok (.frozens l)) => (s', .ok l)
      | some (s', .ok .none) => (s', .ok [])
      | some (s', .error e) => (s', .error e)
      | some (s', .ok _) => (s', .error (.exc .exception))
      | none => (s, .error (.exc .baseException))) = readTrialsHand s sid := by
  have hp : program.readTrials = GrpcMethods.client_read_trials := rfl
  simp only [hp, GrpcMethods.client_read_trials, readTrialsHand]
  cli_expose GrpcMethods.client_read_trials
  simp only [getField]
  cli_expose GrpcMethods.client_read_trials
  simp only [hw.serve, hir]
  generalize servicer s false (.getTrials sid [] (-1)) = r
  obtain ⟨s', resp⟩ := r
  cases resp with
  | abort code => cases code <;> rfl
  | ok rep =>
    cases rep with
    | trials ps =>
      cases ps with
      | nil => rfl
      | cons p t =>
        simp only [afterStub, bindInto, handleTry_next, thenExec_next, Env.get, Env.set, String.reduceBEq, cond_true, cond_false, getField,
          replyField, elems, exec, eval, truthy, List.isEmpty, Bool.not_false, Bool.not_true, Bool.false_eq_true, if_false, if_true, applyFn,
          hw.fromTrial]
        rw [mapAllE_fromProtoTrials _ (fun p => rfl)]
        cases fromProtoTrials (p :: t) with
        | error e => rfl
        | ok fs =>
          simp only [collect]
          rw [mapAll_map_some Val.frozen asFrozen id fs (fun a => rfl)]
          simp only [List.map_id, Option.map_some]
          rfl
    | _ => rfl

theorem poutOfExn_rpcExn (rpc : Rpc) (code : Status) : poutOfExn (rpcExn rpc code) = clientError rpc code := by
  unfold rpcExn clientError
  cases Proto.lookup (GrpcTables.clientRaises rpc) code <;> rfl

theorem filter_trialOfFrozen (sts : Option (List TState)) (fs : List Frozen) :
    (fs.map trialOfFrozen).filter (fun p => stateIn sts p.2.state) = (fs.filter (fun f => stateIn sts f.body.state)).map trialOfFrozen := by
  induction fs with
  | nil => rfl
  | cons f t ih =>
    simp only [List.map_cons, List.filter_cons, ih]
    have : (trialOfFrozen f).2.state = f.body.state := rfl
    rw [this]
    cases stateIn sts f.body.state <;> rfl

theorem interp_client_getAllTrials_aux (c : Ctx) (hw : Wired c) (s : Spec) (sid : Nat) (sts : Option (List TState)) (sv : Val)
    (hso : statesOf sv = some sts) :
    (interpClient GrpcMethods.client_get_all_trials c s [.nat sid, .bool true, sv]).map
        (fun r => (r.1, poutOf (.getAllTrials sid sts) r.2)) = some (proxyStep s c.uuid (.getAllTrials sid sts)) := by
  cli_expose GrpcMethods.client_get_all_trials
  simp only [hso, hw.read, readTrialsHand, fetchAll]
  generalize servicer s false (.getTrials sid [] (-1)) = r
  obtain ⟨s', resp⟩ := r
  cases resp with
  | abort code =>
    simp only [afterRead, thenExec_raised, finishClient, poutOf, poutOfExn_rpcExn]
  | ok rep =>
    cases rep with
    | trials ps =>
      cases hf : fromProtoTrials ps with
      | error e =>
        simp only [hf, afterRead, thenExec_raised, finishClient, poutOf, poutOfExn_excOf]
      | ok fs =>
        simp only [hf, afterRead, bindInto, thenExec_next, Env.get, Env.set, String.reduceBEq, cond_true, cond_false, eval, exec, truthy, if_true,
          finishClient, poutOf, retOut, filter_trialOfFrozen]
    | _ => rfl

theorem interp_client_getAllTrials (c : Ctx) (hw : Wired c) (s : Spec) (sid : Nat) (sts : Option (List TState))
    (_hir : c.ir = implRaisedOf (.getAllTrials sid sts)) :
    callPrimary program c s (.getAllTrials sid sts) = some (proxyStep s c.uuid (.getAllTrials sid sts)) := by
  have hp : program.getAllTrials = GrpcMethods.client_get_all_trials := rfl
  have h := interp_client_getAllTrials_aux c hw s sid sts (optStates sts) (by cases sts <;> rfl)
  simp only [callPrimary, clientCall, hp]
  exact h

/-! ## the whole proxy: generated client over generated servicer over generated converters -/

theorem wired_ctx3 : Wired (program.ctx3 false "") :=
  { toConv := ⟨funext interp_toProtoTrial, funext interp_fromProtoTrial, funext interp_toProtoState, funext interp_fromProtoState⟩,
    serve := by funext s ir rq; exact gen_servicer_eq s ir rq,
    read := rfl }

/-- the generated `_read_trials_from_remote_storage` (over the generated servicer) is the hand model's cold read -/
theorem gen_readTrials_eq (s : Spec) (sid : Nat) : program.readTrialsG s sid = readTrialsHand s sid :=
  interp_client_readTrials (program.ctx3 false "") wired_ctx3 rfl s sid

theorem wired_ctx (ir : Bool) (u : String) : Wired (program.ctx ir u) :=
  { toConv := ⟨funext interp_toProtoTrial, funext interp_fromProtoTrial, funext interp_toProtoState, funext interp_fromProtoState⟩,
    serve := by funext s ir rq; exact gen_servicer_eq s ir rq,
    read := by funext s sid; exact gen_readTrials_eq s sid }

/-- every method of `GrpcStorageProxy` that has a body of its own, as written today, over the generated servicer -/
theorem gen_primary_eq (s : Spec) (u : String) (op : Op) (ir : Bool) (hir : ir = implRaisedOf op) (h : (clientCall program op).isSome) :
    callPrimary program (program.ctx ir u) s op = some (proxyStep s u op) := by
  have hw := wired_ctx ir u
  subst hir
  cases op with
  | createStudy name dirs => exact interp_client_createStudy _ hw s name dirs rfl
  | deleteStudy sid => exact interp_client_deleteStudy _ hw s sid rfl
  | setStudyUserAttr sid k v => exact interp_client_setStudyUserAttr _ hw s sid k v rfl
  | setStudySystemAttr sid k v => exact interp_client_setStudySystemAttr _ hw s sid k v rfl
  | createTrial sid tmpl ir => exact interp_client_createTrial _ hw s sid tmpl ir rfl
  | setTrialParam tid name p ir => exact interp_client_setTrialParam _ hw s tid name p ir rfl
  | setTrialStateValues tid st vs => exact interp_client_setTrialStateValues _ hw s tid st vs rfl
  | setTrialInter tid stp v => exact interp_client_setTrialInter _ hw s tid stp v rfl
  | setTrialUserAttr tid k v => exact interp_client_setTrialUserAttr _ hw s tid k v rfl
  | setTrialSystemAttr tid k v => exact interp_client_setTrialSystemAttr _ hw s tid k v rfl
  | getStudyIdFromName name => exact interp_client_getStudyIdFromName _ hw s name rfl
  | getStudyNameFromId sid => exact interp_client_getStudyNameFromId _ hw s sid rfl
  | getStudyDirections sid => exact interp_client_getStudyDirections _ hw s sid rfl
  | getStudyUserAttrs sid => exact interp_client_getStudyUserAttrs _ hw s sid rfl
  | getStudySystemAttrs sid => exact interp_client_getStudySystemAttrs _ hw s sid rfl
  | getAllStudies => exact interp_client_getAllStudies _ hw s rfl
  | getTrialIdFromNumber sid n => exact interp_client_getTrialIdFromNumber _ hw s sid n rfl
  | getTrial tid => exact interp_client_getTrial _ hw s tid rfl
  | getAllTrials sid sts => exact interp_client_getAllTrials _ hw s sid sts rfl
  | getTrialNumberFromId _ => cases h
  | getTrialParam _ _ => cases h
  | getNTrials _ _ => cases h
  | getBestTrial _ => cases h

theorem proxyStepGen_primary (s : Spec) (u : String) (op : Op) (h : (clientCall program op).isSome = true) :
    proxyStepGen program s u op = callPrimary program (program.ctx (implRaisedOf op) u) s op := by
  unfold proxyStepGen
  cases hc : clientCall program op with
  | none => rw [hc] at h; cases h
  | some x => rfl

/-- **gen_proxy_eq**: one call through the generated proxy — the client method as written today, its stub call reaching the
servicer method as written today, both over the converter functions as written today — is `Proto.proxyStep`, for every operation
of the contract, every backend state, every argument (the four `BaseStorage` defaults run on the generated `get_trial` /
`get_all_trials` / `get_study_directions`) -/
theorem gen_proxy_eq (s : Spec) (u : String) (op : Op) : proxyStepGen program s u op = some (proxyStep s u op) := by
  cases op with
  | getTrialNumberFromId tid =>
    simp only [proxyStepGen, clientCall, callDerived, implRaisedOf]
    rw [gen_primary_eq s u (.getTrial tid) false rfl rfl]
    simp only [proxyStep, fetchTrial, Option.map]
    generalize servicer s false (.getTrial tid) = r
    obtain ⟨s', resp⟩ := r
    cases resp with
    | abort code => cases code <;> rfl
    | ok rep =>
      cases rep with
      | trial p => simp only []; cases fromProtoTrial p with | error e => cases e <;> rfl | ok f => rfl
      | _ => rfl
  | getTrialParam tid name =>
    simp only [proxyStepGen, clientCall, callDerived, implRaisedOf]
    rw [gen_primary_eq s u (.getTrial tid) false rfl rfl]
    simp only [proxyStep, fetchTrial, Option.map]
    generalize servicer s false (.getTrial tid) = r
    obtain ⟨s', resp⟩ := r
    cases resp with
    | abort code => cases code <;> rfl
    | ok rep =>
      cases rep with
      | trial p => simp only []; cases fromProtoTrial p with | error e => cases e <;> rfl | ok f => rfl
      | _ => rfl
  | getNTrials sid sts =>
    simp only [proxyStepGen, clientCall, callDerived, implRaisedOf]
    rw [gen_primary_eq s u (.getAllTrials sid sts) false rfl rfl]
    simp only [proxyStep, fetchAll, Option.map]
    generalize servicer s false (.getTrials sid [] (-1)) = r
    obtain ⟨s', resp⟩ := r
    cases resp with
    | abort code => cases code <;> rfl
    | ok rep =>
      cases rep with
      | trials ps => simp only []; cases fromProtoTrials ps with | error e => cases e <;> rfl | ok f => rfl
      | _ => rfl
  | getBestTrial sid =>
    have hf : ∀ l : List (Nat × TrialS), l.filter (fun p => stateIn none p.2.state) = l := fun l =>
      List.filter_eq_self.2 (fun _ _ => rfl)
    simp only [proxyStepGen, clientCall, callDerived, implRaisedOf]
    rw [gen_primary_eq s u (.getAllTrials sid none) false rfl rfl]
    simp only [proxyStep, fetchAll]
    generalize servicer s false (.getTrials sid [] (-1)) = r
    obtain ⟨s', resp⟩ := r
    cases resp with
    | abort code => cases code <;> rfl
    | ok rep =>
      cases rep with
      | trials ps =>
        simp only []
        cases fromProtoTrials ps with
        | error e => cases e <;> rfl
        | ok fs =>
          simp only [hf]
          rw [gen_primary_eq s' u (.getStudyDirections sid) false rfl rfl]
          simp only [proxyStep, Option.map, recv]
          generalize servicer s' false (.getStudyDirections sid) = r2
          obtain ⟨s2, resp2⟩ := r2
          cases resp2 with
          | abort code => cases code <;> rfl
          | ok rep => cases rep <;> rfl
      | _ => rfl
  | createTrial sid tmpl ir => cases tmpl <;> (rw [proxyStepGen_primary _ _ _ rfl]; exact gen_primary_eq s u _ _ rfl rfl)
  | _ => rw [proxyStepGen_primary _ _ _ rfl]; exact gen_primary_eq s u _ _ rfl rfl

/-- a whole history through the generated proxy -/
def proxyRunGen : Spec → List (String × Op) → Option (Spec × List POut)
  | s, [] => some (s, [])
  | s, (u, op) :: rest =>
    match proxyStepGen program s u op with
    | none => none
    | some r => (proxyRunGen r.1 rest).map (fun q => (q.1, r.2 :: q.2))

theorem gen_proxy_run_eq (s : Spec) (h : List (String × Op)) : proxyRunGen s h = some (proxyRun s h) := by
  induction h generalizing s with
  | nil => rfl
  | cons hd t ih =>
    obtain ⟨u, op⟩ := hd
    simp only [proxyRunGen, gen_proxy_eq, ih, Option.map, proxyRun]

example : (proxyRunGen Storage.init [("u1", .createStudy "" [0]), ("", .createTrial 0 none false), ("", .getStudyDirections 0),
    ("", .getTrial 5)]).map (·.2) = some [.ok (.newId 0), .ok (.newId 0), .ok (.nats [2]), .ok (.err .keyError)] := by
  rw [gen_proxy_run_eq]; decide

/-! ## the error ladders, read off the generated bodies -/

/-- the `except` clauses of the first `try` of a body -/
def handlersOf : Stmt → Option Stmt
  | .tryExcept _ h => some h
  | .seq a b => match handlersOf a with | some h => some h | none => handlersOf b
  | .ite _ a b => match handlersOf a with | some h => some h | none => handlersOf b
  | _ => none

def emptySt (e : Exn) : St := { s := Storage.init, env := [], cur := some e }

/-- the status code the GENERATED servicer method answers with when its backend call raises `e` -/
def genAbortStatus (rpc : Rpc) (e : Err) : Status :=
  match handlersOf (program.servicer rpc) with
  | none => .unknown
  | some h => match exec (Ctx.hand false "") h (emptySt (excOf e)) with
    | (_, .aborted code) => code
    | _ => .unknown

/-- the client function whose body calls the stub of `rpc` (`GrpcTables.clientMethod`) -/
def clientMethodOf : Rpc → Method
  | .createNewStudy => program.createNewStudy | .deleteStudy => program.deleteStudy
  | .setStudyUserAttribute => program.setStudyUserAttr | .setStudySystemAttribute => program.setStudySystemAttr
  | .getStudyIdFromName => program.getStudyIdFromName | .getStudyNameFromId => program.getStudyNameFromId
  | .getStudyDirections => program.getStudyDirections | .getStudyUserAttributes => program.getStudyUserAttrs
  | .getStudySystemAttributes => program.getStudySystemAttrs | .getAllStudies => program.getAllStudies
  | .createNewTrial => program.createNewTrial | .setTrialParameter => program.setTrialParam
  | .getTrialIdFromStudyIdTrialNumber => program.getTrialIdFromNumber | .setTrialStateValues => program.setTrialStateValues
  | .setTrialIntermediateValue => program.setTrialIntermediateValue | .setTrialUserAttribute => program.setTrialUserAttr
  | .setTrialSystemAttribute => program.setTrialSystemAttr | .getTrial => program.getTrial | .getTrials => program.readTrials

/-- what the caller of the GENERATED client method sees when the stub call fails with `code` -/
def genClientError (rpc : Rpc) (code : Status) : POut :=
  match handlersOf (clientMethodOf rpc).body with
  | none => .rpcError code
  | some h => match exec (Ctx.hand false "") h (emptySt (.rpc code)) with
    | (_, .raised e) => poutOfExn e
    | _ => .raised .exception

def statusAll : List Status := [.ok, .cancelled, .unknown, .invalidArgument, .deadlineExceeded, .notFound, .alreadyExists, .permissionDenied,
  .resourceExhausted, .failedPrecondition, .aborted, .outOfRange, .unimplemented, .internal, .unavailable, .dataLoss, .unauthenticated]
def errAll : List Err := [.keyError, .duplicated, .updateFinished, .valueError, .runtimeError]

/-- the servicer ladders as written today are the table `GrpcTables.servicerCatches` read by T-grpc (every rpc, every class) -/
theorem gen_servicer_ladders : ∀ rpc ∈ Rpc.all, ∀ e ∈ errAll, genAbortStatus rpc e = abortStatus rpc e := by decide

/-- the client chains as written today are the table `GrpcTables.clientRaises` (every rpc, every status code) -/
theorem gen_client_ladders : ∀ rpc ∈ Rpc.all, ∀ code ∈ statusAll, genClientError rpc code = clientError rpc code := by decide

/-- which contract error classes a backend can raise inside which rpc (the list `C01Grpc.raisable`) -/
def genRaisable : List (Rpc × Err) := [
  (.createNewStudy, .duplicated),
  (.deleteStudy, .keyError), (.setStudyUserAttribute, .keyError), (.setStudySystemAttribute, .keyError),
  (.getStudyIdFromName, .keyError), (.getStudyNameFromId, .keyError), (.getStudyDirections, .keyError),
  (.getStudyUserAttributes, .keyError), (.getStudySystemAttributes, .keyError),
  (.createNewTrial, .keyError), (.createNewTrial, .valueError),
  (.setTrialParameter, .keyError), (.setTrialParameter, .updateFinished), (.setTrialParameter, .valueError),
  (.getTrialIdFromStudyIdTrialNumber, .keyError),
  (.setTrialStateValues, .keyError), (.setTrialStateValues, .updateFinished),
  (.setTrialIntermediateValue, .keyError), (.setTrialIntermediateValue, .updateFinished),
  (.setTrialUserAttribute, .keyError), (.setTrialUserAttribute, .updateFinished),
  (.setTrialSystemAttribute, .keyError), (.setTrialSystemAttribute, .updateFinished),
  (.getTrial, .keyError), (.getTrials, .keyError)]

/-- **gen_error_mapping_roundtrip** (`C01Grpc.error_class_preserved` restated on the generated bodies): every error class the
contract can raise inside an rpc (`genRaisable` = `C01Grpc.raisable`, complete by `C01Grpc.step_err_raisable`: Props/C01GrpcGenSpec.lean) goes through the `except` ladder of the
servicer method as written today, and the status code goes through the `if e.code() == …` chain of the client method as written
today, and comes out as the same class -/
theorem gen_error_mapping_roundtrip :
    ∀ p ∈ genRaisable, genClientError p.1 (genAbortStatus p.1 p.2) = .ok (.err p.2) := by decide

example : genAbortStatus .createNewTrial .valueError = .invalidArgument ∧ genClientError .createNewTrial .invalidArgument = .ok (.err .valueError) ∧
    genAbortStatus .setTrialParameter .updateFinished = .failedPrecondition ∧ genClientError .deleteStudy .unavailable = .rpcError .unavailable := by
  decide

/-! ## every contract method has its rpc -/

def stubsOf : Stmt → List Rpc
  | .stub rpc _ _ => [rpc]
  | .seq a b => stubsOf a ++ stubsOf b
  | .ite _ a b => stubsOf a ++ stubsOf b
  | .tryExcept a h => stubsOf a ++ stubsOf h
  | .onExc _ h r => stubsOf h ++ stubsOf r
  | .onRpcError h r => stubsOf h ++ stubsOf r
  | .ifCode _ a b => stubsOf a ++ stubsOf b
  | _ => []

def backendsOf : Stmt → List BM
  | .backend m _ _ => [m]
  | .seq a b => backendsOf a ++ backendsOf b
  | .ite _ a b => backendsOf a ++ backendsOf b
  | .tryExcept a h => backendsOf a ++ backendsOf h
  | .onExc _ h r => backendsOf h ++ backendsOf r
  | .onRpcError h r => backendsOf h ++ backendsOf r
  | .ifCode _ a b => backendsOf a ++ backendsOf b
  | _ => []

def usesCacheRead : Stmt → Bool
  | .cacheGetAll .. => true
  | .seq a b => usesCacheRead a || usesCacheRead b
  | _ => false

/-- the `BaseStorage` method of the contract each rpc stands for -/
def bmOf : Rpc → BM
  | .createNewStudy => .create_new_study | .deleteStudy => .delete_study | .setStudyUserAttribute => .set_study_user_attr
  | .setStudySystemAttribute => .set_study_system_attr | .getStudyIdFromName => .get_study_id_from_name
  | .getStudyNameFromId => .get_study_name_from_id | .getStudyDirections => .get_study_directions
  | .getStudyUserAttributes => .get_study_user_attrs | .getStudySystemAttributes => .get_study_system_attrs
  | .getAllStudies => .get_all_studies | .createNewTrial => .create_new_trial | .setTrialParameter => .set_trial_param
  | .getTrialIdFromStudyIdTrialNumber => .get_trial_id_from_study_id_trial_number | .setTrialStateValues => .set_trial_state_values
  | .setTrialIntermediateValue => .set_trial_intermediate_value | .setTrialUserAttribute => .set_trial_user_attr
  | .setTrialSystemAttribute => .set_trial_system_attr | .getTrial => .get_trial | .getTrials => .get_all_trials

/-- each rpc method as written today makes exactly ONE backend call, to the `BaseStorage` method it stands for; each client
function as written today makes exactly one stub call, to its rpc (`C01Grpc.rpc_call_sites` restated on the bodies) -/
theorem gen_rpc_call_sites :
    (∀ rpc ∈ Rpc.all, backendsOf (program.servicer rpc) = [bmOf rpc]) ∧
    (∀ rpc ∈ Rpc.all, stubsOf (clientMethodOf rpc).body = [rpc]) := by decide

/-- the rpc an operation of the contract goes through (`C01Grpc.rpcOf`; equal to it: `rpcOfGen_eq` in Props/C01GrpcGenSpec.lean) -/
def rpcOfGen : Op → Option Rpc
  | .createStudy .. => some .createNewStudy
  | .deleteStudy .. => some .deleteStudy
  | .setStudyUserAttr .. => some .setStudyUserAttribute
  | .setStudySystemAttr .. => some .setStudySystemAttribute
  | .createTrial .. => some .createNewTrial
  | .setTrialParam .. => some .setTrialParameter
  | .setTrialStateValues .. => some .setTrialStateValues
  | .setTrialInter .. => some .setTrialIntermediateValue
  | .setTrialUserAttr .. => some .setTrialUserAttribute
  | .setTrialSystemAttr .. => some .setTrialSystemAttribute
  | .getStudyIdFromName .. => some .getStudyIdFromName
  | .getStudyNameFromId .. => some .getStudyNameFromId
  | .getStudyDirections .. => some .getStudyDirections
  | .getStudyUserAttrs .. => some .getStudyUserAttributes
  | .getStudySystemAttrs .. => some .getStudySystemAttributes
  | .getAllStudies => some .getAllStudies
  | .getTrialIdFromNumber .. => some .getTrialIdFromStudyIdTrialNumber
  | .getTrial .. => some .getTrial
  | .getAllTrials .. => some .getTrials
  | .getTrialNumberFromId .. | .getTrialParam .. | .getNTrials .. | .getBestTrial .. => none

/-- **gen_every_contract_method_has_rpc**: every operation of the contract that `rpcOf` sends over the wire has a client method
as written today whose one stub call is that rpc (for `get_all_trials`: through the cache's `_read_trials_from_remote_storage`),
and that rpc's servicer method as written today calls the one `BaseStorage` method; the four operations without an rpc are the
`BaseStorage` defaults (`C01Grpc.proxy_derived`) -/
theorem gen_every_contract_method_has_rpc (op : Op) (rpc : Rpc) (h : rpcOfGen op = some rpc) :
    ∃ m args, clientCall program op = some (m, args) ∧
      (stubsOf m.body = [rpc] ∨ (usesCacheRead m.body = true ∧ stubsOf m.body = [] ∧ stubsOf program.readTrials.body = [rpc])) ∧
      backendsOf (program.servicer rpc) = [bmOf rpc] := by
  cases op <;> simp only [rpcOfGen, Option.some.injEq, reduceCtorEq] at h <;> subst h
  case createTrial sid tmpl ir => cases tmpl <;> exact ⟨_, _, rfl, Or.inl rfl, rfl⟩
  case getAllTrials sid sts => exact ⟨_, _, rfl, Or.inr ⟨rfl, rfl, rfl⟩, rfl⟩
  all_goals exact ⟨_, _, rfl, Or.inl rfl, rfl⟩

example : rpcOfGen (.getBestTrial 0) = none ∧ (clientCall program (.getBestTrial 0)).isNone = true := by decide

/-- pickling: `__getstate__` drops exactly the channel stub and the cache, `__setstate__` rebuilds both (the cache EMPTY:
`GrpcClientCache(self._stub)`), so an unpickled client starts from the cold state `Proto.proxyStep` models -/
theorem gen_pickle_rebuilds_what_it_drops :
    GrpcMethods.pickleDropped = ["_stub", "_cache"] ∧ ∀ a ∈ GrpcMethods.pickleDropped, a ∈ GrpcMethods.pickleRebuilt := by decide

/-- the generated state converters invert each other: every `TrialState` goes over the wire and comes back as itself
(`C01Grpc.proto_state_roundtrip` restated on the bodies as written today) -/
theorem gen_state_roundtrip (t : TState) : (program.toProtoStateG t).bind program.fromProtoStateG = some t := by
  cases t <;> rfl

example : (program.toProtoStateG .fail).bind program.fromProtoStateG = some .fail := by decide

/-- `BaseStorage.get_best_trial` as written today (it runs in the client, on `get_all_trials` and `get_study_directions` through the
proxy): reads the COMPLETE trials, raises `ValueError` when there are none, reads the directions, raises `RuntimeError` when there is
more than one, then picks — the order and the classes `Proto.bestOut` / `callDerived` assume (pinned shape; the pick is C12's) -/
theorem gen_best_trial_skeleton : GrpcMethods.baseGetBestTrialSkeleton =
    ["call self.get_all_trials(study_id, deepcopy=False, states=[TrialState.COMPLETE])",
     "if len(all_trials) == 0: raise ValueError",
     "call self.get_study_directions(study_id)",
     "if len(directions) > 1: raise RuntimeError",
     "direction = …",
     "if direction == StudyDirection.MAXIMIZE: … else: …",
     "return best_trial"] := rfl

/-- nothing had to be stubbed -/
theorem gen_translation_complete : GrpcMethods.stubbed = [] ∧ GrpcMethods.translated = 43 := by decide

end OptunaVerif.C01GrpcGen
