import OptunaVerif.Props.C01Grpc
import OptunaVerif.Props.C01GrpcGen
/-!
# C01, gRPC layer — the property theorems of Props/C01Grpc.lean, restated for the interpreter of the generated bodies

`Props/C01GrpcGen.lean` (which does not depend on Props/C01Grpc.lean, so that a change of the source breaks a NAMED theorem of
either file on its own) proves `gen_proxy_eq`: generated client over generated servicer over generated converters = `Proto.proxyStep`.
Here that is composed with the theorems about `Proto.proxyStep`.
-/
namespace OptunaVerif.C01GrpcGen
open OptunaVerif OptunaVerif.Storage OptunaVerif.Proto OptunaVerif.GrpcIR OptunaVerif.Generated
open OptunaVerif.Generated.GrpcTables (Exc Status Rpc)
open OptunaVerif.Generated.GrpcMethods (program)

/-- **gen_proxy_refines_contract** (`C01Grpc.proxy_refines_backend` restated for the interpreter of the generated bodies): a call
through the generated client + generated servicer over a backend that meets the contract (`Storage.step`) leaves the backend in the
state the contract gives for the operation in normal form, and returns the contract's answer / raises the contract's error class -/
theorem gen_proxy_refines_contract (s : Spec) (u : String) (op : Op) :
    proxyStepGen program s u op = some ((step s (normOp u op)).1, .ok (normOut (step s (normOp u op)).2)) := by
  rw [gen_proxy_eq, C01Grpc.proxy_refines_backend]

/-- the U1 case through the generated bodies: the backend's `ValueError` for a conflicting template reaches the caller as `ValueError`
(before the repair of `CreateNewTrial` / `create_new_trial`, F32: `grpc.RpcError(UNKNOWN)`) -/
example : proxyStepGen program C01Grpc.u1State "u" (.createTrial 0 (some C01Grpc.u1Template) true)
    = some (C01Grpc.u1State, .ok (.err .valueError)) := by
  rw [gen_proxy_eq]; decide

/-- in particular the backend's state is the contract's -/
theorem gen_proxy_state_refines (s : Spec) (u : String) (op : Op) :
    (proxyStepGen program s u op).map (·.1) = some (step s (normOp u op)).1 := by
  rw [gen_proxy_refines_contract]; rfl

/-- every history through the generated proxy drives the backend through a history of the contract model, and every invariant of
C01 holds of the proxied storage (`C01Grpc.proxy_numbers_dense` restated) -/
theorem gen_proxy_numbers_dense (h : List (String × Op)) :
    ∃ r, proxyRunGen Storage.init h = some r ∧ C01.Numbered r.1 :=
  ⟨_, gen_proxy_run_eq _ h, C01Grpc.proxy_numbers_dense h⟩

theorem rpcOfGen_eq : rpcOfGen = C01Grpc.rpcOf := by
  funext op; cases op <;> rfl

/-- the list `gen_error_mapping_roundtrip` ranges over is the complete list of Props/C01Grpc.lean … -/
theorem genRaisable_eq : genRaisable = C01Grpc.raisable := rfl

/-- … so: whatever error the contract answers inside an rpc survives the servicer ladder and the client chain as written today -/
theorem gen_error_mapping_roundtrip_complete (s : Spec) (op : Op) (rpc : Rpc) (e : Err)
    (hr : C01Grpc.rpcOf op = some rpc) (he : (step s op).2 = .err e) :
    genClientError rpc (genAbortStatus rpc e) = .ok (.err e) :=
  gen_error_mapping_roundtrip (rpc, e) (genRaisable_eq ▸ C01Grpc.step_err_raisable s op rpc e hr he)

example : (step Storage.init (.deleteStudy 0)).2 = .err .keyError ∧
    genClientError .deleteStudy (genAbortStatus .deleteStudy .keyError) = .ok (.err .keyError) := by decide

end OptunaVerif.C01GrpcGen
