import OptunaVerif.Props.C01
/-!
# C01 — history-level forms of two single-step statements (audit follow-up)

* `claim_once_history`: `C01.claim_once` is about two back-to-back claims.  Here: after a successful
  claim of `tid`, in EVERY later history that does not put `tid` back to WAITING (no re-queue), no
  `set_trial_state_values(tid, RUNNING)` is answered `True` — whatever else happens in between (other
  claims, writes, creations, deletions), from any state.
* `deleted_name_free`: `C01.deleted_gone` says a deleted study stays gone; it does not say its NAME
  becomes free.  Here: in every reachable state live study names are pairwise distinct
  (`names_unique`), hence after `delete_study` a `create_new_study` under the deleted study's name
  succeeds and is given a fresh id.
-/
namespace OptunaVerif.C01
open OptunaVerif OptunaVerif.Storage

/-! ## a claimed trial is claimed once, over whole histories -/

/-- the call puts trial `tid` back to WAITING -/
def isRequeue (tid : Nat) : Op → Bool
  | .setTrialStateValues t .waiting _ => t == tid
  | _ => false

/-- the record stored under id `tid` exists and is not WAITING (whether or not its study is still live) -/
def NotWaiting (s : Spec) (tid : Nat) : Prop := ∃ t, s.trials[tid]? = some t ∧ t.state ≠ .waiting

theorem updAt_state (l : List TrialS) (i tid : Nat) (f : TrialS → TrialS) (hf : ∀ t, (f t).state = t.state)
    (h : ∃ t, l[tid]? = some t ∧ t.state ≠ .waiting) : ∃ t, (updAt l i f)[tid]? = some t ∧ t.state ≠ .waiting := by
  obtain ⟨t, ht, hs⟩ := h
  rw [updAt_getElem?]
  by_cases hi : tid = i
  · subst hi; exact ⟨f t, by simp [ht], by rw [hf]; exact hs⟩
  · exact ⟨t, by simp [hi, ht], hs⟩

/-- every call other than a re-queue of `tid` keeps "`tid` is not WAITING" -/
theorem notWaiting_step (s : Spec) (tid : Nat) (op : Op) (hq : NotWaiting s tid) (hop : isRequeue tid op = false) :
    NotWaiting (step s op).1 tid := by
  unfold NotWaiting at *
  cases op with
  | createTrial sid tmpl ir =>
    simp only [step]
    repeat' split
    all_goals first
      | exact hq
      | (obtain ⟨t, ht, hs⟩ := hq
         refine ⟨t, ?_, hs⟩
         obtain ⟨hlt, _⟩ := List.getElem?_eq_some_iff.1 ht
         show (s.trials ++ _)[tid]? = some t
         rw [List.getElem?_append_left hlt]; exact ht)
  | setTrialStateValues tid' st vals =>
    simp only [step]
    repeat' split
    all_goals first
      | exact hq
      | (obtain ⟨t, ht, hs⟩ := hq
         simp only [Spec.updTrial]
         rw [updAt_getElem?]
         by_cases hi : tid = tid'
         · subst hi
           refine ⟨_, by simp [ht]; rfl, ?_⟩
           cases st <;> simp_all [isRequeue]
         · exact ⟨t, by simp [hi, ht], hs⟩)
  | setTrialParam tid' name p ir =>
    simp only [step]
    repeat' split
    all_goals first
      | exact hq
      | exact updAt_state s.trials tid' tid _ (fun _ => rfl) hq
  | setTrialInter tid' stp v =>
    simp only [step]
    repeat' split
    all_goals first
      | exact hq
      | exact updAt_state s.trials tid' tid _ (fun _ => rfl) hq
  | setTrialUserAttr tid' k v =>
    simp only [step]
    repeat' split
    all_goals first
      | exact hq
      | exact updAt_state s.trials tid' tid _ (fun _ => rfl) hq
  | setTrialSystemAttr tid' k v =>
    simp only [step]
    repeat' split
    all_goals first
      | exact hq
      | exact updAt_state s.trials tid' tid _ (fun _ => rfl) hq
  | _ =>
    simp only [step]
    repeat' split
    all_goals exact hq

theorem notWaiting_after (s : Spec) (tid : Nat) (ops : List Op) (hq : NotWaiting s tid)
    (hn : ops.all (fun op => !isRequeue tid op) = true) : NotWaiting (after s ops) tid := by
  induction ops generalizing s with
  | nil => exact hq
  | cons op rest ih =>
    simp only [List.all_cons, Bool.and_eq_true, Bool.not_eq_true'] at hn
    exact ih _ (notWaiting_step s tid op hq hn.1) hn.2

/-- a claim of a trial that is not WAITING is not answered `True` -/
theorem claim_not_true_of_notWaiting (s : Spec) (tid : Nat) (vals : Option (List XVal)) (hq : NotWaiting s tid) :
    (step s (.setTrialStateValues tid .running vals)).2 ≠ .bool true := by
  intro h
  obtain ⟨t, ht, hw⟩ := (claim_true_iff_waiting s tid vals).1 h
  obtain ⟨t', ht', hs⟩ := hq
  rw [((trial?_some_iff s tid t).1 ht).1] at ht'
  cases ht'
  exact hs hw

/-- **claim_once_history**: after a successful claim of `tid`, for every later history `pre` that contains
no re-queue of `tid` (`set_trial_state_values(tid, WAITING)`), a further claim of `tid` is NOT answered
`True` — whatever other calls (by whomever) `pre` contains. -/
theorem claim_once_history (s : Spec) (tid : Nat) (vals vals' : Option (List XVal)) (pre : List Op)
    (h : (step s (.setTrialStateValues tid .running vals)).2 = .bool true)
    (hn : pre.all (fun op => !isRequeue tid op) = true) :
    (step (after (step s (.setTrialStateValues tid .running vals)).1 pre)
      (.setTrialStateValues tid .running vals')).2 ≠ .bool true := by
  apply claim_not_true_of_notWaiting
  apply notWaiting_after _ _ _ _ hn
  -- right after the claim the record is RUNNING
  obtain ⟨t, ht, hw⟩ := (claim_true_iff_waiting s tid vals).1 h
  have hw' : s.writable tid = .ok t := by simp [Spec.writable, ht, hw, TState.isFinished]
  have hget := ((trial?_some_iff s tid t).1 ht).1
  have hb : (TState.running == TState.running && TState.waiting != TState.waiting) = false := by decide
  simp only [step, hw', hw, hb, Bool.false_eq_true, ↓reduceIte]
  refine ⟨_, updTrial_get_same s tid _ t hget, ?_⟩
  simp

/-- the hypothesis is needed: with a re-queue in between, the second claim succeeds -/
example : (step (after (step (after init [.createStudy "s" [1], .createTrial 0 (some ⟨.waiting, none, [], [], [], [], false, false⟩) false])
      (.setTrialStateValues 0 .running none)).1 [.setTrialStateValues 0 .waiting none])
    (.setTrialStateValues 0 .running none)).2 = .bool true := by decide
/-- non-vacuity: a claim succeeds, other calls follow, the next claim answers False -/
example : (step (after init [.createStudy "s" [1], .createTrial 0 (some ⟨.waiting, none, [], [], [], [], false, false⟩) false])
    (.setTrialStateValues 0 .running none)).2 = .bool true := by decide
example : (step (after (step (after init [.createStudy "s" [1], .createTrial 0 (some ⟨.waiting, none, [], [], [], [], false, false⟩) false])
      (.setTrialStateValues 0 .running none)).1 [.setTrialUserAttr 0 "k" "v", .createTrial 0 none false])
    (.setTrialStateValues 0 .running none)).2 = .bool false := by decide


/-! ## the name of a deleted study is free again -/

/-- live studies have pairwise distinct names -/
def NamesUnique (s : Spec) : Prop :=
  ∀ (i j : Nat) (a b : StudyS), s.studies[i]? = some (some a) → s.studies[j]? = some (some b) → a.name = b.name → i = j

theorem nameTaken_false_iff (s : Spec) (name : String) :
    s.nameTaken name = false ↔ ∀ (i : Nat) (a : StudyS), s.studies[i]? = some (some a) → a.name ≠ name := by
  unfold Spec.nameTaken
  rw [List.any_eq_false]
  constructor
  · intro h i a hi hn
    have hm : some a ∈ s.studies := List.mem_of_getElem? hi
    have := h (some a) hm
    simp [hn] at this
  · intro h o ho
    cases o with
    | none => simp
    | some a =>
      obtain ⟨i, hi⟩ := List.getElem?_of_mem ho
      have := h i a hi
      simpa using this

theorem namesUnique_step (s : Spec) (op : Op) (h : NamesUnique s) : NamesUnique (step s op).1 := by
  have hc := step_studies s op
  intro i j a b hi hj hn
  cases hc with
  | same e => rw [e] at hi hj; exact h i j a b hi hj hn
  | append st e hfree =>
    rw [e] at hi hj
    have hfree' := (nameTaken_false_iff s st.name).1 hfree
    by_cases hil : i < s.studies.length
    · rw [List.getElem?_append_left hil] at hi
      by_cases hjl : j < s.studies.length
      · rw [List.getElem?_append_left hjl] at hj; exact h i j a b hi hj hn
      · have hj' : j = s.studies.length ∧ b = st := by
          rw [List.getElem?_append_right (Nat.le_of_not_lt hjl)] at hj
          cases hk : j - s.studies.length with
          | zero => simp [hk] at hj; exact ⟨by omega, hj.symm⟩
          | succ k => simp [hk] at hj
        exact absurd (hn.trans (by rw [hj'.2])) (hfree' i a hi)
    · have hi' : i = s.studies.length ∧ a = st := by
        rw [List.getElem?_append_right (Nat.le_of_not_lt hil)] at hi
        cases hk : i - s.studies.length with
        | zero => simp [hk] at hi; exact ⟨by omega, hi.symm⟩
        | succ k => simp [hk] at hi
      by_cases hjl : j < s.studies.length
      · rw [List.getElem?_append_left hjl] at hj
        exact absurd (hn.symm.trans (by rw [hi'.2])) (hfree' j b hj)
      · have hj' : j = s.studies.length := by
          rw [List.getElem?_append_right (Nat.le_of_not_lt hjl)] at hj
          cases hk : j - s.studies.length with
          | zero => omega
          | succ k => simp [hk] at hj
        omega
  | delete sid e hlive =>
    rw [e, updAt_getElem?] at hi hj
    by_cases h1 : i = sid
    · simp [h1] at hi
    · by_cases h2 : j = sid
      · simp [h2] at hj
      · simp [h1] at hi; simp [h2] at hj; exact h i j a b hi hj hn
  | upd sid f e hf =>
    rw [e, updAt_getElem?] at hi hj
    -- the names at i and j are the names before the call
    have key : ∀ k c, (if k = sid then (s.studies[k]?).map (fun o => o.map f) else s.studies[k]?) = some (some c) →
        ∃ c0, s.studies[k]? = some (some c0) ∧ c0.name = c.name := by
      intro k c hk
      by_cases hks : k = sid
      · simp only [hks, if_true] at hk
        cases hs : s.studies[sid]? with
        | none => simp [hs] at hk
        | some o =>
          cases o with
          | none => simp [hs] at hk
          | some c0 =>
            simp [hs] at hk
            exact ⟨c0, by rw [hks, hs], by rw [← hk]; exact ((hf c0).1).symm⟩
      · simp only [hks, if_false] at hk; exact ⟨c, hk, rfl⟩
    obtain ⟨a0, ha0, hna⟩ := key i a hi
    obtain ⟨b0, hb0, hnb⟩ := key j b hj
    exact h i j a0 b0 ha0 hb0 (by rw [hna, hnb, hn])

/-- **names_unique**: in every reachable state the live studies have pairwise distinct names. -/
theorem names_unique (ops : List Op) : NamesUnique (after init ops) := by
  have : ∀ s, NamesUnique s → NamesUnique (after s ops) := by
    induction ops with
    | nil => intro s h; exact h
    | cons op rest ih => intro s h; exact ih _ (namesUnique_step s op h)
  exact this init (by intro i j a b hi; simp [init] at hi)

/-- **deleted_name_free**: in every state in which live names are distinct (every reachable state:
`names_unique`), after `delete_study(sid)` a `create_new_study` under the deleted study's name succeeds
and is given a fresh id. -/
theorem deleted_name_free (s : Spec) (hu : NamesUnique s) (sid : Nat) (st : StudyS) (dirs : List Nat)
    (h : s.study? sid = some st) :
    (step (step s (.deleteStudy sid)).1 (.createStudy st.name dirs)).2 = .newId s.studies.length := by
  have hraw : s.studies[sid]? = some (some st) := by
    unfold Spec.study? at h
    cases hs : s.studies[sid]? with
    | none => simp [hs] at h
    | some o => cases o <;> simp_all
  have hdel : (step s (.deleteStudy sid)).1 = { s with studies := updAt s.studies sid (fun _ => none) } := by
    simp [step, h]
  have hfree : (step s (.deleteStudy sid)).1.nameTaken st.name = false := by
    rw [hdel, nameTaken_false_iff]
    intro i a hi hn
    simp only [updAt_getElem?] at hi
    by_cases his : i = sid
    · simp [his, hraw] at hi
    · simp only [his, if_false] at hi
      exact his (hu i sid a st hi hraw hn)
  have hcr : ∀ s1 : Spec, s1.nameTaken st.name = false →
      (step s1 (.createStudy st.name dirs)).2 = .newId s1.studies.length := by
    intro s1 h1; simp [step, h1]
  rw [hcr _ hfree, hdel]; simp

/-- … in particular in every reachable state -/
theorem deleted_name_free_reachable (ops : List Op) (sid : Nat) (st : StudyS) (dirs : List Nat)
    (h : (after init ops).study? sid = some st) :
    (step (step (after init ops) (.deleteStudy sid)).1 (.createStudy st.name dirs)).2 =
      .newId (after init ops).studies.length :=
  deleted_name_free _ (names_unique ops) sid st dirs h

example : (step (step (after init [.createStudy "a" [1], .createStudy "b" [2]]) (.deleteStudy 0)).1 (.createStudy "a" [2])).2 = .newId 2 := by
  decide
/-- before the deletion the name is taken -/
example : (step (after init [.createStudy "a" [1], .createStudy "b" [2]]) (.createStudy "a" [2])).2 = .err .duplicated := by decide

end OptunaVerif.C01
