import OptunaVerif.Lemmas.InMemorySteps4
import OptunaVerif.Props.C01
/-!
# C01 — `InMemoryStorage` refines the storage contract (property theorems)

`Model/InMemory.lean` mirrors `optuna/storages/_in_memory.py` (same dictionaries, counters, caches,
same order of checks and writes; tied to the code after every call by `verif/props/c01_inmem.py`).
Here: for **every** history of calls (no bound on length, ids, sizes) the answers of that model are
answers the contract model `Storage.step` allows, and the contract state is an abstraction of the
in-memory state that commutes with every call.

* `Inv`  — what the redundant fields promise (`_trial_id_to_study_id_and_number`, `_study_name_to_id`,
  `_prev_waiting_trial_number`, `best_trial_id`, `param_distribution`).
* `Rel m s` — the abstraction.  The observable part of `s` is a function of `m`
  (`abs_studies`, `abs_trial`, `abs_trials_of_study`); the records the contract model keeps of
  deleted studies' trials are not observable and not stored by the implementation.
* `specStep` is `Storage.step` except for ONE thing that is true of today's code: a
  `create_new_study` rejected with `DuplicatedStudyError` has already consumed a study id
  (`_max_study_id` is incremented before the name check).  `specStep` therefore appends a dead slot
  in that case; `burn_is_create_delete` shows this is the contract state after creating a study under
  a free name and deleting it, so every abstract state is a state of the plain contract model
  (`abs_reachable`).  With the plain step the commutation is false: `plain_step_witness`.
* `Legal` — client obligations (≥ 1 direction, each MINIMIZE/MAXIMIZE; a trial of a single-objective
  study becomes COMPLETE with exactly one non-NaN value).  Without them the in-memory storage
  departs from the contract model: `empty_directions_witness`, `complete_without_value_witness`,
  `nan_value_witness`, `not_set_direction_witness`.
* Looseness of the contract accepted exactly as the C01 harness does: U1 (`opFor`: the contract model
  is told whether the implementation answered `ValueError`), U3, U4 (`accepts`).
-/
namespace OptunaVerif.C01InMem
open OptunaVerif OptunaVerif.Storage OptunaVerif.InMemory

/-! ## histories -/

/-- one call on the in-memory model and, following it, on the contract model -/
def pairStep (ms : State × Spec) (op : Op) : State × Spec :=
  ((InMemory.step ms.1 op).1, (specStep ms.2 (opFor op (InMemory.step ms.1 op).2)).1)

def pairRun (ms : State × Spec) (ops : List Op) : State × Spec := ops.foldl pairStep ms

/-- every call of the history is legal in the contract state it is issued in -/
def legalFrom : State × Spec → List Op → Bool
  | _, [] => true
  | ms, op :: rest => Legal ms.2 op && legalFrom (pairStep ms op) rest

/-- every answer of the in-memory model is allowed by the contract model's answer -/
def acceptedFrom : State × Spec → List Op → Bool
  | _, [] => true
  | ms, op :: rest =>
    accepts op (specStep ms.2 (opFor op (InMemory.step ms.1 op).2)).2 (InMemory.step ms.1 op).2 &&
      acceptedFrom (pairStep ms op) rest

/-- the in-memory component of the paired run is the in-memory run -/
theorem pairRun_fst (ms : State × Spec) (ops : List Op) :
    (pairRun ms ops).1 = ops.foldl (fun m op => (InMemory.step m op).1) ms.1 := by
  induction ops generalizing ms with
  | nil => rfl
  | cons op rest ih => exact ih (pairStep ms op)

/-! ## the refinement -/

/-- **Inv init**, and the empty storage stands for the empty contract state. -/
theorem init_ok : Inv InMemory.init ∧ Rel InMemory.init Storage.init := ⟨inv_init, rel_init⟩

/-- **One call** (`Inv s → Inv (step s op).1`, `abs` commutes with the step, the output is allowed):
for every legal call, whatever the state. -/
theorem step_refines (m : State) (s : Spec) (op : Op) (hI : Inv m) (hR : Rel m s) (hL : Legal s op = true) :
    Inv (InMemory.step m op).1 ∧
    Rel (InMemory.step m op).1 (specStep s (opFor op (InMemory.step m op).2)).1 ∧
    accepts op (specStep s (opFor op (InMemory.step m op).2)).2 (InMemory.step m op).2 = true :=
  sim_all m s hI hR op hL

/-- **inMemory_refines_spec**: for EVERY history of legal calls, from any related pair of states,
every answer of the in-memory model is allowed by the contract, and the states stay related. -/
theorem inMemory_refines_spec (ms : State × Spec) (ops : List Op) (hI : Inv ms.1) (hR : Rel ms.1 ms.2)
    (hL : legalFrom ms ops = true) :
    acceptedFrom ms ops = true ∧ Inv (pairRun ms ops).1 ∧ Rel (pairRun ms ops).1 (pairRun ms ops).2 := by
  induction ops generalizing ms with
  | nil => exact ⟨rfl, hI, hR⟩
  | cons op rest ih =>
    simp only [legalFrom, Bool.and_eq_true] at hL
    obtain ⟨h1, h2, h3⟩ := step_refines ms.1 ms.2 op hI hR hL.1
    obtain ⟨a, b, c⟩ := ih (pairStep ms op) h1 h2 hL.2
    refine ⟨?_, b, c⟩
    simp only [acceptedFrom, Bool.and_eq_true]
    exact ⟨h3, a⟩

/-- … in particular from the empty storage. -/
theorem inMemory_refines_spec_init (ops : List Op) (hL : legalFrom (InMemory.init, Storage.init) ops = true) :
    acceptedFrom (InMemory.init, Storage.init) ops = true ∧
    Inv (pairRun (InMemory.init, Storage.init) ops).1 ∧
    Rel (pairRun (InMemory.init, Storage.init) ops).1 (pairRun (InMemory.init, Storage.init) ops).2 :=
  inMemory_refines_spec _ ops inv_init rel_init hL

/-! ## the abstraction is a function on everything observable -/

theorem abs_studies (m : State) (s : Spec) (hR : Rel m s) : s.studies = absStudies m := hR.studies

theorem abs_study (m : State) (s : Spec) (hI : Inv m) (hR : Rel m s) (sid : Nat) :
    s.study? sid = (m.studies.get? sid).map StudyInfo.pub := study?_eq m s hI.1 hR sid

theorem abs_trial (m : State) (s : Spec) (hI : Inv m) (hR : Rel m s) (tid : Nat) :
    s.trial? tid = absTrial? m tid := by
  unfold absTrial?
  cases h : getTrial m tid with
  | ok f => exact (getTrial_ok m s hI.1 hR tid f h).2.2.2.2.2.2
  | error e => exact (getTrial_error m s hI.1 hR tid e h).2.2

theorem abs_trials_of_study (m : State) (s : Spec) (hR : Rel m s) (sid : Nat) (si : StudyInfo)
    (h : m.studies.get? sid = some si) : s.trialsOf sid = si.trials := hR.trialsOf sid si h

/-- two contract states that stand for the same in-memory state cannot be told apart -/
theorem abs_observably_unique (m : State) (s s' : Spec) (hI : Inv m) (hR : Rel m s) (hR' : Rel m s') :
    s.studies = s'.studies ∧ s.trials.length = s'.trials.length ∧ (∀ tid, s.trial? tid = s'.trial? tid) ∧
    (∀ sid, (s.study? sid).isSome → s.trialsOf sid = s'.trialsOf sid) := by
  refine ⟨hR.studies.trans hR'.studies.symm, hR.ntrials.trans hR'.ntrials.symm, ?_, ?_⟩
  · intro tid; rw [abs_trial m s hI hR, abs_trial m s' hI hR']
  · intro sid hlive
    rw [abs_study m s hI hR] at hlive
    cases h : m.studies.get? sid with
    | none => simp [h] at hlive
    | some si => rw [hR.trialsOf sid si h, hR'.trialsOf sid si h]

/-! ## every abstract state is a state of the plain contract model -/

/-- A used-up study id = a study created under a free name and deleted at once. -/
theorem burn_is_create_delete (s : Spec) (name : String) (dirs : List Nat) (h : s.nameTaken name = false) :
    (Storage.step (Storage.step s (.createStudy name dirs)).1 (.deleteStudy s.studies.length)).1 = burn s :=
  burn_eq_create_delete s name dirs h

theorem specStep_is_contract_history (s : Spec) (op : Op) :
    ∃ cops : List Op, C01.after s cops = (specStep s op).1 := by
  cases op with
  | createStudy name dirs =>
    by_cases h : s.nameTaken name = true
    · refine ⟨[.createStudy (freshName s) [1], .deleteStudy s.studies.length], ?_⟩
      simp only [specStep, h, if_true]
      exact burn_eq_create_delete s (freshName s) [1] (freshName_free s)
    · refine ⟨[.createStudy name dirs], ?_⟩
      simp only [specStep, h]; rfl
  | _ => exact ⟨[_], rfl⟩

theorem after_append (s : Spec) (a b : List Op) : C01.after s (a ++ b) = C01.after (C01.after s a) b := by
  simp [C01.after, List.foldl_append]

/-- **abs_reachable**: the contract state an in-memory history stands for is reached by a history
of the plain contract model `Storage.step`. -/
theorem abs_reachable (ms : State × Spec) (ops : List Op) :
    ∃ cops : List Op, (pairRun ms ops).2 = C01.after ms.2 cops := by
  induction ops generalizing ms with
  | nil => exact ⟨[], rfl⟩
  | cons op rest ih =>
    obtain ⟨c1, h1⟩ := specStep_is_contract_history ms.2 (opFor op (InMemory.step ms.1 op).2)
    obtain ⟨c2, h2⟩ := ih (pairStep ms op)
    refine ⟨c1 ++ c2, ?_⟩
    rw [after_append, h1]
    exact h2

/-! ## the C01 invariants hold of the in-memory storage, for all histories -/

/-- **numbers_dense** (abstract state): trial numbers are 0,1,2,… per study in creation order. -/
theorem inMemory_abs_numbered (ops : List Op) :
    C01.Numbered (pairRun (InMemory.init, Storage.init) ops).2 := by
  obtain ⟨cops, h⟩ := abs_reachable (InMemory.init, Storage.init) ops
  rw [h]; exact C01.numbers_dense cops

/-- **numbers_dense** (the implementation's own lists): in every reachable state the trial stored at
position `n` of a study's list has number `n`, belongs to that study, and the id table says so. -/
theorem inMemory_numbers_dense (ops : List Op) (hL : legalFrom (InMemory.init, Storage.init) ops = true)
    (sid : Nat) (si : StudyInfo) (n tid : Nat) (t : TrialS)
    (hs : (pairRun (InMemory.init, Storage.init) ops).1.studies.get? sid = some si)
    (ht : si.trials[n]? = some (tid, t)) :
    t.number = n ∧ t.study = sid ∧
    (pairRun (InMemory.init, Storage.init) ops).1.tidMap.get? tid = some (sid, n) := by
  obtain ⟨_, hI, _⟩ := inMemory_refines_spec_init ops hL
  obtain ⟨h1, h2, _⟩ := hI.1.tfields sid si n tid t hs ht
  exact ⟨h1, h2, (hI.1.tmap tid sid n).2 ⟨si, t, hs, ht⟩⟩

theorem specStep_trials (s : Spec) (op : Op) :
    (specStep s op).1.trials = (Storage.step s op).1.trials ∨ (specStep s op).1.trials = s.trials := by
  cases op with
  | createStudy name dirs =>
    simp only [specStep]
    split
    · exact .inr rfl
    · exact .inl rfl
  | _ => exact .inl rfl

theorem specStep_frozen (s : Spec) (op : Op) (tid : Nat) (t : TrialS) (h : s.trials[tid]? = some t)
    (hf : t.state.isFinished = true) : (specStep s op).1.trials[tid]? = some t := by
  rcases specStep_trials s op with e | e
  · rw [e]; exact C01.finished_frozen_step s op tid t h hf
  · rw [e]; exact h

theorem frozen_run (ms : State × Spec) (ops : List Op) (tid : Nat) (t : TrialS)
    (h : ms.2.trials[tid]? = some t) (hf : t.state.isFinished = true) :
    (pairRun ms ops).2.trials[tid]? = some t := by
  induction ops generalizing ms with
  | nil => exact h
  | cons op rest ih => exact ih (pairStep ms op) (specStep_frozen ms.2 _ tid t h hf)

/-- **finished_frozen**: a finished trial read from the in-memory storage reads the same after any
further history (as long as it can be read at all, i.e. its study was not deleted). -/
theorem inMemory_finished_frozen (ms : State × Spec) (ops : List Op) (hI : Inv ms.1) (hR : Rel ms.1 ms.2)
    (hL : legalFrom ms ops = true) (tid : Nat) (f f' : Found)
    (h : getTrial ms.1 tid = .ok f) (hf : f.t.state.isFinished = true)
    (h' : getTrial (pairRun ms ops).1 tid = .ok f') : f'.t = f.t := by
  obtain ⟨_, hI', hR'⟩ := inMemory_refines_spec ms ops hI hR hL
  have h0 := (getTrial_ok ms.1 ms.2 hI.1 hR tid f h).2.2.2.2.2.1
  have h1 := (getTrial_ok _ _ hI'.1 hR' tid f' h').2.2.2.2.2.1
  rw [frozen_run ms ops tid f.t h0 hf] at h1
  exact (Option.some.inj h1).symm

theorem specStep_dead (s : Spec) (op : Op) (sid : Nat) (h : C01.Dead s sid) : C01.Dead (specStep s op).1 sid := by
  cases op with
  | createStudy name dirs =>
    simp only [specStep]
    split
    · unfold C01.Dead burn at *
      have hlt : sid < s.studies.length := by
        rcases Nat.lt_or_ge sid s.studies.length with h' | h'
        · exact h'
        · rw [List.getElem?_eq_none h'] at h; cases h
      show (s.studies ++ [none])[sid]? = some none
      rw [List.getElem?_append_left hlt]; exact h
    · exact C01.dead_step s _ sid h
  | _ => exact C01.dead_step s _ sid h

theorem dead_run (ms : State × Spec) (ops : List Op) (sid : Nat) (h : C01.Dead ms.2 sid) :
    C01.Dead (pairRun ms ops).2 sid := by
  induction ops generalizing ms with
  | nil => exact h
  | cons op rest ih => exact ih (pairStep ms op) (specStep_dead ms.2 _ sid h)

/-- **deleted_gone**: once `delete_study(sid)` has succeeded, the study is absent from `_studies` in
every later state, whatever (legal) calls follow — so every call on it answers `KeyError`
(`C01.dead_study_calls_rejected` through the refinement) and the id is never handed out again. -/
theorem inMemory_deleted_gone (m : State) (s : Spec) (hI : Inv m) (hR : Rel m s) (sid : Nat)
    (hdel : (InMemory.step m (.deleteStudy sid)).2 = .unit) (ops : List Op)
    (hL : legalFrom (pairStep (m, s) (.deleteStudy sid)) ops = true) :
    (pairRun (pairStep (m, s) (.deleteStudy sid)) ops).1.studies.get? sid = none := by
  obtain ⟨hI1, hR1, hacc⟩ := step_refines m s (.deleteStudy sid) hI hR rfl
  -- the contract deleted it too
  have hdead : C01.Dead (pairStep (m, s) (.deleteStudy sid)).2 sid := by
    have hs : (Storage.step s (.deleteStudy sid)).2 = .unit := by
      have : (specStep s (opFor (.deleteStudy sid) (InMemory.step m (.deleteStudy sid)).2)).2 =
          (Storage.step s (.deleteStudy sid)).2 := rfl
      rw [this, hdel] at hacc
      cases hq : (Storage.step s (.deleteStudy sid)).2 <;> rw [hq] at hacc <;> simp [accepts] at hacc
    exact C01.delete_makes_dead s _ sid (Prod.ext rfl hs)
  obtain ⟨_, hI', hR'⟩ := inMemory_refines_spec (pairStep (m, s) (.deleteStudy sid)) ops hI1 hR1 hL
  have hd := C01.dead_study_none _ sid (dead_run _ ops sid hdead)
  rw [abs_study _ _ hI' hR'] at hd
  cases hg : (pairRun (pairStep (m, s) (.deleteStudy sid)) ops).1.studies.get? sid with
  | none => rfl
  | some si => rw [hg] at hd; cases hd

/-- **waiting filter is complete** (the cursor shortcut of `get_all_trials(states=(WAITING,))`): in every
reachable state it returns exactly the WAITING trials of the study, in number order. -/
theorem inMemory_waiting_filter_complete (ms : State × Spec) (hI : Inv ms.1) (sid : Nat) (si : StudyInfo)
    (h : ms.1.studies.get? sid = some si) :
    (InMemory.step ms.1 (.getAllTrials sid (some [.waiting]))).2 =
      .trials (si.trials.filter (fun p => p.2.state == .waiting)) := by
  simp only [InMemory.step, h]
  rw [(allTrials_spec ms.1 hI sid si h (some [.waiting])).2.2]
  congr 1
  apply List.filter_congr
  intro p _
  exact stateIn_waiting p.2.state

/-- **best-trial cache is exact**: in every reachable state `get_best_trial` of a single-objective study
answers a COMPLETE trial whose value no COMPLETE trial of the study beats (or `ValueError` when
there is none). -/
theorem inMemory_best_is_optimal (m : State) (hI : Inv m) (sid d : Nat) (si : StudyInfo)
    (h : m.studies.get? sid = some si) (hd : si.directions = [d]) :
    (∃ b t, (InMemory.step m (.getBestTrial sid)).2 = .trial b t ∧ (b, t) ∈ bestSet d si.trials) ∨
    ((InMemory.step m (.getBestTrial sid)).2 = .err .valueError ∧ bestSet d si.trials = []) := by
  have hbest := hI.2.best sid si h
  cases hb : si.bestTrialId with
  | none =>
    right
    refine ⟨by simp only [InMemory.step, h, hb], ?_⟩
    exact bestSet_nil d si.trials (fun j p hp => hbest.none_ hb j p (by simp) hp)
  | some b =>
    left
    obtain ⟨j, t, _, hjt, hc, hdom⟩ := hbest.some_ b hb
    have hgt := getTrial_of m hI.1 sid j b si t h hjt
    have hlen : ¬ (si.directions.length > 1) := by rw [hd]; simp
    exact ⟨b, t, by simp only [InMemory.step, h, hb, hlen, if_false, hgt],
      mem_bestSet d si.trials j b t hjt hc (hdom d hd)⟩

/-! ## what is false on today's code (concrete witnesses, replayed on the real storage by the harness) -/

def tmplComplete (vals : Option (List XVal)) : Template :=
  { state := .complete, values := vals, params := [], userAttrs := [], systemAttrs := [], inter := [],
    hasStart := true, hasComplete := true }

/-- With the *plain* contract step the abstraction does not commute: after a rejected
`create_new_study` the in-memory storage hands out study id 2 where the contract model says 1
(`_max_study_id` is incremented before the duplicate check).  Ids are opaque to clients, so this is
not a violation of the contract — it is why `specStep` has the `burn` case. -/
theorem plain_step_witness :
    InMemory.runOut InMemory.init [.createStudy "a" [1], .createStudy "a" [1], .createStudy "b" [1]] =
      [.newId 0, .err .duplicated, .newId 2] ∧
    Storage.runOut Storage.init [.createStudy "a" [1], .createStudy "a" [1], .createStudy "b" [1]] =
      [.newId 0, .err .duplicated, .newId 1] := by
  decide

/-- `directions = []` (not a legal call): the in-memory storage answers a best trial where the
contract model says `RuntimeError`. -/
theorem empty_directions_witness :
    let ops := [Op.createStudy "a" [], .createTrial 0 (some (tmplComplete (some [.fin 1]))) false, .getBestTrial 0]
    legalFrom (InMemory.init, Storage.init) ops = false ∧
    acceptedFrom (InMemory.init, Storage.init) ops = false := by
  decide

/-- COMPLETE without a value (not a legal call): `get_best_trial` answers the valueless trial where
the contract model says `ValueError`. -/
theorem complete_without_value_witness :
    let ops := [Op.createStudy "a" [1], .createTrial 0 none false, .setTrialStateValues 0 .complete none,
      .getBestTrial 0]
    legalFrom (InMemory.init, Storage.init) ops = false ∧
    acceptedFrom (InMemory.init, Storage.init) ops = false := by
  decide

/-- COMPLETE with NaN (not a legal call): the NaN trial stays "best" for ever. -/
theorem nan_value_witness :
    let ops := [Op.createStudy "a" [1], .createTrial 0 (some (tmplComplete (some [.nan]))) false,
      .createTrial 0 (some (tmplComplete (some [.fin 0]))) false, .getBestTrial 0]
    legalFrom (InMemory.init, Storage.init) ops = false ∧
    acceptedFrom (InMemory.init, Storage.init) ops = false := by
  decide

/-- `StudyDirection.NOT_SET` (code 0; not a legal call): the in-memory storage minimises, the contract
model's `betterEq` treats every code but 1 as maximise. -/
theorem not_set_direction_witness :
    let ops := [Op.createStudy "a" [0], .createTrial 0 (some (tmplComplete (some [.fin 1]))) false,
      .createTrial 0 (some (tmplComplete (some [.fin 2]))) false, .getBestTrial 0]
    legalFrom (InMemory.init, Storage.init) ops = false ∧
    acceptedFrom (InMemory.init, Storage.init) ops = false := by
  decide

/-! ## non-vacuity: a legal history that exercises every hypothesis above -/

def demoTmpl (st : TState) (vals : Option (List XVal)) : Template :=
  { state := st, values := vals, params := [("p", ⟨"1/2", ⟨0, false, "F"⟩⟩)], userAttrs := [("u", "1")],
    systemAttrs := [], inter := [(0, .nan)], hasStart := st != .waiting, hasComplete := st.isFinished }

/-- duplicate name (id 1 used up), two studies, templates in three states, a parameter conflict, a
claim, WAITING scans before and after a trial is set back to WAITING, best-trial changes with a tie,
a deletion, calls on deleted objects. -/
def demo : List Op :=
  [ .createStudy "a" [1], .createStudy "a" [2], .createStudy "b" [2],
    .createTrial 0 none false, .createTrial 0 (some (demoTmpl .waiting none)) false,
    .createTrial 2 (some (demoTmpl .complete (some [.fin 3]))) false,
    .getAllTrials 0 (some [.waiting]), .setTrialStateValues 1 .running none,
    .setTrialParam 0 "p" ⟨"1/4", ⟨0, false, "G"⟩⟩ false, .setTrialParam 0 "p" ⟨"1", ⟨1, false, "I"⟩⟩ false,
    .getNTrials 0 (some [.waiting]), .setTrialStateValues 1 .waiting none, .getAllTrials 0 (some [.waiting]),
    .setTrialStateValues 0 .complete (some [.fin 5]), .setTrialStateValues 1 .running none,
    .setTrialStateValues 1 .complete (some [.fin 5]), .getBestTrial 0,
    .createTrial 2 (some (demoTmpl .complete (some [.pinf]))) false, .getBestTrial 2,
    .setTrialUserAttr 0 "k" "v", .deleteStudy 0, .getTrial 0, .getAllStudies, .createStudy "a" [1, 2],
    .getBestTrial 3 ]

example : legalFrom (InMemory.init, Storage.init) demo = true := by decide
example : acceptedFrom (InMemory.init, Storage.init) demo = true := by decide
-- the rejected `create_new_study` used up id 1; the later study "a" gets id 3
example : (InMemory.runOut InMemory.init demo)[2]? = some (.newId 2) := by decide
example : (InMemory.runOut InMemory.init demo)[23]? = some (.newId 3) := by decide
-- the incompatible distribution is rejected, the compatible one accepted
example : (InMemory.runOut InMemory.init demo)[8]? = some .unit := by decide
example : (InMemory.runOut InMemory.init demo)[9]? = some (.err .valueError) := by decide
-- the WAITING scan finds trial 1, finds nothing while it is RUNNING, finds it again (cursor lowered)
example : (InMemory.runOut InMemory.init demo)[10]? = some (.nat 0) := by decide
example : ((InMemory.runOut InMemory.init demo)[12]?).map (fun o => match o with | .trials l => l.map (·.1) | _ => [])
    = some [1] := by decide
-- a tie: the first of the two equally good trials stays cached; the contract allows either (U4)
example : ((InMemory.runOut InMemory.init demo)[16]?).map (fun o => match o with | .trial id _ => id | _ => 99)
    = some 0 := by decide
example : ((Storage.step (pairRun (InMemory.init, Storage.init) (demo.take 16)).2 (.getBestTrial 0)).2) =
    .oneOf ((pairRun (InMemory.init, Storage.init) (demo.take 16)).2.trialsOf 0 |>.filter (fun p => p.1 ≤ 1)) := by
  decide
-- maximise: +inf replaces 3
example : ((InMemory.runOut InMemory.init demo)[18]?).map (fun o => match o with | .trial id _ => id | _ => 99)
    = some 3 := by decide
-- after the deletion: the trial is gone, a finished write was rejected before it
example : (InMemory.runOut InMemory.init demo)[19]? = some (.err .updateFinished) := by decide
example : (InMemory.runOut InMemory.init demo)[21]? = some (.err .keyError) := by decide
-- U3: multi-objective study without COMPLETE trial
example : (InMemory.runOut InMemory.init demo)[24]? = some (.err .valueError) := by decide
example : (Storage.step (pairRun (InMemory.init, Storage.init) (demo.take 24)).2 (.getBestTrial 3)).2 =
    .err .runtimeError := by decide
-- hypotheses of the corollaries are met on this history
example : C01.Dead (pairRun (InMemory.init, Storage.init) demo).2 0 := by unfold C01.Dead; decide
example : C01.Dead (pairRun (InMemory.init, Storage.init) demo).2 1 := by unfold C01.Dead; decide
example : (getTrial (pairRun (InMemory.init, Storage.init) (demo.take 20)).1 0).toOption.map
    (fun f => f.t.state.isFinished) = some true := by decide
example : (InMemory.step (pairRun (InMemory.init, Storage.init) (demo.take 20)).1 (.deleteStudy 0)).2 = .unit := by
  decide

end OptunaVerif.C01InMem
