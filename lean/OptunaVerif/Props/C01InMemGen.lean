import OptunaVerif.Lemmas.InMemoryIR
import OptunaVerif.Props.C01InMem
/-!
# C01 (translator tie, in-memory backend) — the methods of `InMemoryStorage` *as written in the source
today* are the hand model `Model/InMemory.lean`

`Generated/InMemoryMethods.lean` is regenerated on every run by `verif/translators/tinmem.py` from
`optuna/storages/_in_memory.py` (+ `BaseStorage.check_trial_is_updatable` / `get_n_trials`): every public
method, the helpers `_check_study_id`, `_check_trial_id`, `_get_trial`, `_set_trial`, `_update_cache`,
and the initialisers of `_StudyInfo` / `InMemoryStorage`, as data of the statement language of
`Model/InMemoryIR.lean`.

Proved here, for **all** states and arguments (no bound, no sampling):
* per method, the interpreter of the generated body equals the corresponding branch of the hand-written
  `InMemory.step` (`interp_*`, 23 theorems; helper calls through `Lemmas/InMemoryIR.lean`:
  `call_getTrialPriv_*`, `call_checkUpdatable`, `call_setTrialPriv`, `call_updateCache`,
  `exec_forTidMapDel`, `exec_forWaiting`, `exec_getAllTrials`, …);
* the initialisers are the model's `newStudy` / `init` (`init_tables`), every op of the harness reaches
  the method of its name (`select_method`), hence `interpOp program = InMemory.step` (`interpOp_eq`);
* therefore the refinement theorem of `Props/C01InMem.lean` and its corollaries hold of the interpreter
  of the generated methods (`gen_*`).

A source change that drops or reorders a check, changes what is written before a raise, the comparison
of `_update_cache`, the WAITING cursor, `param_distribution`, the numbering … changes the generated data
and one of the `interp_*` equalities (or a `call_*` lemma) no longer type-checks.
-/
set_option linter.unusedSimpArgs false
set_option linter.unusedVariables false
namespace OptunaVerif.C01InMemGen
open OptunaVerif OptunaVerif.Storage OptunaVerif.InMemory OptunaVerif.InMemoryIR
open OptunaVerif.Generated.InMemoryMethods

/-! ## one equality per method -/

theorem interp_createStudy (m : State) (name : String) (dirs : List Nat) :
    interp createNewStudyM m (.createStudy name dirs) = InMemory.step m (.createStudy name dirs) := by
  cases h : (m.nameToId.get? name).isSome <;> irm_simp [createNewStudyM, InMemory.step, h]
example : (interp createNewStudyM InMemory.init (.createStudy "a" [1])).2 = .newId 0 ∧
    (interp createNewStudyM (interp createNewStudyM InMemory.init (.createStudy "a" [1])).1 (.createStudy "a" [2])) =
      ({ (interp createNewStudyM InMemory.init (.createStudy "a" [1])).1 with nextStudyId := 2 }, .err .duplicated) := by decide

theorem interp_setStudyUserAttr (m : State) (sid : Nat) (k v : String) :
    interp setStudyUserAttrM m (.setStudyUserAttr sid k v) = InMemory.step m (.setStudyUserAttr sid k v) := by
  cases h : m.studies.get? sid <;> irm_simp [setStudyUserAttrM, InMemory.step, h]

theorem interp_setStudySystemAttr (m : State) (sid : Nat) (k v : String) :
    interp setStudySystemAttrM m (.setStudySystemAttr sid k v) = InMemory.step m (.setStudySystemAttr sid k v) := by
  cases h : m.studies.get? sid <;> irm_simp [setStudySystemAttrM, InMemory.step, h]

theorem interp_getStudyIdFromName (m : State) (name : String) :
    interp getStudyIdFromNameM m (.getStudyIdFromName name) = InMemory.step m (.getStudyIdFromName name) := by
  cases h : m.nameToId.get? name <;> irm_simp [getStudyIdFromNameM, InMemory.step, h]

theorem interp_getStudyNameFromId (m : State) (sid : Nat) :
    interp getStudyNameFromIdM m (.getStudyNameFromId sid) = InMemory.step m (.getStudyNameFromId sid) := by
  cases h : m.studies.get? sid <;> irm_simp [getStudyNameFromIdM, InMemory.step, h]

theorem interp_getStudyDirections (m : State) (sid : Nat) :
    interp getStudyDirectionsM m (.getStudyDirections sid) = InMemory.step m (.getStudyDirections sid) := by
  cases h : m.studies.get? sid <;> irm_simp [getStudyDirectionsM, InMemory.step, h]

theorem interp_getStudyUserAttrs (m : State) (sid : Nat) :
    interp getStudyUserAttrsM m (.getStudyUserAttrs sid) = InMemory.step m (.getStudyUserAttrs sid) := by
  cases h : m.studies.get? sid <;> irm_simp [getStudyUserAttrsM, InMemory.step, h]

theorem interp_getStudySystemAttrs (m : State) (sid : Nat) :
    interp getStudySystemAttrsM m (.getStudySystemAttrs sid) = InMemory.step m (.getStudySystemAttrs sid) := by
  cases h : m.studies.get? sid <;> irm_simp [getStudySystemAttrsM, InMemory.step, h]

theorem interp_getAllStudies (m : State) :
    interp getAllStudiesM m .getAllStudies = InMemory.step m .getAllStudies := by
  irm_simp [getAllStudiesM, InMemory.step]

theorem interp_getTrialIdFromNumber (m : State) (sid n : Nat) :
    interp getTrialIdFromStudyIdTrialNumberM m (.getTrialIdFromNumber sid n) = InMemory.step m (.getTrialIdFromNumber sid n) := by
  cases h : m.studies.get? sid with
  | none => irm_simp [getTrialIdFromStudyIdTrialNumberM, InMemory.step, h]
  | some si =>
    cases h2 : si.trials[n]? with
    | none =>
      have : si.trials.length ≤ n := by simpa using h2
      irm_simp [getTrialIdFromStudyIdTrialNumberM, InMemory.step, h, h2, this]
    | some p =>
      have : ¬ si.trials.length ≤ n := by
        intro hle
        have := List.getElem?_eq_none hle
        simp [h2] at this
      irm_simp [getTrialIdFromStudyIdTrialNumberM, InMemory.step, h, h2, this]

theorem interp_getTrialNumberFromId (m : State) (tid : Nat) :
    interp getTrialNumberFromIdM m (.getTrialNumberFromId tid) = InMemory.step m (.getTrialNumberFromId tid) := by
  cases h : m.tidMap.get? tid <;> irm_simp [getTrialNumberFromIdM, InMemory.step, h]

theorem interp_getTrial (m : State) (tid : Nat) :
    interp getTrialM m (.getTrial tid) = InMemory.step m (.getTrial tid) := by
  cases h : InMemory.getTrial m tid <;> irm_simp [getTrialM, InMemory.step, h]
example : (interp getTrialM InMemory.init (.getTrial 3)).2 = .err .keyError := by decide

theorem interp_deleteStudy (m : State) (sid : Nat) :
    interp deleteStudyM m (.deleteStudy sid) = InMemory.step m (.deleteStudy sid) := by
  cases h : m.studies.get? sid <;> irm_simp [deleteStudyM, InMemory.step, h]

theorem interp_setTrialInter (m : State) (tid : Nat) (stp : Int) (v : XVal) :
    interp setTrialIntermediateValueM m (.setTrialInter tid stp v) = InMemory.step m (.setTrialInter tid stp v) := by
  cases h : InMemory.getTrial m tid with
  | error e => irm_simp [setTrialIntermediateValueM, InMemory.step, modTrial_eq, h]
  | ok f =>
    have ht := getTrial_tidMap h
    cases hf : f.t.state.isFinished <;> irm_simp [setTrialIntermediateValueM, InMemory.step, modTrial_eq, h, hf, ht]

theorem interp_setTrialUserAttr (m : State) (tid : Nat) (k v : String) :
    interp setTrialUserAttrM m (.setTrialUserAttr tid k v) = InMemory.step m (.setTrialUserAttr tid k v) := by
  cases h : InMemory.getTrial m tid with
  | error e =>
    cases h1 : (m.tidMap.get? tid).isSome with
    | true => irm_simp [setTrialUserAttrM, InMemory.step, modTrial_eq, h, h1]
    | false =>
      have := getTrial_error_tidMap h h1
      irm_simp [setTrialUserAttrM, InMemory.step, modTrial_eq, h, h1, this]
  | ok f =>
    have ht := getTrial_tidMap h
    cases hf : f.t.state.isFinished <;> irm_simp [setTrialUserAttrM, InMemory.step, modTrial_eq, h, hf, ht]

theorem interp_setTrialSystemAttr (m : State) (tid : Nat) (k v : String) :
    interp setTrialSystemAttrM m (.setTrialSystemAttr tid k v) = InMemory.step m (.setTrialSystemAttr tid k v) := by
  cases h : InMemory.getTrial m tid with
  | error e => irm_simp [setTrialSystemAttrM, InMemory.step, modTrial_eq, h]
  | ok f =>
    have ht := getTrial_tidMap h
    cases hf : f.t.state.isFinished <;> irm_simp [setTrialSystemAttrM, InMemory.step, modTrial_eq, h, hf, ht]

theorem interp_getTrialParam (m : State) (tid : Nat) (name : String) :
    interp getTrialParamM m (.getTrialParam tid name) = InMemory.step m (.getTrialParam tid name) := by
  cases h : InMemory.getTrial m tid with
  | error e => irm_simp [getTrialParamM, InMemory.step, h]
  | ok f => cases h2 : f.t.params.get? name <;> irm_simp [getTrialParamM, InMemory.step, h, h2]

theorem interp_getBestTrial (m : State) (sid : Nat) :
    interp getBestTrialM m (.getBestTrial sid) = InMemory.step m (.getBestTrial sid) := by
  cases h : m.studies.get? sid with
  | none => irm_simp [getBestTrialM, InMemory.step, h]
  | some si =>
    cases hb : si.bestTrialId with
    | none => irm_simp [getBestTrialM, InMemory.step, h, hb]
    | some b =>
      by_cases hd : si.directions.length > 1
      · irm_simp [getBestTrialM, InMemory.step, h, hb, hd]
      · cases hg : InMemory.getTrial m b <;> irm_simp [getBestTrialM, InMemory.step, h, hb, hd, hg]

theorem interp_setTrialParam (m : State) (tid : Nat) (name : String) (p : Param) (r : Bool) :
    interp setTrialParamM m (.setTrialParam tid name p r) = InMemory.step m (.setTrialParam tid name p r) := by
  cases h : InMemory.getTrial m tid with
  | error e => irm_simp [setTrialParamM, InMemory.step, getUpdatable, h]
  | ok f =>
    have ht := getTrial_tidMap h
    cases hf : f.t.state.isFinished with
    | true => irm_simp [setTrialParamM, InMemory.step, getUpdatable, h, hf, ht]
    | false =>
      cases hs : m.studies.get? f.sid with
      | none => irm_simp [setTrialParamM, InMemory.step, getUpdatable, h, hf, ht, hs]
      | some si =>
        cases hd : si.paramDist.get? name with
        | none => irm_simp [setTrialParamM, InMemory.step, getUpdatable, setTrial, h, hf, ht, hs, hd]
        | some d0 =>
          cases hc : d0.compat p.dist <;>
            irm_simp [setTrialParamM, InMemory.step, getUpdatable, setTrial, h, hf, ht, hs, hd, hc]

theorem interp_createTrial (m : State) (sid : Nat) (tmpl : Option Template) (r : Bool) :
    interp createNewTrialM m (.createTrial sid tmpl r) = InMemory.step m (.createTrial sid tmpl r) := by
  cases h : m.studies.get? sid with
  | none => irm_simp [createNewTrialM, InMemory.step, h]
  | some si =>
    cases tmpl with
    | none =>
      irm_simp [createNewTrialM, InMemory.step, h, mkTrial]
      generalize updateCache _ _ _ = u
      cases u <;> simp
    | some t =>
      irm_simp [createNewTrialM, InMemory.step, h, mkTrial]
      generalize updateCache _ _ _ = u
      cases u <;> simp

theorem interp_setTrialStateValues (m : State) (tid : Nat) (st : TState) (values : Option (List XVal)) :
    interp setTrialStateValuesM m (.setTrialStateValues tid st values) = InMemory.step m (.setTrialStateValues tid st values) := by
  cases h : InMemory.getTrial m tid with
  | error e => irm_simp [setTrialStateValuesM, InMemory.step, getUpdatable, h]
  | ok f =>
    have ht := getTrial_tidMap h
    cases hf : f.t.state.isFinished with
    | true => irm_simp [setTrialStateValuesM, InMemory.step, getUpdatable, h, hf, ht]
    | false =>
      cases st <;> cases hts : f.t.state <;> cases values <;>
        irm_simp [setTrialStateValuesM, InMemory.step, getUpdatable, setTrial, tstate_beq, isFinished_running, isFinished_complete,
          isFinished_pruned, isFinished_fail, isFinished_waiting, h, hf, ht, hts]
      all_goals (generalize updateCache _ _ _ = u; cases u <;> simp)

theorem interp_getAllTrials (m : State) (sid : Nat) (states : Option (List TState)) :
    interp getAllTrialsM m (.getAllTrials sid states) = InMemory.step m (.getAllTrials sid states) := by
  obtain ⟨h1, h2⟩ := exec_getAllTrials (.getAllTrials sid states) m sid states rfl
  have he : Env.entry m (.getAllTrials sid states) = frameSid m sid := rfl
  rw [interp, he, finish_eq, h2, h1]
  cases h : m.studies.get? sid <;> simp [InMemory.step, outFor, h]

theorem interp_getNTrials (m : State) (sid : Nat) (states : Option (List TState)) :
    interp getNTrialsM m (.getNTrials sid states) = InMemory.step m (.getNTrials sid states) := by
  have hc := call_getAllTrials_val (.getNTrials sid states) (Env.entry m (.getNTrials sid states)) sid states rfl rfl
  simp only [interp, getNTrialsM, block, exec.eq_2, hc]
  cases h : m.studies.get? sid <;>
    simp [exec.eq_5, Env.entry, Env.frame, h, finish, evalRet, outFor, InMemory.step]


/-! ## the class -/

/-- **init_tables**: `_StudyInfo.__init__` and `InMemoryStorage.__init__` initialise exactly the fields
the model's `newStudy` / `init` have, with these values (`_max_*_id = -1` is `next*Id = 0`). -/
theorem init_tables :
    program.studyInfoInit = [("trials", "[]"), ("param_distribution", "{}"), ("user_attrs", "{}"),
      ("system_attrs", "{}"), ("name", "name"), ("directions", "directions"), ("best_trial_id", "None")] ∧
    program.storageInit = [("_trial_id_to_study_id_and_number", "{}"), ("_study_name_to_id", "{}"), ("_studies", "{}"),
      ("_max_study_id", "-1"), ("_max_trial_id", "-1"), ("_lock", "threading.RLock()"),
      ("_prev_waiting_trial_number", "{}")] := by
  constructor <;> decide

/-- the generated body the hand model's op stands for -/
def bodyOf : Op → Stmt
  | .createStudy .. => createNewStudyM | .deleteStudy .. => deleteStudyM
  | .setStudyUserAttr .. => setStudyUserAttrM | .setStudySystemAttr .. => setStudySystemAttrM
  | .createTrial .. => createNewTrialM | .setTrialParam .. => setTrialParamM
  | .setTrialStateValues .. => setTrialStateValuesM | .setTrialInter .. => setTrialIntermediateValueM
  | .setTrialUserAttr .. => setTrialUserAttrM | .setTrialSystemAttr .. => setTrialSystemAttrM
  | .getStudyIdFromName .. => getStudyIdFromNameM | .getStudyNameFromId .. => getStudyNameFromIdM
  | .getStudyDirections .. => getStudyDirectionsM | .getStudyUserAttrs .. => getStudyUserAttrsM
  | .getStudySystemAttrs .. => getStudySystemAttrsM | .getAllStudies => getAllStudiesM
  | .getTrialIdFromNumber .. => getTrialIdFromStudyIdTrialNumberM
  | .getTrialNumberFromId .. => getTrialNumberFromIdM | .getTrialParam .. => getTrialParamM
  | .getTrial .. => getTrialM | .getAllTrials .. => getAllTrialsM | .getNTrials .. => getNTrialsM
  | .getBestTrial .. => getBestTrialM

/-- every op of the harness reaches the generated body of the method of its name -/
theorem select_method (op : Op) : lookup (methodOf op) program.methods = some (bodyOf op) := by
  cases op <;> rfl

/-- **interpOp_eq**: calling a method of the generated class is one step of the hand model — for every
state and every call. -/
theorem interpOp_eq (m : State) (op : Op) : interpOp program m op = InMemory.step m op := by
  unfold interpOp
  rw [select_method]
  cases op with
  | createStudy name dirs => exact interp_createStudy m name dirs
  | deleteStudy sid => exact interp_deleteStudy m sid
  | setStudyUserAttr sid k v => exact interp_setStudyUserAttr m sid k v
  | setStudySystemAttr sid k v => exact interp_setStudySystemAttr m sid k v
  | createTrial sid tmpl r => exact interp_createTrial m sid tmpl r
  | setTrialParam tid name p r => exact interp_setTrialParam m tid name p r
  | setTrialStateValues tid st vs => exact interp_setTrialStateValues m tid st vs
  | setTrialInter tid stp v => exact interp_setTrialInter m tid stp v
  | setTrialUserAttr tid k v => exact interp_setTrialUserAttr m tid k v
  | setTrialSystemAttr tid k v => exact interp_setTrialSystemAttr m tid k v
  | getStudyIdFromName name => exact interp_getStudyIdFromName m name
  | getStudyNameFromId sid => exact interp_getStudyNameFromId m sid
  | getStudyDirections sid => exact interp_getStudyDirections m sid
  | getStudyUserAttrs sid => exact interp_getStudyUserAttrs m sid
  | getStudySystemAttrs sid => exact interp_getStudySystemAttrs m sid
  | getAllStudies => exact interp_getAllStudies m
  | getTrialIdFromNumber sid n => exact interp_getTrialIdFromNumber m sid n
  | getTrialNumberFromId tid => exact interp_getTrialNumberFromId m tid
  | getTrialParam tid name => exact interp_getTrialParam m tid name
  | getTrial tid => exact interp_getTrial m tid
  | getAllTrials sid states => exact interp_getAllTrials m sid states
  | getNTrials sid states => exact interp_getNTrials m sid states
  | getBestTrial sid => exact interp_getBestTrial m sid

/-- the step function of the generated class -/
def genStep : State → Op → State × Out := interpOp program

theorem genStep_eq : genStep = InMemory.step := by
  funext m op; exact interpOp_eq m op

/-- the generated methods never leave what the interpreter can express (no unbound local, no value
of the wrong kind, no call with a missing argument) -/
theorem gen_representable (m : State) (op : Op) : (genStep m op).2 ≠ unrepresentable := by
  rw [genStep_eq]
  cases op <;> simp only [InMemory.step, modTrial, unrepresentable] <;> (repeat' split) <;> simp

/-! ## the refinement of `Props/C01InMem.lean`, for the interpreter of the generated methods -/

open OptunaVerif.C01InMem in
/-- one call on a storage with step function `stp` and, following it, on the contract model -/
def pairStepG (stp : State → Op → State × Out) (ms : State × Spec) (op : Op) : State × Spec :=
  ((stp ms.1 op).1, (specStep ms.2 (opFor op (stp ms.1 op).2)).1)

def pairRunG (stp : State → Op → State × Out) (ms : State × Spec) (ops : List Op) : State × Spec :=
  ops.foldl (pairStepG stp) ms

open OptunaVerif.C01InMem in
def legalFromG (stp : State → Op → State × Out) : State × Spec → List Op → Bool
  | _, [] => true
  | ms, op :: rest => Legal ms.2 op && legalFromG stp (pairStepG stp ms op) rest

open OptunaVerif.C01InMem in
def acceptedFromG (stp : State → Op → State × Out) : State × Spec → List Op → Bool
  | _, [] => true
  | ms, op :: rest =>
    accepts op (specStep ms.2 (opFor op (stp ms.1 op).2)).2 (stp ms.1 op).2 &&
      acceptedFromG stp (pairStepG stp ms op) rest

theorem pairStepG_step : pairStepG InMemory.step = C01InMem.pairStep := rfl

theorem pairRunG_step (ms : State × Spec) (ops : List Op) :
    pairRunG InMemory.step ms ops = C01InMem.pairRun ms ops := rfl

theorem legalFromG_step (ms : State × Spec) (ops : List Op) :
    legalFromG InMemory.step ms ops = C01InMem.legalFrom ms ops := by
  induction ops generalizing ms with
  | nil => rfl
  | cons op rest ih => simp only [legalFromG, C01InMem.legalFrom, ih, pairStepG_step]

theorem acceptedFromG_step (ms : State × Spec) (ops : List Op) :
    acceptedFromG InMemory.step ms ops = C01InMem.acceptedFrom ms ops := by
  induction ops generalizing ms with
  | nil => rfl
  | cons op rest ih => simp only [acceptedFromG, C01InMem.acceptedFrom, ih, pairStepG_step]

/-- **gen_refines_spec**: for EVERY history of legal calls, from any related pair of states, every
answer of the generated methods is allowed by the contract, the invariant of the redundant fields is
kept and the states stay related. -/
theorem gen_refines_spec (ms : State × Spec) (ops : List Op) (hI : Inv ms.1) (hR : Rel ms.1 ms.2)
    (hL : legalFromG genStep ms ops = true) :
    acceptedFromG genStep ms ops = true ∧ Inv (pairRunG genStep ms ops).1 ∧
      Rel (pairRunG genStep ms ops).1 (pairRunG genStep ms ops).2 := by
  rw [genStep_eq, legalFromG_step] at hL
  rw [genStep_eq, acceptedFromG_step, pairRunG_step]
  exact C01InMem.inMemory_refines_spec ms ops hI hR hL
example : legalFromG genStep (InMemory.init, Storage.init) C01InMem.demo = true := by
  rw [genStep_eq, legalFromG_step]; decide

/-- … in particular from the empty storage -/
theorem gen_refines_spec_init (ops : List Op) (hL : legalFromG genStep (InMemory.init, Storage.init) ops = true) :
    acceptedFromG genStep (InMemory.init, Storage.init) ops = true ∧
    Inv (pairRunG genStep (InMemory.init, Storage.init) ops).1 ∧
    Rel (pairRunG genStep (InMemory.init, Storage.init) ops).1 (pairRunG genStep (InMemory.init, Storage.init) ops).2 :=
  gen_refines_spec _ ops C01InMem.init_ok.1 C01InMem.init_ok.2 hL

/-- **gen_numbers_dense**: in every state the generated methods reach by legal calls, the trial stored at
position `n` of a study's list has number `n`, belongs to that study, and the id table says so. -/
theorem gen_numbers_dense (ops : List Op) (hL : legalFromG genStep (InMemory.init, Storage.init) ops = true)
    (sid : Nat) (si : StudyInfo) (n tid : Nat) (t : TrialS)
    (hs : (pairRunG genStep (InMemory.init, Storage.init) ops).1.studies.get? sid = some si)
    (ht : si.trials[n]? = some (tid, t)) :
    t.number = n ∧ t.study = sid ∧
    (pairRunG genStep (InMemory.init, Storage.init) ops).1.tidMap.get? tid = some (sid, n) := by
  rw [genStep_eq, legalFromG_step] at hL
  rw [genStep_eq, pairRunG_step] at hs ⊢
  exact C01InMem.inMemory_numbers_dense ops hL sid si n tid t hs ht
example : (pairRunG genStep (InMemory.init, Storage.init) (C01InMem.demo.take 6)).1.tidMap.get? 2 = some (2, 0) := by
  rw [genStep_eq, pairRunG_step]; decide

/-- **gen_finished_frozen**: a finished trial read through the generated methods reads the same after
any further legal history. -/
theorem gen_finished_frozen (ms : State × Spec) (ops : List Op) (hI : Inv ms.1) (hR : Rel ms.1 ms.2)
    (hL : legalFromG genStep ms ops = true) (tid : Nat) (f f' : Found)
    (h : InMemory.getTrial ms.1 tid = .ok f) (hf : f.t.state.isFinished = true)
    (h' : InMemory.getTrial (pairRunG genStep ms ops).1 tid = .ok f') : f'.t = f.t := by
  rw [genStep_eq, legalFromG_step] at hL
  rw [genStep_eq, pairRunG_step] at h'
  exact C01InMem.inMemory_finished_frozen ms ops hI hR hL tid f f' h hf h'
example : (InMemory.getTrial (pairRunG genStep (InMemory.init, Storage.init) (C01InMem.demo.take 20)).1 0).toOption.map
    (fun f => f.t.state.isFinished) = some true := by
  rw [genStep_eq, pairRunG_step]; decide

/-- **gen_waiting_filter_complete**: the generated `get_all_trials(states=(WAITING,))` (cursor shortcut)
returns exactly the WAITING trials of the study, in number order, in every state satisfying the invariant. -/
theorem gen_waiting_filter_complete (ms : State × Spec) (hI : Inv ms.1) (sid : Nat) (si : StudyInfo)
    (h : ms.1.studies.get? sid = some si) :
    (genStep ms.1 (.getAllTrials sid (some [.waiting]))).2 =
      .trials (si.trials.filter (fun p => p.2.state == .waiting)) := by
  rw [genStep_eq]; exact C01InMem.inMemory_waiting_filter_complete ms hI sid si h
example : (genStep (pairRunG genStep (InMemory.init, Storage.init) (C01InMem.demo.take 12)).1
    (.getAllTrials 0 (some [.waiting]))).2 =
      .trials (((pairRunG genStep (InMemory.init, Storage.init) (C01InMem.demo.take 12)).1.studies.get? 0).get!.trials.filter
        (fun p => p.2.state == .waiting)) := by
  rw [genStep_eq, pairRunG_step]; decide

/-- **gen_best_is_optimal**: the generated `get_best_trial` of a single-objective study answers a COMPLETE
trial no COMPLETE trial of the study beats (or `ValueError` when there is none). -/
theorem gen_best_is_optimal (m : State) (hI : Inv m) (sid d : Nat) (si : StudyInfo)
    (h : m.studies.get? sid = some si) (hd : si.directions = [d]) :
    (∃ b t, (genStep m (.getBestTrial sid)).2 = .trial b t ∧ (b, t) ∈ bestSet d si.trials) ∨
    ((genStep m (.getBestTrial sid)).2 = .err .valueError ∧ bestSet d si.trials = []) := by
  rw [genStep_eq]; exact C01InMem.inMemory_best_is_optimal m hI sid d si h hd

/-! ## non-vacuity: the generated class runs the demo history of `Props/C01InMem.lean` -/

/-- outputs of a whole history through the generated methods -/
def runOutG : State → List Op → List Out
  | _, [] => []
  | m, op :: rest => (genStep m op).2 :: runOutG (genStep m op).1 rest

set_option maxRecDepth 20000 in
example : runOutG InMemory.init C01InMem.demo = InMemory.runOut InMemory.init C01InMem.demo := by decide
set_option maxRecDepth 20000 in
example : runGen program C01InMem.demo = InMemory.run C01InMem.demo := by decide
set_option maxRecDepth 20000 in
example : (runOutG InMemory.init C01InMem.demo)[2]? = some (.newId 2) ∧
    (runOutG InMemory.init C01InMem.demo)[9]? = some (.err .valueError) ∧
    (runOutG InMemory.init C01InMem.demo)[10]? = some (.nat 0) ∧
    (runOutG InMemory.init C01InMem.demo)[19]? = some (.err .updateFinished) ∧
    (runOutG InMemory.init C01InMem.demo)[21]? = some (.err .keyError) := by decide
example : Inv InMemory.init ∧ Rel InMemory.init Storage.init := C01InMem.init_ok

end OptunaVerif.C01InMemGen
