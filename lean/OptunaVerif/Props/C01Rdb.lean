import OptunaVerif.Lemmas.RdbRefine
import OptunaVerif.Props.C01
/-!
# C01 (SQLAlchemy backend) — the relational model of `RDBStorage` refines the storage contract

`Model/RdbLogic.lean` models `RDBStorage` (optuna/storages/_rdb/storage.py, models.py) as eleven
tables and every storage method as the queries and updates it performs; the value codecs are the
definitions *generated* from models.py (`Generated/RdbCodec.lean`).  Proved here, for **every**
history of calls (induction over the op list, no bound):

* the codec round trips, against the generated definitions;
* the table invariant (unique ascending ids below the counters, foreign keys valid, UNIQUE (owner, key)
  on every child table, trial numbers 0..n-1 per study, objectives 0..m-1 per trial, every stored
  value decodable) — unconditionally;
* the refinement: along every history of *well-formed* calls (`WfOp`: dict arguments have distinct keys;
  values come only with a finished state, non-empty and NaN-free; directions non-empty, each MINIMIZE or
  MAXIMIZE) the model's answers are answers the contract allows (U1 via the `implRaised` hint taken from
  the model's own answer, U4 via `oneOf`), the tables present the contract state (`Abs`), and no call
  ends in `MultipleResultsFound`, `AssertionError` or `IndexError`.

What `WfOp` excludes is not silently dropped: the three witnesses at the end show, on concrete
histories, that the relational model (and, replayed by the harness, the real `RDBStorage`) departs from
the contract model outside it (U2 and two relatives).
-/
namespace OptunaVerif.C01Rdb
open OptunaVerif OptunaVerif.Storage OptunaVerif.Rdb
open OptunaVerif.Generated.RdbCodec

/-! ## value codecs (generated from models.py) -/

/-- **rdb_value_roundtrip**: `stored_repr_to_value(*value_to_stored_repr(v)) == v` for every finite, `+inf`
and `-inf` value. -/
theorem rdb_value_roundtrip (v : XVal) (_h : v ≠ .nan) :
    TrialValueModel.stored_repr_to_value (TrialValueModel.value_to_stored_repr v).1
      (TrialValueModel.value_to_stored_repr v).2 = some v := decV_encV v

example : TrialValueModel.value_to_stored_repr .pinf = (none, .INF_POS) := by decide
example : TrialValueModel.stored_repr_to_value none .INF_NEG = some .ninf := by decide
example : TrialValueModel.stored_repr_to_value (some (.fin 1)) .INF_POS = none := by decide  -- AssertionError

/-- what goes into the nullable Float column of `trial_values` is NULL or the value itself, never ±inf -/
theorem rdb_value_stored_float (v : XVal) :
    (TrialValueModel.value_to_stored_repr v).1 = none ∨
    ((TrialValueModel.value_to_stored_repr v).1 = some v ∧ v ≠ .pinf ∧ v ≠ .ninf) := by
  cases v <;> simp [TrialValueModel.value_to_stored_repr, pyFloatEq]

example : (TrialValueModel.value_to_stored_repr (.fin 3)).1 = some (.fin 3) := by decide

/-- **rdb_intermediate_roundtrip**: the intermediate-value codec round-trips every float, NaN included. -/
theorem rdb_intermediate_roundtrip (v : XVal) :
    TrialIntermediateValueModel.stored_repr_to_intermediate_value
      (TrialIntermediateValueModel.intermediate_value_to_stored_repr v).1
      (TrialIntermediateValueModel.intermediate_value_to_stored_repr v).2 = some v := decI_encI v

example : TrialIntermediateValueModel.intermediate_value_to_stored_repr .nan = (none, .NAN) := by decide

/-- the Float column of `trial_intermediate_values` holds NULL or a finite number -/
theorem rdb_intermediate_stored_finite (v : XVal) :
    (TrialIntermediateValueModel.intermediate_value_to_stored_repr v).1 = none ∨
    ∃ q, (TrialIntermediateValueModel.intermediate_value_to_stored_repr v).1 = some (.fin q) := by
  cases v <;> simp [TrialIntermediateValueModel.intermediate_value_to_stored_repr, pyFloatEq, pyIsNan]

example : (TrialIntermediateValueModel.intermediate_value_to_stored_repr .ninf).1 = none := by decide

/-! ## the tables -/

/-- **rdb_tables_invariant**: after any history of storage calls (accepted, rejected, of any shape) the
tables satisfy `Rdb.Inv`: primary keys strictly ascending and below their counters, study names unique,
every foreign key points to an existing row, at most one row per (study, key) / (study, objective) /
(trial, key) / (trial, param_name) / (trial, step) / (trial, objective), the trials of a study are
numbered 0,1,2,… in id order, the value rows of a trial have objectives 0,1,2,…, every stored value is
an encoding and every stored intermediate value decodes. -/
theorem rdb_tables_invariant (ops : List Op) : Inv (Rdb.run ops) := inv_run ops

/-- corollary: `one_or_none()` on a primary key never sees two rows -/
theorem rdb_unique_ids (ops : List Op) :
    (Rdb.run ops).trials.Pairwise (fun a b => a.id < b.id) ∧ (Rdb.run ops).studies.Pairwise (fun a b => a.id < b.id) :=
  ⟨(inv_run ops).1.trialsSorted, (inv_run ops).1.studiesSorted⟩

/-- corollary: per study, trial numbers are 0,1,2,… in creation order (whatever was deleted in between) -/
theorem rdb_numbers_dense (ops : List Op) (sid : Nat) :
    ((Rdb.run ops).trials.filter (fun r => r.study == sid)).map (·.number) =
      List.range ((Rdb.run ops).trials.filter (fun r => r.study == sid)).length := (inv_run ops).2 sid

/-! ## refinement of the contract -/

/-- **rdb_step_refines_spec**: from related states, any well-formed call keeps the states related and is
answered as the contract allows. -/
theorem rdb_step_refines_spec (r : Rdb.State) (a : Spec) (op : Op) (h : Abs r a) (hwf : WfOp op) :
    Abs (Rdb.step r op).1 (Storage.step a (withRaised op (raisedValueError (Rdb.step r op).2))).1 ∧
    Allowed (Rdb.step r op).2 (Storage.step a (withRaised op (raisedValueError (Rdb.step r op).2))).2 :=
  step_sim r a op h hwf

/-- **rdbLogic_refines_spec**: for EVERY list of well-formed calls, the tables reached by the relational
model present (`Abs`) the state the contract model reaches by the same calls, and the model's answers are,
call by call, answers the contract allows. -/
theorem rdbLogic_refines_spec (ops : List Op) (hwf : ∀ op ∈ ops, WfOp op) :
    Abs (Rdb.run ops) (C01.after Storage.init (specOps Rdb.init ops)) ∧
    AllAllowed (Rdb.runOut Rdb.init ops) (Storage.runOut Storage.init (specOps Rdb.init ops)) :=
  run_sim Rdb.init Storage.init ops abs_init hwf

/-- corollary: what any client reads of a trial after such a history is what the contract says -/
theorem rdb_reads_are_contract_reads (ops : List Op) (hwf : ∀ op ∈ ops, WfOp op) (tid : Nat) :
    (Rdb.run ops).trialView tid = (C01.after Storage.init (specOps Rdb.init ops)).trial? tid :=
  ((rdbLogic_refines_spec ops hwf).1.trial tid).symm

theorem allowed_is_out (x : Res) (o : Out) (h : Allowed x o) : ∃ o', x = .out o' := by
  unfold Allowed at h
  split at h
  · obtain ⟨p, _, e⟩ := h; exact ⟨_, e⟩
  · exact ⟨_, h⟩
  · exact ⟨_, h⟩

theorem allAllowed_out (xs : List Res) (os : List Out) (h : AllAllowed xs os) : ∀ x ∈ xs, ∃ o', x = .out o' := by
  induction xs generalizing os with
  | nil => intro x hx; simp at hx
  | cons y ys ih =>
    cases os with
    | nil => simp [AllAllowed] at h
    | cons o os =>
      obtain ⟨h1, h2⟩ := h
      intro x hx
      rcases List.mem_cons.mp hx with e | hx
      · subst e; exact allowed_is_out _ _ h1
      · exact ih os h2 x hx

/-- **rdb_never_crashes**: along well-formed histories no call ends in `MultipleResultsFound`
(`one_or_none()`), `AssertionError` (codec) or `IndexError` — every answer is a contract answer. -/
theorem rdb_never_crashes (ops : List Op) (hwf : ∀ op ∈ ops, WfOp op) :
    ∀ x ∈ Rdb.runOut Rdb.init ops, ∃ o, x = .out o :=
  allAllowed_out _ _ (rdbLogic_refines_spec ops hwf).2

/-- **rdb_heartbeat_is_invisible**: `record_heartbeat` on an existing trial keeps the table invariant and the
abstraction — no `BaseStorage` call can tell that it happened (its row goes with the trial in the cascade). -/
theorem rdb_heartbeat_is_invisible (r : Rdb.State) (a : Spec) (h : Abs r a) (tid : Nat) (htid : tid ∈ r.trialIds) :
    Abs (recordHeartbeat r tid).1 a ∧ (recordHeartbeat r tid).2 = .out .unit :=
  abs_recordHeartbeat r a h tid htid

example : ((recordHeartbeat (Rdb.run [.createStudy "s" [1], .createTrial 0 none false]) 0).1.beats.length,
    (Rdb.step (recordHeartbeat (Rdb.run [.createStudy "s" [1], .createTrial 0 none false]) 0).1 (.deleteStudy 0)).1.beats.length) =
    (1, 0) := by decide

/-! ## non-vacuity -/

def dF : Dist := { kind := 0, log := false, body := "F" }
def dI : Dist := { kind := 1, log := false, body := "I" }

def demoTemplate : Template :=
  { state := .complete, values := some [.ninf], params := [("x", ⟨"1/2", dF⟩)], userAttrs := [("u", "1")],
    systemAttrs := [("s", "2")], inter := [(0, .nan), (3, .pinf)], hasStart := true, hasComplete := true }

/-- a history that exercises every writing call, a rejected duplicate, U1 both ways, the cascade -/
def demo : List Op :=
  [ .createStudy "a" [1], .createStudy "a" [2], .createStudy "b" [2, 1],
    .createTrial 0 none false, .createTrial 0 (some demoTemplate) false,
    .setTrialParam 0 "x" ⟨"1/4", dF⟩ false,            -- compatible with the template's row
    .setTrialParam 0 "x" ⟨"3", dI⟩ false,              -- incompatible: ValueError
    .setTrialInter 0 1 (.fin 5), .setTrialUserAttr 0 "k" "v", .setTrialSystemAttr 0 "k" "w",
    .setStudyUserAttr 0 "p" "q", .setStudySystemAttr 1 "p" "q",
    .setTrialStateValues 0 .complete (some [.fin 2]),
    .setTrialUserAttr 0 "k" "late",                    -- finished: UpdateFinishedTrialError
    .getBestTrial 0, .getAllTrials 0 (some [.complete]), .getTrialIdFromNumber 0 1,
    .createTrial 1 none false, .deleteStudy 0, .getTrial 1, .getNTrials 1 none ]

theorem demo_wf : ∀ op ∈ demo, WfOp op := by
  intro op hop
  simp only [demo, List.mem_cons, List.not_mem_nil, or_false] at hop
  rcases hop with rfl | rfl | rfl | rfl | rfl | rfl | rfl | rfl | rfl | rfl | rfl | rfl | rfl | rfl | rfl | rfl | rfl | rfl | rfl | rfl | rfl
  all_goals simp [WfOp, WfValues, distinctKeys, demoTemplate, TState.isFinished]

/-- trial 0 of the demo history when it is listed -/
def demoTrial0 : TrialS :=
  { study := 0, number := 0, state := .complete, values := some [.fin 2], params := [("x", ⟨"1/4", dF⟩)],
    userAttrs := [("k", "v")], systemAttrs := [("k", "w")], inter := [(1, .fin 5)], hasStart := true,
    hasComplete := true }

set_option maxRecDepth 8000 in
example : (Rdb.runOut Rdb.init demo).take 14 =
    [ .out (.newId 0), .out (.err .duplicated), .out (.newId 1), .out (.newId 0), .out (.newId 1), .out .unit,
      .out (.err .valueError), .out .unit, .out .unit, .out .unit, .out .unit, .out .unit, .out (.bool true),
      .out (.err .updateFinished) ] := by decide

set_option maxRecDepth 8000 in
example : (Rdb.runOut Rdb.init demo).drop 14 =
    [ .out (.trial 1 (mkTrial 0 1 (some demoTemplate))),   -- -inf beats 2 under MINIMIZE
      .out (.trials [(0, demoTrial0), (1, mkTrial 0 1 (some demoTemplate))]),
      .out (.nat 1), .out (.newId 2), .out .unit, .out (.err .keyError), .out (.nat 1) ] := by decide

set_option maxRecDepth 8000 in
/-- after the cascade only the second study's rows are left; ids are not reused -/
example : ((Rdb.run demo).studies.map (·.id), (Rdb.run demo).trials.map (fun r => (r.id, r.number, r.study)),
    (Rdb.run demo).params, (Rdb.run demo).values.length, (Rdb.run demo).nTrial) = ([1], [(2, 0, 1)], [], 0, 3) := by decide

/-- the `implRaised` hint of a call (false where the call has none) -/
def hint : Op → Bool
  | .createTrial _ _ b => b
  | .setTrialParam _ _ _ b => b
  | _ => false

set_option maxRecDepth 8000 in
/-- exactly the rejected `set_trial_param` is handed to the contract with the hint set -/
example : ((specOps Rdb.init demo).map hint).zipIdx.filter (·.1) = [(true, 6)] := by decide

/-! ## outside `WfOp`: where RDBStorage and the contract model part (each replayed on the real code) -/

/-- **U2**: `set_trial_state_values(RUNNING, values)` on a trial that is not WAITING answers `False` *and*
stores the values (they are written before the state test, the `return False` commits). -/
theorem rdb_u2_stores_values_witness :
    let ops := [Op.createStudy "s" [1], .createTrial 0 none false, .setTrialStateValues 0 .running (some [.fin 1])]
    Rdb.runOut Rdb.init ops = [.out (.newId 0), .out (.newId 0), .out (.bool false)] ∧
    (Rdb.run ops).trialView 0 ≠ (Storage.run ops).trial? 0 ∧
    ((Rdb.run ops).trialView 0).map (·.values) = some (some [.fin 1]) := by decide

/-- values are overwritten objective by objective: a shorter list leaves the old tail in place -/
theorem rdb_partial_overwrite_witness :
    let ops := [Op.createStudy "s" [1], .createTrial 0 none false,
                .setTrialStateValues 0 .waiting (some [.fin 1, .fin 2]), .setTrialStateValues 0 .complete (some [.fin 3])]
    ((Rdb.run ops).trialView 0).map (·.values) = some (some [.fin 3, .fin 2]) ∧
    ((Storage.run ops).trial? 0).map (·.values) = some (some [.fin 3]) := by decide

/-- an empty list of values writes no row: it reads back as `None`, not `[]` -/
theorem rdb_empty_values_witness :
    let ops := [Op.createStudy "s" [1], .createTrial 0 none false, .setTrialStateValues 0 .complete (some [])]
    ((Rdb.run ops).trialView 0).map (·.values) = some none ∧
    ((Storage.run ops).trial? 0).map (·.values) = some (some []) := by decide

end OptunaVerif.C01Rdb
