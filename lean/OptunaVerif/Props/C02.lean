import OptunaVerif.Lemmas.Tell
import OptunaVerif.Lemmas.Pool
/-!
# C02 — every trial run by optimize / ask / tell ends in a well-formed terminal state

Theorems about the implementation-shaped models `Tell.tell` (`_tell_with_warning`), `Tell.runTrial`
(`_run_trial`), `Tell.optimizeSeq` (`_optimize_sequential`) and `Pool.step` (the `n_jobs > 1` branch
of `_optimize`).  Every statement quantifies over **all** objective behaviours (any returned value as
the code can probe it, any exception, any report history), all `tell` argument combinations, all
sampler post-processing behaviours, all interference by another worker, all plans of unboundedly
many trials and all interleavings of the thread pool.  The models are tied to /repo on every run by
`verif/props/c02.py` (objective programs executed on the real `Study.optimize` / `Study.tell` and on
the compiled model; recorded thread-pool traces validated against `Pool.step`) and by the translator
`verif/translators/tell_gen.py` (`Generated/TellGen.lean`, `Props/C02Shapes.lean`) and `verif/translators/ttell.py`
(`Generated/TellMethods.lean`, `Props/C02Gen.lean`).

Reading of "the exception is raised *after* the trial is failed": `RunOut.final` is by definition the
stored record at the moment `_run_trial` returns or raises, so a statement about `final` together with
`raised` is a statement about what an observer sees when the exception arrives.
-/
namespace OptunaVerif.C02
open OptunaVerif OptunaVerif.Tell

/-! ## 1. `_tell_with_warning` / `Study.tell` -/

theorem store_state (r : Rec) (st : FinState) (vals : Option (List XVal)) :
    (r.store st vals).state = st.toState := rfl

theorem finState_finished (st : FinState) : st.toState.isFinished = true := by
  cases st <;> rfl

/-- Whatever the sampler does and whoever interferes, once `tell` reaches its post-processing the
trial is in a finished state afterwards (this is the `finally:` of _tell.py:180). -/
theorem postProcess_finished (env : Env) (r : Rec) (st : FinState) (vals : Option (List XVal))
    (warn : Option Why) (sup : Bool) :
    (postProcess env r st vals warn sup).1.state.isFinished = true := by
  unfold postProcess
  split
  · exact finState_finished _
  · split <;> exact finState_finished _

theorem postProcess_quiet (env : Env) (r : Rec) (st : FinState) (vals : Option (List XVal))
    (warn : Option Why) (sup : Bool) (h : env.interfere = none) :
    (postProcess env r st vals warn sup).1 = r.store st vals := by
  unfold postProcess
  rw [h]
  simp only []
  split <;> rfl

theorem tell_of_finished (nObj : Nat) (env : Env) (r : Rec) (a : TellArgs)
    (h : r.state.isFinished = true) :
    tell nObj env r a = (r, if a.skip then .skipped r.state r.values else .raised .valueError) := by
  have hne : (r.state != .running) = true := by
    cases hs : r.state <;> simp [hs, TState.isFinished] at h ⊢
  unfold tell
  cases a.skip <;> simp [h, hne]

theorem tell_of_running (nObj : Nat) (env : Env) (r : Rec) (a : TellArgs) (h : r.state = .running) :
    tell nObj env r a =
      if checkStateAndValues a.state a.v.elems?.isNone then (r, .raised .valueError)
      else match decideState nObj r a.state a.v.elems? with
        | .raise e => (r, .raised e)
        | .go st vals warn => postProcess env r st vals warn a.suppress := by
  unfold tell
  simp only [h, TState.isFinished, Bool.false_and, Bool.false_eq_true, if_false, bne_self_eq_false]
  rfl

/-- **tell_never_alters_finished** — for every argument combination (values of any shape, any
`state` incl. RUNNING/WAITING, `skip_if_finished` either way, any way of naming the trial), every
sampler behaviour and every interference: `Study.tell` on a finished trial leaves the stored record
exactly as it was; with `skip_if_finished` it returns that record, otherwise it raises ValueError. -/
theorem tell_never_alters_finished (nObj : Nat) (env : Env) (lk : Lookup) (r : Rec) (a : TellArgs)
    (h : r.state.isFinished = true) :
    (studyTell nObj env lk r a).1 = r ∧
    (lk = .found → (studyTell nObj env lk r a).2 =
      if a.skip then .skipped r.state r.values else .raised .valueError) := by
  cases lk with
  | unknownNumber => exact ⟨rfl, fun h => by cases h⟩
  | badType => exact ⟨rfl, fun h => by cases h⟩
  | found =>
    simp only [studyTell]
    rw [tell_of_finished _ _ _ _ h]
    exact ⟨rfl, fun _ => rfl⟩

example : (studyTell 1 {} .found { state := .complete, values := some [.fin 1] }
    { v := .scalar (.ok (.fin 2)), state := some .fail, skip := true }).1
    = { state := .complete, values := some [.fin 1] } := by decide

/-- A WAITING trial (enqueued, not yet asked) cannot be told either, whatever the arguments. -/
theorem tell_waiting_rejected (nObj : Nat) (env : Env) (r : Rec) (a : TellArgs)
    (h : r.state = .waiting) : tell nObj env r a = (r, .raised .valueError) := by
  unfold tell
  simp [h, TState.isFinished]

/-- `tell` on a RUNNING trial either finishes it, or raises and leaves the record untouched (so the
caller can tell again).  There is no third outcome such as a half-written record. -/
theorem tell_finishes_or_untouched (nObj : Nat) (env : Env) (r : Rec) (a : TellArgs)
    (h : r.state = .running) :
    (tell nObj env r a).1.state.isFinished = true ∨
    ((tell nObj env r a).1 = r ∧ ∃ e, (tell nObj env r a).2 = .raised e) := by
  rw [tell_of_running _ _ _ _ h]
  split
  · exact Or.inr ⟨rfl, _, rfl⟩
  · split
    · exact Or.inr ⟨rfl, _, rfl⟩
    · exact Or.inl (postProcess_finished _ _ _ _ _ _)

/-- The value(s) are feasible for a study with `nObj` objectives: present, every element casts to a
non-NaN float, one per objective. -/
def FeasibleElems (nObj : Nat) (o : Option (List Elem)) : Prop :=
  ∃ es, o = some es ∧ (∀ e ∈ es, e.Good) ∧ es.length = nObj

def Feasible (nObj : Nat) (v : PyVal) : Prop := FeasibleElems nObj v.elems?

theorem decideState_none_opt (nObj : Nat) (r : Rec) (o : Option (List Elem)) :
    (FeasibleElems nObj o ∧ ∃ es, o = some es ∧
        decideState nObj r none o = .go .complete (some (floats es)) none) ∨
    (¬ FeasibleElems nObj o ∧ ∃ w, decideState nObj r none o = .go .fail none (some w)) ∨
    (¬ FeasibleElems nObj o ∧ ∃ es c, o = some es ∧ scan es = .raises c ∧
        decideState nObj r none o = .raise (.cast c)) := by
  cases o with
  | none =>
    right; left
    refine ⟨?_, .none, rfl⟩
    rintro ⟨es, hes, _⟩
    cases hes
  | some es =>
    simp only [decideState]
    cases hc : checkValuesFeasible nObj es with
    | feasible =>
      left
      have := (check_feasible_iff nObj es).1 hc
      exact ⟨⟨es, rfl, this.1, this.2⟩, es, rfl, rfl⟩
    | infeasible w =>
      right; left
      refine ⟨?_, w, rfl⟩
      rintro ⟨es', hes', hg, hl⟩
      cases hes'
      rw [(check_feasible_iff nObj es).2 ⟨hg, hl⟩] at hc
      cases hc
    | raises c =>
      right; right
      refine ⟨?_, es, c, rfl, check_raises _ _ _ hc, rfl⟩
      rintro ⟨es', hes', hg, hl⟩
      cases hes'
      rw [(check_feasible_iff nObj es).2 ⟨hg, hl⟩] at hc
      cases hc

theorem decideState_none (nObj : Nat) (r : Rec) (v : PyVal) :
    (Feasible nObj v ∧ ∃ es, v.elems? = some es ∧
        decideState nObj r none v.elems? = .go .complete (some (floats es)) none) ∨
    (¬ Feasible nObj v ∧ ∃ w, decideState nObj r none v.elems? = .go .fail none (some w)) ∨
    (¬ Feasible nObj v ∧ ∃ es c, v.elems? = some es ∧ scan es = .raises c ∧
        decideState nObj r none v.elems? = .raise (.cast c)) :=
  decideState_none_opt nObj r v.elems?

/-- What a PRUNED tell stores: the value at the greatest reported step if it is feasible. -/
def prunedValues (nObj : Nat) (inter : List (Nat × XVal)) : Option (List XVal) :=
  match lastReport inter with
  | none => none
  | some x => if x ≠ .nan ∧ nObj = 1 then some [x] else none

theorem decideState_pruned (nObj : Nat) (r : Rec) (o : Option (List Elem)) :
    decideState nObj r (some .pruned) o = .go .pruned (prunedValues nObj r.inter) none := by
  simp only [decideState, prunedValues]
  cases lastReport r.inter with
  | none => rfl
  | some x =>
    simp only []
    by_cases hg : x ≠ .nan ∧ nObj = 1
    · rw [(check_single nObj x).2 hg]; simp [hg]
    · have hne : checkValuesFeasible nObj [.ok x] ≠ .feasible := fun h => hg ((check_single nObj x).1 h)
      rw [if_neg hg]
      split
      · rename_i hfe; exact absurd hfe hne
      · rfl

theorem decideState_fail (nObj : Nat) (r : Rec) (o : Option (List Elem)) :
    decideState nObj r (some .fail) o = .go .fail none none := rfl

/-- `Study.tell(trial, values)` (no explicit state) on a RUNNING trial nobody else touches:
COMPLETE exactly when the values are feasible, and then the stored values are the float casts. -/
theorem tell_complete_iff_feasible (nObj : Nat) (env : Env) (r : Rec) (v : PyVal) (skip sup : Bool)
    (h : r.state = .running) (hq : env.interfere = none) :
    ((tell nObj env r { v := v, state := none, skip := skip, suppress := sup }).1.state = .complete
        ↔ Feasible nObj v) ∧
    (∀ es, v.elems? = some es → Feasible nObj v →
       (tell nObj env r { v := v, state := none, skip := skip, suppress := sup }).1.values
          = some (floats es) ∧ es = (floats es).map Elem.ok) := by
  rw [tell_of_running _ _ _ _ h]
  simp only [checkStateAndValues, Bool.false_eq_true, if_false]
  rcases decideState_none nObj r v with ⟨hf, es, hes, hd⟩ | ⟨hf, w, hd⟩ | ⟨hf, es, c, hes, _, hd⟩
  · rw [hd]
    simp only []
    rw [postProcess_quiet _ _ _ _ _ _ hq]
    refine ⟨⟨fun _ => hf, fun _ => rfl⟩, ?_⟩
    intro es' hes' _
    rw [hes] at hes'; cases hes'
    obtain ⟨es2, h2, hg, _⟩ := hf
    rw [hes] at h2; cases h2
    exact ⟨rfl, floats_spec es hg⟩
  · rw [hd]
    simp only []
    rw [postProcess_quiet _ _ _ _ _ _ hq]
    refine ⟨⟨fun hc => (by simp [Rec.store, FinState.toState] at hc), fun hc => absurd hc hf⟩, ?_⟩
    intro _ _ hc
    exact absurd hc hf
  · rw [hd]
    simp only []
    refine ⟨⟨fun hc => (by rw [h] at hc; cases hc), fun hc => absurd hc hf⟩, ?_⟩
    intro _ _ hc
    exact absurd hc hf

/-! ## 2. `_run_trial` -/

theorem runTrial_final (cfg : Cfg) (s : Script) :
    (runTrial cfg s).final = (tell cfg.nObj s.env s.initRec s.tellArgs).1 := by
  unfold runTrial
  generalize tell cfg.nObj s.env s.initRec s.tellArgs = t
  obtain ⟨r2, o⟩ := t
  cases o with
  | ok st vals wk wd =>
    simp only [afterTell]
    split
    · rfl
    · split
      · split <;> rfl
      · rfl
  | skipped st vals => rfl
  | raised e =>
    simp only [afterTell]
    split
    · rfl
    · split <;> rfl

theorem initRec_state (s : Script) :
    (s.pre = none ∧ s.initRec.state = .running) ∨
    (∃ p, s.pre = some p ∧ s.initRec.state = p.1.toState ∧ s.initRec.values = p.2) := by
  unfold Script.initRec
  cases hp : s.pre with
  | none => left; exact ⟨rfl, rfl⟩
  | some p => right; exact ⟨p, rfl, rfl, rfl⟩

theorem initRec_running (s : Script) (h : s.pre = none) : s.initRec.state = .running := by
  unfold Script.initRec; rw [h]

theorem initRec_inter (s : Script) : s.initRec.inter = s.reports.foldl report [] := by
  unfold Script.initRec
  cases s.pre <;> rfl

theorem initRec_values_none (s : Script) (h : s.pre = none) : s.initRec.values = none := by
  unfold Script.initRec; rw [h]

/-- The state/values decision `_tell_with_warning` takes for the call made by `_run_trial`. -/
def scriptDecision (cfg : Cfg) (s : Script) : Decision :=
  decideState cfg.nObj s.initRec s.tellArgs.state s.tellArgs.v.elems?

theorem scriptDecision_ret (cfg : Cfg) (s : Script) (v : PyVal) (ho : s.out = .ret v) :
    scriptDecision cfg s = decideState cfg.nObj s.initRec none v.elems? := by
  unfold scriptDecision Script.tellArgs; rw [ho]

theorem scriptDecision_pruned (cfg : Cfg) (s : Script) (ho : s.out = .pruned) :
    scriptDecision cfg s = .go .pruned (prunedValues cfg.nObj s.initRec.inter) none := by
  unfold scriptDecision Script.tellArgs; rw [ho]; exact decideState_pruned _ _ _

theorem scriptDecision_exc (cfg : Cfg) (s : Script) (e : Exc) (ho : s.out = .exc e) :
    scriptDecision cfg s = .go .fail none none := by
  unfold scriptDecision Script.tellArgs; rw [ho]; rfl

theorem tellArgs_check (s : Script) :
    checkStateAndValues s.tellArgs.state s.tellArgs.v.elems?.isNone = false := by
  unfold Script.tellArgs
  cases s.out <;> rfl

theorem tellArgs_suppress (s : Script) : s.tellArgs.suppress = true := by
  unfold Script.tellArgs
  cases s.out <;> rfl

/-- The tell made by `_run_trial` on a trial nobody finished before. -/
theorem tell_of_script (cfg : Cfg) (s : Script) (hpre : s.pre = none) :
    tell cfg.nObj s.env s.initRec s.tellArgs =
      match scriptDecision cfg s with
      | .raise e => (s.initRec, .raised e)
      | .go st vals warn => postProcess s.env s.initRec st vals warn true := by
  rw [tell_of_running _ _ _ _ (initRec_running s hpre), tellArgs_check, tellArgs_suppress]
  rfl

/-- The decision is a `raise` only for a returned value whose scan meets an un-named cast error. -/
theorem scriptDecision_raise (cfg : Cfg) (s : Script) (e : Exc) (h : scriptDecision cfg s = .raise e) :
    ∃ v es c, s.out = .ret v ∧ v.elems? = some es ∧ scan es = .raises c ∧ e = .cast c := by
  cases ho : s.out with
  | ret v =>
    rw [scriptDecision_ret cfg s v ho] at h
    rcases decideState_none cfg.nObj s.initRec v with ⟨_, es, _, h'⟩ | ⟨_, w, h'⟩ | ⟨_, es, c, hes, hsc, h'⟩
    · rw [h'] at h; cases h
    · rw [h'] at h; cases h
    · rw [h'] at h; cases h; exact ⟨v, es, c, rfl, hes, hsc, rfl⟩
  | pruned => rw [scriptDecision_pruned cfg s ho] at h; cases h
  | exc e' => rw [scriptDecision_exc cfg s e' ho] at h; cases h

/-- **runTrial_terminal** — for every objective outcome (any returned value as the code can probe it,
TrialPruned, any Exception, KeyboardInterrupt), report history, sampler post-processing behaviour
(returns / raises / is interrupted), interference by another worker before or during the final tell,
`catch` tuple and number of objectives: the trial is COMPLETE, PRUNED or FAIL when `_run_trial` returns
or raises.  No hypothesis on the returned value is needed any more: `float(v)` raising *any* exception
class makes the value infeasible (`castCaught_all`, tied to the source by `gen_castCaught`). -/
theorem runTrial_terminal (cfg : Cfg) (s : Script) :
    (runTrial cfg s).final.state.isFinished = true := by
  rw [runTrial_final]
  rcases initRec_state s with ⟨hpre, _⟩ | ⟨p, _, hst, _⟩
  · rw [tell_of_script cfg s hpre]
    cases hd : scriptDecision cfg s with
    | raise e =>
      exfalso
      obtain ⟨v, es, c, _, _, hsc, _⟩ := scriptDecision_raise cfg s e hd
      exact scan_not_raises es c hsc
    | go st vals warn => exact postProcess_finished _ _ _ _ _ _
  · have hfin : s.initRec.state.isFinished = true := by rw [hst]; exact finState_finished _
    rw [tell_of_finished _ _ _ _ hfin]
    exact hfin

example : (runTrial ⟨1, fun _ => false⟩ { out := .ret (.scalar (.bad .overflowError)) }).final.state = .fail := by
  decide

/-- Regression witness of the repaired defect: an objective that returns an object whose `__float__`
raises e.g. RuntimeError (class id 7) now ends FAIL without values and `_run_trial` returns normally
(before the repair: RUNNING + AssertionError).  The harness replays it on the real code every run. -/
example : runTrial ⟨1, fun _ => false⟩ { out := .ret (.scalar (.bad (.other 7))) }
    = ⟨{ state := .fail }, none⟩ := by decide
example : runTrial ⟨2, fun _ => false⟩ { out := .ret (.seq [.bad (.other 7), .ok .nan]) }
    = ⟨{ state := .fail }, none⟩ := by decide

/-- `_run_trial` never leaves the trial RUNNING (nor WAITING). -/
theorem runTrial_not_running (cfg : Cfg) (s : Script) : (runTrial cfg s).final.state ≠ .running := by
  intro h
  have := runTrial_terminal cfg s
  rw [h] at this
  cases this

/-- Nobody but this worker touches the trial. -/
def Undisturbed (s : Script) : Prop := s.pre = none ∧ s.env.interfere = none

theorem undisturbed_final (cfg : Cfg) (s : Script) (hu : Undisturbed s) :
    ((runTrial cfg s).final = s.initRec ∧ ∃ e, scriptDecision cfg s = .raise e)
    ∨ ∃ st vals warn, scriptDecision cfg s = .go st vals warn ∧
        (runTrial cfg s).final = s.initRec.store st vals := by
  obtain ⟨hpre, hq⟩ := hu
  rw [runTrial_final, tell_of_script cfg s hpre]
  cases hd : scriptDecision cfg s with
  | raise e => left; exact ⟨rfl, e, rfl⟩
  | go st vals warn =>
    right
    exact ⟨st, vals, warn, rfl, postProcess_quiet _ _ _ _ _ _ hq⟩

/-- **complete_iff_feasible** — a trial nobody else touches ends COMPLETE exactly when the objective
returned and the returned value(s) are feasible (every element casts to a float, none is NaN, one per
objective); the stored values are then exactly those floats, in order.  For every sampler behaviour
(`after_trial` may raise), every report history and `catch`. -/
theorem complete_iff_feasible (cfg : Cfg) (s : Script) (hu : Undisturbed s) :
    ((runTrial cfg s).final.state = .complete ↔ ∃ v, s.out = .ret v ∧ Feasible cfg.nObj v) ∧
    (∀ v es, s.out = .ret v → v.elems? = some es → Feasible cfg.nObj v →
        (runTrial cfg s).final.values = some (floats es) ∧ es = (floats es).map Elem.ok ∧
        (floats es).length = cfg.nObj ∧ ∀ x ∈ floats es, x ≠ .nan) := by
  have hrun := initRec_running s hu.1
  cases ho : s.out with
  | ret v =>
    have key := tell_complete_iff_feasible cfg.nObj s.env s.initRec v false true hrun hu.2
    have hta : s.tellArgs = { v := v, state := none, skip := false, suppress := true } := by
      unfold Script.tellArgs; rw [ho]
    rw [← hta, ← runTrial_final] at key
    refine ⟨⟨fun h => ⟨v, rfl, key.1.1 h⟩, ?_⟩, ?_⟩
    · rintro ⟨v', hv', hf⟩
      cases hv'
      exact key.1.2 hf
    · intro v' es hv' hes hf
      cases hv'
      obtain ⟨h1, h2⟩ := key.2 es hes hf
      obtain ⟨es', hes', hg, hl⟩ := hf
      rw [hes] at hes'; cases hes'
      exact ⟨h1, h2, by rw [floats_length es hg]; exact hl, floats_no_nan es hg⟩
  | pruned =>
    refine ⟨⟨?_, ?_⟩, ?_⟩
    · intro h
      exfalso
      rcases undisturbed_final cfg s hu with ⟨hf, _⟩ | ⟨st, vals, warn, hd, hf⟩
      · rw [hf, hrun] at h; cases h
      · rw [scriptDecision_pruned cfg s ho] at hd
        cases hd
        rw [hf, store_state] at h
        cases h
    · rintro ⟨v, hv, _⟩; cases hv
    · intro v es hv; cases hv
  | exc e =>
    refine ⟨⟨?_, ?_⟩, ?_⟩
    · intro h
      exfalso
      rcases undisturbed_final cfg s hu with ⟨hf, _⟩ | ⟨st, vals, warn, hd, hf⟩
      · rw [hf, hrun] at h; cases h
      · rw [scriptDecision_exc cfg s e ho] at hd
        cases hd
        rw [hf, store_state] at h
        cases h
    · rintro ⟨v, hv, _⟩; cases hv
    · intro v es hv; cases hv

example : (runTrial ⟨2, fun _ => false⟩
    { out := .ret (.seq [.ok (.fin 1), .ok .pinf]) }).final = { state := .complete, values := some [.fin 1, .pinf] } := by
  decide

/-- **fail_has_no_values** — a trial nobody else touches that ends FAIL carries no values, whatever
the objective returned or raised. -/
theorem fail_has_no_values (cfg : Cfg) (s : Script) (hu : Undisturbed s)
    (h : (runTrial cfg s).final.state = .fail) : (runTrial cfg s).final.values = none := by
  have hvn := initRec_values_none s hu.1
  rcases undisturbed_final cfg s hu with ⟨hf, _⟩ | ⟨st, vals, warn, hd, hf⟩
  · rw [hf]; exact hvn
  · rw [hf] at h ⊢
    rw [store_state] at h
    have hst : st = .fail := by cases st <;> first | rfl | cases h
    subst hst
    -- every decision that says FAIL says `values = None`
    have hv : vals = none := by
      cases ho : s.out with
      | ret v =>
        rw [scriptDecision_ret cfg s v ho] at hd
        rcases decideState_none cfg.nObj s.initRec v with ⟨_, es, _, h'⟩ | ⟨_, w, h'⟩ | ⟨_, es, c, _, _, h'⟩
        · rw [h'] at hd; cases hd
        · rw [h'] at hd; cases hd; rfl
        · rw [h'] at hd; cases hd
      | pruned => rw [scriptDecision_pruned cfg s ho] at hd; cases hd
      | exc e => rw [scriptDecision_exc cfg s e ho] at hd; cases hd; rfl
    subst hv
    simp [Rec.store, hvn]

example : (runTrial ⟨1, fun _ => false⟩ { out := .ret (.scalar (.ok .nan)) }).final
    = { state := .fail, values := none } := by decide

theorem firstAt_of_mem (l : List (Nat × XVal)) (k : Nat) (x : XVal) (h : (k, x) ∈ l) :
    ∃ y, firstAt l k = some y := by
  induction l with
  | nil => cases h
  | cons a t ih =>
    obtain ⟨s', y⟩ := a
    by_cases hs : s' = k
    · exact ⟨y, by simp [firstAt, hs]⟩
    · rcases List.mem_cons.1 h with h | h
      · cases h; exact absurd rfl hs
      · obtain ⟨z, hz⟩ := ih h
        exact ⟨z, by simp [firstAt, hs, hz]⟩

/-- **pruned_value_is_last_feasible_report** — an objective that raises TrialPruned ends PRUNED
(nobody else touching the trial); its stored value is the value reported for the *greatest* step
(the first report of that step: later reports of a step are ignored) when that value is not NaN and
the study has one objective, and there is no value otherwise. -/
theorem pruned_value_is_last_feasible_report (cfg : Cfg) (s : Script) (hu : Undisturbed s)
    (ho : s.out = .pruned) :
    (runTrial cfg s).final.state = .pruned ∧
    ((s.reports = [] ∧ (runTrial cfg s).final.values = none) ∨
     (∃ k, (∃ x, (k, x) ∈ s.reports) ∧ (∀ p ∈ s.reports, p.1 ≤ k) ∧
        ∃ x, firstAt s.reports k = some x ∧
          (runTrial cfg s).final.values = if x ≠ .nan ∧ cfg.nObj = 1 then some [x] else none)) := by
  have hvn := initRec_values_none s hu.1
  have hint := initRec_inter s
  rcases undisturbed_final cfg s hu with ⟨_, e, hd⟩ | ⟨st, vals, warn, hd, hf⟩
  · rw [scriptDecision_pruned cfg s ho] at hd; cases hd
  · rw [scriptDecision_pruned cfg s ho] at hd
    cases hd
    rw [hf]
    refine ⟨rfl, ?_⟩
    unfold prunedValues
    rw [hint]
    rcases lastReport_foldl s.reports with ⟨hnil, hlr⟩ | ⟨k, hk, hle, hlr⟩
    · left
      rw [hlr]
      exact ⟨hnil, by simp [Rec.store, hvn]⟩
    · right
      obtain ⟨x0, hx0⟩ := hk
      obtain ⟨x, hx⟩ := firstAt_of_mem s.reports k x0 hx0
      refine ⟨k, ⟨x0, hx0⟩, hle, x, hx, ?_⟩
      rw [hlr, hx]
      by_cases hgood : x ≠ .nan ∧ cfg.nObj = 1
      · simp [Rec.store, hgood]
      · simp only [Rec.store, if_neg hgood, hvn]

example : (runTrial ⟨1, fun _ => false⟩
    { reports := [(3, .fin 1), (1, .fin 2), (3, .fin 5)], out := .pruned }).final.values = some [.fin 1] := by
  decide
example : (runTrial ⟨1, fun _ => false⟩
    { reports := [(0, .fin 1), (4, .nan)], out := .pruned }).final = { state := .pruned, values := none, inter := [(0, .fin 1), (4, .nan)] } := by
  decide

/-- **uncaught_propagates_after_fail** — the objective raises an Exception or KeyboardInterrupt `e`
(nobody else touching the trial): whatever the sampler's `after_trial` does, the trial is FAIL without
values when `_run_trial` is left; if `e` is not an instance of `catch`, `_run_trial` raises — `e`
itself when `after_trial` returns normally; and if `e` is caught and `after_trial` returns, nothing
is raised. -/
theorem uncaught_propagates_after_fail (cfg : Cfg) (s : Script) (e : Exc) (hu : Undisturbed s)
    (ho : s.out = .exc e) :
    (runTrial cfg s).final.state = .fail ∧ (runTrial cfg s).final.values = none ∧
    (cfg.catches e = false → (runTrial cfg s).raised ≠ none) ∧
    (s.env.after = .ok → (runTrial cfg s).raised = if cfg.catches e then none else some e) := by
  have hvn := initRec_values_none s hu.1
  have ht : tell cfg.nObj s.env s.initRec s.tellArgs = postProcess s.env s.initRec .fail none none true := by
    rw [tell_of_script cfg s hu.1, scriptDecision_exc cfg s e ho]
  have hfe : s.hasFuncErr = true := by unfold Script.hasFuncErr; rw [ho]
  have hfin : (runTrial cfg s).final = s.initRec.store .fail none := by
    rw [runTrial_final, ht, postProcess_quiet _ _ _ _ _ _ hu.2]
  refine ⟨by rw [hfin]; rfl, by rw [hfin]; simp [Rec.store, hvn], ?_, ?_⟩
  · intro hc
    unfold runTrial
    rw [ht]
    unfold postProcess
    rw [hu.2]
    simp only []
    cases s.env.after with
    | ok => simp [afterTell, finallyAsserts, hfe, ho, hc, Rec.store, FinState.toState]
    | raises c => simp [afterTell, finallyAsserts, hfe, Exc.isBase, Rec.store, FinState.toState]
    | raisesKbd => simp [afterTell, Exc.isBase]
  · intro ha
    unfold runTrial
    rw [ht]
    unfold postProcess
    rw [hu.2, ha]
    cases hc : cfg.catches e <;>
      simp [afterTell, finallyAsserts, hfe, ho, hc, Rec.store, FinState.toState]

example : runTrial ⟨1, fun _ => false⟩ { out := .exc (.user 3) }
    = ⟨{ state := .fail }, some (.user 3)⟩ := by decide
example : runTrial ⟨1, fun e => e == .user 3⟩ { out := .exc (.user 3) }
    = ⟨{ state := .fail }, none⟩ := by decide
example : runTrial ⟨1, fun _ => false⟩ { out := .exc .kbd } = ⟨{ state := .fail }, some .kbd⟩ := by decide

/-- In a quiet environment (`after_trial` returns, nobody interferes) `_run_trial` raises exactly
when the objective raised something `catch` does not list (and then raises that); a returned value
(feasible or not) and TrialPruned never make it raise. -/
theorem quiet_raises_iff (cfg : Cfg) (s : Script) (hu : Undisturbed s) (ha : s.env.after = .ok) :
    (runTrial cfg s).raised = match s.out with
      | .exc e => if cfg.catches e then none else some e
      | _ => none := by
  cases ho : s.out with
  | exc e => exact (uncaught_propagates_after_fail cfg s e hu ho).2.2.2 ha
  | pruned =>
    unfold runTrial
    rw [tell_of_script cfg s hu.1, scriptDecision_pruned cfg s ho]
    simp [postProcess, hu.2, ha, afterTell, finallyAsserts, Rec.store, FinState.toState, ho]
  | ret v =>
    unfold runTrial
    rw [tell_of_script cfg s hu.1, scriptDecision_ret cfg s v ho]
    rcases decideState_none cfg.nObj s.initRec v with ⟨_, es, _, h⟩ | ⟨_, w, h⟩ | ⟨_, es, c, hes, hsc, _⟩
    · rw [h]
      simp [postProcess, hu.2, ha, afterTell, finallyAsserts, Rec.store, FinState.toState, ho]
    · rw [h]
      simp [postProcess, hu.2, ha, afterTell, finallyAsserts, Rec.store, FinState.toState, ho,
        Script.hasFuncErr]
    · exact absurd hsc (scan_not_raises es c)

/-! ## 3. `_optimize_sequential` -/

/-- How many callbacks of the list get called: all of them, or up to and including the first one
that raises. -/
def numCalled : List CbAct → Nat
  | [] => 0
  | a :: t => if a.raises.isSome then 1 else numCalled t + 1

theorem numCalled_le (cbs : List CbAct) : numCalled cbs ≤ cbs.length := by
  induction cbs with
  | nil => simp [numCalled]
  | cons a t ih => simp only [numCalled, List.length_cons]; split <;> omega

/-- `j < numCalled cbs` says: callback `j` exists and no earlier callback raised. -/
theorem lt_numCalled_iff (cbs : List CbAct) (j : Nat) :
    j < numCalled cbs ↔ j < cbs.length ∧ ∀ j', j' < j → ∀ a, cbs[j']? = some a → a.raises = none := by
  induction cbs generalizing j with
  | nil => simp [numCalled]
  | cons a t ih =>
    simp only [numCalled, List.length_cons]
    cases j with
    | zero =>
      constructor
      · intro _; exact ⟨by omega, fun j' h => by omega⟩
      · intro _; split <;> omega
    | succ j =>
      cases hr : a.raises with
      | some c =>
        simp only [Option.isSome_some, if_true]
        constructor
        · intro h; omega
        · rintro ⟨_, h⟩
          have := h 0 (by omega) a (by simp)
          rw [hr] at this; cases this
      | none =>
        simp only [Option.isSome_none, Bool.false_eq_true, if_false]
        rw [Nat.add_lt_add_iff_right, ih]
        constructor
        · rintro ⟨h1, h2⟩
          refine ⟨by omega, ?_⟩
          intro j' hj' b hb
          cases j' with
          | zero => simp at hb; subst hb; exact hr
          | succ j' => exact h2 j' (by omega) b (by simpa using hb)
        · rintro ⟨h1, h2⟩
          refine ⟨by omega, ?_⟩
          intro j' hj' b hb
          exact h2 (j' + 1) (by omega) b (by simpa using hb)

theorem numCalled_all (cbs : List CbAct) (h : ∀ a ∈ cbs, a.raises = none) : numCalled cbs = cbs.length := by
  induction cbs with
  | nil => rfl
  | cons a t ih =>
    simp only [numCalled, h a List.mem_cons_self, Option.isSome_none, Bool.false_eq_true, if_false,
      List.length_cons]
    rw [ih (fun b hb => h b (List.mem_cons_of_mem _ hb))]

theorem runCallbacks_log (i j : Nat) (cbs : List CbAct) :
    (runCallbacks i j cbs).1 = (List.range' j (numCalled cbs)).map (fun b => (i, b)) := by
  induction cbs generalizing j with
  | nil => simp [runCallbacks, numCalled]
  | cons a t ih =>
    cases hr : a.raises with
    | some c => simp [runCallbacks, numCalled, hr]
    | none =>
      simp only [runCallbacks, numCalled, hr, Option.isSome_none, Bool.false_eq_true, if_false]
      rw [ih (j + 1)]
      simp [List.range'_succ]

/-- The callback loop ends with an exception exactly when some callback raises. -/
theorem runCallbacks_raise (i j : Nat) (cbs : List CbAct) :
    (runCallbacks i j cbs).2.2 = none ↔ ∀ a ∈ cbs, a.raises = none := by
  induction cbs generalizing j with
  | nil => simp [runCallbacks]
  | cons a t ih =>
    cases hr : a.raises with
    | some c => simp [runCallbacks, hr]
    | none =>
      simp only [runCallbacks, hr, List.mem_cons, forall_eq_or_imp, true_and]
      exact ih (j + 1)

theorem runCallbacks_stop (i j : Nat) (cbs : List CbAct) (h : ∀ a ∈ cbs, a.stop = false) :
    (runCallbacks i j cbs).2.1 = false := by
  induction cbs generalizing j with
  | nil => simp [runCallbacks]
  | cons a t ih =>
    have ha := h a List.mem_cons_self
    cases hr : a.raises with
    | some c => simp [runCallbacks, hr, ha]
    | none =>
      simp only [runCallbacks, hr, ha, Bool.false_or]
      exact ih (j + 1) (fun b hb => h b (List.mem_cons_of_mem _ hb))

/-- The callback log one expects for the trials that ran: per trial (in order) nothing if the
trial's exception propagated, else callbacks 0,1,… up to the first raising one. -/
def cbSpec (cfg : Cfg) : Nat → List TrialPlan → List (Nat × Nat)
  | _, [] => []
  | i, p :: ps =>
    (if (runPlan cfg p).raised.isSome then []
     else (List.range' 0 (numCalled p.cbs)).map (fun b => (i, b))) ++ cbSpec cfg (i + 1) ps

/-- Shape of a run of the loop: the trials that ran are the first plans, in order, each through
`_run_trial`, and the callback log is `cbSpec` of them. -/
theorem optimizeSeq_shape (cfg : Cfg) (nT to : Option Nat) (plans : List TrialPlan) (i el : Nat)
    (stop : Bool) :
    (optimizeSeq cfg nT to plans i el stop).trials =
      (plans.take (optimizeSeq cfg nT to plans i el stop).trials.length).map (fun p => runPlan cfg p) ∧
    (optimizeSeq cfg nT to plans i el stop).cbLog =
      cbSpec cfg i (plans.take (optimizeSeq cfg nT to plans i el stop).trials.length) := by
  induction plans generalizing i el stop with
  | nil => simp [optimizeSeq, cbSpec]
  | cons p ps ih =>
    unfold optimizeSeq
    split
    · simp [cbSpec]
    · simp only []
      cases hr : (runPlan cfg p).raised with
      | some e => simp [cbSpec, hr]
      | none =>
        simp only []
        have hlog := runCallbacks_log i 0 p.cbs
        rcases hc : runCallbacks i 0 p.cbs with ⟨log, cbStop, r⟩
        rw [hc] at hlog
        simp only [] at hlog
        cases r with
        | some c => simp [cbSpec, hr, hlog]
        | none =>
          simp only []
          obtain ⟨ih1, ih2⟩ := ih (i + 1) (el + p.sleep) (stop || p.stopInObj || cbStop)
          constructor
          · simp only [List.length_cons, List.take_succ_cons, List.map_cons, List.cons.injEq, true_and]
            exact ih1
          · simp only [List.length_cons, List.take_succ_cons, cbSpec, hr, Option.isSome_none,
              Bool.false_eq_true, if_false, hlog]
            rw [← ih2]

theorem count_range_pair (i a b j n : Nat) :
    List.count (a, b) ((List.range' j n).map (fun x => (i, x))) =
      if a = i ∧ j ≤ b ∧ b < j + n then 1 else 0 := by
  induction n generalizing j with
  | zero =>
    simp only [List.range'_zero, List.map_nil, List.count_nil]
    split
    · omega
    · rfl
  | succ n ih =>
    simp only [List.range'_succ, List.map_cons, List.count_cons, ih (j + 1), beq_iff_eq, Prod.mk.injEq]
    split <;> split <;> split <;> omega

theorem cbSpec_count_low (cfg : Cfg) (m : List TrialPlan) (i a b : Nat) (h : a < i) :
    List.count (a, b) (cbSpec cfg i m) = 0 := by
  induction m generalizing i with
  | nil => simp [cbSpec]
  | cons p ps ih =>
    simp only [cbSpec, List.count_append]
    rw [ih (i + 1) (by omega)]
    split
    · simp
    · rw [count_range_pair]
      simp; omega

theorem cbSpec_count (cfg : Cfg) (m : List TrialPlan) (i k j : Nat) (p : TrialPlan)
    (hk : m[k]? = some p) :
    List.count (i + k, j) (cbSpec cfg i m) =
      if (runPlan cfg p).raised = none ∧ j < numCalled p.cbs then 1 else 0 := by
  induction m generalizing i k with
  | nil => simp at hk
  | cons q qs ih =>
    simp only [cbSpec, List.count_append]
    cases k with
    | zero =>
      simp only [List.getElem?_cons_zero, Option.some.injEq] at hk
      subst hk
      rw [cbSpec_count_low cfg qs (i + 1) (i + 0) j (by omega)]
      cases hr : (runPlan cfg q).raised with
      | some e => simp
      | none =>
        simp only [Option.isSome_none, Bool.false_eq_true, if_false, count_range_pair, Nat.add_zero,
          true_and, Nat.zero_le, Nat.zero_add]
    | succ k =>
      simp only [List.getElem?_cons_succ] at hk
      have := ih (i + 1) k hk
      rw [show i + 1 + k = i + (k + 1) by omega] at this
      rw [this]
      split
      · simp
      · rw [count_range_pair]
        simp

/-- **callbacks_exactly_once** — for every run of the loop (any `n_trials`, timeout, stop requests,
exceptions): for the `k`-th trial that was started and every callback index `j`, the invocation
`(trial k, callback j)` occurs in the log exactly once if the trial's exception did not propagate and
no earlier callback of that trial raised, and never otherwise.  In particular no callback is ever
invoked twice for a trial, none for a trial whose exception propagates, and every callback once for
every other trial (up to a raising callback, whose exception ends `optimize`). -/
theorem callbacks_exactly_once (cfg : Cfg) (nT to : Option Nat) (plans : List TrialPlan) (i el : Nat)
    (stop : Bool) (k j : Nat) (hk : k < (optimizeSeq cfg nT to plans i el stop).trials.length) :
    ∃ p, plans[k]? = some p ∧
      (optimizeSeq cfg nT to plans i el stop).trials[k]? = some (runPlan cfg p) ∧
      List.count (i + k, j) (optimizeSeq cfg nT to plans i el stop).cbLog =
        if (runPlan cfg p).raised = none ∧
            (j < p.cbs.length ∧ ∀ j', j' < j → ∀ a, p.cbs[j']? = some a → a.raises = none)
        then 1 else 0 := by
  obtain ⟨h1, h2⟩ := optimizeSeq_shape cfg nT to plans i el stop
  generalize (optimizeSeq cfg nT to plans i el stop) = o at *
  have hlen : o.trials.length ≤ plans.length := by
    have := congrArg List.length h1
    simp at this
    omega
  have hkp : k < plans.length := by omega
  refine ⟨plans[k], by simp [hkp], ?_, ?_⟩
  · rw [h1]
    simp [hk, hkp]
  · have hc := cbSpec_count cfg (plans.take o.trials.length) i k j plans[k] (by simp [hk, hkp])
    rw [h2, hc]
    simp only [lt_numCalled_iff]

example : (optimizeSeq ⟨1, fun _ => false⟩ (some 2) none
    [{ script := { out := .ret (.scalar (.ok (.fin 1))) }, cbs := [{}, {}] },
     { script := { out := .exc (.user 1) }, cbs := [{}, {}] }] 0 0 false).cbLog = [(0, 0), (0, 1)] := by decide

/-- **optimizeSeq_all_terminal** (full strength) — when the loop returns or raises, every trial it
started is COMPLETE, PRUNED or FAIL (none RUNNING), whatever the objective, the callbacks and the
sampler do — including a sampler (or fixed distribution) that raises inside `study.ask()`: `ask` fails
the trial it has just created before re-raising (repaired defect F21; before the repair this needed the
hypothesis `askRaises = none`). -/
theorem optimizeSeq_all_terminal (cfg : Cfg) (nT to : Option Nat) (plans : List TrialPlan) (i el : Nat)
    (stop : Bool) :
    ∀ ro ∈ (optimizeSeq cfg nT to plans i el stop).trials, ro.final.state.isFinished = true := by
  obtain ⟨h1, _⟩ := optimizeSeq_shape cfg nT to plans i el stop
  intro ro hro
  rw [h1] at hro
  obtain ⟨p, hp, rfl⟩ := List.mem_map.1 hro
  unfold runPlan
  cases h : p.askRaises with
  | some c => rfl
  | none => exact runTrial_terminal cfg p.script

example : ∀ ro ∈ (optimizeSeq ⟨1, fun _ => false⟩ (some 3) none
    [{ script := { out := .ret (.scalar (.ok .nan)) } }, { script := { out := .pruned } },
     { script := { out := .exc .kbd } }, {}] 0 0 false).trials, ro.final.state.isFinished = true := by decide

/-- A sampler that raises in `before_trial` / `infer_relative_search_space` inside `study.ask()`:
the freshly created trial is FAIL (no values) and the exception leaves `optimize`. -/
theorem ask_raise_fails_trial (cfg : Cfg) (nT to : Option Nat) (c : Nat) (ps : List TrialPlan) (i el : Nat)
    (hgo : loopBreaks nT to i el false = false) :
    (optimizeSeq cfg nT to ({ askRaises := some c } :: ps) i el false).trials.map (·.final)
        = [{ state := .fail }] ∧
      (optimizeSeq cfg nT to ({ askRaises := some c } :: ps) i el false).raised = some (.user c) := by
  unfold optimizeSeq
  simp [hgo, runPlan]

example : (optimizeSeq ⟨1, fun _ => false⟩ (some 1) none [{ askRaises := some 2 }] 0 0 false).trials.map
    (·.final.state) = [.fail] := by decide

/-- The loop stops at the first exception: only the last started trial can have raised. -/
theorem optimizeSeq_raise_is_last (cfg : Cfg) (nT to : Option Nat) (plans : List TrialPlan) (i el : Nat)
    (stop : Bool) (k : Nat) (ro : RunOut)
    (hk : (optimizeSeq cfg nT to plans i el stop).trials[k]? = some ro)
    (hlast : k + 1 < (optimizeSeq cfg nT to plans i el stop).trials.length) : ro.raised = none := by
  induction plans generalizing i el stop k with
  | nil => simp [optimizeSeq] at hlast
  | cons p ps ih =>
    unfold optimizeSeq at hk hlast
    by_cases hlb : loopBreaks nT to i el stop = true
    · rw [if_pos hlb] at hlast; simp at hlast
    · rw [if_neg hlb] at hk hlast
      cases hr : (runPlan cfg p).raised with
      | some e => simp only [hr] at hlast; simp at hlast
      | none =>
        rcases hc : runCallbacks i 0 p.cbs with ⟨log, cbStop, r⟩
        cases r with
        | some c => simp only [hr, hc] at hlast; simp at hlast
        | none =>
          simp only [hr, hc, List.length_cons] at hk hlast
          cases k with
          | zero => simp at hk; rw [← hk]; exact hr
          | succ k =>
            simp only [List.getElem?_cons_succ] at hk
            exact ih _ _ _ k hk (by omega)

/-- **optimizeSeq_runs_exactly_n** — `optimize(n_trials = n)` with no timeout, when none of the
first `n` trials asks to stop and none lets an exception propagate (objective exceptions are caught or
absent, callbacks do not raise): exactly `n` trials run (the first `n` plans, each through
`_run_trial`), every callback runs once per trial in order, and the loop returns normally.  `n` and
the plan list are unbounded. -/
theorem optimizeSeq_runs_exactly_n (cfg : Cfg) (n : Nat) (plans : List TrialPlan) (i el : Nat)
    (hlen : n ≤ i + plans.length)
    (hq : ∀ p ∈ plans.take (n - i), p.stopInObj = false ∧ (runPlan cfg p).raised = none ∧
            ∀ a ∈ p.cbs, a.stop = false ∧ a.raises = none) :
    (optimizeSeq cfg (some n) none plans i el false).trials =
        (plans.take (n - i)).map (fun p => runPlan cfg p) ∧
    (optimizeSeq cfg (some n) none plans i el false).trials.length = n - i ∧
    (optimizeSeq cfg (some n) none plans i el false).raised = none ∧
    (optimizeSeq cfg (some n) none plans i el false).exhausted = false ∧
    (optimizeSeq cfg (some n) none plans i el false).stopFlag = false := by
  induction plans generalizing i el with
  | nil =>
    have : n ≤ i := by simpa using hlen
    simp [optimizeSeq, loopBreaks, this]
  | cons p ps ih =>
    unfold optimizeSeq
    by_cases hni : n ≤ i
    · simp [loopBreaks, hni]
    · have hlb : loopBreaks (some n) none i el false = false := by simp [loopBreaks, hni]
      rw [hlb]
      simp only [Bool.false_eq_true, if_false]
      have htake : (p :: ps).take (n - i) = p :: ps.take (n - (i + 1)) := by
        rw [show n - i = (n - (i + 1)) + 1 by omega, List.take_succ_cons]
      rw [htake] at hq
      obtain ⟨hs, hr, hcb⟩ := hq p List.mem_cons_self
      rw [hr]
      simp only []
      have hraise := (runCallbacks_raise i 0 p.cbs).2 (fun a ha => (hcb a ha).2)
      have hstop := runCallbacks_stop i 0 p.cbs (fun a ha => (hcb a ha).1)
      rcases hc : runCallbacks i 0 p.cbs with ⟨log, cbStop, r⟩
      rw [hc] at hraise hstop
      simp only [] at hraise hstop
      subst hraise; subst hstop
      simp only [hs, Bool.or_false]
      obtain ⟨h1, h2, h3, h4, h5⟩ := ih (i + 1) (el + p.sleep) (by simp at hlen; omega)
        (fun q hq' => hq q (List.mem_cons_of_mem _ hq'))
      rw [htake]
      refine ⟨by simp [h1], by simp [h2]; omega, h3, h4, h5⟩

example : (optimizeSeq ⟨1, fun _ => true⟩ (some 3) none
    (List.replicate 5 { script := { out := .exc (.user 1) } }) 0 0 false).trials.length = 3 := by decide

/-- `optimize(n_trials = n)` never starts more than `n` trials, whatever happens. -/
theorem optimizeSeq_at_most_n (cfg : Cfg) (n : Nat) (to : Option Nat) (plans : List TrialPlan) (i el : Nat)
    (stop : Bool) : i + (optimizeSeq cfg (some n) to plans i el stop).trials.length ≤ max n i := by
  induction plans generalizing i el stop with
  | nil => simp [optimizeSeq]; omega
  | cons p ps ih =>
    unfold optimizeSeq
    split
    · simp; omega
    · rename_i hlb
      have hni : i < n := by
        simp only [loopBreaks, Bool.or_eq_true, decide_eq_true_eq, not_or] at hlb
        omega
      simp only []
      cases (runPlan cfg p).raised with
      | some e => simp; omega
      | none =>
        simp only []
        rcases runCallbacks i 0 p.cbs with ⟨log, cbStop, r⟩
        cases r with
        | some c => simp; omega
        | none =>
          have := ih (i + 1) (el + p.sleep) (stop || p.stopInObj || cbStop)
          simp only [List.length_cons]
          omega

/-- Once `study.stop()` has been called (by the objective or a callback of a trial), no further
trial is started. -/
theorem stop_ends_loop (cfg : Cfg) (nT to : Option Nat) (plans : List TrialPlan) (i el : Nat) :
    (optimizeSeq cfg nT to plans i el true).trials = [] ∧
    (optimizeSeq cfg nT to plans i el true).raised = none ∧
    (optimizeSeq cfg nT to plans i el true).exhausted = false := by
  cases plans with
  | nil => simp [optimizeSeq, loopBreaks]
  | cons p ps => simp [optimizeSeq, loopBreaks]

/-! ## 4. `_optimize` with `n_jobs > 1`: the thread pool

An *execution* is any event list accepted by `Pool.run` from `Pool.init` (all interleavings of the
main thread with the workers, any number of trials, any completion order, any subset returned by
`wait(FIRST_COMPLETED)`).  The harness validates traces recorded from real multi-threaded runs
against the same `Pool.step`. -/

open Pool in
/-- **optimizePool_every_future_observed** — in every execution, when `_optimize(n_jobs = k)` returns
or raises: every future it submitted has finished (so, by `runTrial_terminal`, the trial that future
ran is terminal); if it *returns*, every future returned normally — no exception raised in a worker
is ever swallowed; if it raises class `c`, some future raised `c`. -/
theorem optimizePool_every_future_observed (k : Nat) (n : Option Nat) (es : List Event) (s : State)
    (r : Res) (h : run k n init es = some s) (hx : s.phase = .exited r) :
    (∀ i, i < s.submitted → (s.ended i).isSome = true) ∧
    (r = .ok → ∀ i, i < s.submitted → s.ended i = some .ok) ∧
    (∀ c, r = .raised c → ∃ i, i < s.submitted ∧ s.ended i = some (.raised c)) :=
  (inv_run k n init s es (inv_init k n) h).exited r hx

open Pool in
/-- Contrapositive reading: an exception raised by any submitted future makes `optimize` raise. -/
theorem optimizePool_exception_propagates (k : Nat) (n : Option Nat) (es : List Event) (s : State)
    (r : Res) (h : run k n init es = some s) (hx : s.phase = .exited r)
    (i c : Nat) (hi : i < s.submitted) (hr : s.ended i = some (.raised c)) : ∃ c', r = .raised c' := by
  cases r with
  | raised c' => exact ⟨c', rfl⟩
  | ok =>
    have := (optimizePool_every_future_observed k n es s .ok h hx).2.1 rfl i hi
    rw [hr] at this
    cases this

open Pool in
example : ∃ s, run 2 (some 2) init
    [.submit, .submit, .begin 0, .begin 1, .finish 1 (.raised 5), .finish 0 .ok, .waitAll, .exit (.raised 5)] = some s ∧
    s.phase = .exited (.raised 5) := ⟨_, rfl, rfl⟩

open Pool in
/-- the defect repaired as F2 (returning without the final drain) is not an execution of the model -/
example : run 2 (some 2) init
    [.submit, .submit, .begin 0, .begin 1, .finish 1 (.raised 5), .finish 0 .ok, .exit .ok] = none := rfl

open Pool in
/-- At most `n_jobs` trials are in flight at any moment of any execution: the unfinished futures
are all in the main thread's `futures` set, which never holds more than `k`. -/
theorem optimizePool_at_most_k_in_flight (k : Nat) (n : Option Nat) (es : List Event) (s : State)
    (h : run k n init es = some s) (l : List Nat) (hnd : l.Nodup)
    (hl : ∀ i ∈ l, i < s.submitted ∧ s.ended i = none) : l.length ≤ k := by
  have hi := inv_run k n init s es (inv_init k n) h
  have hsub : l ⊆ s.futures := fun i hil => hi.unfinished_tracked i (hl i hil).1 (hl i hil).2
  exact Nat.le_trans (List.Nodup.length_le_of_subset hnd hsub) hi.size

open Pool in
/-- Never more than `n_trials` futures are submitted; and if `optimize` returns without `study.stop()`
ever having been called and without the main thread having seen the `timeout` elapse (stop-free,
timeout-free return), exactly `n_trials` were. -/
theorem optimizePool_submits_exactly_n (k : Nat) (m : Nat) (es : List Event) (s : State)
    (h : run k (some m) init es = some s) :
    s.submitted ≤ m ∧
      (s.phase = .exited .ok → s.stop = false → s.timedOut = false → s.submitted = m) := by
  have hi := inv_run k (some m) init s es (inv_init k (some m)) h
  refine ⟨hi.quota m rfl, ?_⟩
  intro hx hs ht
  rcases hi.drained_why (Or.inr hx) with h1 | h1 | h1
  · rw [hs] at h1; cases h1
  · simp only [quotaReached, decide_eq_true_eq] at h1
    exact Nat.le_antisymm (hi.quota m rfl) h1
  · rw [ht] at h1; cases h1

open Pool in
/-- the `timeout` break: the submit loop ends after one of two trials, nothing stopped it, `optimize`
returns — and the count conjunct above does not (and must not) apply -/
example : ∃ s, run 2 (some 2) init [.submit, .begin 0, .finish 0 .ok, .timeout, .waitAll, .exit .ok] = some s ∧
    s.phase = .exited .ok ∧ s.stop = false ∧ s.timedOut = true ∧ s.submitted = 1 := ⟨_, rfl, rfl, rfl, rfl, rfl⟩

open Pool in
/-- without a clock reading that says so, the loop cannot be left early -/
example : run 2 (some 2) init [.submit, .begin 0, .finish 0 .ok, .waitAll] = none := rfl

/-! ## 5. Tie to the source text

The definitions regenerated from optuna/study/_tell.py, _optimize.py and study.py by `verif/translators/tell_gen.py`
(integer / boolean pieces and pinned shape strings) are compared with the hand model in `Props/C02Shapes.lean`
(`gen_*`, same namespace); the function bodies regenerated as a statement IR by `verif/translators/ttell.py` are
proved equal to the hand model, function by function and for all inputs, in `Props/C02Gen.lean`. -/

end OptunaVerif.C02
