import OptunaVerif.Generated.TellMethods
import OptunaVerif.Lemmas.TellIR
import OptunaVerif.Props.C02
/-!
# C02 (translator tie) — the trial life-cycle functions *as written in the source today* are the hand model

`Generated/TellMethods.lean` is regenerated on every run by `verif/translators/ttell.py` from
`optuna/study/_tell.py` (`_check_state_and_values`, `_check_values_are_feasible`, `_tell_with_warning`),
`optuna/study/_optimize.py` (`_run_trial`, `_optimize_sequential`) and `optuna/study/study.py` (the tail of
`Study.ask`; `_pop_waiting_trial_id` is used by `Props/C04Gen.lean`), as data of the statement language of
`Model/TellIR.lean`.

Proved here, for **all** inputs (no bound, no sampling):
* per function, the interpreter of the generated body equals the hand model (`interp_*`): `Tell.checkStateAndValues`,
  `Tell.checkValuesFeasible`, `Tell.tell` / `studyTell`, the `askRaises` branch of `runPlan`, `runPlan`/`runTrial`/
  `afterTell`, and — one `exec` of the generated loop body per iteration — `optimizeSeq`; the statements of
  `_optimize_sequential` around its loop are the pinned frame (`seq_frame`);
* hence the composition in which every callee's denotation is the interpreter of its own generated body
  (`TellIR.Program.tell / runPlan / optimizeSeq` of `TellMethods.program`) equals the hand model (`gen_*_eq`);
* therefore the headline theorems of `Props/C02.lean` hold of the interpreter of the generated code (`gen_*`).

A source change that alters a guard, the order of two checks, an `except` clause, what sits inside a `try` or a
`finally`, an argument of a call … changes the generated data, and one of the named equalities below no longer
type-checks.
-/
set_option linter.unusedSimpArgs false
set_option linter.unusedVariables false
namespace OptunaVerif.C02Gen
open OptunaVerif OptunaVerif.Tell OptunaVerif.TellIR
open OptunaVerif.Generated

/-! ## `_check_state_and_values` -/

/-- `_check_state_and_values` as written today raises ValueError exactly when the hand model says so. -/
theorem interp_checkStateAndValues (st : Option TState) (b : Bool) :
    interpCsv TellMethods.checkStateAndValues st b = some (Tell.checkStateAndValues st b) := by
  cases st with
  | none => cases b <;> rfl
  | some s => cases s <;> cases b <;> rfl
example : interpCsv TellMethods.checkStateAndValues (some .pruned) false = some true := by decide

/-! ## `_check_values_are_feasible` -/

/-- the body of the `for v in values:` loop of the generated `_check_values_are_feasible`, and what follows the loop -/
def feasLoopBody : Stmt :=
  match TellMethods.checkValuesAreFeasible with
  | .seq (.forIn _ b) _ => b
  | _ => .skip
def feasAfterLoop : Stmt :=
  match TellMethods.checkValuesAreFeasible with
  | .seq (.forIn _ _) r => r
  | _ => .skip

def flowOfScan : Feas → Flow Exn
  | .feasible => .next
  | .infeasible w => .ret (.msg w)
  | .raises c => .raised (.exc (.cast c))

theorem feas_loop (vals : List Elem) (s : FeasSt) :
    (forLoop (exec feasM feasLoopBody none) (feasM.bind .values) vals s).2 = flowOfScan (scan vals) ∧
    (forLoop (exec feasM feasLoopBody none) (feasM.bind .values) vals s).1.nObj = s.nObj ∧
    (forLoop (exec feasM feasLoopBody none) (feasM.bind .values) vals s).1.values = s.values := by
  induction vals generalizing s with
  | nil => exact ⟨rfl, rfl, rfl⟩
  | cons e t ih =>
    cases e with
    | ok x =>
      by_cases hx : x = .nan
      · subst hx
        exact ⟨rfl, rfl, rfl⟩
      · have step : forLoop (exec feasM feasLoopBody none) (feasM.bind .values) (.ok x :: t) s =
            forLoop (exec feasM feasLoopBody none) (feasM.bind .values) t { s with v := some (.ok x) } := by
          rw [forLoop_cons]
          have : exec feasM feasLoopBody none (feasM.bind .values (.ok x) s) = ({ s with v := some (.ok x) }, .next) := by
            simp [feasLoopBody, TellMethods.checkValuesAreFeasible, block, exec, evalCond, feasM, hx, catches]
          rw [this]
        rw [step]
        have := ih { s with v := some (.ok x) }
        simp only [scan, hx, if_false]
        exact this
    | bad c =>
      cases c <;> exact ⟨rfl, rfl, rfl⟩

theorem interp_checkValuesAreFeasible (nObj : Nat) (vals : List Elem) :
    interpFeas TellMethods.checkValuesAreFeasible nObj vals = some (checkValuesFeasible nObj vals) := by
  have hdef : TellMethods.checkValuesAreFeasible = .seq (.forIn .values feasLoopBody) feasAfterLoop := rfl
  obtain ⟨h1, h2, h3⟩ := feas_loop vals { nObj := nObj, values := vals }
  unfold interpFeas checkValuesFeasible
  rw [hdef, exec_seq, exec_forIn]
  have hit : feasM.items .values ({ nObj := nObj, values := vals } : FeasSt) =
      (({ nObj := nObj, values := vals } : FeasSt), .ok vals) := rfl
  rw [hit]
  simp only []
  generalize forLoop (exec feasM feasLoopBody none) (feasM.bind .values) vals _ = r at h1 h2 h3
  obtain ⟨s', fl⟩ := r
  simp only at h1 h2 h3
  subst h1
  cases hs : scan vals with
  | feasible =>
    by_cases hl : vals.length = nObj
    · have : (nObj != vals.length) = false := by simp; omega
      simp [flowOfScan, feasAfterLoop, TellMethods.checkValuesAreFeasible, block, exec, evalCond, feasM, h2, h3, hl, finishFeas, this]
    · have : (nObj != vals.length) = true := by simp; omega
      simp [flowOfScan, feasAfterLoop, TellMethods.checkValuesAreFeasible, block, exec, evalCond, feasM, h2, h3, hl, finishFeas, this]
  | infeasible w => simp [flowOfScan, finishFeas]
  | raises c => simp [flowOfScan, finishFeas]

/-! ## `_tell_with_warning` -/

def handP (nObj : Nat) (env : Env) (lk : Lookup) (a : TellArgs) : TellParams :=
  { nObj := nObj, env := env, lk := lk, args := a,
    csvD := fun s b => some (Tell.checkStateAndValues s b),
    feasD := fun n l => some (checkValuesFeasible n l) }

/-- what the caller of `_tell_with_warning` sees, by the hand model -/
def tellSpec (nObj : Nat) (env : Env) (lk : Lookup) (r : Rec) (a : TellArgs) : Rec × TellOut :=
  match lk with
  | .found => tell nObj env r a
  | .unknownNumber => (r, .raised .valueError)
  | .badType => (r, .raised .typeError)

macro "tell_simp" "[" ts:Lean.Parser.Tactic.simpLemma,* "]" : tactic =>
  `(tactic| simp [interpTell, TellMethods.tellWithWarning, block, exec, evalCond, tellM, handP, finishTell, tellSpec, tell, decideState,
    postProcess, Tell.checkStateAndValues, PyVal.elems?, TState.isFinished, finOf, Rec.store, FinState.toState, firstBad,
    lastReport, floats, tstate_beq, tstate_bne, $ts,*])

theorem tell_not_running (nObj : Nat) (env : Env) (r : Rec) (a : TellArgs) (h : r.state ≠ .running) :
    interpTell TellMethods.tellWithWarning (handP nObj env .found a) r = some (tell nObj env r a) := by
  obtain ⟨v, st, skip, sup⟩ := a
  cases hr : r.state <;> cases skip <;> first | exact absurd hr h | tell_simp [hr]


theorem tell_running_bad_state (nObj : Nat) (env : Env) (r : Rec) (v : PyVal) (st : TState) (skip sup : Bool)
    (hr : r.state = .running) (hst : st = .running ∨ st = .waiting) :
    interpTell TellMethods.tellWithWarning (handP nObj env .found ⟨v, some st, skip, sup⟩) r = some (tell nObj env r ⟨v, some st, skip, sup⟩) := by
  rcases hst with rfl | rfl <;> cases v <;> tell_simp [hr]

theorem tell_running_fail (nObj : Nat) (env : Env) (r : Rec) (v : PyVal) (skip sup : Bool) (hr : r.state = .running) :
    interpTell TellMethods.tellWithWarning (handP nObj env .found ⟨v, some .fail, skip, sup⟩) r = some (tell nObj env r ⟨v, some .fail, skip, sup⟩) := by
  obtain ⟨after, interfere⟩ := env
  cases v <;> cases interfere <;> cases after <;> tell_simp [hr]

/-- `state=COMPLETE` with values present (`vs` = the Sequence itself or `[value]`) -/
theorem tell_running_complete_vals (nObj : Nat) (env : Env) (r : Rec) (v : PyVal) (vs : List Elem) (skip sup : Bool)
    (hr : r.state = .running) (hv : v = .seq vs ∨ ∃ e, v = .scalar e ∧ vs = [e]) :
    interpTell TellMethods.tellWithWarning (handP nObj env .found ⟨v, some .complete, skip, sup⟩) r =
      some (tell nObj env r ⟨v, some .complete, skip, sup⟩) := by
  obtain ⟨after, interfere⟩ := env
  cases hf : checkValuesFeasible nObj vs with
  | feasible =>
    have hfb := firstBad_of_feasible nObj vs hf
    rcases hv with rfl | ⟨e, rfl, rfl⟩ <;> cases interfere <;> cases after <;> tell_simp [hr, hf, hfb]
  | infeasible w => rcases hv with rfl | ⟨e, rfl, rfl⟩ <;> tell_simp [hr, hf]
  | raises c => rcases hv with rfl | ⟨e, rfl, rfl⟩ <;> tell_simp [hr, hf]

theorem tell_running_complete (nObj : Nat) (env : Env) (r : Rec) (v : PyVal) (skip sup : Bool) (hr : r.state = .running) :
    interpTell TellMethods.tellWithWarning (handP nObj env .found ⟨v, some .complete, skip, sup⟩) r =
      some (tell nObj env r ⟨v, some .complete, skip, sup⟩) := by
  cases v with
  | none => tell_simp [hr]
  | scalar e => exact tell_running_complete_vals nObj env r _ [e] skip sup hr (Or.inr ⟨e, rfl, rfl⟩)
  | seq l => exact tell_running_complete_vals nObj env r _ l skip sup hr (Or.inl rfl)

theorem tell_running_pruned (nObj : Nat) (env : Env) (r : Rec) (v : PyVal) (skip sup : Bool) (hr : r.state = .running) :
    interpTell TellMethods.tellWithWarning (handP nObj env .found ⟨v, some .pruned, skip, sup⟩) r =
      some (tell nObj env r ⟨v, some .pruned, skip, sup⟩) := by
  obtain ⟨after, interfere⟩ := env
  cases v with
  | scalar e => tell_simp [hr]
  | seq l => tell_simp [hr]
  | none =>
    cases hl : lastStep r.inter with
    | none => cases interfere <;> cases after <;> tell_simp [hr, hl]
    | some k =>
      obtain ⟨x, hx⟩ := interGet?_of_lastStep r.inter k hl
      cases hf : checkValuesFeasible nObj [.ok x] with
      | feasible => cases interfere <;> cases after <;> tell_simp [hr, hl, hx, hf]
      | infeasible w => cases interfere <;> cases after <;> tell_simp [hr, hl, hx, hf]
      | raises c => exact absurd hf (check_not_raises _ _ _)

/-- no `state` argument, values present -/
theorem tell_running_none_vals (nObj : Nat) (env : Env) (r : Rec) (v : PyVal) (vs : List Elem) (skip sup : Bool)
    (hr : r.state = .running) (hv : v = .seq vs ∨ ∃ e, v = .scalar e ∧ vs = [e]) :
    interpTell TellMethods.tellWithWarning (handP nObj env .found ⟨v, none, skip, sup⟩) r =
      some (tell nObj env r ⟨v, none, skip, sup⟩) := by
  obtain ⟨after, interfere⟩ := env
  cases hf : checkValuesFeasible nObj vs with
  | feasible =>
    have hfb := firstBad_of_feasible nObj vs hf
    rcases hv with rfl | ⟨e, rfl, rfl⟩ <;> cases interfere <;> cases after <;> tell_simp [hr, hf, hfb]
  | infeasible w =>
    rcases hv with rfl | ⟨e, rfl, rfl⟩ <;> cases sup <;> cases interfere <;> cases after <;> tell_simp [hr, hf]
  | raises c => rcases hv with rfl | ⟨e, rfl, rfl⟩ <;> tell_simp [hr, hf]

theorem tell_running_none (nObj : Nat) (env : Env) (r : Rec) (v : PyVal) (skip sup : Bool) (hr : r.state = .running) :
    interpTell TellMethods.tellWithWarning (handP nObj env .found ⟨v, none, skip, sup⟩) r =
      some (tell nObj env r ⟨v, none, skip, sup⟩) := by
  cases v with
  | none =>
    obtain ⟨after, interfere⟩ := env
    cases sup <;> cases interfere <;> cases after <;> tell_simp [hr]
  | scalar e => exact tell_running_none_vals nObj env r _ [e] skip sup hr (Or.inr ⟨e, rfl, rfl⟩)
  | seq l => exact tell_running_none_vals nObj env r _ l skip sup hr (Or.inl rfl)

/-- **interp_tellWithWarning** -/
theorem interp_tellWithWarning (nObj : Nat) (env : Env) (lk : Lookup) (r : Rec) (a : TellArgs) :
    interpTell TellMethods.tellWithWarning (handP nObj env lk a) r = some (tellSpec nObj env lk r a) := by
  cases lk with
  | unknownNumber => tell_simp []
  | badType => tell_simp []
  | found =>
    show _ = some (tell nObj env r a)
    by_cases hr : r.state = .running
    · obtain ⟨v, st, skip, sup⟩ := a
      cases st with
      | none => exact tell_running_none nObj env r v skip sup hr
      | some st =>
        cases st with
        | running => exact tell_running_bad_state nObj env r v _ skip sup hr (Or.inl rfl)
        | waiting => exact tell_running_bad_state nObj env r v _ skip sup hr (Or.inr rfl)
        | complete => exact tell_running_complete nObj env r v skip sup hr
        | pruned => exact tell_running_pruned nObj env r v skip sup hr
        | fail => exact tell_running_fail nObj env r v skip sup hr
    · exact tell_not_running nObj env r a hr

/-! ## the tail of `Study.ask`, `_run_trial` -/

/-- what `study.ask()` does for the trial, by the hand model (`runPlan`) -/
def askSpec (askRaises : Option Nat) : Rec × Option Exc :=
  match askRaises with
  | some c => ({ state := .fail }, some (.user c))
  | none => ({}, none)

/-- **interp_ask**: the tail of `Study.ask` as written today — pop or create, then `Trial(...)` and the fixed
suggests inside a `try` whose handler for `(Exception, KeyboardInterrupt)` fails the trial and re-raises — hands out a
RUNNING trial, or leaves it FAIL and raises (repaired defect F21), whichever of pop / create supplied the trial. -/
theorem interp_ask (popFound : Bool) (askRaises : Option Nat) :
    interpAsk TellMethods.ask { popFound := popFound, askRaises := askRaises } = some (askSpec askRaises) := by
  cases popFound <;> cases askRaises <;> rfl
example : interpAsk TellMethods.ask { popFound := true, askRaises := some 3 } = some ({ state := .fail }, some (.user 3)) := by
  decide

def handRunP (cfg : Cfg) (hb : Bool) (p : TrialPlan) : RunParams :=
  { cfg := cfg, hb := hb, script := p.script, askD := some (askSpec p.askRaises),
    tellD := fun r a => some (tell cfg.nObj p.script.env r a) }

/-- without `skip_if_finished` a tell never takes the short cut -/
theorem tell_noskip (nObj : Nat) (env : Env) (r : Rec) (a : TellArgs) (st : TState) (vals : Option (List XVal))
    (h : (tell nObj env r a).2 = .skipped st vals) : a.skip = true := by
  unfold tell at h
  split at h
  · rename_i hc; simp at hc; exact hc.2
  · split at h
    · cases h
    · simp only [] at h
      split at h
      · cases h
      · split at h
        · cases h
        · unfold postProcess at h
          split at h
          · cases h
          · simp only [] at h
            split at h <;> cases h

/-- a tell with `state=PRUNED` that returns normally stored PRUNED -/
theorem tell_pruned_ok (nObj : Nat) (env : Env) (r : Rec) (v : PyVal) (skip sup : Bool) (st : TState)
    (vals : Option (List XVal)) (wk : Bool) (wd : Option Why)
    (h : (tell nObj env r ⟨v, some .pruned, skip, sup⟩).2 = .ok st vals wk wd) : st = .pruned := by
  by_cases hr : r.state = .running
  · rw [C02.tell_of_running _ _ _ _ hr] at h
    simp only [] at h
    split at h
    · cases h
    · rw [C02.decideState_pruned] at h
      simp only [] at h
      unfold postProcess at h
      split at h
      · cases h
      · simp only [] at h
        split at h
        · cases h
        · cases h
        · simp only [TellOut.ok.injEq] at h
          rw [← h.1]; rfl
  · unfold tell at h
    split at h
    · cases h
    · rename_i hne
      have : (r.state != .running) = true := by simp [hr]
      rw [if_pos this] at h
      cases h


/-- `_run_trial` = its heartbeat prologue, then the rest -/
def runFirst : Stmt := match TellMethods.runTrial with | .seq a _ => a | _ => .skip
def runRest : Stmt := match TellMethods.runTrial with | .seq _ b => b | _ => .skip

theorem runTrial_split : TellMethods.runTrial = .seq runFirst runRest := rfl

theorem run_first (P : RunParams) (s : RunSt) : exec (runM P) runFirst none s = (s, .next) := by
  cases h : P.hb <;> simp [runFirst, TellMethods.runTrial, block, exec, evalCond, runM, h]

macro "run_simp" "[" ts:Lean.Parser.Tactic.simpLemma,* "]" : tactic =>
  `(tactic| simp [runRest, TellMethods.runTrial, block, exec, evalCond, runM, finishRun, catches_exception_exc, catches_pruned_exc, catches_exception_kbd_exc, catches_pruned_pruned, afterTell, finallyAsserts, Script.hasFuncErr, tstate_beq, tstate_bne, $ts,*])

/-- parameters of `_run_trial` once `ask` has handed out a fresh trial and with `_tell_with_warning` answering `(r2, o)` -/
def runP (cfg : Cfg) (hb : Bool) (s : Script) (tellD : Rec → TellArgs → Option (Rec × TellOut)) : RunParams :=
  { cfg := cfg, hb := hb, script := s, askD := some ({}, none), tellD := tellD }

section
variable (cfg : Cfg) (hb : Bool) (s : Script) (tellD : Rec → TellArgs → Option (Rec × TellOut)) (r2 : Rec)

theorem run_ret_ok (v : PyVal) (hout : s.out = .ret v) (st : TState) (vals : Option (List XVal)) (wk : Bool) (wd : Option Why)
    (htd : tellD s.initRec ⟨v, none, false, true⟩ = some (r2, .ok st vals wk wd)) :
    finishRun (exec (runM (runP cfg hb s tellD)) runRest none {}) = some (afterTell cfg s r2 (.ok st vals wk wd)) := by
  cases st <;> cases wk <;> run_simp [runP, hout, htd]

theorem run_ret_raised (v : PyVal) (hout : s.out = .ret v) (e : Exc)
    (htd : tellD s.initRec ⟨v, none, false, true⟩ = some (r2, .raised e)) :
    finishRun (exec (runM (runP cfg hb s tellD)) runRest none {}) = some (afterTell cfg s r2 (.raised e)) := by
  cases hb' : e.isBase <;> cases hs : r2.state <;> run_simp [runP, hout, hs, htd, hb']

theorem run_pruned_ok (hout : s.out = .pruned) (vals : Option (List XVal)) (wk : Bool) (wd : Option Why)
    (htd : tellD s.initRec ⟨.none, some .pruned, false, true⟩ = some (r2, .ok .pruned vals wk wd)) :
    finishRun (exec (runM (runP cfg hb s tellD)) runRest none {}) = some (afterTell cfg s r2 (.ok .pruned vals wk wd)) := by
  cases wk <;> run_simp [runP, hout, htd]

theorem run_pruned_raised (hout : s.out = .pruned) (e : Exc)
    (htd : tellD s.initRec ⟨.none, some .pruned, false, true⟩ = some (r2, .raised e)) :
    finishRun (exec (runM (runP cfg hb s tellD)) runRest none {}) = some (afterTell cfg s r2 (.raised e)) := by
  cases hb' : e.isBase <;> cases hs : r2.state <;> run_simp [runP, hout, hs, htd, hb']

theorem run_exc_ok (x : Exc) (hout : s.out = .exc x) (st : TState) (vals : Option (List XVal)) (wk : Bool) (wd : Option Why)
    (htd : tellD s.initRec ⟨.none, some .fail, false, true⟩ = some (r2, .ok st vals wk wd)) :
    finishRun (exec (runM (runP cfg hb s tellD)) runRest none {}) = some (afterTell cfg s r2 (.ok st vals wk wd)) := by
  cases hc : cfg.catches x <;> cases st <;> cases wk <;> run_simp [runP, hout, htd, hc]

theorem run_exc_raised (x : Exc) (hout : s.out = .exc x) (e : Exc)
    (htd : tellD s.initRec ⟨.none, some .fail, false, true⟩ = some (r2, .raised e)) :
    finishRun (exec (runM (runP cfg hb s tellD)) runRest none {}) = some (afterTell cfg s r2 (.raised e)) := by
  cases hb' : e.isBase <;> cases hs : r2.state <;> run_simp [runP, hout, hs, htd, hb']
end

/-- **interp_runTrial**: `_run_trial` as written today (over `ask` and `_tell_with_warning` as the hand model has them)
is `runPlan` -/
theorem interp_runTrial (cfg : Cfg) (hb : Bool) (p : TrialPlan) :
    interpRun TellMethods.runTrial (handRunP cfg hb p) = some (runPlan cfg p) := by
  obtain ⟨ar, s, sl, sio, cbs⟩ := p
  unfold interpRun
  rw [runTrial_split, exec_seq, run_first]
  simp only []
  cases ar with
  | some c => run_simp [runPlan, handRunP, askSpec]
  | none =>
    have hP : handRunP cfg hb ⟨none, s, sl, sio, cbs⟩ = runP cfg hb s (fun r a => some (tell cfg.nObj s.env r a)) := rfl
    rw [hP]
    unfold runPlan Tell.runTrial
    simp only []
    have hns := tell_noskip cfg.nObj s.env s.initRec s.tellArgs
    cases hout : s.out with
    | ret v =>
      have hta : s.tellArgs = ⟨v, none, false, true⟩ := by unfold Script.tellArgs; rw [hout]
      rw [hta] at hns ⊢
      cases ht : tell cfg.nObj s.env s.initRec ⟨v, none, false, true⟩ with
      | mk r2 o =>
        rw [ht] at hns
        cases o with
        | ok st vals wk wd => exact run_ret_ok cfg hb s _ r2 v hout st vals wk wd (by simp [ht])
        | skipped st vals => exact absurd (hns st vals rfl) (by simp)
        | raised e => exact run_ret_raised cfg hb s _ r2 v hout e (by simp [ht])
    | pruned =>
      have hta : s.tellArgs = ⟨.none, some .pruned, false, true⟩ := by unfold Script.tellArgs; rw [hout]
      rw [hta] at hns ⊢
      have hpo := tell_pruned_ok cfg.nObj s.env s.initRec .none false true
      cases ht : tell cfg.nObj s.env s.initRec ⟨.none, some .pruned, false, true⟩ with
      | mk r2 o =>
        rw [ht] at hns hpo
        cases o with
        | ok st vals wk wd =>
          have := hpo st vals wk wd rfl
          subst this
          exact run_pruned_ok cfg hb s _ r2 hout vals wk wd (by simp [ht])
        | skipped st vals => exact absurd (hns st vals rfl) (by simp)
        | raised e => exact run_pruned_raised cfg hb s _ r2 hout e (by simp [ht])
    | exc x =>
      have hta : s.tellArgs = ⟨.none, some .fail, false, true⟩ := by unfold Script.tellArgs; rw [hout]
      rw [hta] at hns ⊢
      cases ht : tell cfg.nObj s.env s.initRec ⟨.none, some .fail, false, true⟩ with
      | mk r2 o =>
        rw [ht] at hns
        cases o with
        | ok st vals wk wd => exact run_exc_ok cfg hb s _ r2 x hout st vals wk wd (by simp [ht])
        | skipped st vals => exact absurd (hns st vals rfl) (by simp)
        | raised e => exact run_exc_raised cfg hb s _ r2 x hout e (by simp [ht])

/-! ## `_optimize_sequential` -/

def handSeqP (cfg : Cfg) (fl : SeqFlags) (nT to : Option Nat) : SeqParams :=
  { nTrials := nT, timeout := to, gc := fl.gc, cbGiven := fl.cbGiven, pbGiven := fl.pbGiven,
    runD := fun p => some (runPlan cfg p) }

abbrev L : Stmt := TellMethods.optimizeSequentialLoop
/-- the three break tests / the rest of the loop body -/
def loopTail : Stmt := L.tl.tl.tl
theorem loop_split : L = .seq L.hd (.seq L.tl.hd (.seq L.tl.tl.hd loopTail)) := rfl
theorem loopTail_split : loopTail = .seq loopTail.hd (.seq loopTail.tl.hd loopTail.tl.tl) := rfl

macro "seq_simp" "[" ts:Lean.Parser.Tactic.simpLemma,* "]" : tactic =>
  `(tactic| simp [L, loopTail, Stmt.hd, Stmt.tl, TellMethods.optimizeSequentialLoop, block, exec, evalCond, seqM, handSeqP,
      loopBreaks, $ts,*] <;> try rfl)

section
variable (cfg : Cfg) (fl : SeqFlags) (nT to : Option Nat)

/-- the state after the break tests when none fires -/
def afterHead (nT to : Option Nat) (s : SeqSt) : SeqSt :=
  { s with iTrial := if nT.isSome then s.iTrial + 1 else s.iTrial, elapsed := if to.isSome then s.clock else s.elapsed }

theorem loop_head_go (rest : Stmt) (s : SeqSt) (hit : nT.isSome = true → s.iTrial = s.idx)
    (h : loopBreaks nT to s.idx s.clock s.stop = false) :
    exec (seqM (handSeqP cfg fl nT to)) (.seq L.hd (.seq L.tl.hd (.seq L.tl.tl.hd rest))) none s =
      exec (seqM (handSeqP cfg fl nT to)) rest none (afterHead nT to s) := by
  obtain ⟨plan, idx, iTrial, clock, stop, elapsed, started, frozen, cb, cbLog, exhausted⟩ := s
  simp only [] at hit h
  cases stop with
  | true => simp [loopBreaks] at h
  | false =>
    cases nT with
    | none =>
      cases to with
      | none => seq_simp [afterHead]
      | some t =>
        have ht : ¬ t ≤ clock := by simpa [loopBreaks] using h
        seq_simp [afterHead, ht]
    | some n =>
      have hi := hit rfl
      subst hi
      have hn : ¬ n ≤ iTrial := by intro hle; simp [loopBreaks, hle] at h
      cases to with
      | none => seq_simp [afterHead, hn]
      | some t =>
        have ht : ¬ t ≤ clock := by intro hle; simp [loopBreaks, hle] at h
        seq_simp [afterHead, hn, ht]

theorem loop_head_brk (rest : Stmt) (s : SeqSt) (hit : nT.isSome = true → s.iTrial = s.idx)
    (h : loopBreaks nT to s.idx s.clock s.stop = true) :
    (exec (seqM (handSeqP cfg fl nT to)) (.seq L.hd (.seq L.tl.hd (.seq L.tl.tl.hd rest))) none s).2 = .brk ∧
    (exec (seqM (handSeqP cfg fl nT to)) (.seq L.hd (.seq L.tl.hd (.seq L.tl.tl.hd rest))) none s).1.stop = s.stop := by
  obtain ⟨plan, idx, iTrial, clock, stop, elapsed, started, frozen, cb, cbLog, exhausted⟩ := s
  simp only [] at hit h
  cases stop with
  | true => constructor <;> seq_simp []
  | false =>
    cases nT with
    | none =>
      cases to with
      | none => simp [loopBreaks] at h
      | some t =>
        have ht : t ≤ clock := by simpa [loopBreaks] using h
        constructor <;> seq_simp [ht]
    | some n =>
      have hi := hit rfl
      subst hi
      by_cases hn : n ≤ iTrial
      · constructor <;> seq_simp [hn]
      · cases to with
        | none => simp [loopBreaks, hn] at h
        | some t =>
          have ht : t ≤ clock := by simpa [loopBreaks, hn] using h
          constructor <;> seq_simp [hn, ht]
end

section
variable (cfg : Cfg) (fl : SeqFlags) (nT to : Option Nat)

/-- no plan left: `_run_trial` cannot be modelled; the loop would have gone on -/
theorem tail_exhausted (s : SeqSt) (hp : s.plan = none) :
    (exec (seqM (handSeqP cfg fl nT to)) loopTail none s).2 = .raised .unrep ∧
    (exec (seqM (handSeqP cfg fl nT to)) loopTail none s).1.exhausted = true ∧
    (exec (seqM (handSeqP cfg fl nT to)) loopTail none s).1.stop = s.stop := by
  obtain ⟨plan, idx, iTrial, clock, stop, elapsed, started, frozen, cb, cbLog, exhausted⟩ := s
  simp only [] at hp
  subst hp
  cases hg : fl.gc <;> refine ⟨?_, ?_, ?_⟩ <;> seq_simp [hg]

/-- the trial's exception leaves `_run_trial`: it leaves the loop (after the `finally:`), no callback runs -/
theorem tail_raised (s : SeqSt) (p : TrialPlan) (e : Exc) (hp : s.plan = some p) (hr : (runPlan cfg p).raised = some e) :
    (exec (seqM (handSeqP cfg fl nT to)) loopTail none s).2 = .raised (.exc e) ∧
    (exec (seqM (handSeqP cfg fl nT to)) loopTail none s).1.started = some (runPlan cfg p) ∧
    (exec (seqM (handSeqP cfg fl nT to)) loopTail none s).1.cbLog = s.cbLog ∧
    (exec (seqM (handSeqP cfg fl nT to)) loopTail none s).1.stop = (s.stop || p.stopInObj) := by
  obtain ⟨plan, idx, iTrial, clock, stop, elapsed, started, frozen, cb, cbLog, exhausted⟩ := s
  simp only [] at hp
  subst hp
  cases hg : fl.gc <;> refine ⟨?_, ?_, ?_, ?_⟩ <;> seq_simp [hg, hr]

/-- state after a `_run_trial` that returned -/
def afterRun (cfg : Cfg) (p : TrialPlan) (s : SeqSt) : SeqSt :=
  { s with started := some (runPlan cfg p), stop := s.stop || p.stopInObj, clock := s.clock + p.sleep, frozen := true }

theorem tail_run (s : SeqSt) (p : TrialPlan) (hp : s.plan = some p) (hr : (runPlan cfg p).raised = none) :
    exec (seqM (handSeqP cfg fl nT to)) loopTail.hd none s = (afterRun cfg p s, .next) := by
  obtain ⟨plan, idx, iTrial, clock, stop, elapsed, started, frozen, cb, cbLog, exhausted⟩ := s
  simp only [] at hp
  subst hp
  cases hg : fl.gc <;> seq_simp [hg, hr, afterRun]

theorem tail_callbacks (s : SeqSt) (p : TrialPlan) (hp : s.plan = some p) (hf : s.frozen = true) :
    exec (seqM (handSeqP cfg fl nT to)) loopTail.tl.hd none s = cbAll 0 (stripCbs fl.cbGiven p).cbs s := by
  have hdef : loopTail.tl.hd = .ite (.not (.prim .callbacksIsNone)) (.forIn .callbacks (.act .callCallback)) .skip := rfl
  rw [hdef, exec_ite]
  cases hg : fl.cbGiven with
  | false =>
    have hc : evalCond (seqM (handSeqP cfg fl nT to)) (.not (.prim .callbacksIsNone)) none s = (s, .ok false) := by
      simp [evalCond, seqM, handSeqP, hg]
    rw [hc]
    simp [exec, stripCbs, cbAll]
  | true =>
    have hc : evalCond (seqM (handSeqP cfg fl nT to)) (.not (.prim .callbacksIsNone)) none s = (s, .ok true) := by
      simp [evalCond, seqM, handSeqP, hg]
    rw [hc]
    simp only []
    rw [exec_forIn]
    have hi : (seqM (handSeqP cfg fl nT to)).items .callbacks s = (s, .ok (enumFrom 0 p.cbs)) := by
      simp [seqM, handSeqP, hp, hg]
    rw [hi]
    simp only [stripCbs, if_true]
    refine forLoop_callbacks _ _ ?_ 0 p.cbs s hf
    intro x s' hs'
    obtain ⟨j, a⟩ := x
    cases hr : a.raises <;> simp [exec, seqM, cbStep, hs', hr]

theorem tail_progress (s : SeqSt) :
    (exec (seqM (handSeqP cfg fl nT to)) loopTail.tl.tl none s).2 = .next ∧
    (exec (seqM (handSeqP cfg fl nT to)) loopTail.tl.tl none s).1.started = s.started ∧
    (exec (seqM (handSeqP cfg fl nT to)) loopTail.tl.tl none s).1.cbLog = s.cbLog ∧
    (exec (seqM (handSeqP cfg fl nT to)) loopTail.tl.tl none s).1.stop = s.stop ∧
    (exec (seqM (handSeqP cfg fl nT to)) loopTail.tl.tl none s).1.iTrial = s.iTrial ∧
    (exec (seqM (handSeqP cfg fl nT to)) loopTail.tl.tl none s).1.clock = s.clock := by
  cases hg : fl.pbGiven <;> refine ⟨?_, ?_, ?_, ?_, ?_, ?_⟩ <;> seq_simp [hg]
end

theorem stripCbs_runPlan (cfg : Cfg) (g : Bool) (p : TrialPlan) : runPlan cfg (stripCbs g p) = runPlan cfg p := by
  cases g <;> rfl
theorem stripCbs_sleep (g : Bool) (p : TrialPlan) : (stripCbs g p).sleep = p.sleep := by cases g <;> rfl
theorem stripCbs_stopInObj (g : Bool) (p : TrialPlan) : (stripCbs g p).stopInObj = p.stopInObj := by cases g <;> rfl

/-- **interp_optimizeSeq**: the `while True:` loop of `_optimize_sequential`, one `exec` of the generated loop body per
iteration (over `_run_trial` as the hand model has it), is `optimizeSeq` — for every plan list, `n_trials`, timeout,
stop flag, whatever `gc_after_trial` / the progress bar are; with `callbacks=None` it is `optimizeSeq` of the plans
without their callbacks. -/
theorem interp_optimizeSeq (cfg : Cfg) (fl : SeqFlags) (nT to : Option Nat) (plans : List TrialPlan) (i it el : Nat)
    (stop : Bool) (hit : nT.isSome = true → it = i) :
    seqLoop L (handSeqP cfg fl nT to) plans i it el stop =
      some (optimizeSeq cfg nT to (plans.map (stripCbs fl.cbGiven)) i el stop) := by
  induction plans generalizing i it el stop with
  | nil =>
    simp only [List.map_nil]
    unfold seqLoop optimizeSeq
    rw [loop_split]
    cases hb : loopBreaks nT to i el stop with
    | true =>
      obtain ⟨h1, h2⟩ := loop_head_brk cfg fl nT to loopTail
        { plan := none, idx := i, iTrial := it, clock := el, stop := stop } hit hb
      generalize exec _ _ none _ = r at h1 h2
      obtain ⟨s', f⟩ := r
      simp only [] at h1 h2
      subst h1
      simp [h2]
    | false =>
      rw [loop_head_go cfg fl nT to loopTail _ hit hb]
      obtain ⟨h1, h2, h3⟩ := tail_exhausted cfg fl nT to
        (afterHead nT to { plan := none, idx := i, iTrial := it, clock := el, stop := stop }) rfl
      generalize exec _ _ none _ = r at h1 h2 h3
      obtain ⟨s', f⟩ := r
      simp only [] at h1 h2 h3
      subst h1
      simp [h2, h3, afterHead]
  | cons p ps ih =>
    simp only [List.map_cons]
    unfold seqLoop optimizeSeq
    rw [loop_split]
    cases hb : loopBreaks nT to i el stop with
    | true =>
      obtain ⟨h1, h2⟩ := loop_head_brk cfg fl nT to loopTail
        { plan := some p, idx := i, iTrial := it, clock := el, stop := stop } hit hb
      generalize exec _ _ none _ = r at h1 h2
      obtain ⟨s', f⟩ := r
      simp only [] at h1 h2
      subst h1
      simp [h2]
    | false =>
      rw [loop_head_go cfg fl nT to loopTail _ hit hb]
      simp only [Bool.false_eq_true, if_false, stripCbs_runPlan, stripCbs_sleep, stripCbs_stopInObj]
      cases hr : (runPlan cfg p).raised with
      | some e =>
        obtain ⟨h1, h2, h3, h4⟩ := tail_raised cfg fl nT to
          (afterHead nT to { plan := some p, idx := i, iTrial := it, clock := el, stop := stop }) p e rfl hr
        generalize exec _ _ none _ = r at h1 h2 h3 h4
        obtain ⟨s', f⟩ := r
        simp only [] at h1 h2 h3 h4
        subst h1
        simp [h2, h3, h4, afterHead]
      | none =>
        rw [loopTail_split, exec_seq, tail_run cfg fl nT to _ p rfl hr]
        simp only []
        rw [exec_seq, tail_callbacks cfg fl nT to _ p rfl rfl]
        obtain ⟨c1, c2, c3, c4, c5, c6⟩ := cbAll_spec 0 (stripCbs fl.cbGiven p).cbs
          (afterRun cfg p (afterHead nT to { plan := some p, idx := i, iTrial := it, clock := el, stop := stop }))
        generalize cbAll 0 (stripCbs fl.cbGiven p).cbs _ = r at c1 c2 c3 c4 c5 c6
        obtain ⟨s2, f2⟩ := r
        simp only [afterRun, afterHead] at c1 c2 c3 c4 c5 c6
        rcases hc : runCallbacks i 0 (stripCbs fl.cbGiven p).cbs with ⟨log, cbStop, rr⟩
        rw [hc] at c1 c2 c3
        simp only [] at c1 c2 c3
        cases rr with
        | some c =>
          subst c1
          simp [c2, c3, c4]
        | none =>
          subst c1
          simp only []
          obtain ⟨g1, g2, g3, g4, g5, g6⟩ := tail_progress cfg fl nT to s2
          generalize exec _ loopTail.tl.tl none s2 = r at g1 g2 g3 g4 g5 g6
          obtain ⟨s3, f3⟩ := r
          simp only [] at g1 g2 g3 g4 g5 g6
          subst g1
          simp only []
          rw [g2, c4, g5, c5, g6, c6, g4, c3]
          have := ih (i + 1) (if nT.isSome = true then it + 1 else it) (el + p.sleep) (stop || p.stopInObj || cbStop)
            (by intro h; simp [h]; exact hit h)
          rw [← loopTail_split, ← loop_split, this]
          simp [g3, c2]

/-- `_optimize_sequential` is its loop inside a frame that touches no trial: `in_optimize_loop = True`, the optional
`reseed_rng()`, `i_trial = 0`, the default of `time_start`, the loop, `remove_session()`. -/
theorem seq_frame :
    seqFrame TellMethods.optimizeSequential = some
      ([.act .enterOptimizeLoop, .ite (.prim .reseedSamplerRng) (.act .reseedRng) .skip, .act .initTrialCount,
        .ite (.prim .timeStartIsNone) (.act .initTimeStart) .skip],
       TellMethods.optimizeSequentialLoop, [.act .removeSession]) := by
  rfl

/-- the class table of `Model/TellIR.lean` (`Exn.mro`): TrialPruned and UpdateFinishedTrialError derive from
OptunaError (an Exception), the latter also from RuntimeError -/
theorem exc_hierarchy :
    TellMethods.excBases = [("OptunaError", ["Exception"]), ("TrialPruned", ["OptunaError"]),
      ("UpdateFinishedTrialError", ["OptunaError", "RuntimeError"])] := by
  decide

/-! ## the generated functions composed: every callee is the interpreter of its own generated body -/

abbrev G : Program := TellMethods.program

/-- **gen_tell_eq**: `_tell_with_warning` over the generated `_check_state_and_values` and
`_check_values_are_feasible` is `Tell.tell` (and the ValueError / TypeError of an unknown / ill-typed `trial`). -/
theorem gen_tell_eq (nObj : Nat) (env : Env) (lk : Lookup) (r : Rec) (a : TellArgs) :
    G.tell nObj env lk r a = some (tellSpec nObj env lk r a) := by
  have h1 : interpCsv G.checkStateAndValues = fun s b => some (Tell.checkStateAndValues s b) := by
    funext s b; exact interp_checkStateAndValues s b
  have h2 : interpFeas G.checkValuesAreFeasible = fun n l => some (checkValuesFeasible n l) := by
    funext n l; exact interp_checkValuesAreFeasible n l
  unfold Program.tell
  rw [h1, h2]
  exact interp_tellWithWarning nObj env lk r a
example : G.tell 1 {} .found {} { v := .scalar (.ok .nan) } = some ({ state := .fail }, .ok .fail none false (some .nan)) := by
  decide

/-- **interp_getFrozenTrial**: `_get_frozen_trial` as written today resolves a Trial object or the number of an existing
trial, raises ValueError for an unknown number (the storage's KeyError is translated) and TypeError for anything else —
the three cases of the hand model's `Lookup`. -/
theorem interp_getFrozenTrial (how : How) : interpLookup TellMethods.getFrozenTrial how = some how.lookup := by
  cases how <;> rfl
example : interpLookup TellMethods.getFrozenTrial .unknownNumber = some .unknownNumber := by decide

/-- **interp_studyTell**: `Study.tell` as written today passes its arguments through to `_tell_with_warning`, without
`suppress_warning`. -/
theorem interp_studyTell (tellD : TellArgs → Option (Rec × TellOut)) (a : TellArgs) :
    interpStudyTell TellMethods.studyTell tellD a = tellD { a with suppress := false } := by
  simp [interpStudyTell, TellMethods.studyTell, block, exec, pubM]

/-- **gen_studyTell_eq**: `Study.tell(trial, values, state, skip_if_finished)` over the generated `_get_frozen_trial`,
`_tell_with_warning`, `_check_state_and_values`, `_check_values_are_feasible` is `studyTell`, however the trial is named. -/
theorem gen_studyTell_eq (nObj : Nat) (env : Env) (how : How) (r : Rec) (a : TellArgs) :
    G.publicTell nObj env how r a = some (studyTell nObj env how.lookup r a) := by
  unfold Program.publicTell
  rw [show G.studyTell = TellMethods.studyTell from rfl, interp_studyTell, show interpLookup G.getFrozenTrial how = some how.lookup from interp_getFrozenTrial how]
  simp only []
  rw [gen_tell_eq]
  cases how <;> rfl
example : G.publicTell 1 {} .knownNumber {} { v := .scalar (.ok .nan), suppress := true } =
    some ({ state := .fail }, .ok .fail none false (some .nan)) := by decide
example : G.publicTell 1 {} .badType {} {} = some ({}, .raised .typeError) := by decide

/-- **gen_runPlan_eq**: `_run_trial` over the generated `Study.ask` and `_tell_with_warning` is `runPlan`, whether
heartbeats are enabled or not and whether `ask` popped a queued trial or created one. -/
theorem gen_runPlan_eq (cfg : Cfg) (hb popFound : Bool) (p : TrialPlan) :
    G.runPlan cfg hb popFound p = some (runPlan cfg p) := by
  have h1 : (fun r a => G.tell cfg.nObj p.script.env .found r a) = fun r a => some (tell cfg.nObj p.script.env r a) := by
    funext r a; exact gen_tell_eq cfg.nObj p.script.env .found r a
  unfold Program.runPlan
  rw [h1, show interpAsk G.ask { popFound := popFound, askRaises := p.askRaises } = some (askSpec p.askRaises) from
    interp_ask popFound p.askRaises]
  exact interp_runTrial cfg hb p
example : G.runPlan ⟨1, fun _ => false⟩ true false { script := { out := .ret (.scalar (.bad (.other 7))) } }
    = some ⟨{ state := .fail }, none⟩ := by decide
example : G.runPlan ⟨1, fun _ => false⟩ false true { script := { out := .exc .kbd } }
    = some ⟨{ state := .fail }, some .kbd⟩ := by decide

/-- **gen_optimizeSeq_eq**: the loop of `_optimize_sequential` over the generated `_run_trial` is `optimizeSeq`. -/
theorem gen_optimizeSeq_eq (cfg : Cfg) (fl : SeqFlags) (nT to : Option Nat) (plans : List TrialPlan) (i it el : Nat)
    (stop : Bool) (hit : nT.isSome = true → it = i) :
    G.optimizeSeq cfg fl nT to plans i it el stop =
      some (optimizeSeq cfg nT to (plans.map (stripCbs fl.cbGiven)) i el stop) := by
  have h1 : G.runPlan cfg fl.hb fl.popFound = fun p => some (runPlan cfg p) := by
    funext p; exact gen_runPlan_eq cfg fl.hb fl.popFound p
  unfold Program.optimizeSeq
  rw [h1]
  exact interp_optimizeSeq cfg fl nT to plans i it el stop hit

theorem map_stripCbs_true (plans : List TrialPlan) : plans.map (stripCbs true) = plans := by
  induction plans with
  | nil => rfl
  | cons p ps ih => simp [stripCbs, ih]

/-- … started the way `_optimize_sequential` starts it (`i_trial = 0`, see `seq_frame`), callbacks given -/
theorem gen_optimize_eq (cfg : Cfg) (fl : SeqFlags) (hcb : fl.cbGiven = true) (nT to : Option Nat)
    (plans : List TrialPlan) :
    G.optimizeSeq cfg fl nT to plans 0 0 0 false = some (optimizeSeq cfg nT to plans 0 0 false) := by
  rw [gen_optimizeSeq_eq cfg fl nT to plans 0 0 0 false (fun _ => rfl), hcb, map_stripCbs_true]

/-- … and with `callbacks=None`: the same loop, no callback ever invoked -/
theorem gen_optimize_eq_nocb (cfg : Cfg) (fl : SeqFlags) (hcb : fl.cbGiven = false) (nT to : Option Nat)
    (plans : List TrialPlan) :
    G.optimizeSeq cfg fl nT to plans 0 0 0 false =
      some (optimizeSeq cfg nT to (plans.map (fun p => { p with cbs := [] })) 0 0 false) := by
  rw [gen_optimizeSeq_eq cfg fl nT to plans 0 0 0 false (fun _ => rfl), hcb]
  rfl
example : (G.optimizeSeq ⟨1, fun _ => false⟩ { cbGiven := false } (some 2) none
    [{ cbs := [{ raises := some 1 }] }, { cbs := [{}] }] 0 0 0 false).map (fun o => (o.cbLog, o.trials.length)) = some ([], 2) := by
  decide
example : (G.optimizeSeq ⟨1, fun _ => false⟩ { gc := true } (some 2) none
    [{ script := { out := .ret (.scalar (.ok (.fin 1))) }, cbs := [{}, {}] },
     { script := { out := .exc (.user 1) }, cbs := [{}, {}] }] 0 0 0 false).map (·.cbLog) = some [(0, 0), (0, 1)] := by decide

/-! ## the theorems of C02 hold of the generated code -/

/-- **gen_runTrial_terminal**: whatever the objective, the sampler, another worker, `catch`, the heartbeat setting and
the queue do, `_run_trial` *as generated from the source* leaves its trial COMPLETE, PRUNED or FAIL — also when
`study.ask()` raises after the trial exists. -/
theorem gen_runTrial_terminal (cfg : Cfg) (hb popFound : Bool) (p : TrialPlan) :
    ∃ ro, G.runPlan cfg hb popFound p = some ro ∧ ro.final.state.isFinished = true := by
  refine ⟨_, gen_runPlan_eq cfg hb popFound p, ?_⟩
  unfold runPlan
  cases h : p.askRaises with
  | some c => rfl
  | none => exact C02.runTrial_terminal cfg p.script
example : G.runPlan ⟨1, fun _ => false⟩ false false { askRaises := some 2 } = some ⟨{ state := .fail }, some (.user 2)⟩ := by
  decide

/-- **gen_complete_iff_feasible** (generated code; the trial handed out by `ask`, nobody else touching it) -/
theorem gen_complete_iff_feasible (cfg : Cfg) (hb popFound : Bool) (p : TrialPlan) (ha : p.askRaises = none)
    (hu : C02.Undisturbed p.script) :
    ∃ ro, G.runPlan cfg hb popFound p = some ro ∧
      (ro.final.state = .complete ↔ ∃ v, p.script.out = .ret v ∧ C02.Feasible cfg.nObj v) ∧
      (∀ v es, p.script.out = .ret v → v.elems? = some es → C02.Feasible cfg.nObj v →
          ro.final.values = some (floats es) ∧ es = (floats es).map Elem.ok ∧
          (floats es).length = cfg.nObj ∧ ∀ x ∈ floats es, x ≠ .nan) := by
  refine ⟨_, gen_runPlan_eq cfg hb popFound p, ?_⟩
  have : runPlan cfg p = runTrial cfg p.script := by unfold runPlan; rw [ha]
  rw [this]
  exact C02.complete_iff_feasible cfg p.script hu
example : G.runPlan ⟨2, fun _ => false⟩ false false { script := { out := .ret (.seq [.ok (.fin 1), .ok .pinf]) } } =
    some ⟨{ state := .complete, values := some [.fin 1, .pinf] }, none⟩ := by decide

/-- **gen_fail_has_no_values** (generated code) -/
theorem gen_fail_has_no_values (cfg : Cfg) (hb popFound : Bool) (p : TrialPlan) (ha : p.askRaises = none)
    (hu : C02.Undisturbed p.script) :
    ∃ ro, G.runPlan cfg hb popFound p = some ro ∧ (ro.final.state = .fail → ro.final.values = none) := by
  refine ⟨_, gen_runPlan_eq cfg hb popFound p, ?_⟩
  have : runPlan cfg p = runTrial cfg p.script := by unfold runPlan; rw [ha]
  rw [this]
  exact C02.fail_has_no_values cfg p.script hu
example : G.runPlan ⟨1, fun _ => false⟩ false false { script := { out := .ret (.scalar (.ok .nan)) } } =
    some ⟨{ state := .fail, values := none }, none⟩ := by decide

/-- **gen_uncaught_propagates_after_fail** (generated code): an objective exception that `catch` does not list leaves
`_run_trial` after the trial has been failed -/
theorem gen_uncaught_propagates_after_fail (cfg : Cfg) (hb popFound : Bool) (p : TrialPlan) (e : Exc)
    (ha : p.askRaises = none) (hu : C02.Undisturbed p.script) (ho : p.script.out = .exc e) :
    ∃ ro, G.runPlan cfg hb popFound p = some ro ∧ ro.final.state = .fail ∧ ro.final.values = none ∧
      (cfg.catches e = false → ro.raised ≠ none) ∧
      (p.script.env.after = .ok → ro.raised = if cfg.catches e then none else some e) := by
  refine ⟨_, gen_runPlan_eq cfg hb popFound p, ?_⟩
  have : runPlan cfg p = runTrial cfg p.script := by unfold runPlan; rw [ha]
  rw [this]
  exact C02.uncaught_propagates_after_fail cfg p.script e hu ho

/-- **gen_tell_never_alters_finished** (generated code): `Study.tell` on a finished trial, for every argument
combination, sampler behaviour and interference, leaves the stored record as it was; with `skip_if_finished` it returns
that record, otherwise it raises ValueError. -/
theorem gen_tell_never_alters_finished (nObj : Nat) (env : Env) (how : How) (r : Rec) (a : TellArgs)
    (h : r.state.isFinished = true) :
    ∃ x, G.publicTell nObj env how r a = some x ∧ x.1 = r ∧
      (how.lookup = .found → x.2 = if a.skip then .skipped r.state r.values else .raised .valueError) := by
  refine ⟨_, gen_studyTell_eq nObj env how r a, ?_⟩
  exact C02.tell_never_alters_finished nObj env how.lookup r a h
example : G.publicTell 1 {} .trialObject { state := .complete, values := some [.fin 1] }
    { v := .scalar (.ok (.fin 2)), state := some .fail, skip := true } =
    some ({ state := .complete, values := some [.fin 1] }, .skipped .complete (some [.fin 1])) := by decide

/-- **gen_optimizeSeq_all_terminal** (generated code): when the loop of `_optimize_sequential` returns or raises, every
trial it started is COMPLETE, PRUNED or FAIL. -/
theorem gen_optimizeSeq_all_terminal (cfg : Cfg) (fl : SeqFlags) (nT to : Option Nat) (plans : List TrialPlan) :
    ∃ o, G.optimizeSeq cfg fl nT to plans 0 0 0 false = some o ∧ ∀ ro ∈ o.trials, ro.final.state.isFinished = true :=
  ⟨_, gen_optimizeSeq_eq cfg fl nT to plans 0 0 0 false (fun _ => rfl),
    C02.optimizeSeq_all_terminal cfg nT to _ 0 0 false⟩
example : (G.optimizeSeq ⟨1, fun _ => false⟩ {} (some 3) none
    [{ script := { out := .ret (.scalar (.ok .nan)) } }, { askRaises := some 1 }, {}] 0 0 0 false).map
      (fun o => o.trials.map (·.final.state)) = some [.fail, .fail] := by decide

/-- **gen_callbacks_exactly_once** (generated code): for the `k`-th trial the loop started and every callback index
`j`, the invocation `(trial k, callback j)` occurs in the log exactly once if the trial's exception did not propagate and
no earlier callback of that trial raised, and never otherwise. -/
theorem gen_callbacks_exactly_once (cfg : Cfg) (fl : SeqFlags) (hcb : fl.cbGiven = true) (nT to : Option Nat)
    (plans : List TrialPlan) :
    ∃ o, G.optimizeSeq cfg fl nT to plans 0 0 0 false = some o ∧
      ∀ k j, k < o.trials.length → ∃ p, plans[k]? = some p ∧ o.trials[k]? = some (runPlan cfg p) ∧
        List.count (k, j) o.cbLog =
          if (runPlan cfg p).raised = none ∧
              (j < p.cbs.length ∧ ∀ j', j' < j → ∀ a, p.cbs[j']? = some a → a.raises = none)
          then 1 else 0 := by
  refine ⟨_, gen_optimize_eq cfg fl hcb nT to plans, ?_⟩
  intro k j hk
  have := C02.callbacks_exactly_once cfg nT to plans 0 0 false k j hk
  simpa using this

/-- **gen_optimizeSeq_runs_exactly_n** (generated code) -/
theorem gen_optimizeSeq_runs_exactly_n (cfg : Cfg) (fl : SeqFlags) (hcb : fl.cbGiven = true) (n : Nat)
    (plans : List TrialPlan) (hlen : n ≤ plans.length)
    (hq : ∀ p ∈ plans.take n, p.stopInObj = false ∧ (runPlan cfg p).raised = none ∧
            ∀ a ∈ p.cbs, a.stop = false ∧ a.raises = none) :
    ∃ o, G.optimizeSeq cfg fl (some n) none plans 0 0 0 false = some o ∧
      o.trials = (plans.take n).map (fun p => runPlan cfg p) ∧ o.trials.length = n ∧ o.raised = none := by
  refine ⟨_, gen_optimize_eq cfg fl hcb (some n) none plans, ?_⟩
  obtain ⟨h1, h2, h3, _, _⟩ := C02.optimizeSeq_runs_exactly_n cfg n plans 0 0 (by simpa using hlen) (by simpa using hq)
  exact ⟨by simpa using h1, by simpa using h2, h3⟩

end OptunaVerif.C02Gen
