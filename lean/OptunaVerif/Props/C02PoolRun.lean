import OptunaVerif.Model.PoolRun
import OptunaVerif.Props.C02
/-!
# C02 — `optimize(n_jobs = k)`: every trial any worker started is terminal and well-formed at exit

`Props/C02.lean` §4 proves facts about the *futures* of the thread pool (`Pool.step`) and §1-3 facts about
one `_run_trial` / one `_optimize_sequential`; nothing there links a future's `Pool.Res` to the trial the
future ran.  This file closes that gap on the refined system of `Model/PoolRun.lean`, where every future is
a run of `_optimize_sequential(n_trials = 1)` (`Tell.optimizeSeq`) over a storage shared by all workers, and
where `_optimize` may also be left by an exception raised in the main thread itself (KeyboardInterrupt)
through `ThreadPoolExecutor.__exit__`.

The one hypothesis that is modelled and not verified is the guard of `exit` (normal and exceptional):
the executor's `__exit__` joins every submitted future.  Storage calls are taken atomic (C03's subject);
a trial row is written by its own worker only, except for the interference that `runTrial` already takes as
an arbitrary input (`Script.pre`, `Env.interfere`) and that only `Undisturbed` excludes.
-/
namespace OptunaVerif.C02PoolRun
open OptunaVerif OptunaVerif.Tell OptunaVerif.PoolRun

/-! ## the job of one future -/

theorem jobOut_break (P : Params) (st : Bool) (i : Nat) (h : jobBreaks P st i = true) :
    jobOut P st i = { stopFlag := st } := by
  unfold jobBreaks at h
  unfold jobOut
  simp [optimizeSeq, h]

theorem jobOut_go (P : Params) (st : Bool) (i : Nat) (h : jobBreaks P st i = false) :
    (jobOut P st i).trials = [runPlan P.cfg (P.jobs i).plan] := by
  unfold jobBreaks at h
  unfold jobOut
  simp only [optimizeSeq, h, Bool.false_eq_true, if_false]
  cases hr : (runPlan P.cfg (P.jobs i).plan).raised with
  | some e => rfl
  | none =>
    simp only []
    rcases hc : runCallbacks 0 0 (P.jobs i).plan.cbs with ⟨log, cbStop, r⟩
    cases r with
    | some c => rfl
    | none => simp

theorem cbSpec_fst (cfg : Cfg) (i : Nat) (ps : List TrialPlan) :
    ∀ x ∈ C02.cbSpec cfg i ps, i ≤ x.1 ∧ x.1 < i + ps.length := by
  induction ps generalizing i with
  | nil => intro x hx; simp [C02.cbSpec] at hx
  | cons p ps ih =>
    intro x hx
    simp only [C02.cbSpec, List.mem_append] at hx
    rcases hx with hx | hx
    · split at hx
      · cases hx
      · simp only [List.mem_map] at hx
        obtain ⟨b, _, rfl⟩ := hx
        simp
    · have := ih (i + 1) x hx
      simp only [List.length_cons]
      omega

/-- every callback invocation of a one-trial job is logged under loop index 0 -/
theorem jobOut_cb_fst (P : Params) (st : Bool) (i : Nat) : ∀ x ∈ (jobOut P st i).cbLog, x.1 = 0 := by
  intro x hx
  have h2 := (C02.optimizeSeq_shape P.cfg (some 1) P.timeout [(P.jobs i).plan] 0 (P.jobs i).elapsed st).2
  unfold jobOut at hx
  rw [h2] at hx
  have := cbSpec_fst P.cfg 0 _ x hx
  have hl : (List.take (optimizeSeq P.cfg (some 1) P.timeout [(P.jobs i).plan] 0 (P.jobs i).elapsed st).trials.length
      [(P.jobs i).plan]).length ≤ 1 := by
    simp only [List.length_take, List.length_cons, List.length_nil]
    omega
  omega

theorem count_retag (l : List (Nat × Nat)) (h : ∀ x ∈ l, x.1 = 0) (t t' j : Nat) :
    List.count (t', j) (l.map (fun x => (t, x.2))) = if t' = t then List.count (0, j) l else 0 := by
  induction l with
  | nil => simp
  | cons x l ih =>
    obtain ⟨a, b⟩ := x
    have ha : a = 0 := h (a, b) List.mem_cons_self
    subst ha
    have ih' := ih (fun y hy => h y (List.mem_cons_of_mem _ hy))
    simp only [List.map_cons, List.count_cons, ih', beq_iff_eq, Prod.mk.injEq]
    by_cases ht : t' = t
    · subst ht
      by_cases hb : b = j
      · simp [hb]
      · have : ¬ j = b := fun e => hb e.symm
        simp [hb]
    · have : ¬ t = t' := fun e => ht e.symm
      simp [ht, this]

/-! ## what `Pool.step` does to `begun` / `ended` -/

theorem pool_begin (k : Nat) (n : Option Nat) (p p' : Pool.State) (i : Nat)
    (h : Pool.step k n p (.begin i) = some p') :
    i < p.submitted ∧ p.begun i = false ∧ p'.begun = upd p.begun i true ∧ p'.ended = p.ended ∧
      p'.submitted = p.submitted := by
  simp only [Pool.step] at h
  split at h
  · rename_i hg
    cases h
    exact ⟨hg.1, hg.2, rfl, rfl, rfl⟩
  · cases h

theorem pool_finish (k : Nat) (n : Option Nat) (p p' : Pool.State) (i : Nat) (r : Pool.Res)
    (h : Pool.step k n p (.finish i r) = some p') :
    p.begun i = true ∧ p.ended i = none ∧ p'.ended = upd p.ended i (some r) ∧ p'.begun = p.begun ∧
      p'.submitted = p.submitted := by
  simp only [Pool.step] at h
  split at h
  · rename_i hg
    cases h
    exact ⟨hg.1, hg.2, rfl, rfl, rfl⟩
  · cases h

theorem pool_stopCalled (k : Nat) (n : Option Nat) (p p' : Pool.State) (i : Nat)
    (h : Pool.step k n p (.stopCalled i) = some p') :
    p'.begun = p.begun ∧ p'.ended = p.ended ∧ p'.submitted = p.submitted := by
  simp only [Pool.step] at h
  split at h
  · cases h
    exact ⟨rfl, rfl, rfl⟩
  · cases h

theorem pool_main_frame (k : Nat) (n : Option Nat) (p p' : Pool.State) (e : Pool.Event)
    (he : e = .submit ∨ (∃ c, e = .waitFirst c) ∨ e = .waitAll ∨ (∃ r, e = .exit r) ∨ e = .timeout)
    (h : Pool.step k n p e = some p') : p'.begun = p.begun ∧ p'.ended = p.ended := by
  rcases he with rfl | ⟨c, rfl⟩ | rfl | ⟨r, rfl⟩ | rfl <;> simp only [Pool.step] at h <;> split at h <;>
    first | (cases h; exact ⟨rfl, rfl⟩) | cases h

theorem pool_run_snoc (k : Nat) (n : Option Nat) (p0 : Pool.State) (pes : List Pool.Event)
    (p : Pool.State) (e : Pool.Event) (p' : Pool.State) (h : Pool.run k n p0 pes = some p)
    (hs : Pool.step k n p e = some p') : Pool.run k n p0 (pes ++ [e]) = some p' := by
  induction pes generalizing p0 with
  | nil =>
    simp only [Pool.run, Option.some.injEq] at h
    subst h
    simp [Pool.run, hs]
  | cons a t ih =>
    simp only [Pool.run, List.cons_append] at h ⊢
    cases ha : Pool.step k n p0 a with
    | none => rw [ha] at h; cases h
    | some p1 =>
      rw [ha] at h
      simp only []
      exact ih p1 h

/-! ## the worker-side invariant

Stated over the components it talks about, so that events which do not touch them preserve it by
rewriting. -/

structure WInv (P : Params) (b : Nat → Bool) (e : Nat → Option Pool.Res) (s0 : Nat → Bool)
    (tr : Nat → Option Nat) (st : Nat → Option Cell) (n : Nat) (cb : List (Nat × Nat)) : Prop where
  store_lt : ∀ t c, st t = some c → t < n
  store_ge : ∀ t, t < n → ∃ c, st t = some c
  owner_trial : ∀ t c, st t = some c → tr c.owner = some t
  trial_cell : ∀ i t, tr i = some t → ∃ c, st t = some c ∧ c.owner = i
  trial_begun : ∀ i t, tr i = some t → b i = true ∧ jobBreaks P (s0 i) i = false
  begun_skip : ∀ i, b i = true → tr i = none → jobBreaks P (s0 i) i = true
  cell_running : ∀ t c, st t = some c → e c.owner = none → c.row = {}
  cell_final : ∀ t c r, st t = some c → e c.owner = some r →
    c.row = (runPlan P.cfg (P.jobs c.owner).plan).final
  ended_res : ∀ i r, e i = some r → r = resOf P.cls (jobOut P (s0 i) i).raised
  cb_count : ∀ t j, List.count (t, j) cb =
    match st t with
    | some c => if (e c.owner).isSome then List.count (0, j) (jobOut P (s0 c.owner) c.owner).cbLog else 0
    | none => 0

theorem winv_init (P : Params) :
    WInv P (fun _ => false) (fun _ => none) (fun _ => false) (fun _ => none) (fun _ => none) 0 [] := by
  constructor <;> simp

/-- `begin i`, the loop head lets the worker go on: `ask` appends a RUNNING row -/
theorem winv_begin_go (P : Params) (b e s0 tr st n cb) (hw : WInv P b e s0 tr st n cb) (i : Nat)
    (stp : Bool) (hbi : b i = false) (hei : e i = none) (hgo : jobBreaks P stp i = false) :
    WInv P (upd b i true) e (upd s0 i stp) (upd tr i (some n)) (upd st n (some ⟨i, {}⟩)) (n + 1) cb := by
  have hown : ∀ t c, st t = some c → c.owner ≠ i := by
    intro t c hc ho
    have := (hw.trial_begun c.owner t (hw.owner_trial t c hc)).1
    rw [ho, hbi] at this
    cases this
  have hstn : st n = none := by
    cases hs : st n with
    | none => rfl
    | some c => exact absurd (hw.store_lt n c hs) (Nat.lt_irrefl n)
  constructor
  · intro t c hc
    simp only [upd] at hc
    split at hc
    · omega
    · have := hw.store_lt t c hc; omega
  · intro t ht
    simp only [upd]
    split
    · exact ⟨_, rfl⟩
    · exact hw.store_ge t (by omega)
  · intro t c hc
    simp only [upd] at hc ⊢
    split at hc
    · rename_i htn
      cases hc
      simp [htn]
    · have := hown t c hc
      simp only [this, if_false]
      exact hw.owner_trial t c hc
  · intro j t hj
    simp only [upd] at hj ⊢
    split at hj
    · rename_i hji
      cases hj
      simp [hji]
    · obtain ⟨c, hc, ho⟩ := hw.trial_cell j t hj
      have : t ≠ n := Nat.ne_of_lt (hw.store_lt t c hc)
      simp only [this, if_false]
      exact ⟨c, hc, ho⟩
  · intro j t hj
    simp only [upd] at hj ⊢
    split at hj
    · rename_i hji
      subst hji
      simp [hgo]
    · rename_i hji
      simp only [hji, if_false]
      exact hw.trial_begun j t hj
  · intro j hb htr
    simp only [upd] at hb htr ⊢
    by_cases hji : j = i
    · simp [hji] at htr
    · simp only [hji, if_false] at hb htr ⊢
      exact hw.begun_skip j hb htr
  · intro t c hc he
    simp only [upd] at hc
    split at hc
    · cases hc; rfl
    · exact hw.cell_running t c hc he
  · intro t c r hc he
    simp only [upd] at hc
    split at hc
    · cases hc
      rw [hei] at he
      cases he
    · exact hw.cell_final t c r hc he
  · intro j r he
    have hji : j ≠ i := by
      intro h; rw [h, hei] at he; cases he
    simp only [upd, hji, if_false]
    exact hw.ended_res j r he
  · intro t j
    rw [hw.cb_count t j]
    simp only [upd]
    by_cases htn : t = n
    · subst htn
      simp [hstn, hei]
    · simp only [htn, if_false]
      cases hs : st t with
      | none => rfl
      | some c =>
        have := hown t c hs
        simp only [this, if_false]

/-- `begin i`, the loop head breaks (stop flag / timeout): the future starts no trial -/
theorem winv_begin_skip (P : Params) (b e s0 tr st n cb) (hw : WInv P b e s0 tr st n cb) (i : Nat)
    (stp : Bool) (hbi : b i = false) (hei : e i = none) (hbrk : jobBreaks P stp i = true) :
    WInv P (upd b i true) e (upd s0 i stp) tr st n cb := by
  have hown : ∀ t c, st t = some c → c.owner ≠ i := by
    intro t c hc ho
    have := (hw.trial_begun c.owner t (hw.owner_trial t c hc)).1
    rw [ho, hbi] at this
    cases this
  have htri : tr i = none := by
    cases h : tr i with
    | none => rfl
    | some t =>
      have := (hw.trial_begun i t h).1
      rw [hbi] at this
      cases this
  constructor
  · exact hw.store_lt
  · exact hw.store_ge
  · exact hw.owner_trial
  · exact hw.trial_cell
  · intro j t hj
    have hji : j ≠ i := by
      intro h; rw [h, htri] at hj; cases hj
    simp only [upd, hji, if_false]
    exact hw.trial_begun j t hj
  · intro j hb htr
    simp only [upd] at hb ⊢
    by_cases hji : j = i
    · subst hji
      simp [hbrk]
    · simp only [hji, if_false] at hb ⊢
      exact hw.begun_skip j hb htr
  · exact hw.cell_running
  · exact hw.cell_final
  · intro j r he
    have hji : j ≠ i := by
      intro h; rw [h, hei] at he; cases he
    simp only [upd, hji, if_false]
    exact hw.ended_res j r he
  · intro t j
    rw [hw.cb_count t j]
    cases hs : st t with
    | none => rfl
    | some c =>
      have := hown t c hs
      simp only [upd, this, if_false]

/-- `finish i`: the row of the trial future `i` started (if any) gets `_run_trial`'s final record, the
callback invocations of the job are logged under the trial's number -/
theorem winv_finish (P : Params) (b e s0 tr st n cb) (hw : WInv P b e s0 tr st n cb) (i : Nat)
    (hei : e i = none) :
    WInv P b (upd e i (some (resOf P.cls (jobOut P (s0 i) i).raised))) s0 tr
      (match tr i, (jobOut P (s0 i) i).trials with
        | some t, ro :: _ => upd st t (some ⟨i, ro.final⟩)
        | _, _ => st) n
      (cb ++ (match tr i with
        | some t => (jobOut P (s0 i) i).cbLog.map (fun x => (t, x.2))
        | none => [])) := by
  cases htr : tr i with
  | none =>
    have hown : ∀ t c, st t = some c → c.owner ≠ i := by
      intro t c hc ho
      have := hw.owner_trial t c hc
      rw [ho, htr] at this
      cases this
    simp only [List.append_nil]
    constructor
    · exact hw.store_lt
    · exact hw.store_ge
    · exact hw.owner_trial
    · exact hw.trial_cell
    · exact hw.trial_begun
    · exact hw.begun_skip
    · intro t c hc he
      simp only [upd, hown t c hc, if_false] at he
      exact hw.cell_running t c hc he
    · intro t c r hc he
      simp only [upd, hown t c hc, if_false] at he
      exact hw.cell_final t c r hc he
    · intro j r he
      simp only [upd] at he
      split at he
      · rename_i hji
        cases he
        rw [hji]
      · exact hw.ended_res j r he
    · intro t j
      rw [hw.cb_count t j]
      cases hs : st t with
      | none => rfl
      | some c => simp only [upd, hown t c hs, if_false]
  | some t0 =>
    have hgo := (hw.trial_begun i t0 htr).2
    rw [jobOut_go P (s0 i) i hgo]
    simp only []
    obtain ⟨c0, hc0, ho0⟩ := hw.trial_cell i t0 htr
    have hown : ∀ t c, st t = some c → t ≠ t0 → c.owner ≠ i := by
      intro t c hc hne ho
      have := hw.owner_trial t c hc
      rw [ho, htr] at this
      cases this
      exact hne rfl
    constructor
    · intro t c hc
      simp only [upd] at hc
      split at hc
      · rename_i h; rw [h]; exact hw.store_lt t0 c0 hc0
      · exact hw.store_lt t c hc
    · intro t ht
      simp only [upd]
      split
      · exact ⟨_, rfl⟩
      · exact hw.store_ge t ht
    · intro t c hc
      simp only [upd] at hc
      split at hc
      · rename_i h
        cases hc
        rw [h]; exact htr
      · exact hw.owner_trial t c hc
    · intro j t hj
      obtain ⟨c, hc, ho⟩ := hw.trial_cell j t hj
      simp only [upd]
      split
      · rename_i h
        subst h
        rw [hc0] at hc
        cases hc
        exact ⟨_, rfl, by rw [← ho, ho0]⟩
      · exact ⟨c, hc, ho⟩
    · exact hw.trial_begun
    · exact hw.begun_skip
    · intro t c hc he
      simp only [upd] at hc he
      split at hc
      · cases hc
        simp at he
      · rename_i hne
        simp only [hown t c hc hne, if_false] at he
        exact hw.cell_running t c hc he
    · intro t c r hc he
      simp only [upd] at hc he
      split at hc
      · cases hc; rfl
      · rename_i hne
        simp only [hown t c hc hne, if_false] at he
        exact hw.cell_final t c r hc he
    · intro j r he
      simp only [upd] at he
      split at he
      · rename_i hji
        cases he
        rw [hji]
      · exact hw.ended_res j r he
    · intro t j
      rw [List.count_append, hw.cb_count t j, count_retag _ (jobOut_cb_fst P (s0 i) i)]
      simp only [upd]
      by_cases htt : t = t0
      · subst htt
        simp [hc0, ho0, hei]
      · simp only [htt, if_false, Nat.add_zero]
        cases hs : st t with
        | none => rfl
        | some c => simp only [hown t c hs htt, if_false]

/-! ## the invariant of the refined system -/

structure RInv (P : Params) (s : State) : Prop where
  /-- the pool component is a state of `Pool.run`: every theorem of Props/C02 §4 applies to it -/
  sim : ∃ pes, Pool.run P.k P.n Pool.init pes = some s.pool
  w : WInv P s.pool.begun s.pool.ended s.stop0 s.trialOf s.store s.nTrials s.cbLog
  done_all : ∀ r, s.done = some r → (P.joins = true ∨ s.interrupted = none) →
    ∀ i, i < s.pool.submitted → (s.pool.ended i).isSome = true
  done_normal : ∀ r, s.done = some r → s.interrupted = none → s.pool.phase = .exited r
  done_intr : ∀ r c, s.done = some r → s.interrupted = some c → r = .raised c

theorem RInv.pinv {P : Params} {s : State} (h : RInv P s) : Pool.Inv P.k P.n s.pool := by
  obtain ⟨pes, hp⟩ := h.sim
  exact Pool.inv_run P.k P.n Pool.init s.pool pes (Pool.inv_init P.k P.n) hp

theorem rinv_init (P : Params) : RInv P init := by
  refine ⟨⟨[], rfl⟩, winv_init P, ?_, ?_, ?_⟩ <;> simp [init]

theorem rinv_lift (P : Params) (s s' : State) (e : Pool.Event) (hi : RInv P s) (hd : s.done = none)
    (he : e = .submit ∨ (∃ c, e = .waitFirst c) ∨ e = .waitAll ∨ (∃ r, e = .exit r) ∨ e = .timeout)
    (h : liftPool P s e = some s') : RInv P s' := by
  unfold liftPool at h
  cases hp : Pool.step P.k P.n s.pool e with
  | none => rw [hp] at h; cases h
  | some p =>
    rw [hp] at h
    cases h
    obtain ⟨pes, hpes⟩ := hi.sim
    obtain ⟨hb, hen⟩ := pool_main_frame P.k P.n s.pool p e he hp
    refine ⟨⟨pes ++ [e], pool_run_snoc _ _ _ _ _ _ _ hpes hp⟩, ?_, ?_, ?_, ?_⟩
    · show WInv P p.begun p.ended s.stop0 s.trialOf s.store s.nTrials s.cbLog
      rw [hb, hen]; exact hi.w
    · intro r hr; rw [hd] at hr; cases hr
    · intro r hr; rw [hd] at hr; cases hr
    · intro r c hr; rw [hd] at hr; cases hr

theorem rinv_step (P : Params) (s s' : State) (ev : Event) (hi : RInv P s) (h : step P s ev = some s') :
    RInv P s' := by
  unfold step at h
  split at h
  · cases h
  · rename_i hdn
    have hd : s.done = none := by
      cases hs : s.done with
      | none => rfl
      | some r => rw [hs] at hdn; exact absurd rfl hdn
    cases ev with
    | submit =>
      simp only [] at h
      split at h
      · exact rinv_lift P s s' .submit hi hd (Or.inl rfl) h
      · cases h
    | waitFirst c =>
      simp only [] at h
      split at h
      · exact rinv_lift P s s' (.waitFirst c) hi hd (Or.inr (Or.inl ⟨c, rfl⟩)) h
      · cases h
    | timeout =>
      simp only [] at h
      split at h
      · exact rinv_lift P s s' .timeout hi hd (Or.inr (Or.inr (Or.inr (Or.inr rfl)))) h
      · cases h
    | waitAll =>
      simp only [] at h
      split at h
      · exact rinv_lift P s s' .waitAll hi hd (Or.inr (Or.inr (Or.inl rfl))) h
      · cases h
    | exit r =>
      simp only [] at h
      cases hin : s.interrupted with
      | none =>
        rw [hin] at h
        simp only [] at h
        cases hp : Pool.step P.k P.n s.pool (.exit r) with
        | none => rw [hp] at h; cases h
        | some p =>
          rw [hp] at h
          cases h
          obtain ⟨pes, hpes⟩ := hi.sim
          obtain ⟨hb, hen⟩ := pool_main_frame P.k P.n s.pool p (.exit r)
            (Or.inr (Or.inr (Or.inr (Or.inl ⟨r, rfl⟩)))) hp
          have hrun := pool_run_snoc _ _ _ _ _ _ _ hpes hp
          have hph : p.phase = .exited r := by
            simp only [Pool.step] at hp
            split at hp
            · cases hp; rfl
            · cases hp
          have hinv := Pool.inv_run P.k P.n Pool.init p _ (Pool.inv_init P.k P.n) hrun
          refine ⟨⟨_, hrun⟩, ?_, ?_, ?_, ?_⟩
          · show WInv P p.begun p.ended s.stop0 s.trialOf s.store s.nTrials s.cbLog
            rw [hb, hen]; exact hi.w
          · intro r' _ _
            exact (hinv.exited r hph).1
          · intro r' hr' _
            simp only [Option.some.injEq] at hr'
            subst hr'
            exact hph
          · intro r' c _ hc
            cases hc
      | some c =>
        rw [hin] at h
        simp only [] at h
        split at h
        · rename_i hg
          cases h
          refine ⟨hi.sim, hi.w, ?_, ?_, ?_⟩
          · intro r' _ hj i hlt
            rcases hj with hj | hj
            · rcases hg.2 with hg2 | hg2
              · rw [hj] at hg2; cases hg2
              · exact Pool.allEnded_mem _ _ hg2 i (List.mem_range.2 hlt)
            · cases hj
          · intro r' _ hn
            cases hn
          · intro r' c' hr' hc'
            simp only [Option.some.injEq] at hr'
            simp only [Option.some.injEq] at hc'
            rw [← hr', ← hc']; exact hg.1
        · cases h
    | interrupt c =>
      simp only [] at h
      split at h
      · cases h
        refine ⟨hi.sim, hi.w, ?_, ?_, ?_⟩
        · intro r hr; simp only [hd] at hr; cases hr
        · intro r hr; simp only [hd] at hr; cases hr
        · intro r c' hr; simp only [hd] at hr; cases hr
      · cases h
    | begin i =>
      simp only [] at h
      cases hp : Pool.step P.k P.n s.pool (.begin i) with
      | none => rw [hp] at h; cases h
      | some p =>
        rw [hp] at h
        simp only [] at h
        obtain ⟨pes, hpes⟩ := hi.sim
        obtain ⟨_, hbi, hb, hen, _⟩ := pool_begin P.k P.n s.pool p i hp
        have hei : s.pool.ended i = none := by
          cases he : s.pool.ended i with
          | none => rfl
          | some r =>
            have := hi.pinv.ended_begun i r he
            rw [hbi] at this
            cases this
        split at h
        · rename_i hbrk
          cases h
          refine ⟨⟨_, pool_run_snoc _ _ _ _ _ _ _ hpes hp⟩, ?_, ?_, ?_, ?_⟩
          · show WInv P p.begun p.ended (upd s.stop0 i s.pool.stop) s.trialOf s.store s.nTrials s.cbLog
            rw [hb, hen]
            exact winv_begin_skip P _ _ _ _ _ _ _ hi.w i s.pool.stop hbi hei hbrk
          · intro r hr; simp only [hd] at hr; cases hr
          · intro r hr; simp only [hd] at hr; cases hr
          · intro r c' hr; simp only [hd] at hr; cases hr
        · rename_i hgo
          cases h
          refine ⟨⟨_, pool_run_snoc _ _ _ _ _ _ _ hpes hp⟩, ?_, ?_, ?_, ?_⟩
          · show WInv P p.begun p.ended (upd s.stop0 i s.pool.stop) (upd s.trialOf i (some s.nTrials))
              (upd s.store s.nTrials (some ⟨i, {}⟩)) (s.nTrials + 1) s.cbLog
            rw [hb, hen]
            exact winv_begin_go P _ _ _ _ _ _ _ hi.w i s.pool.stop hbi hei (by simpa using hgo)
          · intro r hr; simp only [hd] at hr; cases hr
          · intro r hr; simp only [hd] at hr; cases hr
          · intro r c' hr; simp only [hd] at hr; cases hr
    | stopCalled i =>
      simp only [] at h
      split at h
      · unfold liftPool at h
        cases hp : Pool.step P.k P.n s.pool (.stopCalled i) with
        | none => rw [hp] at h; cases h
        | some p =>
          rw [hp] at h
          cases h
          obtain ⟨pes, hpes⟩ := hi.sim
          obtain ⟨hb, hen, _⟩ := pool_stopCalled P.k P.n s.pool p i hp
          refine ⟨⟨_, pool_run_snoc _ _ _ _ _ _ _ hpes hp⟩, ?_, ?_, ?_, ?_⟩
          · show WInv P p.begun p.ended s.stop0 s.trialOf s.store s.nTrials s.cbLog
            rw [hb, hen]; exact hi.w
          · intro r hr; simp only [hd] at hr; cases hr
          · intro r hr; simp only [hd] at hr; cases hr
          · intro r c' hr; simp only [hd] at hr; cases hr
      · cases h
    | finish i =>
      simp only [] at h
      obtain ⟨pes, hpes⟩ := hi.sim
      -- first the (possible) `study.stop()` of the job …
      have h1 : (∃ p1 pes1, (if (jobOut P (s.stop0 i) i).stopFlag = true then
            Pool.step P.k P.n s.pool (.stopCalled i) else some s.pool) = some p1 ∧
          Pool.run P.k P.n Pool.init pes1 = some p1 ∧ p1.begun = s.pool.begun ∧ p1.ended = s.pool.ended) ∨
          (if (jobOut P (s.stop0 i) i).stopFlag = true then
            Pool.step P.k P.n s.pool (.stopCalled i) else some s.pool) = none := by
        split
        · cases hp : Pool.step P.k P.n s.pool (.stopCalled i) with
          | none => exact Or.inr rfl
          | some p1 =>
            obtain ⟨hb, hen, _⟩ := pool_stopCalled P.k P.n s.pool p1 i hp
            exact Or.inl ⟨p1, _, rfl, pool_run_snoc _ _ _ _ _ _ _ hpes hp, hb, hen⟩
        · exact Or.inl ⟨s.pool, pes, rfl, hpes, rfl, rfl⟩
      rcases h1 with ⟨p1, pes1, hp1, hrun1, hb1, hen1⟩ | hnone
      · rw [hp1] at h
        simp only [] at h
        cases hp2 : Pool.step P.k P.n p1 (.finish i (resOf P.cls (jobOut P (s.stop0 i) i).raised)) with
        | none => rw [hp2] at h; cases h
        | some p2 =>
          rw [hp2] at h
          cases h
          obtain ⟨hbi, hei, hen2, hb2, _⟩ := pool_finish P.k P.n p1 p2 i _ hp2
          rw [hb1] at hbi hb2
          rw [hen1] at hei hen2
          refine ⟨⟨_, pool_run_snoc _ _ _ _ _ _ _ hrun1 hp2⟩, ?_, ?_, ?_, ?_⟩
          · show WInv P p2.begun p2.ended s.stop0 s.trialOf _ s.nTrials _
            rw [hb2, hen2]
            exact winv_finish P _ _ _ _ _ _ _ hi.w i hei
          · intro r hr; simp only [hd] at hr; cases hr
          · intro r hr; simp only [hd] at hr; cases hr
          · intro r c' hr; simp only [hd] at hr; cases hr
      · rw [hnone] at h
        cases h

theorem rinv_run (P : Params) (s s' : State) (es : List Event) (hi : RInv P s)
    (h : run P s es = some s') : RInv P s' := by
  induction es generalizing s with
  | nil => simp only [run, Option.some.injEq] at h; subst h; exact hi
  | cons e es ih =>
    simp only [run] at h
    cases hs : step P s e with
    | none => rw [hs] at h; cases h
    | some s1 =>
      rw [hs] at h
      exact ih s1 (rinv_step P s s1 e hi hs) h

/-! ## the theorems -/

/-- The pool component of every reachable state of the refined system is a state of `Pool.run`: all
of `optimizePool_*` (Props/C02 §4) applies to it verbatim. -/
theorem pool_component_is_pool_run (P : Params) (es : List Event) (s : State)
    (h : run P init es = some s) : ∃ pes, Pool.run P.k P.n Pool.init pes = some s.pool :=
  (rinv_run P init s es (rinv_init P) h).sim

/-- **pool_all_submitted_trials_terminal** — for every `n_jobs = k`, `n_trials`, timeout, every
behaviour of every trial (objective outcome, sampler, callbacks, `study.stop()` calls, interference),
every clock reading and every schedule (event list accepted from `init`): when `_optimize` has returned
or raised (`s.done = some r`; normal return, an exception of a future re-raised by `f.result()`, or an
exception raised in the main thread itself and propagating through `ThreadPoolExecutor.__exit__`),

1. every submitted future has begun and has ended, with the result of *its*
   `_optimize_sequential(n_trials=1)` job;
2. the storage rows are `0 .. nTrials-1`, and a submitted future created a row exactly when its loop
   head did not break (stop flag / timeout);
3. every row was created by a submitted future's worker, and holds exactly the record `_run_trial`
   (`runPlan`) leaves — which is COMPLETE, PRUNED or FAIL, never RUNNING;
4. every callback ran exactly once for every trial whose exception did not propagate (up to the first
   raising callback), never for another trial and never for a number that is not a trial;
5. at most `n_trials` futures were submitted; if `_optimize` was not interrupted: it returns only if
   every future returned, it raises class `c` only if a future raised `c`, and if it returns without
   `study.stop()` having been called and without the main thread having seen the `timeout` elapse
   (stop-free, timeout-free return) exactly `n_trials` futures were submitted; if it was interrupted
   by class `c`, it raises `c`.  (`≤ n_trials` always; `timedOut` is possible only if a timeout was
   given: `timedOut_only_with_timeout`, `pool_exactly_n_without_timeout`.) -/
theorem pool_all_submitted_trials_terminal (P : Params) (es : List Event) (s : State) (r : Pool.Res)
    (hj : P.joins = true) (h : run P init es = some s) (hx : s.done = some r) :
    (∀ i, i < s.pool.submitted → s.pool.begun i = true ∧
        s.pool.ended i = some (resOf P.cls (jobOut P (s.stop0 i) i).raised)) ∧
    ((∀ t, t < s.nTrials ↔ ∃ c, s.store t = some c) ∧
      ∀ i, i < s.pool.submitted →
        (jobBreaks P (s.stop0 i) i = false ↔ ∃ t, s.trialOf i = some t ∧ ∃ c, s.store t = some c ∧ c.owner = i)) ∧
    (∀ t c, s.store t = some c →
        c.owner < s.pool.submitted ∧ s.trialOf c.owner = some t ∧
        c.row = (runPlan P.cfg (P.jobs c.owner).plan).final ∧
        c.row.state.isFinished = true ∧ c.row.state ≠ .running) ∧
    ((∀ t c j, s.store t = some c →
        List.count (t, j) s.cbLog =
          if (runPlan P.cfg (P.jobs c.owner).plan).raised = none ∧
              (j < (P.jobs c.owner).plan.cbs.length ∧
                ∀ j', j' < j → ∀ a, (P.jobs c.owner).plan.cbs[j']? = some a → a.raises = none)
          then 1 else 0) ∧
      ∀ t j, s.store t = none → List.count (t, j) s.cbLog = 0) ∧
    ((∀ m, P.n = some m → s.pool.submitted ≤ m) ∧
      (s.interrupted = none →
        (r = .ok → ∀ i, i < s.pool.submitted → s.pool.ended i = some .ok) ∧
        (∀ c, r = .raised c → ∃ i, i < s.pool.submitted ∧ s.pool.ended i = some (.raised c)) ∧
        (r = .ok → s.pool.stop = false → s.pool.timedOut = false →
          ∀ m, P.n = some m → s.pool.submitted = m)) ∧
      ∀ c, s.interrupted = some c → r = .raised c) := by
  have hi := rinv_run P init s es (rinv_init P) h
  have hp := hi.pinv
  have hw := hi.w
  have hall := hi.done_all r hx (Or.inl hj)
  have hended : ∀ i, i < s.pool.submitted → s.pool.begun i = true ∧
      s.pool.ended i = some (resOf P.cls (jobOut P (s.stop0 i) i).raised) := by
    intro i hlt
    have := hall i hlt
    cases he : s.pool.ended i with
    | none => rw [he] at this; cases this
    | some r' =>
      refine ⟨hp.ended_begun i r' he, ?_⟩
      rw [hw.ended_res i r' he]
  have hrow : ∀ t c, s.store t = some c →
      c.owner < s.pool.submitted ∧ s.trialOf c.owner = some t ∧
      c.row = (runPlan P.cfg (P.jobs c.owner).plan).final := by
    intro t c hc
    have htr := hw.owner_trial t c hc
    have hlt := hp.begun_lt c.owner (hw.trial_begun c.owner t htr).1
    exact ⟨hlt, htr, hw.cell_final t c _ hc (hended c.owner hlt).2⟩
  have hfin : ∀ p : TrialPlan, (runPlan P.cfg p).final.state.isFinished = true := by
    intro p
    unfold runPlan
    cases p.askRaises with
    | some c => rfl
    | none => exact C02.runTrial_terminal P.cfg p.script
  refine ⟨hended, ⟨?_, ?_⟩, ?_, ⟨?_, ?_⟩, ?_, ?_, ?_⟩
  · intro t
    exact ⟨hw.store_ge t, fun ⟨c, hc⟩ => hw.store_lt t c hc⟩
  · intro i hlt
    constructor
    · intro hgo
      cases htr : s.trialOf i with
      | none =>
        have := hw.begun_skip i (hended i hlt).1 htr
        rw [hgo] at this
        cases this
      | some t => exact ⟨t, rfl, hw.trial_cell i t htr⟩
    · rintro ⟨t, htr, _⟩
      exact (hw.trial_begun i t htr).2
  · intro t c hc
    obtain ⟨h1, h2, h3⟩ := hrow t c hc
    have h4 : c.row.state.isFinished = true := by rw [h3]; exact hfin _
    refine ⟨h1, h2, h3, h4, ?_⟩
    intro hrun
    rw [hrun] at h4
    cases h4
  · intro t c j hc
    obtain ⟨h1, h2, _⟩ := hrow t c hc
    have hgo := (hw.trial_begun c.owner t h2).2
    have hcount := hw.cb_count t j
    rw [hc] at hcount
    simp only [(hended c.owner h1).2, Option.isSome_some, if_true] at hcount
    rw [hcount]
    have hlen : 0 < (jobOut P (s.stop0 c.owner) c.owner).trials.length := by
      rw [jobOut_go P _ _ hgo]; simp
    obtain ⟨p, hp0, _, hcnt⟩ := C02.callbacks_exactly_once P.cfg (some 1) P.timeout
      [(P.jobs c.owner).plan] 0 (P.jobs c.owner).elapsed (s.stop0 c.owner) 0 j hlen
    simp only [List.getElem?_cons_zero, Option.some.injEq] at hp0
    subst hp0
    exact hcnt
  · intro t j hn
    have := hw.cb_count t j
    rw [hn] at this
    exact this
  · exact hp.quota
  · intro hin
    have hph := hi.done_normal r hx hin
    obtain ⟨_, hok, hraise⟩ := hp.exited r hph
    refine ⟨hok, hraise, ?_⟩
    intro hr hs ht m hm
    subst hr
    rcases hp.drained_why (Or.inr hph) with h1 | h1 | h1
    · rw [hs] at h1; cases h1
    · rw [hm] at h1
      simp only [Pool.quotaReached, decide_eq_true_eq] at h1
      exact Nat.le_antisymm (hp.quota m hm) h1
    · rw [ht] at h1; cases h1
  · intro c hc
    exact hi.done_intr r c hx hc

/-! ### the main thread's timeout break -/

theorem pool_timedOut_frame (k : Nat) (n : Option Nat) (p p' : Pool.State) (e : Pool.Event)
    (he : e ≠ .timeout) (h : Pool.step k n p e = some p') : p'.timedOut = p.timedOut := by
  cases e <;> simp only [Pool.step] at h <;> first
    | exact absurd rfl he
    | (split at h <;> first | (cases h; rfl) | cases h)

theorem timed_step (P : Params) (s s' : State) (ev : Event) (h : step P s ev = some s')
    (ht : s.pool.timedOut = true → P.timeout.isSome = true) :
    s'.pool.timedOut = true → P.timeout.isSome = true := by
  have lift : ∀ e, e ≠ Pool.Event.timeout → liftPool P s e = some s' → s'.pool.timedOut = s.pool.timedOut := by
    intro e he hl
    unfold liftPool at hl
    cases hp : Pool.step P.k P.n s.pool e with
    | none => rw [hp] at hl; cases hl
    | some p => rw [hp] at hl; cases hl; exact pool_timedOut_frame _ _ _ _ e he hp
  unfold step at h
  split at h
  · cases h
  · cases ev with
    | submit =>
      simp only [] at h
      split at h
      · rw [lift _ (by intro e; cases e) h]; exact ht
      · cases h
    | waitFirst c =>
      simp only [] at h
      split at h
      · rw [lift _ (by intro e; cases e) h]; exact ht
      · cases h
    | timeout =>
      simp only [] at h
      split at h
      · rename_i hg
        intro _; exact hg.2
      · cases h
    | waitAll =>
      simp only [] at h
      split at h
      · rw [lift _ (by intro e; cases e) h]; exact ht
      · cases h
    | exit r =>
      simp only [] at h
      cases hin : s.interrupted with
      | none =>
        rw [hin] at h
        simp only [] at h
        cases hp : Pool.step P.k P.n s.pool (.exit r) with
        | none => rw [hp] at h; cases h
        | some p =>
          rw [hp] at h; cases h
          rw [show p.timedOut = s.pool.timedOut from pool_timedOut_frame _ _ _ _ _ (by intro e; cases e) hp]
          exact ht
      | some c =>
        rw [hin] at h
        simp only [] at h
        split at h
        · cases h; exact ht
        · cases h
    | interrupt c =>
      simp only [] at h
      split at h
      · cases h; exact ht
      · cases h
    | begin i =>
      simp only [] at h
      cases hp : Pool.step P.k P.n s.pool (.begin i) with
      | none => rw [hp] at h; cases h
      | some p =>
        rw [hp] at h
        simp only [] at h
        have hf : p.timedOut = s.pool.timedOut := pool_timedOut_frame _ _ _ _ _ (by intro e; cases e) hp
        split at h <;> (cases h; rw [show _ = s.pool.timedOut from hf]; exact ht)
    | stopCalled i =>
      simp only [] at h
      split at h
      · rw [lift _ (by intro e; cases e) h]; exact ht
      · cases h
    | finish i =>
      simp only [] at h
      have h1 : ∀ p1, (if (jobOut P (s.stop0 i) i).stopFlag = true then
            Pool.step P.k P.n s.pool (.stopCalled i) else some s.pool) = some p1 →
          p1.timedOut = s.pool.timedOut := by
        intro p1 hp1
        split at hp1
        · exact pool_timedOut_frame _ _ _ _ _ (by intro e; cases e) hp1
        · cases hp1; rfl
      cases hq : (if (jobOut P (s.stop0 i) i).stopFlag = true then
            Pool.step P.k P.n s.pool (.stopCalled i) else some s.pool) with
      | none => rw [hq] at h; cases h
      | some p1 =>
        rw [hq] at h
        simp only [] at h
        cases hp2 : Pool.step P.k P.n p1 (.finish i (resOf P.cls (jobOut P (s.stop0 i) i).raised)) with
        | none => rw [hp2] at h; cases h
        | some p2 =>
          rw [hp2] at h; cases h
          rw [show p2.timedOut = s.pool.timedOut from
            (pool_timedOut_frame _ _ _ _ _ (by intro e; cases e) hp2).trans (h1 p1 hq)]
          exact ht

/-- **timedOut_only_with_timeout** — the main thread sees "timeout elapsed" only if a timeout was given. -/
theorem timedOut_only_with_timeout (P : Params) (es : List Event) (s : State)
    (h : run P init es = some s) : s.pool.timedOut = true → P.timeout.isSome = true := by
  have key : ∀ (es : List Event) (s0 : State), (s0.pool.timedOut = true → P.timeout.isSome = true) →
      run P s0 es = some s → s.pool.timedOut = true → P.timeout.isSome = true := by
    intro es
    induction es with
    | nil => intro s0 h0 hr; simp only [run, Option.some.injEq] at hr; subst hr; exact h0
    | cons e es ih =>
      intro s0 h0 hr
      simp only [run] at hr
      cases hs : step P s0 e with
      | none => rw [hs] at hr; cases hr
      | some s1 => rw [hs] at hr; exact ih s1 (timed_step P s0 s1 e hs h0) hr
  exact key es init (by intro h0; cases h0) h

/-- **pool_exactly_n_without_timeout** — the accounting of `optimize(n_trials = m, n_jobs = k)` called
without a timeout: if it returns (not interrupted) and `study.stop()` was never called, exactly `m`
futures were submitted. -/
theorem pool_exactly_n_without_timeout (P : Params) (es : List Event) (s : State) (hj : P.joins = true)
    (hto : P.timeout = none) (h : run P init es = some s) (hx : s.done = some .ok)
    (hin : s.interrupted = none) (hs : s.pool.stop = false) (m : Nat) (hm : P.n = some m) :
    s.pool.submitted = m := by
  have ht : s.pool.timedOut = false := by
    cases hb : s.pool.timedOut with
    | false => rfl
    | true =>
      have := timedOut_only_with_timeout P es s h hb
      rw [hto] at this
      cases this
  exact ((pool_all_submitted_trials_terminal P es s .ok hj h hx).2.2.2.2.2.1 hin).2.2 rfl hs ht m hm

/-- **pool_no_trial_left_running** — the short form: when `optimize(n_jobs = k)` returns or raises
(for whatever reason), no trial is RUNNING in the storage. -/
theorem pool_no_trial_left_running (P : Params) (es : List Event) (s : State) (r : Pool.Res)
    (hj : P.joins = true) (h : run P init es = some s) (hx : s.done = some r) (t : Nat) (c : Cell) (hc : s.store t = some c) :
    c.row.state = .complete ∨ c.row.state = .pruned ∨ c.row.state = .fail := by
  have := ((pool_all_submitted_trials_terminal P es s r hj h hx).2.2.1 t c hc).2.2.2.1
  cases hs : c.row.state <;> rw [hs] at this <;> simp [TState.isFinished] at this ⊢

/-- **pool_complete_iff_feasible** — the well-formedness of `complete_iff_feasible`, for every trial of
a parallel `optimize`: a trial whose `ask` did not raise and that nobody else touched is COMPLETE
exactly when its objective returned feasible values, which are then the stored values. -/
theorem pool_complete_iff_feasible (P : Params) (es : List Event) (s : State) (r : Pool.Res)
    (hj : P.joins = true) (h : run P init es = some s) (hx : s.done = some r) (t : Nat) (c : Cell) (hc : s.store t = some c)
    (ha : (P.jobs c.owner).plan.askRaises = none) (hu : C02.Undisturbed (P.jobs c.owner).plan.script) :
    (c.row.state = .complete ↔
        ∃ v, (P.jobs c.owner).plan.script.out = .ret v ∧ C02.Feasible P.cfg.nObj v) ∧
    (∀ v es', (P.jobs c.owner).plan.script.out = .ret v → v.elems? = some es' → C02.Feasible P.cfg.nObj v →
        c.row.values = some (floats es') ∧ es' = (floats es').map Elem.ok ∧
        (floats es').length = P.cfg.nObj ∧ ∀ x ∈ floats es', x ≠ .nan) := by
  have h3 := ((pool_all_submitted_trials_terminal P es s r hj h hx).2.2.1 t c hc).2.2.1
  have : runPlan P.cfg (P.jobs c.owner).plan = runTrial P.cfg (P.jobs c.owner).plan.script := by
    unfold runPlan; rw [ha]
  rw [h3, this]
  exact C02.complete_iff_feasible P.cfg _ hu

/-- **pool_ask_raise_fails_trial** — a sampler that raises inside `study.ask()` in a worker: the row the
worker has just created is FAIL (no values) and the future raises that exception (so, by conjunct 5,
`optimize` raises). -/
theorem pool_ask_raise_fails_trial (P : Params) (es : List Event) (s : State) (r : Pool.Res)
    (hj : P.joins = true) (h : run P init es = some s) (hx : s.done = some r) (t : Nat) (c : Cell) (hc : s.store t = some c)
    (e : Nat) (ha : (P.jobs c.owner).plan.askRaises = some e) :
    c.row = { state := .fail } ∧ s.pool.ended c.owner = some (.raised (P.cls (.user e))) := by
  obtain ⟨hend, _, hrow, _⟩ := pool_all_submitted_trials_terminal P es s r hj h hx
  obtain ⟨hlt, htr, h3, _⟩ := hrow t c hc
  have hi := rinv_run P init s es (rinv_init P) h
  have hgo := (hi.w.trial_begun c.owner t htr).2
  have hro : runPlan P.cfg (P.jobs c.owner).plan = ⟨{ state := .fail }, some (.user e)⟩ := by
    unfold runPlan; rw [ha]
  refine ⟨by rw [h3, hro], ?_⟩
  rw [(hend c.owner hlt).2]
  have : (jobOut P (s.stop0 c.owner) c.owner).raised = some (.user e) := by
    unfold jobBreaks at hgo
    unfold jobOut
    simp [optimizeSeq, hgo, hro]
  rw [this]
  rfl

/-! ## non-vacuity: executions, rejected executions, a RUNNING row before the join -/

/-- two workers; future 0's objective returns 1.0 with two callbacks, future 1's raises an uncaught
exception; `cls` maps every exception to 7 -/
def demo : Params :=
  { cfg := ⟨1, fun _ => false⟩, k := 2, n := some 2, timeout := none, cls := fun _ => 7, joins := true,
    jobs := fun i =>
      if i = 0 then { plan := { script := { out := .ret (.scalar (.ok (.fin 1))) }, cbs := [{}, {}] } }
      else { plan := { script := { out := .exc (.user 3) }, cbs := [{}, {}] } } }

/-- a normal exceptional exit: the exception of future 1 is re-raised by the final drain -/
example : ∃ s, run demo init
    [.submit, .submit, .begin 1, .begin 0, .finish 1, .finish 0, .waitAll, .exit (.raised 7)] = some s ∧
    s.done = some (.raised 7) ∧ s.nTrials = 2 ∧
    (s.store 0).map (fun c => (c.owner, c.row.state)) = some (1, .fail) ∧
    (s.store 1).map (fun c => (c.owner, c.row.state, c.row.values)) = some (0, .complete, some [.fin 1]) ∧
    s.cbLog = [(1, 0), (1, 1)] := ⟨_, rfl, rfl, rfl, by decide, by decide, by decide⟩

/-- KeyboardInterrupt (class 9) in the main thread while both workers run: `__exit__` joins them -/
example : ∃ s, run demo init
    [.submit, .submit, .begin 0, .begin 1, .interrupt 9, .finish 0, .finish 1, .exit (.raised 9)] = some s ∧
    s.done = some (.raised 9) ∧
    (s.store 0).map (fun c => c.row.state) = some .complete ∧
    (s.store 1).map (fun c => c.row.state) = some .fail := ⟨_, rfl, rfl, by decide, by decide⟩

/-- … and `_optimize` cannot be left before the join (the modelled hypothesis): with future 1 still
running the interrupted exit is not an execution, … -/
example : run demo init
    [.submit, .submit, .begin 0, .begin 1, .interrupt 9, .finish 0, .exit (.raised 9)] = none := rfl

/-- **pool_join_hypothesis_needed** — the hypothesis `joins = true` cannot be dropped: if the executor
lets an interrupted `_optimize` go without joining (what CPython 3.12 does when the interrupt lands inside
`executor.submit`, see Model/PoolRun.lean), `optimize` raises with a trial RUNNING. -/
theorem pool_join_hypothesis_needed :
    ∃ s, run { demo with joins := false } init [.submit, .begin 0, .interrupt 9, .exit (.raised 9)] = some s ∧
      s.done = some (.raised 9) ∧ (s.store 0).map (fun c => c.row.state) = some .running :=
  ⟨_, rfl, rfl, by decide⟩

/-- … a *queued* future (submitted, not begun) is waited for as well, … -/
example : run demo init [.submit, .submit, .begin 0, .interrupt 9, .finish 0, .exit (.raised 9)] = none := rfl

/-- … no main-thread statement runs after the interrupt, and the exception that leaves is the interrupt's. -/
example : run demo init [.submit, .interrupt 9, .submit] = none := rfl
example : run demo init [.submit, .begin 0, .interrupt 9, .finish 0, .exit .ok] = none := rfl

/-- before the join a row *is* RUNNING (the theorem is about `done` states only, and is not vacuous) -/
example : ∃ s, run demo init [.submit, .submit, .begin 0, .begin 1, .finish 1] = some s ∧ s.done = none ∧
    (s.store 0).map (fun c => c.row.state) = some .running ∧
    (s.store 1).map (fun c => c.row.state) = some .fail := ⟨_, rfl, rfl, by decide, by decide⟩

/-- the main thread's timeout break: two of four trials submitted, nothing stopped, `optimize` returns;
without a timeout given the clock event is not enabled -/
example : ∃ s, run { demo with n := some 4, timeout := some 5, jobs := fun _ => {} } init
    [.submit, .submit, .begin 0, .begin 1, .finish 1, .finish 0, .timeout, .waitAll, .exit .ok] = some s ∧
    s.done = some .ok ∧ s.pool.submitted = 2 ∧ s.pool.stop = false ∧ s.pool.timedOut = true := ⟨_, rfl, rfl, rfl, rfl, rfl⟩
example : run { demo with n := some 4, jobs := fun _ => {} } init [.submit, .timeout] = none := rfl

/-- a future whose worker sees the stop flag at its loop head starts no trial -/
def demoStop : Params :=
  { cfg := ⟨1, fun _ => false⟩, k := 2, n := none, timeout := none, cls := fun _ => 7, joins := true,
    jobs := fun _ => { plan := { script := { out := .ret (.scalar (.ok (.fin 1))) }, stopInObj := true } } }

example : ∃ s, run demoStop init
    [.submit, .submit, .begin 0, .stopCalled 0, .begin 1, .finish 1, .finish 0, .waitAll, .exit .ok] = some s ∧
    s.done = some .ok ∧ s.nTrials = 1 ∧ s.trialOf 1 = none ∧ s.pool.stop = true := ⟨_, rfl, rfl, rfl, rfl, rfl⟩

end OptunaVerif.C02PoolRun
