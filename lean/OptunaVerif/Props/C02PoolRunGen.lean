import OptunaVerif.Props.C02Gen
import OptunaVerif.Props.C02PoolRun
/-!
# C02 (translator tie) — `pool_all_submitted_trials_terminal` for the functions as generated from the source

The job of a worker thread, `_optimize_sequential(study, func, 1, timeout, …)`, interpreted over the
statement IR regenerated from optuna/study/_optimize.py, study.py and _tell.py (`C02Gen.G`), *is* the
`jobOut` of `Model/PoolRun.lean` (`gen_job_eq`, from `C02Gen.gen_optimizeSeq_eq`); so the rows and the
future results of every finished parallel `optimize` are those of the generated code.  (The `n_jobs > 1`
branch of `_optimize` itself — the submit loop — is tied to the source by the pinned shape of
`Props/C02Shapes.lean` and by the traces the harness replays through `Pool.step`, not by an interpreter.)
-/
namespace OptunaVerif.C02PoolRunGen
open OptunaVerif OptunaVerif.Tell OptunaVerif.TellIR OptunaVerif.PoolRun
open OptunaVerif.C02Gen (G)

/-- **gen_job_eq**: the generated `_optimize_sequential` with `n_trials = 1`, started as the executor starts
it (`i_trial = 0`), callbacks given, is the job of the refined pool model. -/
theorem gen_job_eq (P : Params) (fl : SeqFlags) (hcb : fl.cbGiven = true) (st : Bool) (i : Nat) :
    G.optimizeSeq P.cfg fl (some 1) P.timeout [(P.jobs i).plan] 0 0 (P.jobs i).elapsed st =
      some (jobOut P st i) := by
  rw [C02Gen.gen_optimizeSeq_eq P.cfg fl (some 1) P.timeout [(P.jobs i).plan] 0 0 (P.jobs i).elapsed st
    (fun _ => rfl), hcb, C02Gen.map_stripCbs_true]
  rfl

/-- **gen_pool_all_submitted_trials_terminal**: in every finished execution of `optimize(n_jobs = k)`
(returned, raised a future's exception, or interrupted in the main thread), every submitted future ended
with the result of the *generated* `_optimize_sequential(n_trials=1)`, and every row of the storage holds
the record the *generated* `_run_trial` (over the generated `Study.ask` and `_tell_with_warning`) leaves,
which is COMPLETE, PRUNED or FAIL — whatever the heartbeat / queue / gc / progress-bar settings. -/
theorem gen_pool_all_submitted_trials_terminal (P : Params) (fl : SeqFlags) (hcb : fl.cbGiven = true)
    (es : List Event) (s : State) (r : Pool.Res) (hj : P.joins = true) (h : run P init es = some s) (hx : s.done = some r) :
    (∀ i, i < s.pool.submitted → ∃ o,
        G.optimizeSeq P.cfg fl (some 1) P.timeout [(P.jobs i).plan] 0 0 (P.jobs i).elapsed (s.stop0 i) = some o ∧
        s.pool.ended i = some (resOf P.cls o.raised)) ∧
    (∀ t c, s.store t = some c → ∃ ro,
        G.runPlan P.cfg fl.hb fl.popFound (P.jobs c.owner).plan = some ro ∧ c.row = ro.final ∧
        c.row.state.isFinished = true ∧ c.owner < s.pool.submitted) := by
  obtain ⟨hend, _, hrow, _⟩ := C02PoolRun.pool_all_submitted_trials_terminal P es s r hj h hx
  constructor
  · intro i hlt
    exact ⟨_, gen_job_eq P fl hcb (s.stop0 i) i, (hend i hlt).2⟩
  · intro t c hc
    obtain ⟨h1, _, h3, h4, _⟩ := hrow t c hc
    exact ⟨_, C02Gen.gen_runPlan_eq P.cfg fl.hb fl.popFound _, h3, h4, h1⟩

example : G.optimizeSeq C02PoolRun.demo.cfg {} (some 1) none [(C02PoolRun.demo.jobs 1).plan] 0 0 0 false =
    some (jobOut C02PoolRun.demo false 1) := gen_job_eq C02PoolRun.demo {} rfl false 1
example : (G.optimizeSeq C02PoolRun.demo.cfg {} (some 1) none [(C02PoolRun.demo.jobs 1).plan] 0 0 0 false).map
    (fun o => (o.trials.map (·.final.state), o.raised)) = some ([.fail], some (.user 3)) := by decide

end OptunaVerif.C02PoolRunGen
