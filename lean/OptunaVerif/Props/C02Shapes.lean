import OptunaVerif.Props.C02
import OptunaVerif.Generated.TellGen
/-!
# C02 — tie to the source text, part 1: the definitions regenerated from optuna/study/_tell.py, _optimize.py and
study.py by `verif/translators/tell_gen.py` coincide with the hand-written model the theorems of `Props/C02.lean` are
about.  A change of the source changes `Generated/TellGen.lean` and breaks the corresponding proof here.

(Formerly section 5 of `Props/C02.lean`; a module of its own so that a broken pinned shape does not keep
`Props/C02Gen.lean` — which imports `Props/C02` — from being elaborated.  Everything here except `gen_poolShape` is
subsumed by the function-by-function equalities of `Props/C02Gen.lean`.)
-/
namespace OptunaVerif.C02
open OptunaVerif OptunaVerif.Tell


/-- `_check_state_and_values` as translated from the source = the model's. -/
theorem gen_checkStateAndValues (s : Option TState) (b : Bool) :
    TellGen.checkStateAndValues s b = Tell.checkStateAndValues s b := by
  cases s with
  | none => cases b <;> rfl
  | some st => cases st <;> cases b <;> rfl

/-- The `except` clause of `_check_values_are_feasible` as read from the source (`except Exception`)
catches exactly the cast errors the model says it catches: all of them. -/
theorem gen_castCaught (e : CastExc) : TellGen.castCaught e = Tell.castCaught e := by
  cases e <;> first | decide | (simp only [TellGen.castCaught, Tell.castCaught]; decide)

/-- The loop checks each element for "casts" then "is NaN"; the count test follows the loop. -/
theorem gen_check_order : TellGen.elemChecks = ["cast", "nan"] ∧ TellGen.afterLoop = ["count"] := by
  decide

/-- The `elif state is None:` branch as translated from the source decides state / "values kept"
exactly as the model's `decideState`. -/
theorem gen_noneBranch (nObj : Nat) (r : Rec) (o : Option (List Elem)) :
    match decideState nObj r none o with
    | .go st vals _ =>
        TellGen.noneBranch o.isNone (match o with
          | none => false
          | some vs => checkValuesFeasible nObj vs == .feasible) = (some st.toState, vals.isSome)
    | .raise _ => True := by
  cases o with
  | none => simp [decideState, TellGen.noneBranch, FinState.toState]
  | some vs =>
    simp only [decideState]
    cases h : checkValuesFeasible nObj vs <;> simp [TellGen.noneBranch, FinState.toState]

/-- The trial is stored in the `finally:` of the try that runs the sampler's post-processing. -/
theorem gen_postShape :
    TellGen.postShape = ["try:filter_study", "try:after_trial", "finally:set_trial_state_values"] := by
  decide

/-- `_run_trial` as the model `runTrial`/`afterTell` hard-wires it: TrialPruned ↦ PRUNED before the
general clause, (Exception, KeyboardInterrupt) ↦ FAIL, `except Exception` re-reads the trial and
re-raises, a `finally:` follows, and `func_err` is re-raised iff the trial is FAIL, there is an error and
it is not an instance of `catch`. -/
theorem gen_runTrialShape : TellGen.runTrialShape =
    ["objective-except:exceptions.TrialPruned->TrialState.PRUNED",
     "objective-except:(Exception, KeyboardInterrupt)->TrialState.FAIL",
     "objective-try:else=0,finally=0",
     "tell-except:Exception:frozen_trial = study._storage.get_trial(trial._trial_id);raise",
     "tell-try:else=0,finally=1",
     "final-raise-if:frozen_trial.state == TrialState.FAIL and func_err is not None and (not isinstance(func_err, catch))",
     "final-raise-body:raise func_err"] := by
  rfl

/-- The `while True:` loop of `_optimize_sequential` as `optimizeSeq`/`loopBreaks` hard-wire it: the
three break tests, `_run_trial` alone inside the try (whose `finally` only collects garbage), then the
callback loop, outside every `try`. -/
theorem gen_seqLoopShape : TellGen.seqLoopShape =
    ["break-if-stop", "n_trials:if i_trial >= n_trials: break i_trial += 1",
     "timeout:elapsed_seconds >= timeout",
     "try[frozen_trial = _run_trial(study, func, catch)]except[0]finally[gc]",
     "callbacks:for callback in callbacks: callback(study, frozen_trial)", "progress"] := by
  rfl

/-- `Study.ask` as `runPlan` hard-wires it: once the trial exists (popped from the queue or created),
everything that can raise — `Trial(...)` (sampler.before_trial, relative search space and sample) and the
fixed suggests — runs inside a `try` whose handler for `(Exception, KeyboardInterrupt)` sets the trial to
FAIL and re-raises (repaired defect F21). -/
theorem gen_askShape : TellGen.askShape =
    ["pop", "create:trial_id = self._storage.create_new_trial(self._study_id)",
     "try[trial = optuna.Trial(self, trial_id);for name, param in fixed_distributions.items(): trial._suggest(name, param)]else=0,finally=0",
     "except:(Exception, KeyboardInterrupt):try[self._storage.set_trial_state_values(trial_id, TrialState.FAIL)]except[Exception:pass];raise",
     "return:trial"] := by
  rfl

/-- The thread-pool branch of `_optimize` as `Pool.step` hard-wires it: break tests, wait for the
first completed future and `.result()` every completed one when `n_jobs` are in flight, submit
`_optimize_sequential(n_trials=1)`, and after the loop wait for and `.result()` every remaining
future. -/
theorem gen_poolShape : TellGen.poolShape =
    ["loop:if study._stop_flag: break",
     "loop:if (datetime.datetime.now() - time_start).total_seconds() > timeout: break",
     "loop:if n_submitted_trials >= n_trials: break",
     "loop:if len(futures) >= n_jobs: completed, futures = wait(futures, return_when=FIRST_COMPLETED) for f in completed: f.result()",
     "loop:submit(_optimize_sequential,study,func,1)",
     "after-loop:for f in wait(futures).done: f.result()"] := by
  rfl


end OptunaVerif.C02
