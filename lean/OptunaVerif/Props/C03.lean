import OptunaVerif.Lemmas.Conc
import OptunaVerif.Props.C01
import OptunaVerif.Generated.LockTable
import OptunaVerif.Props.C06
/-!
# C03 — concurrent use of one study is linearizable (partial: see DESIGN.md §3 C03)

`lock_atomicity`: for code in which every call touches the shared state only inside one critical
section of one lock — preempted between any two micro-steps, by any number of threads, under any
schedule — the execution equals the sequential execution of the calls in completion order.  The
hypothesis on the code is the generated table `Generated.LockTable` (regenerated from /repo by
`verif/translators/tlock.py` on every run), discharged by `decide` below.
What this cannot exhibit: switch points inside C extensions, SQLite's own locking, gRPC server
threads — those are sampled by the deterministic scheduler in `verif/props/c03.py`.
-/
namespace OptunaVerif.C03
open OptunaVerif OptunaVerif.Conc OptunaVerif.Storage

variable {σ L ρ : Type} [DecidableEq ρ]

/-- **lock_atomicity** (every schedule, every number of threads and calls, every decomposition of
the bodies into micro-steps): the invariant `Conc.Inv` holds in every reachable state. -/
theorem lock_atomicity (s0 : σ) (progs : List (List (Call σ L ρ))) (sched : List Nat) :
    Inv s0 progs (exec (initSys s0 progs) sched) := by
  suffices ∀ sys, Inv s0 progs sys → Inv s0 progs (exec sys sched) from this _ (inv_init s0 progs)
  induction sched with
  | nil => intro sys h; exact h
  | cons t rest ih => intro sys h; exact ih _ (inv_step s0 progs sys t h)

/-- Mutual exclusion: never two threads inside a critical section. -/
theorem mutual_exclusion (s0 : σ) (progs : List (List (Call σ L ρ))) (sched : List Nat)
    (t t' : Nat) (th th' : Thread σ L ρ)
    (h : (exec (initSys s0 progs) sched).threads[t]? = some th)
    (h' : (exec (initSys s0 progs) sched).threads[t']? = some th')
    (hc : th.cs.isSome = true) (hc' : th'.cs.isSome = true) : t = t' := by
  obtain ⟨_, _, _, hcs⟩ := lock_atomicity s0 progs sched
  cases hk : th.cs with
  | none => simp [hk] at hc
  | some kl =>
    obtain ⟨k, l⟩ := kl
    by_cases e : t' = t
    · exact e.symm
    · have := (hcs t th k l h hk).2 t' th' e h'
      simp [this] at hc'

/-- **Linearizability of a completed run**: when every thread has finished, the final shared state
and every returned value are those of the calls executed one at a time in completion order (which
extends each thread's program order, and real-time order since a call completes inside its own
invoke/return interval). -/
theorem completed_run_is_sequential (s0 : σ) (progs : List (List (Call σ L ρ))) (sched : List Nat)
    (hdone : ∀ (t : Nat) (th : Thread σ L ρ), (exec (initSys s0 progs) sched).threads[t]? = some th →
      th.todo = [] ∧ th.cs = none) :
    ∃ rem, seqRun progs (exec (initSys s0 progs) sched).hist s0 =
        some ((exec (initSys s0 progs) sched).shared, rem) ∧ ∀ p ∈ rem, p = [] := by
  obtain ⟨σseq, hseq, hfree, _⟩ := lock_atomicity s0 progs sched
  have hsh := hfree (fun t th h => (hdone t th h).2)
  refine ⟨_, by rw [hseq, hsh], ?_⟩
  intro p hp
  simp only [List.mem_map] at hp
  obtain ⟨th, hth, rfl⟩ := hp
  obtain ⟨t, ht⟩ := List.getElem?_of_mem hth
  exact (hdone t th ht).1

/-! ## instantiation: storage calls -/

/-- A call body implements the storage operation `op` (whatever its decomposition into lines). -/
def Implements (c : Call Spec L Out) (op : Op) : Prop := ∀ s, c.run s = step s op

/-- Sequential replay of storage calls preserves the numbering invariant of C01, hence — by
`lock_atomicity` — so does every concurrent execution of lock-structured storage code: trial
numbers stay unique and gap-free under any interleaving. -/
theorem seqRun_numbered (progs : List (List (Call Spec L Out))) (hist : List (Nat × Out)) (s s' : Spec)
    (rem : List (List (Call Spec L Out)))
    (himpl : ∀ p ∈ progs, ∀ c ∈ p, ∃ op, Implements c op)
    (hn : C01.Numbered s) (h : seqRun progs hist s = some (s', rem)) : C01.Numbered s' := by
  induction hist generalizing progs s with
  | nil => simp only [seqRun, Option.some.injEq, Prod.mk.injEq] at h; rw [← h.1]; exact hn
  | cons a hist ih =>
    obtain ⟨t, r⟩ := a
    simp only [seqRun] at h
    split at h
    · rename_i c cs hget
      split at h
      · have hmem : (c :: cs) ∈ progs := List.mem_of_getElem? hget
        obtain ⟨op, hop⟩ := himpl _ hmem c (by simp)
        have hrun : (c.run s).1 = (step s op).1 := by rw [hop s]
        refine ih (updAt progs t (fun _ => cs)) (c.run s).1 ?_ (by rw [hrun]; exact C01.numbered_step s op hn) h
        intro p hp c' hc'
        obtain ⟨i, hi⟩ := List.getElem?_of_mem hp
        rw [updAt_getElem?] at hi
        split at hi
        · rename_i hit
          subst hit
          rw [hget] at hi
          simp only [Option.map_some, Option.some.injEq] at hi
          subst hi
          exact himpl _ hmem c' (by simp [hc'])
        · exact himpl p (List.mem_of_getElem? hi) c' hc'
      · simp at h
    · simp at h

theorem concurrent_numbers_dense (progs : List (List (Call Spec L Out))) (sched : List Nat) (s0 : Spec)
    (himpl : ∀ p ∈ progs, ∀ c ∈ p, ∃ op, Implements c op) (hn : C01.Numbered s0)
    (hdone : ∀ (t : Nat) (th : Thread Spec L Out), (exec (initSys s0 progs) sched).threads[t]? = some th →
      th.todo = [] ∧ th.cs = none) :
    C01.Numbered (exec (initSys s0 progs) sched).shared := by
  obtain ⟨rem, hseq, _⟩ := completed_run_is_sequential s0 progs sched hdone
  exact seqRun_numbered progs _ s0 _ rem himpl hn hseq

/-! ## the journal: the log order is the linearization order -/

namespace JournalLin
open OptunaVerif.Journal

/-- replaying records issued by other workers never raises here -/
theorem applyLogs_foreign (w : String) (st : JState) (post : List Rec)
    (h : ∀ x ∈ post, (x.worker == w) = false) : applyLogs w st post = (applyAll w st post, none) := by
  induction post generalizing st with
  | nil => rfl
  | cons r rs ih =>
    have he := (apply_spec w { st with cursor := st.cursor + 1 } r).2
    rw [h r (by simp)] at he
    simp only [Bool.false_eq_true, if_false] at he
    simp only [applyLogs]
    split
    · rename_i st' e heq
      rw [heq] at he; simp at he
    · rename_i st' heq
      have : (apply w { st with cursor := st.cursor + 1 } r).1 = st' := by rw [heq]
      rw [ih st' (fun x hx => h x (by simp [hx]))]
      show (applyAll w st' rs, none) = (applyAll w (apply w { st with cursor := st.cursor + 1 } r).1 rs, none)
      rw [this]

/-- **journal_log_linearizes**: a `JournalStorage` call appends one record `r` (atomically: C07) and
then syncs; whatever other workers appended between the append and the read (`post`), the call's
outcome — the error raised, the id returned by `create_new_trial`, the answer of a claim — is the
outcome of applying `r` alone to the state of the log prefix before it, and the replica ends at the
replay of the whole prefix read.  So every call takes effect at the position of its own record: the
log order is a linearization, and it respects real time because the record is appended inside the
call's invoke/return interval. -/
theorem journal_log_linearizes (w : String) (st : JState) (r : Rec) (post : List Rec)
    (hpost : ∀ x ∈ post, (x.worker == w) = false) :
    (applyLogs w st (r :: post)).2 = (apply w { st with cursor := st.cursor + 1 } r).2 ∧
    ((apply w { st with cursor := st.cursor + 1 } r).2 = none →
      (applyLogs w st (r :: post)).1.owned.get? w = (apply w { st with cursor := st.cursor + 1 } r).1.owned.get? w ∧
      (applyLogs w st (r :: post)).1.lastCreated = (apply w { st with cursor := st.cursor + 1 } r).1.lastCreated ∧
      (applyLogs w st (r :: post)).1.spec = C06.pubReplay (apply w { st with cursor := st.cursor + 1 } r).1.spec post) := by
  simp only [applyLogs]
  split
  · rename_i st' e heq
    refine ⟨by rw [heq], ?_⟩
    intro h; rw [heq] at h; simp at h
  · rename_i st' heq
    have hst : (apply w { st with cursor := st.cursor + 1 } r).1 = st' := by rw [heq]
    rw [applyLogs_foreign w st' post hpost]
    refine ⟨by rw [heq], ?_⟩
    intro _
    have hl := applyAll_foreign_local w st' post hpost
    rw [hst]
    exact ⟨hl.1, hl.2, (C06.applyAll_pub w st' post).1⟩

end JournalLin

/-! ## the hypothesis on the code, from the generated table -/
open Generated.LockTable in
/-- Every public method of `InMemoryStorage` runs inside `with self._lock:` (return of a local aside). -/
theorem inMemory_all_locked :
    ∀ m ∈ Generated.LockTable.inMemory, m.2 = Shape.whole ∨ m.2 = Shape.preludeThenLocked := by decide

open Generated.LockTable in
/-- Every public method of `JournalStorage` builds its record from its arguments only and then does
append + sync + result computation inside `with self._thread_lock:`. -/
theorem journal_all_locked :
    ∀ m ∈ Generated.LockTable.journal, m.2 = Shape.whole ∨ m.2 = Shape.preludeThenLocked := by decide

open Generated.LockTable in
/-- The gRPC client cache reads and updates its cache under one lock. -/
theorem grpcClientCache_all_locked :
    ∀ m ∈ Generated.LockTable.grpcClientCache, m.2 = Shape.whole ∨ m.2 = Shape.preludeThenLocked := by decide

open Generated.LockTable in
/-- `_CachedStorage`: writes pass straight through to the backend (whose own atomicity applies); no
method mixes unlocked cache access with a pass-through (`other` = the lock-protected two-section
reads whose correctness is C08's invariant). -/
theorem cached_writes_pass_through :
    ∀ m ∈ Generated.LockTable.cached,
      m.1 ∈ ["set_trial_param", "set_trial_state_values", "set_trial_intermediate_value",
              "set_trial_user_attr", "set_trial_system_attr", "set_study_user_attr",
              "set_study_system_attr"] → m.2 = Shape.passthrough := by decide

/-! ## non-vacuity: two threads, two-line bodies, a schedule that interleaves them -/

def incr : Call Nat Nat Nat :=
  { n := 2, init := 0, result := id,
    micro := fun k p => if k = 0 then (p.1, p.1) else (p.2 + 1, p.2 + 1) }  -- read; write back +1

example : (exec (initSys 0 [[incr, incr], [incr]]) [0, 1, 0, 1, 0, 0, 1, 1, 1, 1, 0, 0, 0, 0, 1, 1]).shared = 3 := by
  decide
example : (exec (initSys 0 [[incr, incr], [incr]]) [0, 1, 0, 1, 0, 0, 1, 1, 1, 1, 0, 0, 0, 0, 1, 1]).hist.length = 3 := by
  decide

end OptunaVerif.C03
