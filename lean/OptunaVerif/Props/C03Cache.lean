import OptunaVerif.Props.C08
/-!
# C03 — `cached_reads_linearize`: a read through `_CachedStorage` returns a state the backend held at
an instant inside the call

`_CachedStorage.get_all_trials(study_id, states)` (optuna/storages/_cached_storage.py) is

    self._read_trials_from_remote_storage(study_id)      # with self._lock:  touch the entry;
                                                         #   trials = backend._get_trials(unfinished ∪ id > watermark);
                                                         #   fold them into the cache
    with self._lock:                                     # filter the dict by state, sort by number, copy
        ...

Concurrent step relation (`Step`): the reading thread moves through `lock1; fetch; fold; unlock1;
lock2; ret` (the two critical sections of the code, the first split at its backend call); between
**any** two of these micro-steps — also while the cache lock is held, which is a lock of this client
object only — any number of backend calls of other clients, processes and threads may happen
(`env op`, any `Op` of the storage contract, any number of writers: the backend step does not depend
on who makes it).  Other threads of the *same* `_CachedStorage` object run their critical sections
(`peer x`, the sections of `C08.Section`) only while the lock is free.

**Assumption on the backend read** (stated, not proved): `backend._get_trials(...)` is ONE atomic
snapshot read — `fetch` evaluates `fetchRdb` on the backend state of one instant.  On SQLite this is
exactly finding F16's caveat (the getter is several SELECTs without a snapshot; a concurrent writer
can tear it); on a backend with snapshot reads it holds.

`cached_reads_linearize`: for every state filter, every interleaving and any number of other
writers, if no other thread of the same client object runs a critical section between the reader's
two sections, the returned value is exactly what the backend itself would have answered to
`get_all_trials(study_id, states)` at the instant of the backend read — which lies inside the call
(after `lock1`, before `ret`).  The linearization point of a cached read is its backend read.
`cached_reads_linearize_with_peers` allows other threads of the same object in that window as long
as their sections are `HarmlessFor sid` (any `_read_trials_from_remote_storage`, the name/directions
memo sections, `create_new_trial` / `delete_study` sections of *other* studies): then the answer is
the backend's at the reader's backend read or at a later peer sync of the same study in the window —
again an instant inside the call.
`peer_create_in_window_not_linearizable_witness` shows that the remaining hypothesis is needed
(C08's narrow race, restated in the step relation): with a peer `create_new_trial` section *of the
same study* in the window the answer is a list the backend never held during the call.
-/
namespace OptunaVerif.C03Cache
open OptunaVerif OptunaVerif.Storage OptunaVerif.C01 OptunaVerif.Cache OptunaVerif.C08

/-! ## the first critical section, split at its backend call -/

/-- `if study_id not in self._studies: self._studies[study_id] = _StudyInfo()` -/
def touch (c : Client) (sid : Nat) : Client := { c with studies := upsert c.studies sid id }

/-- the backend read, on the backend state `s` of one instant -/
def fetchOf (s : Spec) (c : Client) (sid : Nat) : Except Err (List (Nat × TrialS)) :=
  fetchRdb s sid (entryD c.studies sid).unfinished (entryD c.studies sid).watermark

/-- `_add_trials_to_cache` + the watermark / unfinished-set loop -/
def foldIn (c0 : Client) (sid : Nat) (l : List (Nat × TrialS)) : Client :=
  let c1 := l.foldl (Client.addOne sid) c0
  { c1 with studies := upsert c1.studies sid (fun e => l.foldl Entry.noteState e) }

/-- the three pieces compose to `Client.sync` of `Model/Cache.lean` (the section as C08 uses it) -/
theorem sync_split (s : Spec) (c : Client) (sid : Nat) :
    c.sync s sid =
      match fetchOf s (touch c sid) sid with
      | .error err => (touch c sid, some err)
      | .ok l => (foldIn (touch c sid) sid l, none) := by
  unfold Client.sync fetchOf touch foldIn
  rfl

/-! ## the step relation -/

/-- where the reading thread is -/
inductive PC where
  /-- the call has not begun -/
  | idle
  /-- inside `with self._lock:` of `_read_trials_from_remote_storage` -/
  | locked
  /-- `self._backend._get_trials(...)` has returned (a list, or `KeyError`); the lock is still held -/
  | fetched (r : Except Err (List (Nat × TrialS)))
  /-- the cache has been updated; the lock is still held -/
  | folded
  /-- the lock has been released; `get_all_trials` has not re-acquired it yet -/
  | between
  /-- inside the second `with self._lock:` -/
  | locked2
  /-- returned (a list) or raised -/
  | done (out : Out)

structure St where
  backend : Spec
  /-- the cache of the reader's `_CachedStorage` object -/
  cache : Client
  pc : PC
  /-- ghost: the backend state at the instant of the reader's backend read -/
  lin : Option Spec

inductive Label where
  /-- a backend call by anybody else: another client / process / raw writer, or the unlocked backend
      call of another thread of this client -/
  | env (op : Op)
  /-- a critical section of another thread of the same `_CachedStorage` object -/
  | peer (x : Section)
  | lock1 | fetch | fold | unlock1 | lock2 | ret

def isCacheSection : Section → Bool
  | .backend _ => false
  | _ => true

/-- ghost bookkeeping for a peer section in the window: a successful sync of the same study by
another thread brings the entry up to date with the backend of *that* instant -/
def linAfterPeer (sid : Nat) (σ : St) : Section → Option Spec
  | .sync sid' => if sid' = sid ∧ (σ.cache.sync σ.backend sid).2 = none then some σ.backend else σ.lin
  | _ => σ.lin

/-- One step of the system while one thread executes `get_all_trials(sid, states)` through the cache.
`W x`: the peer section `x` may run in the window between the reader's two critical sections. -/
inductive Step (sid : Nat) (states : Option (List TState)) (W : Section → Prop) : St → Label → St → Prop
  | env (σ : St) (op : Op) :
      Step sid states W σ (.env op) { σ with backend := (step σ.backend op).1 }
  | peerOut (σ : St) (x : Section) (hpc : σ.pc = .idle ∨ ∃ o, σ.pc = .done o)
      (hc : isCacheSection x = true) (hx : x.enabled σ.backend) :
      Step sid states W σ (.peer x) { σ with cache := (x.run σ.backend σ.cache).2 }
  | peerIn (σ : St) (x : Section) (hpc : σ.pc = .between) (hw : W x)
      (hc : isCacheSection x = true) (hx : x.enabled σ.backend) :
      Step sid states W σ (.peer x) { σ with cache := (x.run σ.backend σ.cache).2, lin := linAfterPeer sid σ x }
  | lock1 (σ : St) (hpc : σ.pc = .idle) : Step sid states W σ .lock1 { σ with pc := .locked }
  | fetch (σ : St) (hpc : σ.pc = .locked) :
      Step sid states W σ .fetch
        { σ with cache := touch σ.cache sid,
                 pc := .fetched (fetchOf σ.backend (touch σ.cache sid) sid),
                 lin := some σ.backend }
  | foldOk (σ : St) (l : List (Nat × TrialS)) (hpc : σ.pc = .fetched (.ok l)) :
      Step sid states W σ .fold { σ with cache := foldIn σ.cache sid l, pc := .folded }
  /-- `KeyError` from the backend leaves the `with` block: the lock is released, the call raises -/
  | foldErr (σ : St) (e : Err) (hpc : σ.pc = .fetched (.error e)) :
      Step sid states W σ .fold { σ with pc := .done (.err e) }
  | unlock1 (σ : St) (hpc : σ.pc = .folded) : Step sid states W σ .unlock1 { σ with pc := .between }
  | lock2 (σ : St) (hpc : σ.pc = .between) : Step sid states W σ .lock2 { σ with pc := .locked2 }
  | ret (σ : St) (hpc : σ.pc = .locked2) :
      Step sid states W σ .ret
        { σ with pc := .done (.trials ((entryD σ.cache.studies sid).readAll states)) }

/-- finite runs, extended at the end (time goes left to right in the label list) -/
inductive Run (sid : Nat) (states : Option (List TState)) (W : Section → Prop) (σ0 : St) : List Label → St → Prop
  | nil : Run sid states W σ0 [] σ0
  | snoc {tr : List Label} {σ σ' : St} {l : Label} :
      Run sid states W σ0 tr σ → Step sid states W σ l σ' → Run sid states W σ0 (tr ++ [l]) σ'

/-- no other thread of the same client object between the reader's two critical sections -/
def NoPeerInWindow : Section → Prop := fun _ => False

/-- peer sections that may run between the reader's two critical sections without harm: every sync,
the memo sections, and the `create_new_trial` / `delete_study` sections of other studies -/
def HarmlessFor (sid : Nat) : Section → Prop
  | .sync _ => True
  | .memoName _ _ => True
  | .memoDirs _ _ => True
  | .noteCreated sid' _ => sid' ≠ sid
  | .dropStudy sid' => sid' ≠ sid
  | .backend _ => False

/-! ## reachability of backend states -/

def Reach (a b : Spec) : Prop := ∃ ops, b = after a ops

theorem reach_refl (a : Spec) : Reach a a := ⟨[], rfl⟩

theorem reach_step (a b : Spec) (op : Op) (h : Reach a b) : Reach a (step b op).1 := by
  obtain ⟨ops, rfl⟩ := h
  exact ⟨ops ++ [op], by simp [after, List.foldl_append]⟩

theorem inv_reach (a b : Spec) (c : Client) (h : Reach a b) (hi : Inv a c) : Inv b c := by
  obtain ⟨ops, rfl⟩ := h
  exact cache_covers_backend_steps a ops c hi

theorem wf_reach (a b : Spec) (h : Reach a b) (hw : Wf a) : Wf b := by
  obtain ⟨ops, rfl⟩ := h
  induction ops generalizing a with
  | nil => exact hw
  | cons op ops ih => exact ih _ (wf_step a op hw)

/-! ## the invariant of a run -/

/-- the cached entry of `sid` answers every filtered read exactly like the backend state `sf` -/
def Ans (sid : Nat) (c : Client) (sf : Spec) : Prop :=
  (sf.study? sid).isSome = true ∧
    ∀ st' : Option (List TState),
      (entryD c.studies sid).readAll st' = (sf.trialsOf sid).filter (fun p => stateIn st' p.2.state)

theorem ans_of_sync_ok (sid : Nat) (sf : Spec) (c0 c' : Client) (hW : Wf sf) (hI : Inv sf c0)
    (hs : c0.sync sf sid = (c', none)) : Ans sid c' sf := by
  obtain ⟨hlive, hinv, hfresh, _⟩ := sync_ok sf hW.numbered c0 sid c' hI hs
  exact ⟨hlive, fun st' =>
    readAll_of_allFresh sf hW.numbered sid _ (entryInv_entryD sf c' hinv sid).toEntryCore hfresh st'⟩

theorem ans_congr (sid : Nat) (c c' : Client) (sf : Spec)
    (h : (entryD c'.studies sid).trials = (entryD c.studies sid).trials) (ha : Ans sid c sf) : Ans sid c' sf := by
  refine ⟨ha.1, fun st' => ?_⟩
  have := ha.2 st'
  unfold Entry.readAll at this ⊢
  rw [h]; exact this

theorem ans_of_find_eq (sid : Nat) (c c' : Client) (sf : Spec)
    (h : find c'.studies sid = find c.studies sid) (ha : Ans sid c sf) : Ans sid c' sf :=
  ans_congr sid c c' sf (by unfold entryD; rw [h]) ha

theorem answer_of_ans (sid : Nat) (states : Option (List TState)) (c : Client) (sf : Spec) (ha : Ans sid c sf) :
    Out.trials ((entryD c.studies sid).readAll states) = (step sf (.getAllTrials sid states)).2 := by
  obtain ⟨hlive, hall⟩ := ha
  obtain ⟨st, hst⟩ := Option.isSome_iff_exists.1 hlive
  simp only [step, hst, hall states]

theorem answer_of_sync_err (sid : Nat) (states : Option (List TState)) (sf : Spec) (c0 c' : Client) (e : Err)
    (hW : Wf sf) (hI : Inv sf c0) (hs : c0.sync sf sid = (c', some e)) :
    Out.err e = (step sf (.getAllTrials sid states)).2 := by
  have := sync_then_equal sf hW c0 sid hI states
  simp only [callCached, hs] at this
  exact this

/-- what is known at each program point of the reader -/
def PcInv (sid : Nat) (states : Option (List TState)) (σ : St) : Prop :=
  match σ.pc with
  | .idle => σ.lin = none
  | .locked => σ.lin = none
  | .fetched r =>
    ∃ sf c0, σ.lin = some sf ∧ Wf sf ∧ Inv sf c0 ∧ Reach sf σ.backend ∧ σ.cache = touch c0 sid ∧
      r = fetchOf sf (touch c0 sid) sid
  | .folded | .between | .locked2 => ∃ sf, σ.lin = some sf ∧ Ans sid σ.cache sf
  | .done out => ∃ sf, σ.lin = some sf ∧ out = (step sf (.getAllTrials sid states)).2

structure J (sid : Nat) (states : Option (List TState)) (σ : St) : Prop where
  wf : Wf σ.backend
  inv : Inv σ.backend σ.cache
  pcinv : PcInv sid states σ

theorem foldl_dropStep_studies (sid : Nat) (kvs : List (Nat × (Nat × TrialS))) (c : Client) :
    (kvs.foldl (dropStep sid) c).studies = c.studies := by
  induction kvs generalizing c with
  | nil => rfl
  | cons kv r ih => simp only [List.foldl_cons]; rw [ih]; rfl

/-- a harmless peer section leaves the entry of `sid` answering as before — or, if it is a
successful sync of `sid`, makes it answer like the backend of this very instant, which is what the
ghost field then records -/
theorem harmless_peer (sid : Nat) (σ : St) (x : Section) (hW : Wf σ.backend) (hI : Inv σ.backend σ.cache)
    (hh : HarmlessFor sid x) (sf : Spec) (h1 : σ.lin = some sf) (h2 : Ans sid σ.cache sf) :
    ∃ sf', linAfterPeer sid σ x = some sf' ∧ Ans sid (x.run σ.backend σ.cache).2 sf' := by
  cases x with
  | backend op => exact absurd hh (by simp [HarmlessFor])
  | sync sid' =>
    simp only [Section.run]
    by_cases hs : sid' = sid
    · subst hs
      cases hres : σ.cache.sync σ.backend sid' with
      | mk c' r =>
        cases r with
        | none =>
          exact ⟨σ.backend, by simp [linAfterPeer, hres], ans_of_sync_ok sid' σ.backend σ.cache c' hW hI hres⟩
        | some e =>
          refine ⟨sf, by simp [linAfterPeer, hres, h1], ans_congr sid' σ.cache c' sf ?_ h2⟩
          have hsp := sync_split σ.backend σ.cache sid'
          rw [hres] at hsp
          split at hsp
          · simp only [Prod.mk.injEq] at hsp
            rw [hsp.1]
            simp only [touch, entryD_upsert_id]
          · simp at hsp
    · have hne : sid ≠ sid' := fun e => hs e.symm
      refine ⟨sf, by simp [linAfterPeer, hs, h1], ans_of_find_eq sid σ.cache _ sf ?_ h2⟩
      cases hres : σ.cache.sync σ.backend sid' with
      | mk c' r =>
        cases r with
        | none => exact (sync_ok σ.backend hW.numbered σ.cache sid' c' hI hres).2.2.2 sid hne
        | some e =>
          have hsp := sync_split σ.backend σ.cache sid'
          rw [hres] at hsp
          split at hsp
          · simp only [Prod.mk.injEq] at hsp
            rw [hsp.1]
            simp [touch, find_upsert, hne]
          · simp at hsp
  | noteCreated sid' p =>
    have hne : sid ≠ sid' := fun e => hh e.symm
    refine ⟨sf, h1, ans_of_find_eq sid σ.cache _ sf ?_ h2⟩
    simp only [Section.run, noteCreated_entry, hne, if_false]
  | dropStudy sid' =>
    have hne : sid ≠ sid' := fun e => hh e.symm
    refine ⟨sf, h1, ans_of_find_eq sid σ.cache _ sf ?_ h2⟩
    simp only [Section.run]
    rw [dropStudy_eq]
    cases he : find σ.cache.studies sid' with
    | none => rfl
    | some e => simp only [find_erase, hne, if_false, foldl_dropStep_studies]
  | memoName sid' nm =>
    refine ⟨sf, h1, ans_congr sid σ.cache _ sf ?_ h2⟩
    simp only [Section.run]
    by_cases hs : sid = sid'
    · subst hs; simp only [entryD_upsert_same]
    · unfold entryD; simp [find_upsert, hs]
  | memoDirs sid' d =>
    refine ⟨sf, h1, ans_congr sid σ.cache _ sf ?_ h2⟩
    simp only [Section.run]
    by_cases hs : sid = sid'
    · subst hs; simp only [entryD_upsert_same]
    · unfold entryD; simp [find_upsert, hs]

/-- **every step keeps the invariant**, peer sections in the window being harmless ones -/
theorem step_keeps_J (sid : Nat) (states : Option (List TState)) (W : Section → Prop)
    (hWh : ∀ x, W x → HarmlessFor sid x) (σ σ' : St) (l : Label)
    (h : J sid states σ) (hs : Step sid states W σ l σ') : J sid states σ' := by
  obtain ⟨hW, hI, hP⟩ := h
  cases hs with
  | env op =>
    refine ⟨wf_step _ op hW, inv_step _ op _ hI, ?_⟩
    unfold PcInv at hP ⊢
    cases hpc : σ.pc with
    | fetched r =>
      simp only [hpc] at hP ⊢
      obtain ⟨sf, c0, h1, h2, h3, h4, h5, h6⟩ := hP
      exact ⟨sf, c0, h1, h2, h3, reach_step _ _ op h4, h5, h6⟩
    | idle => simpa [hpc] using hP
    | locked => simpa [hpc] using hP
    | folded => simpa [hpc] using hP
    | between => simpa [hpc] using hP
    | locked2 => simpa [hpc] using hP
    | done out => simpa [hpc] using hP
  | peerOut x hpc hc hx =>
    obtain ⟨k1, k2⟩ := every_section_keeps_inv σ.backend hW σ.cache hI x hx
    have hb : (x.run σ.backend σ.cache).1 = σ.backend := by
      cases x <;> first | rfl | (simp [isCacheSection] at hc)
    rw [hb] at k2
    refine ⟨hW, k2, ?_⟩
    unfold PcInv at hP ⊢
    rcases hpc with hpc | ⟨o, hpc⟩
    · simpa [hpc] using hP
    · simpa [hpc] using hP
  | peerIn x hpc hw hc hx =>
    obtain ⟨k1, k2⟩ := every_section_keeps_inv σ.backend hW σ.cache hI x hx
    have hb : (x.run σ.backend σ.cache).1 = σ.backend := by
      cases x <;> first | rfl | (simp [isCacheSection] at hc)
    rw [hb] at k2
    refine ⟨hW, k2, ?_⟩
    unfold PcInv at hP ⊢
    simp only [hpc] at hP ⊢
    obtain ⟨sf, h1, h2⟩ := hP
    exact harmless_peer sid σ x hW hI (hWh x hw) sf h1 h2
  | lock1 hpc =>
    refine ⟨hW, hI, ?_⟩
    unfold PcInv at hP ⊢
    simpa [hpc] using hP
  | fetch hpc =>
    refine ⟨hW, inv_touch _ _ sid hI, ?_⟩
    unfold PcInv
    exact ⟨σ.backend, σ.cache, rfl, hW, hI, reach_refl _, rfl, rfl⟩
  | foldOk l hpc =>
    unfold PcInv at hP
    simp only [hpc] at hP
    obtain ⟨sf, c0, h1, h2, h3, h4, h5, h6⟩ := hP
    have hsync : c0.sync sf sid = (foldIn σ.cache sid l, none) := by
      rw [sync_split, ← h6, h5]
    obtain ⟨_, hinv', _, _⟩ := sync_ok sf h2.numbered c0 sid _ h3 hsync
    refine ⟨hW, inv_reach sf σ.backend _ h4 hinv', ?_⟩
    unfold PcInv
    exact ⟨sf, h1, ans_of_sync_ok sid sf c0 _ h2 h3 hsync⟩
  | foldErr e hpc =>
    unfold PcInv at hP
    simp only [hpc] at hP
    obtain ⟨sf, c0, h1, h2, h3, h4, h5, h6⟩ := hP
    have hsync : c0.sync sf sid = (touch c0 sid, some e) := by
      rw [sync_split, ← h6]
    refine ⟨hW, hI, ?_⟩
    unfold PcInv
    exact ⟨sf, h1, answer_of_sync_err sid states sf c0 _ e h2 h3 hsync⟩
  | unlock1 hpc =>
    refine ⟨hW, hI, ?_⟩
    unfold PcInv at hP ⊢
    simpa [hpc] using hP
  | lock2 hpc =>
    refine ⟨hW, hI, ?_⟩
    unfold PcInv at hP ⊢
    simpa [hpc] using hP
  | ret hpc =>
    unfold PcInv at hP
    simp only [hpc] at hP
    obtain ⟨sf, h1, h2⟩ := hP
    refine ⟨hW, hI, ?_⟩
    unfold PcInv
    exact ⟨sf, h1, answer_of_ans sid states _ sf h2⟩

/-! ## where `lin` comes from: a backend read inside the call -/

/-- The run passes, inside the call, through a step that reads the backend state `sf` into the cache
entry of `sid`: the reader's own `fetch` (lock held), or a sync of `sid` by another thread of the
same object between the reader's two critical sections. -/
def SyncedAt (sid : Nat) (states : Option (List TState)) (W : Section → Prop) (σ0 : St) (tr : List Label)
    (σ : St) (sf : Spec) : Prop :=
  ∃ tr1 tr2 σm σm' l, tr = tr1 ++ l :: tr2 ∧ Run sid states W σ0 tr1 σm ∧ Step sid states W σm l σm' ∧
    Run sid states W σm' tr2 σ ∧ σm.backend = sf ∧
    ((l = .fetch ∧ σm.pc = .locked) ∨ (l = .peer (.sync sid) ∧ σm.pc = .between))

theorem step_lin (sid : Nat) (states : Option (List TState)) (W : Section → Prop) (σ σ' : St) (l : Label)
    (hs : Step sid states W σ l σ') :
    σ'.lin = σ.lin ∨
      (σ'.lin = some σ.backend ∧ ((l = .fetch ∧ σ.pc = .locked) ∨ (l = .peer (.sync sid) ∧ σ.pc = .between))) := by
  cases hs with
  | fetch hpc => exact Or.inr ⟨rfl, Or.inl ⟨rfl, hpc⟩⟩
  | peerIn x hpc hw hc hx =>
    cases x with
    | sync sid' =>
      simp only [linAfterPeer]
      split
      · rename_i hcond
        obtain ⟨e1, _⟩ := hcond
        subst e1
        exact Or.inr ⟨rfl, Or.inr ⟨rfl, hpc⟩⟩
      · exact Or.inl rfl
    | backend op => exact Or.inl rfl
    | noteCreated a b => exact Or.inl rfl
    | dropStudy a => exact Or.inl rfl
    | memoName a b => exact Or.inl rfl
    | memoDirs a b => exact Or.inl rfl
  | env op => exact Or.inl rfl
  | peerOut x _ _ _ => exact Or.inl rfl
  | lock1 _ => exact Or.inl rfl
  | foldOk l' _ => exact Or.inl rfl
  | foldErr e _ => exact Or.inl rfl
  | unlock1 _ => exact Or.inl rfl
  | lock2 _ => exact Or.inl rfl
  | ret _ => exact Or.inl rfl

/-- the ghost field `lin` is the backend state at such a step of this run (or still unset) -/
theorem lin_is_sync_instant (sid : Nat) (states : Option (List TState)) (W : Section → Prop) (σ0 σ : St)
    (tr : List Label) (h0 : σ0.lin = none) (hr : Run sid states W σ0 tr σ) :
    σ.lin = none ∨ ∃ sf, σ.lin = some sf ∧ SyncedAt sid states W σ0 tr σ sf := by
  induction hr with
  | nil => exact Or.inl h0
  | @snoc tr σ σ' l hrun hstep ih =>
    rcases step_lin sid states W σ σ' l hstep with hlin | ⟨hlin, hwhich⟩
    · rcases ih with ih | ⟨sf, h1, tr1, tr2, σm, σm', l0, e1, r1, s1, r2, b1, w1⟩
      · exact Or.inl (by rw [hlin]; exact ih)
      · refine Or.inr ⟨sf, by rw [hlin]; exact h1, tr1, tr2 ++ [l], σm, σm', l0, ?_, r1, s1, Run.snoc r2 hstep, b1, w1⟩
        rw [e1]; simp
    · exact Or.inr ⟨σ.backend, hlin, tr, [], σ, σ', l, rfl, hrun, hstep, Run.nil, rfl, hwhich⟩

theorem run_keeps_J (sid : Nat) (states : Option (List TState)) (W : Section → Prop)
    (hWh : ∀ x, W x → HarmlessFor sid x) (σ0 σ : St) (tr : List Label)
    (h : J sid states σ0) (hr : Run sid states W σ0 tr σ) : J sid states σ := by
  induction hr with
  | nil => exact h
  | snoc _ hstep ih => exact step_keeps_J sid states W hWh _ _ _ ih hstep

/-! ## the theorems -/

/-- **cached_reads_linearize_with_peers**: as `cached_reads_linearize` below, but other threads of
the same `_CachedStorage` object may run harmless critical sections (`HarmlessFor sid`: every sync,
the memo sections, `create_new_trial` / `delete_study` sections of other studies) between the
reader's two sections.  The answer is the backend's own answer at an instant inside the call: the
reader's backend read, or a later sync of the same study by a peer thread in that window. -/
theorem cached_reads_linearize_with_peers (sid : Nat) (states : Option (List TState)) (W : Section → Prop)
    (hWh : ∀ x, W x → HarmlessFor sid x) (σ0 σ : St) (tr : List Label)
    (out : Out) (hidle : σ0.pc = .idle) (hlin : σ0.lin = none) (hW : Wf σ0.backend) (hI : Inv σ0.backend σ0.cache)
    (hr : Run sid states W σ0 tr σ) (hdone : σ.pc = .done out) :
    ∃ sf, SyncedAt sid states W σ0 tr σ sf ∧ out = (step sf (.getAllTrials sid states)).2 := by
  have hJ0 : J sid states σ0 := ⟨hW, hI, by unfold PcInv; simp [hidle, hlin]⟩
  have hJ := run_keeps_J sid states W hWh σ0 σ tr hJ0 hr
  have hP := hJ.pcinv
  unfold PcInv at hP
  simp only [hdone] at hP
  obtain ⟨sf, h1, h2⟩ := hP
  rcases lin_is_sync_instant sid states W σ0 σ tr hlin hr with hn | ⟨sf', g1, hsync⟩
  · rw [hn] at h1; simp at h1
  · rw [g1] at h1
    simp only [Option.some.injEq] at h1
    subst h1
    exact ⟨sf', hsync, h2⟩

/-- **cached_reads_linearize**: one thread calls `get_all_trials(sid, states)` on a `_CachedStorage`
whose cache satisfies C08's invariant (every reachable cache does: `C08.sys_inv_run`,
`C08.every_section_keeps_inv`) over a well-formed backend.  For **every** state filter, **every**
interleaving of its micro-steps with backend calls of any number of other writers (before the lock,
while it is held, between the backend read and the cache update, between the two critical sections,
after), and with critical sections of other threads of the same object outside the call: if the call
completes with `out` (a list or `KeyError`), then the run contains the reader's `fetch` step, taken
inside the call (`σf.pc = locked`: after `lock1`; the rest `tr2` of the run leads to the return), and
`out` is exactly the answer of the backend itself to `get_all_trials(sid, states)` **at that instant**.
Hypotheses: the backend read is one atomic snapshot (`Step.fetch`; on SQLite: F16's caveat), and no
other thread of the same client object runs a critical section between the reader's two sections
(`NoPeerInWindow`; weakened in `cached_reads_linearize_with_peers`, needed in some form:
`peer_create_in_window_not_linearizable_witness`). -/
theorem cached_reads_linearize (sid : Nat) (states : Option (List TState)) (σ0 σ : St) (tr : List Label)
    (out : Out) (hidle : σ0.pc = .idle) (hlin : σ0.lin = none) (hW : Wf σ0.backend) (hI : Inv σ0.backend σ0.cache)
    (hr : Run sid states NoPeerInWindow σ0 tr σ) (hdone : σ.pc = .done out) :
    ∃ tr1 tr2 σf σf', tr = tr1 ++ Label.fetch :: tr2 ∧ Run sid states NoPeerInWindow σ0 tr1 σf ∧
      σf.pc = .locked ∧ Step sid states NoPeerInWindow σf .fetch σf' ∧ Run sid states NoPeerInWindow σf' tr2 σ ∧
      out = (step σf.backend (.getAllTrials sid states)).2 := by
  obtain ⟨sf, ⟨tr1, tr2, σm, σm', l, e1, r1, s1, r2, b1, w1⟩, h2⟩ :=
    cached_reads_linearize_with_peers sid states NoPeerInWindow (fun x hx => absurd hx (by simp [NoPeerInWindow]))
      σ0 σ tr out hidle hlin hW hI hr hdone
  rcases w1 with ⟨hl, hpc⟩ | ⟨hl, hpc⟩
  · subst hl
    exact ⟨tr1, tr2, σm, σm', e1, r1, hpc, s1, r2, by rw [b1]; exact h2⟩
  · -- a peer step between the two sections needs `W x`, which is `False` here
    subst hl
    cases s1 with
    | peerOut x hpc' _ _ =>
      rcases hpc' with h | ⟨o, h⟩ <;> rw [hpc] at h <;> cases h
    | peerIn x _ hw _ _ => exact absurd hw (by simp [NoPeerInWindow])

/-- … spelled out: the list returned is the backend's trial list of the study at that instant,
filtered by `states`, in number order; `KeyError` exactly if the study did not exist at that instant. -/
theorem cached_read_value (s : Spec) (sid : Nat) (states : Option (List TState)) :
    (step s (.getAllTrials sid states)).2 =
      match s.study? sid with
      | none => .err .keyError
      | some _ => .trials ((s.trialsOf sid).filter (fun p => stateIn states p.2.state)) := by
  cases h : s.study? sid <;> simp [step, h]

/-- The invariant of the cache and the well-formedness of the backend hold again after the call (in
every state of the run), so the next call — of this or of another thread — linearizes as well. -/
theorem cached_read_keeps_invariant (sid : Nat) (states : Option (List TState)) (W : Section → Prop)
    (hWh : ∀ x, W x → HarmlessFor sid x) (σ0 σ : St) (tr : List Label)
    (hidle : σ0.pc = .idle) (hlin : σ0.lin = none) (hW : Wf σ0.backend) (hI : Inv σ0.backend σ0.cache)
    (hr : Run sid states W σ0 tr σ) : Wf σ.backend ∧ Inv σ.backend σ.cache := by
  have hJ := run_keeps_J sid states W hWh σ0 σ tr ⟨hW, hI, by unfold PcInv; simp [hidle, hlin]⟩ hr
  exact ⟨hJ.wf, hJ.inv⟩

/-- the backend calls of the environment, in order -/
def envOps : List Label → List Op
  | [] => []
  | .env op :: r => op :: envOps r
  | _ :: r => envOps r

theorem envOps_append (a b : List Label) : envOps (a ++ b) = envOps a ++ envOps b := by
  induction a with
  | nil => rfl
  | cons l r ih => cases l <;> simp [envOps, ih]

/-- **The cached read writes nothing**: after any run (any `W`), the backend is what the other
clients' calls alone made of it. -/
theorem cached_read_does_not_write (sid : Nat) (states : Option (List TState)) (W : Section → Prop) (σ0 σ : St)
    (tr : List Label) (hr : Run sid states W σ0 tr σ) : σ.backend = after σ0.backend (envOps tr) := by
  induction hr with
  | nil => rfl
  | @snoc tr σ σ' l _ hstep ih =>
    rw [envOps_append]
    cases hstep with
    | env op => simp [envOps, after, List.foldl_append, ih]
    | peerOut x _ _ _ => simpa [envOps] using ih
    | peerIn x _ _ _ _ => simpa [envOps] using ih
    | lock1 _ => simpa [envOps] using ih
    | fetch _ => simpa [envOps] using ih
    | foldOk l' _ => simpa [envOps] using ih
    | foldErr e _ => simpa [envOps] using ih
    | unlock1 _ => simpa [envOps] using ih
    | lock2 _ => simpa [envOps] using ih
    | ret _ => simpa [envOps] using ih

/-! ## the hypothesis on same-client threads is needed -/

/-- everything may run in the window -/
def AnyPeer : Section → Prop := fun _ => True

/-- C08's scenario: thread T1 of client A has made the backend call of `create_new_trial(WAITING
template)` (snapshot `rSnap`), a foreign worker has claimed the trial (backend `rS2`: RUNNING); now
thread T2 of A reads. -/
def w0 : St := { backend := rS2, cache := Client.init, pc := .idle, lin := none }
def w1 : St := { w0 with pc := .locked }
def w2 : St := { w1 with cache := touch w1.cache 0, pc := .fetched (fetchOf w1.backend (touch w1.cache 0) 0), lin := some w1.backend }
def wFetched : List (Nat × TrialS) := rS2.trialsOf 0
def w3 : St := { w2 with cache := foldIn w2.cache 0 wFetched, pc := .folded }
def w4 : St := { w3 with pc := .between }
/-- T1 files its out-of-date snapshot between T2's two sections -/
def w5 : St := { w4 with cache := ((Section.noteCreated 0 rSnap).run w4.backend w4.cache).2,
                          lin := linAfterPeer 0 w4 (.noteCreated 0 rSnap) }
def w6 : St := { w5 with pc := .locked2 }
def w7 : St := { w6 with pc := .done (.trials ((entryD w6.cache.studies 0).readAll none)) }

def wTrace : List Label := [.lock1, .fetch, .fold, .unlock1, .peer (.noteCreated 0 rSnap), .lock2, .ret]

theorem w2_fetched : w2.pc = .fetched (.ok wFetched) := by
  show PC.fetched (fetchOf rS2 (touch Client.init 0) 0) = PC.fetched (.ok wFetched)
  have : fetchOf rS2 (touch Client.init 0) 0 = .ok wFetched := rfl
  rw [this]

theorem rSnap_enabled : (Section.noteCreated 0 rSnap).enabled rS2 :=
  ⟨(rS2.trials[0]?).getD rSnap.2, by decide, by decide, by decide, by decide⟩

/-- **peer_create_in_window_not_linearizable_witness**: a complete run of the reader, with no backend
call at all during it (the backend is `rS2` from the first to the last step) and one peer section
(`create_new_trial`'s, carrying a snapshot older than the call) between the reader's two critical
sections: the reader returns the trial as WAITING although the backend held it RUNNING during the
whole call — the answer equals the backend's at **no** instant of the call.  (The invariant still
holds and the next read is correct: `C08.stale_create_snapshot_after_sync_witness`.) -/
theorem peer_create_in_window_not_linearizable_witness :
    Run 0 none AnyPeer w0 wTrace w7 ∧ envOps wTrace = [] ∧ w7.backend = rS2 ∧
      ∃ out, w7.pc = .done out ∧ out ≠ (step rS2 (.getAllTrials 0 none)).2 := by
  refine ⟨?_, rfl, rfl, _, rfl, ?_⟩
  · have r1 : Run 0 none AnyPeer w0 ([] ++ [.lock1]) w1 := Run.snoc Run.nil (Step.lock1 w0 rfl)
    have r2 : Run 0 none AnyPeer w0 (([] ++ [.lock1]) ++ [.fetch]) w2 := Run.snoc r1 (Step.fetch w1 rfl)
    have r3 := Run.snoc r2 (Step.foldOk w2 wFetched w2_fetched)
    have r4 := Run.snoc r3 (Step.unlock1 w3 rfl)
    have r5 := Run.snoc r4 (Step.peerIn (W := AnyPeer) (sid := 0) (states := none) w4 (.noteCreated 0 rSnap) rfl trivial rfl rSnap_enabled)
    have r6 := Run.snoc r5 (Step.lock2 w5 rfl)
    have r7 := Run.snoc r6 (Step.ret w6 rfl)
    exact r7
  · decide

/-! ## non-vacuity -/

/-- a run in which a foreign writer acts while the lock is held, between the backend read and the
cache update, and between the two critical sections -/
def n0 : St := { backend := rS1, cache := Client.init, pc := .idle, lin := none }
def claim : Op := .setTrialStateValues 0 .running none
def finish : Op := .setTrialStateValues 0 .fail none
def create : Op := .createTrial 0 none false

example : Wf n0.backend := backend_wf _
example : Inv n0.backend n0.cache := inv_init _

def nTrace : List Label :=
  [.lock1, .env claim, .fetch, .env finish, .fold, .unlock1, .env create, .lock2, .ret]

def n1 : St := { n0 with pc := .locked }
def n2 : St := { n1 with backend := (step n1.backend claim).1 }
def n3 : St := { n2 with cache := touch n2.cache 0, pc := .fetched (fetchOf n2.backend (touch n2.cache 0) 0), lin := some n2.backend }
def n4 : St := { n3 with backend := (step n3.backend finish).1 }
def nFetched : List (Nat × TrialS) := n2.backend.trialsOf 0
def n5 : St := { n4 with cache := foldIn n4.cache 0 nFetched, pc := .folded }
def n6 : St := { n5 with pc := .between }
def n7 : St := { n6 with backend := (step n6.backend create).1 }
def n8 : St := { n7 with pc := .locked2 }
def n9 : St := { n8 with pc := .done (.trials ((entryD n8.cache.studies 0).readAll (some [.running]))) }

theorem n4_fetched : n4.pc = .fetched (.ok nFetched) := by
  show PC.fetched (fetchOf n2.backend (touch Client.init 0) 0) = PC.fetched (.ok nFetched)
  have : fetchOf n2.backend (touch Client.init 0) 0 = .ok nFetched := rfl
  rw [this]

/-- the run up to the window between the two critical sections, for any `W` -/
theorem nPrefix (W : Section → Prop) :
    Run 0 (some [.running]) W n0 [.lock1, .env claim, .fetch, .env finish, .fold, .unlock1, .env create] n7 := by
  have r1 : Run 0 (some [.running]) W n0 ([] ++ [.lock1]) n1 := Run.snoc Run.nil (Step.lock1 n0 rfl)
  have r2 := Run.snoc r1 (Step.env (sid := 0) (states := some [.running]) (W := W) n1 claim)
  have r3 := Run.snoc r2 (Step.fetch n2 rfl)
  have r4 := Run.snoc r3 (Step.env (sid := 0) (states := some [.running]) (W := W) n3 finish)
  have r5 := Run.snoc r4 (Step.foldOk n4 nFetched n4_fetched)
  have r6 := Run.snoc r5 (Step.unlock1 n5 rfl)
  exact Run.snoc r6 (Step.env (sid := 0) (states := some [.running]) (W := W) n6 create)

/-- the hypotheses of `cached_reads_linearize` are met by this run … -/
theorem nRun : Run 0 (some [.running]) NoPeerInWindow n0 nTrace n9 :=
  Run.snoc (Run.snoc (nPrefix NoPeerInWindow) (Step.lock2 n7 rfl)) (Step.ret n8 rfl)

-- … the answer is the backend's at the fetch instant (trial 0 RUNNING), which differs from the backend
-- before the call (WAITING: filtered out) and from the backend at the return (trial 0 FAIL, trial 1 RUNNING)
example : ∃ out, n9.pc = .done out ∧ out = (step n2.backend (.getAllTrials 0 (some [.running]))).2 ∧
    out ≠ (step n0.backend (.getAllTrials 0 (some [.running]))).2 ∧
    out ≠ (step n9.backend (.getAllTrials 0 (some [.running]))).2 := ⟨_, rfl, by decide, by decide, by decide⟩
example : envOps nTrace = [claim, finish, create] := rfl
example : n9.backend = after n0.backend [claim, finish, create] := cached_read_does_not_write _ _ _ _ _ _ nRun
example : (step n2.backend (.getAllTrials 0 (some [.running]))).2 ≠ .trials [] := by decide
-- `sync_split` on a concrete cache and backend
example : (Client.init.sync rS2 0).2 = none := by decide
-- `Reach`
example : Reach n0.backend n9.backend := ⟨[claim, finish, create], cached_read_does_not_write _ _ _ _ _ _ nRun⟩


/-- the same run with a sync of the study by another thread of the object in the window: the
linearization point moves to that sync (trial 0 FAIL, trial 1 RUNNING) -/
def p8 : St := { n7 with cache := ((Section.sync 0).run n7.backend n7.cache).2, lin := linAfterPeer 0 n7 (.sync 0) }
def p9 : St := { p8 with pc := .locked2 }
def p10 : St := { p9 with pc := .done (.trials ((entryD p9.cache.studies 0).readAll (some [.running]))) }

theorem pRun : Run 0 (some [.running]) (HarmlessFor 0) n0
    ([.lock1, .env claim, .fetch, .env finish, .fold, .unlock1, .env create] ++ [.peer (.sync 0)] ++ [.lock2] ++ [.ret]) p10 :=
  Run.snoc (Run.snoc (Run.snoc (nPrefix (HarmlessFor 0))
    (Step.peerIn n7 (.sync 0) rfl trivial rfl trivial)) (Step.lock2 p8 rfl)) (Step.ret p9 rfl)

example : ∃ out, p10.pc = .done out ∧ out = (step n7.backend (.getAllTrials 0 (some [.running]))).2 ∧
    out ≠ (step n2.backend (.getAllTrials 0 (some [.running]))).2 := ⟨_, rfl, by decide, by decide⟩
example : p10.lin = some n7.backend := by decide
example : HarmlessFor 0 (.noteCreated 1 rSnap) ∧ ¬ HarmlessFor 0 (.noteCreated 0 rSnap) := by
  simp [HarmlessFor]

end OptunaVerif.C03Cache
