import OptunaVerif.Props.C03
import OptunaVerif.Props.C01InMemGen
/-!
# C03 at `InMemory.State` — the lock theorem instantiated with the TRANSLATED in-memory methods

`C03.lock_atomicity` is a theorem about the abstract thread model `Model/Conc.lean`, whose lock discipline
is built into `Conc.step`; until now nothing connected it with the code.  Here the hypothesis "a call
touches the shared state only inside one critical section of one lock" is DISCHARGED from generated data:

* `denote` turns a method body of `Generated/InMemoryMethods.lean` (T-inmem) into a `Conc.Call` over
  `InMemory.State` — ONE atomic step whose effect is the interpreter `InMemoryIR.interp` of that body — but
  only for the shapes `whole` / `preludeThenLocked` that `Generated/LockTable.lean` (T-lock) assigns to the
  method; any other shape has no denotation;
* `inmem_progs_denote`: every method of `LockTable.inMemory` has a generated body and a denotation (uses the
  `decide`d `C03.inMemory_all_locked`); `denoteOp_eq`: the call an op of the harness makes denotes
  `callOf op`, whose atomic run is `C01InMemGen.genStep` (= `interpOp program`);
* `inmem_concurrent_sequential`: any number of threads, any programs of such calls, any schedule — the
  results recorded so far are those of ONE sequential run of the same calls in an order that keeps every
  thread's own order (`takeOps`) and is the completion order (so it respects real time: a call's atomic
  step lies between its invocation and its return), and the shared state is the state of that run
  whenever no thread is inside its critical section;
* `inmem_concurrent_linearizable`: composed with `C01InMemGen.gen_refines_spec_init` (generated methods =
  hand model, hand model refines the contract): when that sequential order is a legal history of the
  contract, every answer any thread got is allowed by the contract model run in that order, and the final
  state is related to the contract state — i.e. the concurrent history is linearizable w.r.t. the storage
  contract; `inmem_concurrent_numbers_dense` etc. are corollaries at `InMemory.State`.

What stays trusted (see `tables_agree` for what Lean can check): T-lock's classification of a Python body
into a `Shape` and T-inmem's unwrapping of `with self._lock:` (the IR of `Model/InMemoryIR.lean` does not
carry the `with` structure, so Lean cannot re-check that a `whole` body has no statement outside the
lock); that CPython executes the body of `with self._lock:` (an `RLock`) under mutual exclusion; that the
statements outside the lock (`return trials` of a local) touch no shared state.
-/
set_option linter.unusedVariables false
namespace OptunaVerif.C03InMem
open OptunaVerif OptunaVerif.Storage OptunaVerif.InMemory OptunaVerif.InMemoryIR
open OptunaVerif.Generated.InMemoryMethods OptunaVerif.Generated.LockTable
open OptunaVerif.C01InMemGen

/-! ## (a) denotation of a lock-structured method body -/

/-- a call that does all its work on the shared state in ONE micro-step (inside the lock); the local
state holds the answer until the call returns -/
def atomic {σ ρ : Type} (f : σ → σ × ρ) (dflt : ρ) : Conc.Call σ (Option ρ) ρ :=
  { n := 1, init := none, micro := fun _ p => ((f p.1).1, some (f p.1).2), result := fun l => l.getD dflt }

theorem atomic_run {σ ρ : Type} (f : σ → σ × ρ) (dflt : ρ) (s : σ) : (atomic f dflt).run s = f s := by
  simp [Conc.Call.run, Conc.Call.iter, atomic]

abbrev ICall := Conc.Call State (Option Out) Out

/-- **denote**: the thread-model call a generated method body stands for, given the shape T-lock found for
the method.  `whole`: the entire body is inside `with self._lock:`; `preludeThenLocked`: statements that
touch no `self.` state, then the locked block (then at most `return <local>`).  In both cases the call is
one atomic step on `InMemory.State` whose effect is the interpreter of the body.  Any other shape: none. -/
def denote (sh : Shape) (body : Stmt) (op : Op) : Option ICall :=
  match sh with
  | .whole | .preludeThenLocked => some (atomic (fun m => interp body m op) unrepresentable)
  | _ => none

theorem denote_isSome (sh : Shape) (body : Stmt) (op : Op) :
    (denote sh body op).isSome = (sh == .whole || sh == .preludeThenLocked) := by
  cases sh <;> rfl

example : (denote .whole createNewTrialM (.createTrial 0 none false)).isSome = true ∧
    (denote .other createNewTrialM (.createTrial 0 none false)).isSome = false ∧
    (denote .passthrough createNewTrialM (.createTrial 0 none false)).isSome = false := by decide

/-! ## (b) every method of the regenerated lock table denotes -/

/-- **inmem_progs_denote**: every public method of `InMemoryStorage` listed in the lock table regenerated
from /repo has a body in the generated class and that body has a denotation for every call — the
hypothesis of the lock theorem, from generated data (`C03.inMemory_all_locked` is the `decide`). -/
theorem inmem_progs_denote :
    ∀ m ∈ Generated.LockTable.inMemory, ∃ body, lookup m.1 program.methods = some body ∧
      ∀ op, (denote m.2 body op).isSome = true := by
  intro m hm
  have hshape := C03.inMemory_all_locked m hm
  have hbody : (lookup m.1 program.methods).isSome = true := by
    have : ∀ x ∈ Generated.LockTable.inMemory, (lookup x.1 program.methods).isSome = true := by decide
    exact this m hm
  obtain ⟨body, hb⟩ := Option.isSome_iff_exists.mp hbody
  refine ⟨body, hb, fun op => ?_⟩
  rw [denote_isSome]
  rcases hshape with h | h <;> simp [h]

example : ("get_all_trials", Shape.preludeThenLocked) ∈ Generated.LockTable.inMemory := by decide

/-- what Lean can check about the two translators' agreement: both tables describe the same class — every
method of the lock table has a generated body and every generated method except `BaseStorage.get_n_trials`
(which is `len(self.get_all_trials(..))`: one locked call, then a function of a local) is in the lock table -/
theorem tables_agree :
    (∀ x ∈ Generated.LockTable.inMemory, (lookup x.1 program.methods).isSome = true) ∧
    (∀ y ∈ program.methods, y.1 = "get_n_trials" ∨ (lookup y.1 Generated.LockTable.inMemory).isSome = true) := by
  constructor <;> decide

/-- the lock-table row that governs a call of the harness (`get_n_trials` is not a method of
`InMemoryStorage` itself: its only access to the storage is its call of `get_all_trials`) -/
def shapeOfOp (op : Op) : Option Shape :=
  lookup (if methodOf op == "get_n_trials" then "get_all_trials" else methodOf op) Generated.LockTable.inMemory

/-- the denotation of a call of the harness: the generated body of its method under the method's shape -/
def denoteOp (op : Op) : Option ICall :=
  match shapeOfOp op, lookup (methodOf op) program.methods with
  | some sh, some body => denote sh body op
  | _, _ => none

/-- the call of the generated class as one atomic step: `genStep` = `interpOp program` -/
def callOf (op : Op) : ICall := atomic (fun m => genStep m op) unrepresentable

theorem shapeOfOp_locked (op : Op) : shapeOfOp op = some .whole ∨ shapeOfOp op = some .preludeThenLocked := by
  cases op <;> simp [shapeOfOp, methodOf] <;> decide

/-- **every call of the harness denotes, and what it denotes is `callOf`** (the atomic step `genStep`) -/
theorem denoteOp_eq (op : Op) : denoteOp op = some (callOf op) := by
  unfold denoteOp
  rw [select_method]
  have hcall : atomic (fun m => interp (bodyOf op) m op) unrepresentable = callOf op := by
    unfold callOf genStep interpOp
    simp only [select_method]
  rcases shapeOfOp_locked op with h | h <;> rw [h] <;> simp only [denote, hcall]

theorem callOf_run (op : Op) (m : State) : (callOf op).run m = genStep m op := atomic_run _ _ m

/-! ## (c) the instantiation -/

/-- the programs of the threads: lists of calls of the harness -/
abbrev Progs := List (List Op)

def sysOf (m0 : State) (progs : Progs) (sched : List Nat) : Conc.Sys State (Option Out) Out :=
  Conc.exec (Conc.initSys m0 (progs.map (·.map callOf))) sched

/-- take the next call of thread `t`, for each `t` of the list in turn: an interleaving of the programs
that keeps every thread's own order; returns the calls in that order and what is left of the programs -/
def takeOps : Progs → List Nat → Option (List Op × Progs)
  | progs, [] => some ([], progs)
  | progs, t :: rest =>
    match progs[t]? with
    | some (op :: ops) =>
      match takeOps (updAt progs t (fun _ => ops)) rest with
      | some (l, rem) => some (op :: l, rem)
      | none => none
    | _ => none

def runG (m : State) (ops : List Op) : State := ops.foldl (fun m op => (genStep m op).1) m

theorem map_updAt_const {α β : Type} (f : α → β) (l : List α) (i : Nat) (a : α) :
    (updAt l i (fun _ => a)).map f = updAt (l.map f) i (fun _ => f a) := by
  induction l generalizing i with
  | nil => rfl
  | cons b t ih => cases i <;> simp [updAt, ih]

/-- a sequential run of the denoted calls (in the thread model) is a run of `genStep` over an
order-preserving interleaving of the programs, with the same answers -/
theorem seqRun_ops (hist : List (Nat × Out)) : ∀ (progs : Progs) (m m' : State) (rem : List (List ICall)),
    Conc.seqRun (progs.map (·.map callOf)) hist m = some (m', rem) →
    ∃ ops rem', takeOps progs (hist.map (·.1)) = some (ops, rem') ∧ rem = rem'.map (·.map callOf) ∧
      m' = runG m ops ∧ hist.map (·.2) = runOutG m ops := by
  induction hist with
  | nil =>
    intro progs m m' rem h
    simp only [Conc.seqRun, Option.some.injEq, Prod.mk.injEq] at h
    exact ⟨[], progs, rfl, h.2.symm, h.1.symm, rfl⟩
  | cons a hist ih =>
    intro progs m m' rem h
    obtain ⟨t, r⟩ := a
    simp only [Conc.seqRun, List.getElem?_map] at h
    cases hp : progs[t]? with
    | none => simp [hp] at h
    | some p =>
      cases p with
      | nil => simp [hp] at h
      | cons op ops =>
        simp only [hp, Option.map_some, List.map_cons, callOf_run] at h
        split at h
        · rename_i hr
          rw [← map_updAt_const] at h
          obtain ⟨l, rem', h1, h2, h3, h4⟩ := ih (updAt progs t (fun _ => ops)) (genStep m op).1 m' rem h
          refine ⟨op :: l, rem', ?_, h2, ?_, ?_⟩
          · simp only [List.map_cons, takeOps, hp, h1]
          · simp only [runG, List.foldl_cons] at h3 ⊢; exact h3
          · simp only [List.map_cons, runOutG, hr, h4]
        · simp at h

/-- **inmem_concurrent_sequential** — for any number of threads, any programs built from the denoted calls
of the translated in-memory methods and any schedule (preemption between any two steps): the answers
recorded so far are the answers of the calls run ONE AT A TIME by `genStep` in the completion order, which
is an interleaving that preserves every thread's program order; what remains to be done is what that
interleaving left; and whenever no thread is inside its critical section the shared `InMemory.State` is
the state of that sequential run. -/
theorem inmem_concurrent_sequential (m0 : State) (progs : Progs) (sched : List Nat) :
    ∃ ops rem, takeOps progs ((sysOf m0 progs sched).hist.map (·.1)) = some (ops, rem) ∧
      (sysOf m0 progs sched).threads.map (·.todo) = rem.map (·.map callOf) ∧
      (sysOf m0 progs sched).hist.map (·.2) = runOutG m0 ops ∧
      ((∀ (t : Nat) (th : Conc.Thread State (Option Out) Out), (sysOf m0 progs sched).threads[t]? = some th → th.cs = none) →
        (sysOf m0 progs sched).shared = runG m0 ops) := by
  obtain ⟨mseq, hseq, hfree, _⟩ := C03.lock_atomicity m0 (progs.map (·.map callOf)) sched
  obtain ⟨ops, rem, h1, h2, h3, h4⟩ := seqRun_ops _ progs m0 mseq _ hseq
  exact ⟨ops, rem, h1, h2, h4, fun hf => by rw [← h3]; exact hfree hf⟩

/-- never two threads inside a method of the storage at once -/
theorem inmem_mutual_exclusion (m0 : State) (progs : Progs) (sched : List Nat) (t t' : Nat)
    (th th' : Conc.Thread State (Option Out) Out)
    (h : (sysOf m0 progs sched).threads[t]? = some th) (h' : (sysOf m0 progs sched).threads[t']? = some th')
    (hc : th.cs.isSome = true) (hc' : th'.cs.isSome = true) : t = t' :=
  C03.mutual_exclusion m0 _ sched t t' th th' h h' hc hc'

/-- **inmem_concurrent_linearizable** — every concurrent history of the TRANSLATED in-memory methods is
linearizable w.r.t. the storage contract: started on the empty storage, with the calls `ops` of the
sequential order of `inmem_concurrent_sequential` (completion order, every thread's order preserved), if
that order is a legal history of the contract (`Legal`: the calls are inside the contract's domain), then
every answer any thread received is an answer the contract model `Storage.step` allows when run in that
order (`acceptedFromG`), the invariant of the redundant fields holds, and — whenever no thread is inside its
critical section — the shared state is related (`Rel`) to the contract state after that order. -/
theorem inmem_concurrent_linearizable (progs : Progs) (sched : List Nat) :
    ∃ ops rem, takeOps progs ((sysOf InMemory.init progs sched).hist.map (·.1)) = some (ops, rem) ∧
      (sysOf InMemory.init progs sched).hist.map (·.2) = runOutG InMemory.init ops ∧
      (legalFromG genStep (InMemory.init, Storage.init) ops = true →
        acceptedFromG genStep (InMemory.init, Storage.init) ops = true ∧
        ((∀ (t : Nat) (th : Conc.Thread State (Option Out) Out),
            (sysOf InMemory.init progs sched).threads[t]? = some th → th.cs = none) →
          InMemory.Inv (sysOf InMemory.init progs sched).shared ∧
          Rel (sysOf InMemory.init progs sched).shared (pairRunG genStep (InMemory.init, Storage.init) ops).2)) := by
  obtain ⟨ops, rem, h1, _, h3, h4⟩ := inmem_concurrent_sequential InMemory.init progs sched
  refine ⟨ops, rem, h1, h3, fun hL => ?_⟩
  obtain ⟨hacc, hinv, hrel⟩ := gen_refines_spec_init ops hL
  have hfst : ∀ (l : List Op) (ms : State × Spec), (pairRunG genStep ms l).1 = runG ms.1 l := by
    intro l
    induction l with
    | nil => intro ms; rfl
    | cons op rest ih => intro ms; simp only [pairRunG, runG, List.foldl_cons] at ih ⊢; exact ih _
  refine ⟨hacc, fun hf => ?_⟩
  rw [h4 hf, ← hfst ops (InMemory.init, Storage.init)]
  exact ⟨hinv, hrel⟩

/-- `C03.concurrent_numbers_dense` at `InMemory.State`: after any concurrent execution of legal calls of
the translated methods, in a state where no thread is inside the lock, the trial at position `n` of a
study's list has number `n`, belongs to that study, and the id table says so -/
theorem inmem_concurrent_numbers_dense (progs : Progs) (sched : List Nat)
    (hfree : ∀ (t : Nat) (th : Conc.Thread State (Option Out) Out),
      (sysOf InMemory.init progs sched).threads[t]? = some th → th.cs = none)
    (hlegal : ∀ ops rem, takeOps progs ((sysOf InMemory.init progs sched).hist.map (·.1)) = some (ops, rem) →
      legalFromG genStep (InMemory.init, Storage.init) ops = true)
    (sid : Nat) (si : StudyInfo) (n tid : Nat) (t : TrialS)
    (hs : (sysOf InMemory.init progs sched).shared.studies.get? sid = some si) (ht : si.trials[n]? = some (tid, t)) :
    t.number = n ∧ t.study = sid ∧ (sysOf InMemory.init progs sched).shared.tidMap.get? tid = some (sid, n) := by
  obtain ⟨ops, rem, h1, _, _, h4⟩ := inmem_concurrent_sequential InMemory.init progs sched
  have hL := hlegal ops rem h1
  have hfst : ∀ (l : List Op) (ms : State × Spec), (pairRunG genStep ms l).1 = runG ms.1 l := by
    intro l
    induction l with
    | nil => intro ms; rfl
    | cons op rest ih => intro ms; simp only [pairRunG, runG, List.foldl_cons] at ih ⊢; exact ih _
  have hsh : (sysOf InMemory.init progs sched).shared = (pairRunG genStep (InMemory.init, Storage.init) ops).1 := by
    rw [h4 hfree, hfst]
  rw [hsh] at hs ⊢
  exact gen_numbers_dense ops hL sid si n tid t hs ht

/-- a finished run: every thread has returned from all its calls — then the sequential order contains
every call of every program -/
theorem inmem_completed_run (m0 : State) (progs : Progs) (sched : List Nat)
    (hdone : ∀ (t : Nat) (th : Conc.Thread State (Option Out) Out), (sysOf m0 progs sched).threads[t]? = some th →
      th.todo = [] ∧ th.cs = none) :
    ∃ ops rem, takeOps progs ((sysOf m0 progs sched).hist.map (·.1)) = some (ops, rem) ∧ (∀ p ∈ rem, p = []) ∧
      (sysOf m0 progs sched).hist.map (·.2) = runOutG m0 ops ∧ (sysOf m0 progs sched).shared = runG m0 ops := by
  obtain ⟨ops, rem, h1, h2, h3, h4⟩ := inmem_concurrent_sequential m0 progs sched
  refine ⟨ops, rem, h1, ?_, h3, h4 (fun t th h => (hdone t th h).2)⟩
  intro p hp
  have hmem : p.map callOf ∈ rem.map (·.map callOf) := List.mem_map_of_mem hp
  rw [← h2] at hmem
  obtain ⟨th, hth, hte⟩ := List.mem_map.mp hmem
  obtain ⟨t, ht⟩ := List.getElem?_of_mem hth
  have := (hdone t th ht).1
  rw [this] at hte
  cases p with
  | nil => rfl
  | cons a b => simp at hte

/-! ## non-vacuity: three threads — create_new_trial / set_trial_state_values / get_all_trials racing -/

/-- the study exists; thread 0 creates two trials, thread 1 finishes trial 0, thread 2 reads twice -/
def m1 : State := (genStep InMemory.init (.createStudy "s" [1])).1
def demoProgs : Progs :=
  [[.createTrial 0 none false, .createTrial 0 none false],
   [.setTrialStateValues 0 .complete (some [.fin 2])],
   [.getAllTrials 0 none, .getNTrials 0 none]]
/-- thread 1 tries first (its trial does not exist yet: KeyError), thread 2 reads an empty study while thread
0 is waiting for the lock, … every call takes 3 picks: enter, the atomic step, return -/
def demoSched : List Nat := [1, 0, 2, 1, 1, 2, 2, 0, 2, 0, 0, 2, 0, 2, 0, 0, 2, 2, 2, 2, 0, 0, 0]

set_option maxRecDepth 20000 in
example : (sysOf m1 demoProgs demoSched).hist.map (·.1) = [1, 2, 0, 2, 0] := by decide
-- the sequential order that explains it: finish (KeyError: the trial does not exist yet), read (empty), create, count (1), create
example : takeOps demoProgs [1, 2, 0, 2, 0] =
    some ([.setTrialStateValues 0 .complete (some [.fin 2]), .getAllTrials 0 none, .createTrial 0 none false,
           .getNTrials 0 none, .createTrial 0 none false], [[], [], []]) := by rfl
set_option maxRecDepth 20000 in
example : (sysOf m1 demoProgs demoSched).hist.map (·.2) =
    [.err .keyError, .trials [], .newId 0, .nat 1, .newId 1] := by decide
set_option maxRecDepth 20000 in
example : (sysOf m1 demoProgs demoSched).threads.all (fun th => th.todo.isEmpty && th.cs.isNone) = true := by decide
-- a blocked pick is a stutter: thread 2's pick while thread 1 is inside changes nothing
set_option maxRecDepth 20000 in
example : (sysOf m1 demoProgs [1, 2]).threads.map (fun th => th.cs.isSome) = [false, true, false] := by decide

end OptunaVerif.C03InMem
