import OptunaVerif.Props.C03
import OptunaVerif.Props.C06Run
/-!
# C03 for the threads of ONE `JournalStorage` object (and what follows for several processes)

`JournalStorage` keeps one replica (`_replay_result`) per object; every public method runs inside
`with self._thread_lock:` (T-lock table `LockTable.journal`, all rows `whole` / `preludeThenLocked`: the
prelude builds the record from the arguments only) and, inside the lock, appends its record and syncs
before it touches the replica (`C06FrontGen.front_disciplined`).  The threads of one object speak under
different worker ids (`worker_id` = prefix + thread ident) but share the replica.

* `objCall w op` — the effect of one public call made under worker id `w` on the pair (shared log, this
  object's replica): for a writer the record built by the GENERATED front end is appended and the GENERATED
  handlers replay it (`C06FrontGen.frontCall w st op []`); for a getter a sync and a read.  For a writer on a
  replica that has read the whole log this is exactly the `call w op` event of `Model/JournalRun.lean`
  (`objCall_is_call_event`).
* `denoteJ` / `journal_progs_denote` — every method of the regenerated lock table has a generated front-end
  method that is `disciplined`, and denotes ONE atomic step of the thread model with effect `objCall`.
* `journal_threads_sequential` — any number of threads of one object, any schedule: the answers are those of
  the calls run one at a time in completion order (each thread's order preserved).
* `journal_threads_linearizable_partial` — composed with `front_record_roundtrip` /
  `front_getter_is_contract_read` (GENERATED front end + handlers = contract): along that order every error
  raised is the contract's error at that position, every getter's answer is the contract's read, a call that
  is not rejected moves the contract state exactly as the contract says, and the replica always holds the
  replay of the whole log.  PARTIAL: see the theorem.
* `processes_linearize_in_log_order_partial` — several processes on one file: what `C06Run` gives.
-/
set_option linter.unusedVariables false
namespace OptunaVerif.C03Journal
open OptunaVerif OptunaVerif.Storage OptunaVerif.Journal OptunaVerif.JournalFrontIR
open OptunaVerif.Generated.LockTable

/-! ## atomic calls of the thread model, generically -/

/-- a call that does all its work on the shared state in one micro-step (inside the lock) -/
def atomic {σ ρ : Type} (f : σ → σ × ρ) (dflt : ρ) : Conc.Call σ (Option ρ) ρ :=
  { n := 1, init := none, micro := fun _ p => ((f p.1).1, some (f p.1).2), result := fun l => l.getD dflt }

theorem atomic_run {σ ρ : Type} (f : σ → σ × ρ) (dflt : ρ) (s : σ) : (atomic f dflt).run s = f s := by
  simp [Conc.Call.run, Conc.Call.iter, atomic]

/-- take the next call of thread `t`, for each `t` of the list in turn: an interleaving of the programs that
keeps every thread's own order -/
def takeSeq {α : Type} : List (List α) → List Nat → Option (List α × List (List α))
  | progs, [] => some ([], progs)
  | progs, t :: rest =>
    match progs[t]? with
    | some (a :: as) =>
      match takeSeq (updAt progs t (fun _ => as)) rest with
      | some (l, rem) => some (a :: l, rem)
      | none => none
    | _ => none

def runSt {α σ ρ : Type} (f : α → σ → σ × ρ) (s : σ) (l : List α) : σ := l.foldl (fun s a => (f a s).1) s
def runOuts {α σ ρ : Type} (f : α → σ → σ × ρ) : σ → List α → List ρ
  | _, [] => []
  | s, a :: rest => (f a s).2 :: runOuts f (f a s).1 rest

theorem map_updAt_const {α β : Type} (f : α → β) (l : List α) (i : Nat) (a : α) :
    (updAt l i (fun _ => a)).map f = updAt (l.map f) i (fun _ => f a) := by
  induction l generalizing i with
  | nil => rfl
  | cons b t ih => cases i <;> simp [updAt, ih]

/-- a sequential run (in the thread model) of atomic calls is a fold of their effects over an order-preserving
interleaving of the programs, with the same answers -/
theorem seqRun_atomic {α σ ρ : Type} [DecidableEq ρ] (f : α → σ → σ × ρ) (dflt : ρ) (hist : List (Nat × ρ)) :
    ∀ (progs : List (List α)) (s s' : σ) (rem : List (List (Conc.Call σ (Option ρ) ρ))),
    Conc.seqRun (progs.map (·.map (fun a => atomic (f a) dflt))) hist s = some (s', rem) →
    ∃ l rem', takeSeq progs (hist.map (·.1)) = some (l, rem') ∧ rem = rem'.map (·.map (fun a => atomic (f a) dflt)) ∧
      s' = runSt f s l ∧ hist.map (·.2) = runOuts f s l := by
  induction hist with
  | nil =>
    intro progs s s' rem h
    simp only [Conc.seqRun, Option.some.injEq, Prod.mk.injEq] at h
    exact ⟨[], progs, rfl, h.2.symm, h.1.symm, rfl⟩
  | cons x hist ih =>
    intro progs s s' rem h
    obtain ⟨t, r⟩ := x
    simp only [Conc.seqRun, List.getElem?_map] at h
    cases hp : progs[t]? with
    | none => simp [hp] at h
    | some p =>
      cases p with
      | nil => simp [hp] at h
      | cons a as =>
        simp only [hp, Option.map_some, List.map_cons, atomic_run] at h
        split at h
        · rename_i hr
          rw [← map_updAt_const] at h
          obtain ⟨l, rem', h1, h2, h3, h4⟩ := ih (updAt progs t (fun _ => as)) (f a s).1 s' rem h
          refine ⟨a :: l, rem', ?_, h2, ?_, ?_⟩
          · simp only [List.map_cons, takeSeq, hp, h1]
          · simp only [runSt, List.foldl_cons] at h3 ⊢; exact h3
          · simp only [List.map_cons, runOuts, hr, h4]
        · simp at h

/-! ## one `JournalStorage` object -/

/-- the shared log (as far as this object is concerned) and the object's replica -/
structure Obj where
  log : List Rec
  st : JState
deriving Repr, Inhabited

/-- what a call answers: the error raised (if any) and the value returned -/
abbrev Ans := Option Err × Out

/-- a call of the harness made under worker id `w` -/
abbrev JCall := String × Op

/-- **the effect of one public call of the object under its lock**: a writer appends the record built by the
generated front end and the generated handlers replay it (`frontCall … []`: inside one object nothing else is
appended between its append and its read); a getter syncs and reads through the generated getter; any other op
(`BaseStorage`'s `get_n_trials`, `get_best_trial`, … built on these) is not a method of the class: no effect -/
def objCall (c : JCall) (s : Obj) : Obj × Ans :=
  match C06FrontGen.frontRec c.1 c.2, C06FrontGen.frontCall c.1 s.st c.2 [] with
  | some r, some (st', e, a) => ({ log := s.log ++ [r], st := st' }, (e, a))
  | _, _ =>
    match C06FrontGen.getterBody c.2 with
    | some m =>
      let res := sync c.1 s.st s.log s.log.length
      ({ s with st := res.1 }, (res.2, m.answer c.1 res.1 c.2))
    | none => (s, (none, .unit))

def jcall (c : JCall) : Conc.Call Obj (Option Ans) Ans := atomic (objCall c) (none, Out.unit)

/-- **denoteJ**: the thread-model call a public `JournalStorage` method stands for under the shape T-lock found:
`whole` / `preludeThenLocked` (the record is built from the arguments, then everything happens inside
`with self._thread_lock:`) = ONE atomic step with effect `objCall`; any other shape: none -/
def denoteJ (sh : Shape) (c : JCall) : Option (Conc.Call Obj (Option Ans) Ans) :=
  match sh with
  | .whole | .preludeThenLocked => some (jcall c)
  | _ => none

theorem denoteJ_isSome (sh : Shape) (c : JCall) : (denoteJ sh c).isSome = (sh == .whole || sh == .preludeThenLocked) := by
  cases sh <;> rfl

example : (denoteJ .preludeThenLocked ("w", .createTrial 0 none false)).isSome = true ∧
    (denoteJ .other ("w", .createTrial 0 none false)).isSome = false := by decide

/-- **journal_progs_denote**: every public method of `JournalStorage` in the lock table regenerated from /repo has
a method in the generated front end (T-journalfront) which touches the replica only under the lock after its
append + sync (`disciplined`), and denotes an atomic step for every call — the hypothesis of the lock theorem
from generated data (`C03.journal_all_locked`, `C06FrontGen.front_disciplined`) -/
theorem journal_progs_denote :
    ∀ m ∈ Generated.LockTable.journal, ∃ fm, Generated.JournalFront.program.method? m.1 = some fm ∧
      fm.disciplined = true ∧ ∀ c, (denoteJ m.2 c).isSome = true := by
  intro m hm
  have hshape := C03.journal_all_locked m hm
  have hbody : (Generated.JournalFront.program.method? m.1).isSome = true := by
    have : ∀ x ∈ Generated.LockTable.journal, (Generated.JournalFront.program.method? x.1).isSome = true := by decide
    exact this m hm
  obtain ⟨fm, hb⟩ := Option.isSome_iff_exists.mp hbody
  have hmem : fm ∈ Generated.JournalFront.program.methods := by
    unfold Program.method? at hb
    exact List.mem_of_find?_eq_some hb
  refine ⟨fm, hb, C06FrontGen.front_disciplined fm hmem, fun c => ?_⟩
  rw [denoteJ_isSome]
  rcases hshape with h | h <;> simp [h]

def lookup {α : Type} (k : String) : List (String × α) → Option α
  | [] => none
  | (k', v) :: t => if k' == k then some v else lookup k t

/-- both generated tables describe the same class: every front-end method is in the lock table -/
theorem journal_tables_agree :
    ∀ fm ∈ Generated.JournalFront.program.methods,
      (lookup fm.name Generated.LockTable.journal).isSome = true := by decide

/-- the lock-table row of the method a call of the harness goes to -/
def shapeOfJ (op : Op) : Option Shape :=
  match (writerOf op), (getterOf op) with
  | some n, _ => lookup n Generated.LockTable.journal
  | none, some n => lookup n Generated.LockTable.journal
  | none, none => none

def denoteOpJ (c : JCall) : Option (Conc.Call Obj (Option Ans) Ans) := (shapeOfJ c.2).bind (fun sh => denoteJ sh c)

/-- every call that goes to a method of `JournalStorage` itself denotes `jcall` -/
theorem denoteOpJ_eq (c : JCall) (h : (writerOf c.2).isSome = true ∨ (getterOf c.2).isSome = true) :
    denoteOpJ c = some (jcall c) := by
  obtain ⟨w, op⟩ := c
  cases op <;> simp [writerOf, getterOf] at h <;> rfl

/-! ## threads of one object -/

abbrev JProgs := List (List JCall)

def sysJ (s0 : Obj) (progs : JProgs) (sched : List Nat) : Conc.Sys Obj (Option Ans) Ans :=
  Conc.exec (Conc.initSys s0 (progs.map (·.map jcall))) sched

/-- **journal_threads_sequential** — any number of threads of ONE `JournalStorage` object, any programs of
denoted calls (each under its thread's worker id), any schedule: the answers recorded so far are those of the
calls run one at a time (`objCall`) in completion order, an interleaving that keeps every thread's order; and
whenever no thread is inside the lock the shared (log, replica) is the state of that sequential run -/
theorem journal_threads_sequential (s0 : Obj) (progs : JProgs) (sched : List Nat) :
    ∃ calls rem, takeSeq progs ((sysJ s0 progs sched).hist.map (·.1)) = some (calls, rem) ∧
      (sysJ s0 progs sched).threads.map (·.todo) = rem.map (·.map jcall) ∧
      (sysJ s0 progs sched).hist.map (·.2) = runOuts objCall s0 calls ∧
      ((∀ (t : Nat) (th : Conc.Thread Obj (Option Ans) Ans), (sysJ s0 progs sched).threads[t]? = some th → th.cs = none) →
        (sysJ s0 progs sched).shared = runSt objCall s0 calls) := by
  obtain ⟨sseq, hseq, hfree, _⟩ := C03.lock_atomicity s0 (progs.map (·.map jcall)) sched
  obtain ⟨l, rem, h1, h2, h3, h4⟩ := seqRun_atomic objCall (none, Out.unit) _ progs s0 sseq _ hseq
  exact ⟨l, rem, h1, h2, h4, fun hf => by rw [← h3]; exact hfree hf⟩

/-! ## the contract along the sequential order -/

/-- the object's replica has read the whole log and holds its replay -/
def ObjInv (s : Obj) : Prop := s.st.cursor = s.log.length ∧ s.st.spec = C06Run.fresh s.log

/-- the calls the theorems below speak about: a writer the front end can encode (`frontOK`: template values ≠ [],
dict-like params), or a getter of `JournalStorage` itself -/
def callOK (c : JCall) : Bool :=
  ((writerOf c.2).isSome && C06FrontGen.frontOK c.2) || (C06FrontGen.getterBody c.2).isSome

/-- the contract along a sequential order of calls, from the log `log`: at every position the error is the
contract's error in the state `fresh log` (the replay of everything appended before), a call that raises nothing
moves that state exactly as `Storage.step` says, a getter answers the contract's read -/
def ContractRun : List Rec → List JCall → List Ans → Prop
  | _, [], [] => True
  | log, c :: rest, a :: outs =>
    (match C06FrontGen.recOf c.1 c.2 with
     | some r =>
       let cop := C06FrontGen.withRaised c.2 (rejects (C06Run.fresh log) r == some .valueError)
       a.1 = errOf (Storage.step (C06Run.fresh log) cop).2 ∧
       (a.1 = none → C06Run.fresh (log ++ [r]) = (Storage.step (C06Run.fresh log) cop).1) ∧
       ContractRun (log ++ [r]) rest outs
     | none =>
       a.1 = none ∧ a.2 = (Storage.step (C06Run.fresh log) c.2).2 ∧ (Storage.step (C06Run.fresh log) c.2).1 = C06Run.fresh log ∧
       ContractRun log rest outs)
  | _, _, _ => False

theorem sync_at_end (w : String) (st : JState) (log : List Rec) (h : st.cursor = log.length) :
    sync w st log log.length = (st, none) := by
  unfold sync
  rw [List.take_length, h, List.drop_length]
  rfl

theorem sync_one (w : String) (st : JState) (log : List Rec) (r : Rec) (h : st.cursor = log.length) :
    sync w st (log ++ [r]) (log ++ [r]).length = applyLogs w st [r] := by
  unfold sync
  rw [List.take_length, h, List.drop_left]

/-- **objCall_is_call_event**: for a writer on a replica that has read the whole log, `objCall` is the `call w op`
event of `Model/JournalRun.lean` (append + sync under the lock) on the system whose log is this log and whose
replica of `w` is this replica -/
theorem objCall_is_call_event (w : String) (op : Op) (s : Obj) (hw : (writerOf op).isSome = true)
    (hok : C06FrontGen.frontOK op = true) (hc : s.st.cursor = s.log.length) :
    let sys : JournalRun.Sys := { log := s.log, reps := [(w, s.st)], snaps := [] }
    (JournalRun.stepEv sys (.call w op)).log = (objCall (w, op) s).1.log ∧
    (JournalRun.stepEv sys (.call w op)).rep? w = some (objCall (w, op) s).1.st := by
  intro sys
  have hb := C06FrontGen.front_builds w op hok
  cases hr : C06FrontGen.recOf w op with
  | none => cases op <;> simp [C06FrontGen.recOf] at hr <;> simp [writerOf] at hw
  | some r =>
    cases hmb : C06FrontGen.writerBody op with
    | none => cases op <;> simp [C06FrontGen.writerBody] at hmb <;> simp [C06FrontGen.recOf] at hr
    | some m =>
      have hfc := C06FrontGen.frontCall_eq w s.st op [] m r hmb hr hok
      have hiss : JournalRun.issue w op = some r := by rw [C06Run.issue_eq_recOf]; exact hr
      have hrep : sys.rep? w = some s.st := by simp [sys, JournalRun.Sys.rep?]
      simp only [objCall, hb, hr, hfc, JournalRun.stepEv, JournalRun.doAppend, hrep, hiss, JournalRun.doSync]
      have hrep2 : JournalRun.Sys.rep? { sys with log := sys.log ++ [r] } w = some s.st := hrep
      simp only [hrep2]
      refine ⟨rfl, ?_⟩
      simp only [JournalRun.Sys.setRep, JournalRun.Sys.rep?, List.find?_cons, beq_self_eq_true, Option.map_some, sys,
        sync_one w s.st s.log r hc]

/-- one call keeps the replica at the replay of the whole log and answers as the contract says -/
theorem objCall_contract (c : JCall) (s : Obj) (hI : ObjInv s) (hok : callOK c = true) :
    ObjInv (objCall c s).1 ∧
    (match C06FrontGen.recOf c.1 c.2 with
     | some r =>
       let cop := C06FrontGen.withRaised c.2 (rejects (C06Run.fresh s.log) r == some .valueError)
       (objCall c s).1.log = s.log ++ [r] ∧
       (objCall c s).2.1 = errOf (Storage.step (C06Run.fresh s.log) cop).2 ∧
       ((objCall c s).2.1 = none → C06Run.fresh (s.log ++ [r]) = (Storage.step (C06Run.fresh s.log) cop).1)
     | none =>
       (objCall c s).1.log = s.log ∧ (objCall c s).2.1 = none ∧
       (objCall c s).2.2 = (Storage.step (C06Run.fresh s.log) c.2).2 ∧
       (Storage.step (C06Run.fresh s.log) c.2).1 = C06Run.fresh s.log) := by
  obtain ⟨w, op⟩ := c
  obtain ⟨hcur, hspec⟩ := hI
  have hJ : JInv s.st.spec := by rw [hspec]; exact C06.jinv_replay _ s.log jinv_init
  by_cases hw : (writerOf op).isSome = true
  · -- a writer
    have hfo : C06FrontGen.frontOK op = true := by
      simp only [callOK, hw, Bool.true_and, Bool.or_eq_true] at hok
      rcases hok with h | h
      · exact h
      · cases op <;> simp [writerOf] at hw <;> simp [C06FrontGen.getterBody] at h
    obtain ⟨r, st', err, ans, hr, hfc, herr, hnone⟩ :=
      C06FrontGen.front_record_roundtrip w s.st op [] hw hfo (by intro x hx; simp at hx) hJ
    have hb := C06FrontGen.front_builds w op hfo
    -- the replica after the call: the `call` event of the run system keeps it synced
    have hev := objCall_is_call_event w op s hw hfo hcur
    have hsys : C06Run.Inv ({ log := s.log, reps := [(w, s.st)], snaps := [] } : JournalRun.Sys) := by
      refine ⟨?_, by intro sn h; simp at h⟩
      intro p hp
      simp only [List.mem_singleton] at hp
      subst hp
      exact ⟨by simp only; omega, by simp only; rw [hspec, hcur, List.take_length]; rfl⟩
    have hinv' := C06Run.inv_step _ (.call w op) hsys
    have hobj : (objCall (w, op) s) = ({ log := s.log ++ [r], st := st' }, (err, ans)) := by
      simp only [objCall, hb, hr, hfc]
    have hsynced := hinv'.1 _ (C06Run.rep?_mem _ w _ hev.2)
    rw [hev.1, hobj] at hsynced
    simp only at hsynced
    -- the cursor is at the end: the sync read exactly the own record
    have hcur' : st'.cursor = (s.log ++ [r]).length := by
      cases hmb : C06FrontGen.writerBody op with
      | none => cases op <;> simp [C06FrontGen.writerBody] at hmb <;> simp [C06FrontGen.recOf] at hr
      | some m =>
        have hfe := C06FrontGen.frontCall_eq w s.st op [] m r hmb hr hfo
        rw [hfe] at hfc
        simp only [Option.some.injEq, Prod.mk.injEq] at hfc
        obtain ⟨n, hn, hc2, _, _, hsome⟩ := C06.applyLogs_prefix w s.st [r]
        have hpos : 0 < n := by
          cases hx : (applyLogs w s.st [r]).2 with
          | none =>
            have := (C06.applyLogs_prefix w s.st [r])
            obtain ⟨n2, hn2, hc3, _, hfull, _⟩ := this
            have e1 := hfull hx
            rw [hc2] at hc3
            simp only [List.length_cons, List.length_nil] at e1 hn2 hn
            omega
          | some e => exact hsome (by rw [hx]; simp)
        rw [← hfc.1, hc2, hcur]
        simp only [List.length_cons, List.length_nil, List.length_append] at hn ⊢
        omega
    refine ⟨?_, ?_⟩
    · rw [hobj]
      refine ⟨hcur', ?_⟩
      simp only
      rw [hsynced.2, hcur', List.take_length]; rfl
    · simp only [hr]
      rw [hobj]
      simp only
      rw [← hspec]
      refine ⟨trivial, herr, fun hn => ?_⟩
      have h1 := (hnone hn).1
      simp only [C06.pubReplay, List.foldl_nil] at h1
      rw [← h1, hsynced.2, hcur', List.take_length]; rfl
  · -- a getter
    have hw' : (writerOf op) = none := by cases h : writerOf op <;> simp_all
    have hg : (C06FrontGen.getterBody op).isSome = true := by
      simp only [callOK, hw', Option.isSome_none, Bool.false_and, Bool.false_or] at hok; exact hok
    obtain ⟨m, hm⟩ := Option.isSome_iff_exists.mp hg
    have hrec : C06FrontGen.recOf w op = none := by cases op <;> simp [writerOf] at hw' <;> rfl
    have hfr : C06FrontGen.frontRec w op = none := by
      rw [C06FrontGen.frontRec_eq]
      have : C06FrontGen.writerBody op = none := by cases op <;> simp [writerOf] at hw' <;> rfl
      rw [this]; rfl
    have hsync := sync_at_end w s.st s.log hcur
    obtain ⟨_, hans, hsame⟩ := C06FrontGen.front_getter_is_contract_read w s.st op m hm
    have hobj : objCall (w, op) s = (s, (none, m.answer w s.st op)) := by
      simp only [objCall, hfr, hm, hsync]
    rw [hobj]
    refine ⟨⟨hcur, hspec⟩, ?_⟩
    simp only [hrec]
    rw [← hspec]
    exact ⟨trivial, trivial, hans, hsame⟩

theorem contractRun_of_run (calls : List JCall) : ∀ (s : Obj), ObjInv s → calls.all callOK = true →
    ContractRun s.log calls (runOuts objCall s calls) ∧ ObjInv (runSt objCall s calls) := by
  induction calls with
  | nil => intro s hI _; exact ⟨trivial, hI⟩
  | cons c rest ih =>
    intro s hI hok
    simp only [List.all_cons, Bool.and_eq_true] at hok
    obtain ⟨hI', hc⟩ := objCall_contract c s hI hok.1
    have hrest := ih (objCall c s).1 hI' hok.2
    simp only [runOuts, runSt, List.foldl_cons, ContractRun]
    refine ⟨?_, by simpa [runSt] using hrest.2⟩
    cases hr : C06FrontGen.recOf c.1 c.2 with
    | some r =>
      simp only [hr] at hc ⊢
      refine ⟨hc.2.1, hc.2.2, ?_⟩
      rw [← hc.1]; exact hrest.1
    | none =>
      simp only [hr] at hc ⊢
      refine ⟨hc.2.1, hc.2.2.1, hc.2.2.2, ?_⟩
      rw [← hc.1]; exact hrest.1

/-- the empty object: empty log, empty replica -/
def Obj.init : Obj := { log := [], st := JState.init }

theorem objInv_init : ObjInv Obj.init := by constructor <;> rfl

/-- **journal_threads_linearizable_partial** — threads of ONE `JournalStorage` object, started empty, any number
of threads, any schedule, every call either a writer the front end can encode or a getter of the class (`callOK`):
there is an order of the completed calls that keeps every thread's order (the completion order) such that, run
through the contract model `Storage.step` in that order (`ContractRun`): every error a thread was answered is the
contract's error at its position, every getter's answer is the contract's read, every call that is not rejected
moves the contract state as the contract says; and whenever no thread is inside the lock the replica has read the
whole log and shows its replay.
No issuer-id hypothesis remains (`hpre` of `C06Run.ack_is_contract_answer_run_partial` is vacuous here: inside one
object a call reads exactly its own record) and no `Legal` hypothesis (the journal refinement needs none).
PARTIAL — not composed here: the VALUES returned by writers (the id of `create_new_trial` / `create_new_study`, the
claim answer of `set_trial_state_values`), proved per call in `C06FrontGen`
(`front_create_new_trial_returns_own_id`, `front_claim_answer`, `front_unit_answers`,
`front_create_new_study_returns_id_partial`); ops of `BaseStorage` built on these (`get_n_trials`, `get_best_trial`, …) -/
theorem journal_threads_linearizable_partial (progs : JProgs) (sched : List Nat)
    (hok : ∀ p ∈ progs, p.all callOK = true) :
    ∃ calls rem, takeSeq progs ((sysJ Obj.init progs sched).hist.map (·.1)) = some (calls, rem) ∧
      ContractRun [] calls ((sysJ Obj.init progs sched).hist.map (·.2)) ∧
      ((∀ (t : Nat) (th : Conc.Thread Obj (Option Ans) Ans), (sysJ Obj.init progs sched).threads[t]? = some th → th.cs = none) →
        ObjInv (sysJ Obj.init progs sched).shared) := by
  obtain ⟨calls, rem, h1, _, h3, h4⟩ := journal_threads_sequential Obj.init progs sched
  -- every call taken from the programs is OK
  have htake : ∀ (ns : List Nat) (pr : JProgs) (l : List JCall) (rm : JProgs), (∀ p ∈ pr, p.all callOK = true) →
      takeSeq pr ns = some (l, rm) → l.all callOK = true := by
    intro ns
    induction ns with
    | nil => intro pr l rm _ h; simp only [takeSeq, Option.some.injEq, Prod.mk.injEq] at h; rw [← h.1]; rfl
    | cons t rest ih =>
      intro pr l rm hpr h
      simp only [takeSeq] at h
      cases hp : pr[t]? with
      | none => simp [hp] at h
      | some p =>
        cases p with
        | nil => simp [hp] at h
        | cons a as =>
          simp only [hp] at h
          cases hts : takeSeq (updAt pr t (fun _ => as)) rest with
          | none => simp [hts] at h
          | some lr =>
            obtain ⟨l', rm'⟩ := lr
            simp only [hts, Option.some.injEq, Prod.mk.injEq] at h
            have hall := hpr _ (List.mem_of_getElem? hp)
            simp only [List.all_cons, Bool.and_eq_true] at hall
            have hrec := ih (updAt pr t (fun _ => as)) l' rm' (by
              intro q hq
              obtain ⟨i, hi⟩ := List.getElem?_of_mem hq
              rw [updAt_getElem?] at hi
              split at hi
              · rename_i hit
                subst hit
                rw [hp] at hi; simp only [Option.map_some, Option.some.injEq] at hi; rw [← hi]; exact hall.2
              · exact hpr q (List.mem_of_getElem? hi)) hts
            rw [← h.1]
            simp only [List.all_cons, hall.1, hrec, Bool.and_self]
  have hcalls := htake _ progs calls rem hok h1
  obtain ⟨hcr, hinv⟩ := contractRun_of_run calls Obj.init objInv_init hcalls
  refine ⟨calls, rem, h1, ?_, fun hf => ?_⟩
  · rw [h3]; exact hcr
  · rw [h4 hf]; exact hinv

/-! ## several processes on one file -/

/-- **processes_linearize_in_log_order_partial** — what `Props/C06Run.lean` gives for any number of PROCESSES (each
a `JournalStorage` object with its own replica) on one log, for EVERY list of events in which appends and syncs of
different workers interleave freely (the file lock serialises the appends only): (1) the public state of every
worker is the replay of the log prefix it has read, so workers that have read equally far agree and a worker that has
read everything shows the replay of the whole log (the log order IS the order in which all workers see the calls
take effect); (2) a worker `w` whose unread part of the log contains none of its own records and that now makes the
call `op` is answered the contract's error for `op` at the position of its record in the log, and if none, its
replica shows the contract's state there.  The log order extends real time because a record is appended inside its
call's invoke/return interval.
PARTIAL — what is missing for "the concurrent history of all processes is linearizable": (a) `hpre` as a run
invariant (worker ids unique per object and every own record read by the sync of its own call — broken only by
`restore` / `join` re-using an id); (b) the returned VALUES (see `journal_threads_linearizable_partial`); (c) getters
of a worker that has NOT read the whole log answer the contract's read of an EARLIER prefix — a stale but consistent
read; since a getter syncs first inside its own call, it reads everything appended before its sync, which is enough
for linearizability but is not stated as a theorem about the `sync` event followed by a read -/
theorem processes_linearize_in_log_order_partial (evs : List JournalRun.Ev) :
    (∀ w st, (JournalRun.run JournalRun.Sys.init evs).rep? w = some st →
      st.cursor ≤ (JournalRun.run JournalRun.Sys.init evs).log.length ∧
      st.spec = C06Run.fresh ((JournalRun.run JournalRun.Sys.init evs).log.take st.cursor)) ∧
    (∀ w w' st st', (JournalRun.run JournalRun.Sys.init evs).rep? w = some st →
      (JournalRun.run JournalRun.Sys.init evs).rep? w' = some st' → st.cursor = st'.cursor → st.spec = st'.spec) ∧
    (∀ w st op r, (JournalRun.run JournalRun.Sys.init evs).rep? w = some st → JournalRun.issue w op = some r →
      (∀ x ∈ (JournalRun.run JournalRun.Sys.init evs).log.drop st.cursor, (x.worker == w) = false) →
      let log := (JournalRun.run JournalRun.Sys.init evs).log
      let res := sync w st (log ++ [r]) (log ++ [r]).length
      let cop := C06FrontGen.withRaised op (rejects (C06Run.fresh log) r == some .valueError)
      res.2 = errOf (Storage.step (C06Run.fresh log) cop).2 ∧
      (res.2 = none → res.1.spec = (Storage.step (C06Run.fresh log) cop).1)) := by
  refine ⟨(C06Run.replica_is_replay_of_prefix evs).1, ?_, ?_⟩
  · intro w w' st st' h h' hc
    exact (C06Run.workers_converge_run evs w w' st st' h h').1 hc
  · intro w st op r h hr hpre log res cop
    obtain ⟨_, h2, h3⟩ := C06Run.ack_is_contract_answer_run_partial evs w st op r h hr hpre
    exact ⟨h2, fun hn => (h3 hn).1⟩

/-- the hypotheses of part (3) hold in a run where the unread tail is not empty: after `demoRun.take 9` worker A has
read 3 of 4 records, the unread one is B's -/
example : ((JournalRun.run JournalRun.Sys.init (C06Run.demoRun.take 9)).rep? "A").map
      (fun st => (st.cursor, (JournalRun.run JournalRun.Sys.init (C06Run.demoRun.take 9)).log.length,
        ((JournalRun.run JournalRun.Sys.init (C06Run.demoRun.take 9)).log.drop st.cursor).all (fun x => !(x.worker == "A"))))
      = some (3, 4, true) ∧
    (JournalRun.issue "A" (.setTrialStateValues 0 .complete (some [.fin 1]))).isSome = true := by decide

/-- **processes_linearize_in_log_order_freshids_partial** — the form of `processes_linearize_in_log_order_partial` WITHOUT
the issuer hypothesis `hpre`, for every run in which worker ids are never re-used (`FreshIds`: every `JournalStorage`
object draws a fresh uuid4; decidable on the event list) and for a live worker `w` that is between calls
(`pending w evs = 0`: every writer syncs before it returns; `C06Run.hpre_invariant`), any number of processes, appends
and syncs of different workers interleaved freely:
(1) the WRITER call `op` that `w` makes now is answered the contract's error for `op` in the fresh replay of the whole
log before its record (its position in the log order), and if none is raised its replica then shows the contract's state
after the call and has read the whole log;
(2) the GETTER call `op` that `w` makes now (sync, then read through the generated getter `m`) raises nothing and
answers the contract's read in the fresh replay of the whole log — everything appended before its sync, by whomever;
(3) after a `call` the worker is between calls again (the discipline is kept by calls).
With `processes_linearize_in_log_order_partial` (1)(2) (replica = replay of the prefix read; equal prefixes agree) the
log order is a linearization order for errors, reads and state of EVERY call of EVERY process.
PARTIAL — what remains: the VALUES returned by writers are proved per call in C06FrontGen (`front_unit_answers`,
`front_create_new_trial_returns_own_id`, `front_claim_answer`) and not composed here; for `create_new_study` the value
is NOT the contract's in one interleaving of the real code (known finding F36: the id is looked up by name after the
sync, a foreign `delete_study` of that id in between kills the call) -/
theorem processes_linearize_in_log_order_freshids_partial (evs : List JournalRun.Ev)
    (hf : JournalRun.FreshIds evs = true) (w : String) (st : JState)
    (h : (JournalRun.run JournalRun.Sys.init evs).rep? w = some st) (hp : JournalRun.pending w evs = 0) :
    let log := (JournalRun.run JournalRun.Sys.init evs).log
    (∀ op r, JournalRun.issue w op = some r →
      let res := sync w st (log ++ [r]) (log ++ [r]).length
      let cop := C06FrontGen.withRaised op (rejects (C06Run.fresh log) r == some .valueError)
      (JournalRun.stepEv (JournalRun.run JournalRun.Sys.init evs) (.call w op)).rep? w = some res.1 ∧
      res.2 = errOf (Storage.step (C06Run.fresh log) cop).2 ∧
      (res.2 = none → res.1.spec = (Storage.step (C06Run.fresh log) cop).1 ∧ res.1.cursor = (log ++ [r]).length)) ∧
    (∀ op m, C06FrontGen.getterBody op = some m →
      let res := sync w st log log.length
      (JournalRun.stepEv (JournalRun.run JournalRun.Sys.init evs) (.sync w)).rep? w = some res.1 ∧
      res.2 = none ∧ m.answer w res.1 op = (Storage.step (C06Run.fresh log) op).2 ∧
      (Storage.step (C06Run.fresh log) op).1 = C06Run.fresh log) ∧
    (∀ op, JournalRun.pending w (evs ++ [.call w op]) = 0) := by
  intro log
  refine ⟨?_, ?_, fun op => by rw [C06Run.pending_call]; exact hp⟩
  · intro op r hr res cop
    obtain ⟨h1, h2, h3⟩ := C06Run.ack_is_contract_answer_run evs hf w st op r h hp hr
    exact ⟨h1, h2, fun hn => ⟨(h3 hn).1, (h3 hn).2.1⟩⟩
  · intro op m hm res
    obtain ⟨h1, h2, h3, _⟩ := C06Run.sync_between_calls_reads_all evs hf w st h hp
    obtain ⟨_, ha, hs⟩ := C06FrontGen.front_getter_is_contract_read w res.1 op m hm
    have h3' : res.1.spec = C06Run.fresh log := h3
    rw [h3'] at ha hs
    exact ⟨h1, h2, ha, hs⟩

/-- the hypotheses hold in `C06Run.demoRun` (three joined workers, a crash, a restore under a new id) for each live worker -/
example : JournalRun.FreshIds C06Run.demoRun = true ∧
    ((JournalRun.run JournalRun.Sys.init C06Run.demoRun).rep? "A").isSome = true ∧ JournalRun.pending "A" C06Run.demoRun = 0 ∧
    ((JournalRun.run JournalRun.Sys.init C06Run.demoRun).rep? "D").isSome = true ∧ JournalRun.pending "D" C06Run.demoRun = 0 := by decide
/-- … also in a state where the worker has NOT read everything: after `demoRun.take 9` A has read 3 of 4 records -/
example : JournalRun.FreshIds (C06Run.demoRun.take 9) = true ∧ JournalRun.pending "A" (C06Run.demoRun.take 9) = 0 := by decide

/-! ## non-vacuity: three threads of one object — create_new_study / create_new_trial / get_all_trials racing -/

def demoJ : JProgs :=
  [[("t0", .createStudy "s" [1]), ("t0", .createTrial 0 none false)],
   [("t1", .createTrial 0 none false)],
   [("t2", .getAllTrials 0 none), ("t2", .getAllStudies)]]
/-- thread 1 creates its trial before the study exists (KeyError), thread 2 reads in between -/
def demoJSched : List Nat := [1, 0, 2, 1, 1, 0, 0, 0, 2, 2, 2, 0, 0, 0, 2, 2, 2]

example : demoJ.all (fun p => p.all callOK) = true := by decide
set_option maxRecDepth 30000 in
example : (sysJ Obj.init demoJ demoJSched).hist.map (·.1) = [1, 0, 2, 0, 2] := by decide
set_option maxRecDepth 30000 in
example : (sysJ Obj.init demoJ demoJSched).hist.map (fun p => p.2.1) = [some .keyError, none, none, none, none] := by decide
set_option maxRecDepth 30000 in
example : (sysJ Obj.init demoJ demoJSched).shared.log.length = 3 ∧
    (sysJ Obj.init demoJ demoJSched).shared.st.cursor = 3 := by decide

end OptunaVerif.C03Journal
