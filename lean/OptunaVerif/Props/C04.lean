import OptunaVerif.Lemmas.Queue
import OptunaVerif.Lemmas.InMemoryCursor
import OptunaVerif.Props.C01
/-!
# C04 — a queued trial is handed to exactly one worker

Theorems about `Model/Queue.lean`: any number of workers running the pop loop, every storage call
atomic (C03), interleaved in any order with any other storage calls.
-/
namespace OptunaVerif.C04
open OptunaVerif OptunaVerif.Storage OptunaVerif.Queue

/-! ## the claim itself -/

/-- A successful claim leaves the trial RUNNING and changes nothing else of it but the start time:
it keeps its number, study, values, parameters, user and system attributes (incl. `fixed_params`). -/
theorem claim_success_record (s : Spec) (tid : Nat)
    (h : (Storage.step s (claimOp tid)).2 = .bool true) :
    ∃ t, s.trials[tid]? = some t ∧ t.state = .waiting ∧
      (Storage.step s (claimOp tid)).1.trials[tid]? =
        some { t with state := .running, hasStart := true } := by
  obtain ⟨t, ht, hw⟩ := (C01.claim_true_iff_waiting s tid none).1 h
  have hw' : s.writable tid = .ok t := by
    rw [writable_ok_iff]; exact ⟨ht, by simp [hw, TState.isFinished]⟩
  have hget := ((trial?_some_iff s tid t).1 ht).1
  refine ⟨t, hget, hw, ?_⟩
  have hb : (TState.running == TState.running && TState.waiting != TState.waiting) = false := by decide
  simp only [claimOp, Storage.step, hw', hw, hb, Bool.false_eq_true, ↓reduceIte]
  rw [updTrial_get_same s tid _ t hget]
  simp [hw, TState.isFinished]

/-- **claimed_keeps_number_and_attrs** -/
theorem claimed_keeps_number_and_attrs (s : Spec) (tid : Nat)
    (h : (Storage.step s (claimOp tid)).2 = .bool true) :
    ∃ t t', s.trials[tid]? = some t ∧ (Storage.step s (claimOp tid)).1.trials[tid]? = some t' ∧
      t'.number = t.number ∧ t'.study = t.study ∧ t'.userAttrs = t.userAttrs ∧
      t'.systemAttrs = t.systemAttrs ∧ t'.params = t.params ∧ t'.values = t.values ∧
      t'.inter = t.inter ∧ t'.state = .running := by
  obtain ⟨t, hget, _, hpost⟩ := claim_success_record s tid h
  exact ⟨t, _, hget, hpost, rfl, rfl, rfl, rfl, rfl, rfl, rfl, rfl⟩

/-- A failed claim means the trial was not (or no longer) a live WAITING trial at that instant. -/
theorem failed_claim_not_waiting (s : Spec) (tid : Nat)
    (h : (Storage.step s (claimOp tid)).2 ≠ .bool true) :
    ¬ ∃ t, s.trial? tid = some t ∧ t.state = .waiting :=
  fun hw => h ((C01.claim_true_iff_waiting s tid none).2 hw)

/-! ## exactly one worker -/

/-- every trial claimed so far exists and is not WAITING -/
def ClaimedNotWaiting (sys : Sys) : Prop :=
  ∀ p ∈ sys.claims, ∃ t, sys.spec.trials[p.2]? = some t ∧ t.state ≠ .waiting

def Good (sys : Sys) : Prop := (sys.claims.map (·.2)).Nodup ∧ ClaimedNotWaiting sys

/-- a storage call that is not a re-queue keeps claimed trials out of WAITING -/
theorem claimed_stay (s : Spec) (op : Op) (tid : Nat) (t : TrialS)
    (hget : s.trials[tid]? = some t) (hnw : t.state ≠ .waiting)
    (hop : ∀ v, op ≠ .setTrialStateValues tid .waiting v) :
    ∃ t', (Storage.step s op).1.trials[tid]? = some t' ∧ t'.state ≠ .waiting := by
  obtain ⟨t', ht', _, _⟩ := C01.trial_study_step s op tid t hget
  refine ⟨t', ht', ?_⟩
  rcases step_state s op tid t' ht' with ⟨t0, h0, hs⟩ | hnone | ⟨st, v, hop', hst⟩
  · rw [hget] at h0
    simp only [Option.some.injEq] at h0
    subst h0
    rw [← hs]; exact hnw
  · rw [hget] at hnone; simp at hnone
  · intro hw
    rw [hst] at hw
    subst hw
    exact hop v hop'

theorem good_step (sys : Sys) (a : Act) (hg : Good sys) (ha : a.isRequeue = false) : Good (Queue.step sys a) := by
  obtain ⟨hnd, hcl⟩ := hg
  cases a with
  | beginPop w sid =>
    simp only [Queue.step]
    split <;> exact ⟨hnd, hcl⟩
  | reset w => exact ⟨hnd, hcl⟩
  | ext op =>
    refine ⟨hnd, ?_⟩
    intro p hp
    obtain ⟨t, hget, hnw⟩ := hcl p hp
    refine claimed_stay sys.spec op p.2 t hget hnw ?_
    intro v hv
    subst hv
    simp [Act.isRequeue] at ha
  | tryNext w =>
    simp only [Queue.step]
    split
    · exact ⟨hnd, hcl⟩
    · rename_i t rest _
      have hkeep : ∀ p ∈ sys.claims, ∃ t', (Storage.step sys.spec (claimOp t)).1.trials[p.2]? = some t'
          ∧ t'.state ≠ .waiting := by
        intro p hp
        obtain ⟨t0, hget, hnw⟩ := hcl p hp
        exact claimed_stay sys.spec (claimOp t) p.2 t0 hget hnw (by intro v hv; simp [claimOp] at hv)
      split
      · -- success
        rename_i heq
        have hsucc : (Storage.step sys.spec (claimOp t)).2 = .bool true := heq
        obtain ⟨t0, hget0, hw0, hpost⟩ := claim_success_record sys.spec t hsucc
        refine ⟨?_, ?_⟩
        · simp only [List.map_append, List.map_cons, List.map_nil]
          rw [List.nodup_append]
          refine ⟨hnd, by simp, ?_⟩
          intro a ha b hb
          simp only [List.mem_cons, List.not_mem_nil, or_false] at hb
          subst hb
          intro hab
          subst hab
          simp only [List.mem_map] at ha
          obtain ⟨p, hp, hp2⟩ := ha
          obtain ⟨t1, hget1, hnw1⟩ := hcl p hp
          rw [hp2, hget0] at hget1
          simp only [Option.some.injEq] at hget1
          subst hget1
          exact hnw1 hw0
        · intro p hp
          simp only [List.mem_append, List.mem_cons, List.not_mem_nil, or_false] at hp
          rcases hp with hp | hp
          · exact hkeep p hp
          · subst hp
            exact ⟨_, hpost, by simp⟩
      · exact ⟨hnd, fun p hp => hkeep p hp⟩
      · exact ⟨hnd, fun p hp => hkeep p hp⟩
      · exact ⟨hnd, fun p hp => hkeep p hp⟩
      · exact ⟨hnd, fun p hp => hkeep p hp⟩
    · exact ⟨hnd, hcl⟩

/-- **claimed_at_most_once**: for any number of workers, any interleaving of their pop loops with
any other storage calls that do not put an existing trial back to WAITING, no trial is ever handed
out twice — the successful claims are pairwise distinct trials. -/
theorem claimed_at_most_once (spec : Spec) (workers : List WState) (acts : List Act)
    (hno : ∀ a ∈ acts, a.isRequeue = false) :
    ((run { spec := spec, workers := workers, claims := [] } acts).claims.map (·.2)).Nodup := by
  suffices ∀ sys, Good sys → Good (run sys acts) from
    (this _ ⟨by simp, by intro p hp; simp at hp⟩).1
  induction acts with
  | nil => intro sys h; exact h
  | cons a rest ih =>
    intro sys h
    exact ih (fun b hb => hno b (List.mem_cons_of_mem _ hb)) _
      (good_step sys a h (hno a (List.mem_cons_self ..)))

/-! ## none is skipped -/

/-- **list_complete**: the candidates a worker starts from are *all* live WAITING trials of the
study at that instant (so a queued trial can only be passed over because somebody else took it). -/
theorem list_complete (s : Spec) (sid tid : Nat) (t : TrialS)
    (ht : s.trials[tid]? = some t) (hs : t.study = sid) (hw : t.state = .waiting) :
    tid ∈ waitingIds s sid := by
  unfold waitingIds
  simp only [List.mem_map, List.mem_filter]
  refine ⟨(tid, t), ⟨?_, by simp [hw]⟩, rfl⟩
  unfold Spec.trialsOf
  rw [mem_trialsFrom]
  exact ⟨tid, by omega, ht, hs⟩

/-- **no_skip** (one step of it): when a worker moves past a candidate, that candidate was not a
live WAITING trial at that instant — it had been claimed by somebody else (and possibly already
finished: the `UpdateFinishedTrialError` branch) or changed state. -/
theorem no_skip_step (sys : Sys) (w t : Nat) (rest : List Nat)
    (hw : sys.workers[w]? = some (.scanning (t :: rest)))
    (hnext : (Queue.step sys (.tryNext w)).workers[w]? = some (.scanning rest)) :
    ¬ ∃ tr, sys.spec.trial? t = some tr ∧ tr.state = .waiting := by
  apply failed_claim_not_waiting
  intro hsucc
  simp only [Queue.step, hw] at hnext
  split at hnext
  · rename_i heq
    simp only [updAt_getElem?, if_true, hw, Option.map_some, Option.some.injEq] at hnext
    simp at hnext
  · rename_i heq
    rw [heq] at hsucc; simp at hsucc
  · rename_i heq
    rw [heq] at hsucc; simp at hsucc
  · rename_i e heq
    rw [heq] at hsucc; simp at hsucc
  · rename_i h1 _ _ _
    exact h1 hsucc

/-! ## the in-memory shortcut for listing the queue is exact -/

namespace Cursor
open OptunaVerif.InMemoryCursor

def runOps (s : St) (ops : List InMemoryCursor.Op) : St := ops.foldl (fun s op => (InMemoryCursor.step s op).1) s

theorem inv_run (s : St) (ops : List InMemoryCursor.Op) (h : InMemoryCursor.Inv s) : InMemoryCursor.Inv (runOps s ops) := by
  induction ops generalizing s with
  | nil => exact h
  | cons op ops ih => exact ih _ (InMemoryCursor.inv_step s op h)

/-- **cursor_sound**: after any history of trial creations (in any state), state changes (incl.
RUNNING→WAITING) and earlier listings, `InMemoryStorage.get_all_trials(states=(WAITING,))` — which
only scans from its cursor — returns exactly all WAITING trials, in number order. -/
theorem cursor_sound (ops : List InMemoryCursor.Op) :
    (InMemoryCursor.step (runOps ⟨[], 0⟩ ops) .getWaiting).2 = some (allWaiting (runOps ⟨[], 0⟩ ops)) := by
  have h := inv_run ⟨[], 0⟩ ops ⟨Nat.le_refl _, by intro j st hj; exact absurd hj (Nat.not_lt_zero j)⟩
  simp only [InMemoryCursor.step]
  rw [scan_eq_all _ h]

/-- Without lowering the cursor on a →WAITING transition (the code before the F11 repair) the
theorem is false: a trial set back to WAITING below the cursor is not listed. -/
theorem cursor_unsound_without_repair :
    let ops : List InMemoryCursor.Op := [.create .running, .getWaiting, .setState 0 .waiting]
    let s := ops.foldl (fun s op => (stepNoRepair s op).1) ⟨[], 0⟩
    (stepNoRepair s .getWaiting).2 = some [] ∧ allWaiting s = [0] := by decide

example : (InMemoryCursor.step (runOps ⟨[], 0⟩ [.create .running, .getWaiting, .setState 0 .waiting]) .getWaiting).2 = some [0] := by
  decide

end Cursor

/-! ## non-vacuity -/

def waitingT : Template :=
  { state := .waiting, values := none, params := [], userAttrs := [("u", "1")],
    systemAttrs := [("fixed_params", "{\"x\": 0.5}")], inter := [], hasStart := false, hasComplete := false }

def demo0 : Sys :=
  { spec := C01.after Storage.init [.createStudy "s" [1], .createTrial 0 (some waitingT) false,
      .createTrial 0 (some waitingT) false],
    workers := [.idle, .idle], claims := [] }

-- two workers race for two queued trials: each gets one
example : (run demo0 [.beginPop 0 0, .beginPop 1 0, .tryNext 1, .tryNext 0, .tryNext 0]).claims = [(1, 0), (0, 1)] := by
  decide
example : (run demo0 [.beginPop 0 0, .tryNext 0, .reset 0, .beginPop 0 0, .tryNext 0, .beginPop 1 0, .tryNext 1]).workers[1]? =
    some .empty := by decide

end OptunaVerif.C04
