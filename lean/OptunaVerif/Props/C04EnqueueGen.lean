import OptunaVerif.Generated.EnqueueMethods
import OptunaVerif.Props.C04Gen
import OptunaVerif.Props.C10SuggestGen
/-!
# C04 (translator tie T-enqueue) — how a trial gets INTO the queue and how its fixed parameters reach the worker,
*as written in the source today*

`Generated/EnqueueMethods.lean` is regenerated on every run by `verif/translators/tenqueue.py` from
`optuna/study/study.py` (`enqueue_trial`, `_should_skip_enqueue`, `add_trial`, `add_trials`, the queue part of `ask`) and
`optuna/trial/_trial.py` (`Trial.__init__`), as DATA of `Model/EnqueueIR.lean`.  Proved here:

* per method, for ALL inputs: `gen_skip_eq`, `gen_add_eq`, `gen_enqueue_eq`, `gen_ask_eq`, `gen_ask_order`, `gen_init_eq`
  — the interpreter of the generated data is the hand model of `Model/Queue.lean`;
* end to end, with the generated pop loop of `Props/C04Gen.lean` and (by citation) T-suggest's
  `C10SuggestGen.gen_fixed_value_handed_over`: `gen_enqueue_creates`, `gen_enqueued_trial_claimed_at_most_once`,
  `gen_claim_keeps_number_and_attrs`, `gen_enqueued_params_reach_the_worker`, `gen_skip_if_exists_spec`
  (+ the witnesses `skip_nan_matches_any_float_witness`, `skip_bool_int_asymmetry_witness`).
-/
set_option linter.unusedSimpArgs false
namespace OptunaVerif.C04EnqueueGen
open OptunaVerif OptunaVerif.Storage OptunaVerif.Queue OptunaVerif.QueueIR OptunaVerif.EnqueueIR
open OptunaVerif.Dist (Tok)
open OptunaVerif.Generated

/-! ## one equality per method -/

/-- `_should_skip_enqueue` as written today: an existing trial matches when its `fixed_params` (else its `params`) have
the same key set and EVERY new value is "repeated": same type (`bool` under `int`), and for numbers NaN-or-close
(`rtol = 1e-5`, `atol = 0`), otherwise `==`. -/
theorem gen_skip_eq (views : List TrialView) (params : AList Tok) :
    EnqueueMethods.skip.eval views params = shouldSkip views params := by
  unfold SkipIR.eval shouldSkip
  congr 1
  funext v
  simp only [EnqueueMethods.skip, ParamsOf.eval, fixedKey, Bool.not_true, Bool.false_or, List.all_map]
  congr 2

-- non-vacuity: same keys, a close float repeats; a different key set or a different value does not
example : EnqueueMethods.skip.eval [⟨[("fixed_params", [("x", .flt 1)])], []⟩] [("x", .flt (100001/100000))] = true ∧
    EnqueueMethods.skip.eval [⟨[("fixed_params", [("x", .flt 1)])], []⟩] [("x", .flt 2)] = false ∧
    EnqueueMethods.skip.eval [⟨[], [("x", .flt 1), ("y", .int 2)]⟩] [("x", .flt 1)] = false ∧
    EnqueueMethods.skip.eval [⟨[], [("x", .flt 1), ("y", .str "a")]⟩] [("y", .str "a"), ("x", .flt 1)] = true := by decide +kernel

/-- `add_trial` as written today -/
theorem gen_add_eq (s : Spec) (sid : Nat) (tmpl : Template) (valid implRaised : Bool) :
    EnqueueMethods.add.eval s sid tmpl valid implRaised = addTrial s sid tmpl valid implRaised := by
  unfold AddIR.eval addTrial
  simp only [EnqueueMethods.add, TmplX.eval, Bool.true_and, if_true]
  cases valid <;> simp
  cases tmpl.values <;> simp
  cases s.study? sid <;> simp

/-- the template `enqueue_trial` builds: WAITING, no values / params / start time, the parameters under
`system_attrs["fixed_params"]`, the user attributes as given -/
theorem gen_enqueue_template_eq (payload : String) (ua : AList String) :
    EnqueueMethods.enqueue.template payload ua = enqueueTemplate payload ua := by
  simp [EnqIR.template, EnqueueMethods.enqueue, enqueueTemplate, fixedKey, TState.isFinished]

/-- `enqueue_trial` as written today (TypeError for a non-dict, the skip guard, `add_trial(create_trial(...))`) -/
theorem gen_enqueue_eq (enc : AList Tok → String) (s : Spec) (sid : Nat) (isDict : Bool) (params : AList Tok)
    (ua : AList String) (skipIfExists : Bool) (views : List TrialView) (valid implRaised : Bool) :
    EnqueueMethods.enqueue.eval EnqueueMethods.skip EnqueueMethods.add enc s sid isDict params ua skipIfExists views valid implRaised =
      Queue.enqueue enc s sid isDict params ua skipIfExists views valid implRaised := by
  unfold EnqIR.eval Queue.enqueue
  rw [gen_enqueue_template_eq, gen_skip_eq]
  simp [EnqueueMethods.enqueue, gen_add_eq]

/-- `Trial.__init__` as written today: `_fixed_params` is `system_attrs.get("fixed_params", {})` of the trial read from
the storage -/
theorem gen_init_eq (dec : String → Option (AList Tok)) (t : TrialS) :
    EnqueueMethods.init.eval dec t = initFixed dec t := by
  unfold InitIR.eval initFixed
  cases h : t.systemAttrs.get? fixedKey <;> simp_all [EnqueueMethods.init, fixedKey]

/-- the queue part of `ask` as written today: a popped id is used as it is and nothing is created; only when the pop
answers `None` a fresh trial is created -/
theorem gen_ask_eq (s : Spec) (sid : Nat) (popped : Option Nat) :
    (runAsk EnqueueMethods.ask.body sid popped s).spec = (askQueue s sid popped).1 ∧
    (∀ n, (askQueue s sid popped).2 = .newId n → (runAsk EnqueueMethods.ask.body sid popped s).tid = some n) := by
  cases popped with
  | some t => simp [runAsk, EnqueueMethods.ask, AskStmt.step, askQueue]
  | none =>
    simp only [runAsk, EnqueueMethods.ask, List.foldl, AskStmt.step, askQueue]
    cases h : Storage.step s (Op.createTrial sid none false) with
    | mk s' o => cases o <;> simp_all [AskStmt.step]

/-- … and in this order: the queue is consulted FIRST, then (only for an empty queue) a trial is created, then the
`Trial` object is constructed, then the `fixed_distributions` are suggested (no relative sampling before), then `return` -/
theorem gen_ask_order (s : Spec) (sid t : Nat) :
    (runAsk EnqueueMethods.ask.body sid (some t) s).evs = [.popped (some t), .constructed t, .suggestedFixed, .returned t] ∧
    (∀ s' n, Storage.step s (.createTrial sid none false) = (s', .newId n) →
      (runAsk EnqueueMethods.ask.body sid none s).evs = [.popped none, .created n, .constructed n, .suggestedFixed, .returned n]) ∧
    EnqueueMethods.ask.failsTrialOnException = true := by
  refine ⟨by simp [runAsk, EnqueueMethods.ask, AskStmt.step], ?_, rfl⟩
  intro s' n h
  simp [runAsk, EnqueueMethods.ask, AskStmt.step, h]

theorem gen_add_trials : EnqueueMethods.addMany.eachViaAddTrial = true := rfl

/-! ## end to end: generated `enqueue_trial` + generated pop loop + generated `Trial.__init__` + generated `_suggest` -/

/-- the record an accepted `enqueue_trial` appends -/
def enqueuedRecord (enc : AList Tok → String) (s : Spec) (sid : Nat) (params : AList Tok) (ua : AList String) : TrialS :=
  { study := sid, number := (s.trialsOf sid).length, state := .waiting, values := none, params := [], userAttrs := ua,
    systemAttrs := [(fixedKey, enc params)], inter := [], hasStart := false, hasComplete := false }

/-- the storage call an accepted `enqueue_trial` is, as an action of the queue system -/
def enqAct (enc : AList Tok → String) (sid : Nat) (params : AList Tok) (ua : AList String) (implRaised : Bool) : Queue.Act :=
  .ext (.createTrial sid (some (enqueueTemplate (enc params) ua)) implRaised)

theorem enqAct_not_requeue (enc : AList Tok → String) (sid : Nat) (params : AList Tok) (ua : AList String) (ir : Bool) :
    (enqAct enc sid params ua ir).isRequeue = false := rfl

/-- **gen_enqueue_effect**: whatever the generated `enqueue_trial` does to the storage is nothing at all (TypeError,
skipped, validation error, deleted study) or exactly ONE `create_new_trial` with the WAITING template above. -/
theorem gen_enqueue_effect (enc : AList Tok → String) (s : Spec) (sid : Nat) (isDict : Bool) (params : AList Tok)
    (ua : AList String) (skipIfExists : Bool) (views : List TrialView) (valid implRaised : Bool) (r : Spec × Out)
    (h : EnqueueMethods.enqueue.eval EnqueueMethods.skip EnqueueMethods.add enc s sid isDict params ua skipIfExists views valid implRaised = some r) :
    r.1 = s ∨ r = Storage.step s (.createTrial sid (some (enqueueTemplate (enc params) ua)) implRaised) := by
  rw [gen_enqueue_eq] at h
  unfold Queue.enqueue at h
  split at h
  · cases h
  · split at h
    · cases h; exact .inl rfl
    · cases h
      unfold addTrial
      cases valid
      · exact .inl rfl
      · exact .inr rfl

theorem createTrial_newId (s s1 : Spec) (sid tid : Nat) (tmpl : Option Template) (ir : Bool)
    (h : Storage.step s (.createTrial sid tmpl ir) = (s1, .newId tid)) :
    tid = s.trials.length ∧ s1.trials = s.trials ++ [mkTrial sid (s.trialsOf sid).length tmpl] ∧ s1.studies = s.studies := by
  simp only [Storage.step] at h
  split at h
  · cases h
  · split at h
    · cases h
    · cases h
      exact ⟨rfl, rfl, rfl⟩

/-- **gen_enqueue_creates**: an `enqueue_trial` that answers with a new id appended exactly the WAITING record with the
parameters under `system_attrs["fixed_params"]`, the user attributes, the next number of the study — nothing else changed. -/
theorem gen_enqueue_creates (enc : AList Tok → String) (s s1 : Spec) (sid tid : Nat) (isDict : Bool) (params : AList Tok)
    (ua : AList String) (skipIfExists : Bool) (views : List TrialView) (valid implRaised : Bool)
    (h : EnqueueMethods.enqueue.eval EnqueueMethods.skip EnqueueMethods.add enc s sid isDict params ua skipIfExists views valid implRaised = some (s1, .newId tid)) :
    tid = s.trials.length ∧ s1.trials = s.trials ++ [enqueuedRecord enc s sid params ua] ∧ s1.studies = s.studies := by
  rw [gen_enqueue_eq] at h
  unfold Queue.enqueue at h
  split at h
  · cases h
  · split at h
    · cases h
    · simp only [Option.some.injEq] at h
      unfold addTrial at h
      cases valid
      · cases h
      · exact createTrial_newId s s1 sid tid _ implRaised h
example : (EnqueueMethods.enqueue.eval EnqueueMethods.skip EnqueueMethods.add (fun _ => "P") C04.demo0.spec 0 true
    [("x", .flt 1)] [("k", "v")] false [] true false).map (fun r => (r.2, r.1.trials[2]?.map (fun t => (t.state, t.number, t.systemAttrs, t.userAttrs)))) =
    some (.newId 2, some (.waiting, 2, [("fixed_params", "P")], [("k", "v")])) := by rfl

/-- one atomic action of the whole system: a worker action of the GENERATED pop loop, or a call of the GENERATED
`enqueue_trial` (with whatever `get_trials` returned as `views`) -/
inductive GAct where
  | q (a : Queue.Act)
  | enq (sid : Nat) (isDict : Bool) (params : AList Tok) (ua : AList String) (skipIfExists : Bool)
      (views : List TrialView) (valid implRaised : Bool)

def gstep (enc : AList Tok → String) (sys : Sys) : GAct → Sys
  | .q a => QueueIR.step C04Gen.pop sys a
  | .enq sid isDict params ua sk views valid ir =>
    match EnqueueMethods.enqueue.eval EnqueueMethods.skip EnqueueMethods.add enc sys.spec sid isDict params ua sk views valid ir with
    | none => sys
    | some r => { sys with spec := r.1 }

def grun (enc : AList Tok → String) (sys : Sys) (acts : List GAct) : Sys := acts.foldl (gstep enc) sys

def GAct.isRequeue : GAct → Bool
  | .q a => a.isRequeue
  | .enq .. => false

theorem gstep_is_queue_step (enc : AList Tok → String) (sys : Sys) (a : GAct) (ha : a.isRequeue = false) :
    gstep enc sys a = sys ∨ ∃ b : Queue.Act, b.isRequeue = false ∧ gstep enc sys a = Queue.step sys b := by
  cases a with
  | q a => exact .inr ⟨a, ha, C04Gen.step_eq sys a⟩
  | enq sid isDict params ua sk views valid ir =>
    simp only [gstep]
    cases h : EnqueueMethods.enqueue.eval EnqueueMethods.skip EnqueueMethods.add enc sys.spec sid isDict params ua sk views valid ir with
    | none => exact .inl rfl
    | some r =>
      rcases gen_enqueue_effect enc sys.spec sid isDict params ua sk views valid ir r h with h1 | h1
      · left; simp [h1]
      · right
        exact ⟨enqAct enc sid params ua ir, rfl, by simp [Queue.step, enqAct, h1]⟩

/-- **gen_enqueued_trial_claimed_at_most_once**: any number of workers running the pop loop as generated from the source,
any number of `enqueue_trial` calls as generated from the source, any interleaving with any other storage calls that do
not put an existing trial back to WAITING: no trial — in particular no enqueued trial — is ever handed out twice. -/
theorem gen_enqueued_trial_claimed_at_most_once (enc : AList Tok → String) (spec : Spec) (workers : List WState)
    (acts : List GAct) (hno : ∀ a ∈ acts, a.isRequeue = false) :
    ((grun enc { spec := spec, workers := workers, claims := [] } acts).claims.map (·.2)).Nodup := by
  suffices ∀ sys, C04.Good sys → C04.Good (grun enc sys acts) from
    (this _ ⟨by simp, by intro p hp; simp at hp⟩).1
  induction acts with
  | nil => intro sys h; exact h
  | cons a rest ih =>
    intro sys h
    refine ih (fun b hb => hno b (List.mem_cons_of_mem _ hb)) _ ?_
    rcases gstep_is_queue_step enc sys a (hno a (List.mem_cons_self ..)) with h1 | ⟨b, hb, h1⟩
    · rw [h1]; exact h
    · rw [h1]; exact C04.good_step sys b h hb
-- two enqueues, two workers racing: both trials handed out, each once
example : ((grun (fun _ => "P") { spec := (Storage.step Storage.init (.createStudy "s" [1])).1, workers := [.idle, .idle], claims := [] }
    [.enq 0 true [("x", .flt 1)] [] false [] true false, .enq 0 true [("x", .flt 2)] [] false [] true false,
     .q (.beginPop 0 0), .q (.beginPop 1 0), .q (.tryNext 1), .q (.tryNext 0), .q (.tryNext 0)]).claims) = [(1, 0), (0, 1)] := by
  decide

/-- a worker of the generated loop ends a `tryNext` holding `t` only when its compare-and-set answered True -/
theorem got_means_claimed (sys : Sys) (w t : Nat) (rest : List Nat)
    (hw : sys.workers[w]? = some (.scanning (t :: rest)))
    (hgot : (QueueIR.step C04Gen.pop sys (.tryNext w)).workers[w]? = some (.got t)) :
    (Storage.step sys.spec (claimOp t)).2 = .bool true ∧
      (QueueIR.step C04Gen.pop sys (.tryNext w)).spec = (Storage.step sys.spec (claimOp t)).1 := by
  rw [C04Gen.step_eq] at hgot ⊢
  have hlt : w < sys.workers.length := by
    rcases Nat.lt_or_ge w sys.workers.length with h | h
    · exact h
    · rw [List.getElem?_eq_none h] at hw; cases hw
  simp only [Queue.step, hw] at hgot ⊢
  split at hgot
  · rename_i heq; simp [heq]
  · simp only [updAt_getElem?, if_true, hw, Option.map_some, Option.some.injEq] at hgot
    simp at hgot
  · simp only [updAt_getElem?, if_true, hw, Option.map_some, Option.some.injEq] at hgot
    simp at hgot
  · simp only [updAt_getElem?, if_true, hw, Option.map_some, Option.some.injEq] at hgot
    simp at hgot
  · simp [hw] at hgot

/-- **gen_claim_keeps_number_and_attrs**: the worker that gets `t` from the generated loop gets the SAME trial — same
number, study, user attributes, system attributes (hence the enqueued parameters), parameters, values, intermediate
values — now RUNNING. -/
theorem gen_claim_keeps_number_and_attrs (sys : Sys) (w t : Nat) (rest : List Nat)
    (hw : sys.workers[w]? = some (.scanning (t :: rest)))
    (hgot : (QueueIR.step C04Gen.pop sys (.tryNext w)).workers[w]? = some (.got t)) :
    ∃ tr tr', sys.spec.trials[t]? = some tr ∧ (QueueIR.step C04Gen.pop sys (.tryNext w)).spec.trials[t]? = some tr' ∧
      tr'.number = tr.number ∧ tr'.study = tr.study ∧ tr'.userAttrs = tr.userAttrs ∧
      tr'.systemAttrs = tr.systemAttrs ∧ tr'.params = tr.params ∧ tr'.values = tr.values ∧
      tr'.inter = tr.inter ∧ tr'.state = .running := by
  obtain ⟨hc, hs⟩ := got_means_claimed sys w t rest hw hgot
  rw [hs]
  exact C04.claimed_keeps_number_and_attrs sys.spec t hc

/-- **gen_enqueued_params_reach_the_worker**: a trial that carries `enc params` under `system_attrs["fixed_params"]`
(what the generated `enqueue_trial` stores: `gen_enqueue_creates`) and is handed to a worker by the generated pop loop:
the generated `Trial.__init__` reads exactly `params` into `_fixed_params` (the stored form decodes: `dec (enc p) = p`),
and the generated `Trial._suggest` (T-suggest, `C10SuggestGen.gen_fixed_value_handed_over`) hands the enqueued value of
every new name to the objective and stores it, without asking a sampler. -/
theorem gen_enqueued_params_reach_the_worker (enc : AList Tok → String) (dec : String → Option (AList Tok))
    (hcodec : ∀ p, dec (enc p) = some p) (sys : Sys) (w t : Nat) (rest : List Nat) (tr : TrialS) (params : AList Tok)
    (ht : sys.spec.trials[t]? = some tr) (hattr : tr.systemAttrs.get? fixedKey = some (enc params))
    (hw : sys.workers[w]? = some (.scanning (t :: rest)))
    (hgot : (QueueIR.step C04Gen.pop sys (.tryNext w)).workers[w]? = some (.got t)) :
    ∃ tr', (QueueIR.step C04Gen.pop sys (.tryNext w)).spec.trials[t]? = some tr' ∧ tr'.state = .running ∧
      tr'.number = tr.number ∧ tr'.userAttrs = tr.userAttrs ∧
      EnqueueMethods.init.eval dec tr' = some params ∧
      ∀ (E : SuggestIR.SEnv) (st : Suggest.St) (name : String) (d : Dist.Dist) (fv : Tok) (q : Rat),
        some E.cx.fixed = EnqueueMethods.init.eval dec tr' → params.get? name = some fv →
        st.dists.get? name = none → d.toInternal fv = .ok q → E.writeFails = false →
        SuggestIR.interpSuggest SuggestMethods.program E st name d =
          some ⟨{ params := st.params.set name fv, dists := st.dists.set name d, stored := st.stored.set name (q, d) },
                if d.contains q then [] else [.fixedOutOfRange], 0, .ok (fv, .fixed)⟩ := by
  obtain ⟨tr0, tr', h0, h1, hn, _, hu, hsys, _, _, _, hst⟩ := gen_claim_keeps_number_and_attrs sys w t rest hw hgot
  rw [ht] at h0
  cases h0
  have hinit : EnqueueMethods.init.eval dec tr' = some params := by
    rw [gen_init_eq]
    simp [initFixed, hsys, hattr, hcodec]
  refine ⟨tr', h1, hst, hn, hu, hinit, ?_⟩
  intro E st name d fv q hE hp hnew hq hwf
  rw [hinit] at hE
  have hf : E.cx.fixed.get? name = some fv := by
    cases hE; exact hp
  exact C10SuggestGen.gen_fixed_value_handed_over E st name d fv q hnew hf hq hwf

/-- the same, from the `enqueue_trial` call on: enqueue (generated), then the claim (generated) -/
theorem gen_enqueue_then_claim (enc : AList Tok → String) (dec : String → Option (AList Tok))
    (hcodec : ∀ p, dec (enc p) = some p) (s s1 : Spec) (sid tid : Nat) (params : AList Tok) (ua : AList String)
    (skipIfExists : Bool) (views : List TrialView) (valid implRaised : Bool)
    (henq : EnqueueMethods.enqueue.eval EnqueueMethods.skip EnqueueMethods.add enc s sid true params ua skipIfExists views valid implRaised = some (s1, .newId tid))
    (workers : List WState) (claims : List (Nat × Nat)) (w : Nat) (rest : List Nat)
    (hw : workers[w]? = some (.scanning (tid :: rest)))
    (hgot : (QueueIR.step C04Gen.pop ⟨s1, workers, claims⟩ (.tryNext w)).workers[w]? = some (.got tid)) :
    ∃ tr', (QueueIR.step C04Gen.pop ⟨s1, workers, claims⟩ (.tryNext w)).spec.trials[tid]? = some tr' ∧ tr'.state = .running ∧
      tr'.number = (s.trialsOf sid).length ∧ tr'.userAttrs = ua ∧ EnqueueMethods.init.eval dec tr' = some params := by
  obtain ⟨htid, htr, _⟩ := gen_enqueue_creates enc s s1 sid tid true params ua skipIfExists views valid implRaised henq
  have ht : (⟨s1, workers, claims⟩ : Sys).spec.trials[tid]? = some (enqueuedRecord enc s sid params ua) := by
    simp [htr, htid]
  obtain ⟨tr', h1, h2, h3, h4, h5, _⟩ := gen_enqueued_params_reach_the_worker enc dec hcodec ⟨s1, workers, claims⟩ w tid rest _
    params ht (by simp [enqueuedRecord, AList.get?]) hw hgot
  exact ⟨tr', h1, h2, h3, h4, h5⟩

/-! ## `skip_if_exists` -/

/-- **gen_skip_if_exists_spec** — the exact characterisation, for the code as written today, of when
`enqueue_trial(params, skip_if_exists=…)` (a dict) adds nothing because of the skip guard: the flag is set AND some
existing trial `v` — its `system_attrs["fixed_params"]` when it has that attribute, its `params` otherwise — has the same
KEY SET and, for every key, an "equal" value: the new value is an instance of the existing value's type (so `True` repeats
an existing `1`, but `1` does not repeat an existing `True`), and then, for numbers: the NEW value is NaN (WHATEVER the
existing number is — see `skip_nan_matches_any_float_witness`) or `|new - old| <= 1e-5 * |old|`; for all other values `==`. -/
theorem gen_skip_if_exists_spec (enc : AList Tok → String) (s : Spec) (sid : Nat) (params : AList Tok)
    (ua : AList String) (skipIfExists : Bool) (views : List TrialView) (valid implRaised : Bool) :
    let skipped := skipIfExists = true ∧ ∃ v ∈ views,
      let tp := (v.sys.get? fixedKey).getD v.params
      keysEq tp params = true ∧ ∀ p ∈ params, ∃ e, tp.get? p.1 = some e ∧ isInstOfTypeOf p.2 e = true ∧
        (if isReal p.2 then isNaNTok p.2 = true ∨ iscloseTok (1 / 100000) 0 p.2 e = true else p.2.pyEq e = true)
    (skipped → EnqueueMethods.enqueue.eval EnqueueMethods.skip EnqueueMethods.add enc s sid true params ua skipIfExists views valid implRaised = some (s, .unit)) ∧
    (¬ skipped → EnqueueMethods.enqueue.eval EnqueueMethods.skip EnqueueMethods.add enc s sid true params ua skipIfExists views valid implRaised =
      some (EnqueueMethods.add.eval s sid (enqueueTemplate (enc params) ua) valid implRaised)) := by
  intro skipped
  have hiff : skipped ↔ (skipIfExists && shouldSkip views params) = true := by
    simp only [skipped, shouldSkip, Bool.and_eq_true, List.any_eq_true, List.all_eq_true]
    constructor
    · rintro ⟨hf, v, hv, hk, hall⟩
      refine ⟨hf, v, hv, hk, ?_⟩
      intro p hp
      obtain ⟨e, he, hi, hr⟩ := hall p hp
      simp only [he, repeatedOne, hi]
      cases hreal : isReal p.2 <;> simp_all
    · rintro ⟨hf, v, hv, hk, hall⟩
      refine ⟨hf, v, hv, hk, ?_⟩
      intro p hp
      have := hall p hp
      cases he : ((v.sys.get? fixedKey).getD v.params).get? p.1 with
      | none => simp [he] at this
      | some e =>
        simp only [he, repeatedOne] at this
        refine ⟨e, rfl, ?_⟩
        cases hi : isInstOfTypeOf p.2 e <;> cases hreal : isReal p.2 <;> simp_all
  rw [gen_enqueue_eq, gen_add_eq]
  unfold Queue.enqueue
  constructor
  · intro h; simp [hiff.1 h]
  · intro h
    have : (skipIfExists && shouldSkip views params) = false := by
      cases hb : (skipIfExists && shouldSkip views params)
      · rfl
      · exact absurd (hiff.2 hb) h
    simp [this]

/-- SURPRISING, as written: a NEW value NaN is "repeated" against ANY existing number of that name — with an existing
enqueued `{"x": 1.0}`, `enqueue_trial({"x": nan}, skip_if_exists=True)` adds nothing (`np.isnan(float(param_value)) or …`
looks at the new value only). -/
theorem skip_nan_matches_any_float_witness :
    EnqueueMethods.skip.eval [⟨[("fixed_params", [("x", .flt 1)])], []⟩] [("x", .nan)] = true ∧
    -- … but not the other way round: a new 1.0 does not repeat an existing NaN
    EnqueueMethods.skip.eval [⟨[("fixed_params", [("x", .nan)])], []⟩] [("x", .flt 1)] = false ∧
    -- … and NaN repeats NaN (the case the clause was written for)
    EnqueueMethods.skip.eval [⟨[("fixed_params", [("x", .nan)])], []⟩] [("x", .nan)] = true := by decide +kernel

/-- as written: `isinstance(new, type(old))` is asymmetric under `bool <: int` -/
theorem skip_bool_int_asymmetry_witness :
    EnqueueMethods.skip.eval [⟨[("fixed_params", [("x", .int 1)])], []⟩] [("x", .bool true)] = true ∧
    EnqueueMethods.skip.eval [⟨[("fixed_params", [("x", .bool true)])], []⟩] [("x", .int 1)] = false ∧
    -- an int never repeats a float of the same value (`isinstance(1, float)` is False), a float never an int
    EnqueueMethods.skip.eval [⟨[("fixed_params", [("x", .flt 1)])], []⟩] [("x", .int 1)] = false := by decide +kernel

end OptunaVerif.C04EnqueueGen
