import OptunaVerif.Generated.TellMethods
import OptunaVerif.Model.QueueIR
import OptunaVerif.Lemmas.TellIR
import OptunaVerif.Props.C04
/-!
# C04 (translator tie) — `Study._pop_waiting_trial_id` *as written in the source today* is the hand model

`Generated/TellMethods.lean` (regenerated on every run by `verif/translators/ttell.py`) holds the body of
`Study._pop_waiting_trial_id` as data of the statement language of `Model/TellIR.lean`; `Model/QueueIR.lean` runs it
in the small-step setting of `Model/Queue.lean` (one atomic `get_all_trials` for the iterable, one execution of the
generated loop body — with its one atomic compare-and-set — per `tryNext`).

Proved here, for **all** systems, workers, schedules: `QueueIR.step generated = Queue.step` (`step_eq`), hence
`run_eq`, hence the theorems of `Props/C04.lean` hold of the generated pop loop (`gen_*`).  A source change that
ignores the answer of the compare-and-set, drops the `UpdateFinishedTrialError` handler (repaired defect F17), returns
before the claim, lists other states than WAITING … breaks `step_eq`.
-/
set_option linter.unusedSimpArgs false
namespace OptunaVerif.C04Gen
open OptunaVerif OptunaVerif.Storage OptunaVerif.Queue OptunaVerif.TellIR OptunaVerif.QueueIR
open OptunaVerif.Generated

abbrev pop : Stmt := TellMethods.popWaitingTrialId

/-- the compare-and-set answers True, False, or with an error of the contract -/
theorem claim_out (s : Spec) (t : Nat) :
    (∃ b, (Storage.step s (claimOp t)).2 = .bool b) ∨ ∃ e, (Storage.step s (claimOp t)).2 = .err e := by
  simp only [claimOp, Storage.step]
  split
  · exact .inr ⟨_, rfl⟩
  · split
    · exact .inl ⟨_, rfl⟩
    · exact .inl ⟨_, rfl⟩
example : (Storage.step Storage.init (claimOp 0)).2 = .err .keyError := by decide

theorem catches_updateFinished (e : Err) :
    catches QExn.mro [.updateFinishedTrialError] (.err e) = decide (e = .updateFinished) := by
  cases e <;> rfl

/-- the function is `for trial in <WAITING trials>: <body>` followed by `return None` -/
theorem pop_shape : ∃ body, loopOf pop = some (.waitingTrials, body, .ret .none) := ⟨_, rfl⟩

/-- **step_eq**: one atomic action of the system with the pop loop as written in the source today is the action of
the hand model — for every system state, worker and action. -/
theorem step_eq (sys : Sys) (a : Queue.Act) : QueueIR.step pop sys a = Queue.step sys a := by
  cases a with
  | reset w => rfl
  | ext op => rfl
  | beginPop w sid =>
    simp only [QueueIR.step, Queue.step]
    cases hw : sys.workers[w]? with
    | none => rfl
    | some ws =>
      cases ws with
      | idle =>
        cases hs : (sys.spec.study? sid).isSome <;>
          simp [pop, TellMethods.popWaitingTrialId, block, loopOf, popM, setWorker, hs]
      | _ => rfl
  | tryNext w =>
    simp only [QueueIR.step, Queue.step]
    cases hw : sys.workers[w]? with
    | none => rfl
    | some ws =>
      cases ws with
      | scanning l =>
        cases l with
        | nil => simp [pop, TellMethods.popWaitingTrialId, block, loopOf, exec, setWorker]
        | cons t rest =>
          rcases claim_out sys.spec t with ⟨b, hb⟩ | ⟨e, he⟩
          · cases b <;>
              simp [pop, TellMethods.popWaitingTrialId, block, loopOf, exec, evalCond, popM, hb]
          · cases e <;>
              simp [pop, TellMethods.popWaitingTrialId, block, loopOf, exec, evalCond, popM, he, catches_updateFinished]
      | _ => rfl

theorem run_eq (sys : Sys) (acts : List Queue.Act) : QueueIR.run pop sys acts = Queue.run sys acts := by
  unfold QueueIR.run Queue.run
  congr 1
  funext s a
  exact step_eq s a
example : (QueueIR.run pop C04.demo0 [.beginPop 0 0, .beginPop 1 0, .tryNext 1, .tryNext 0, .tryNext 0]).claims =
    [(1, 0), (0, 1)] := by decide

/-- **gen_claimed_at_most_once**: any number of workers running the pop loop *as generated from the source*, any
interleaving with any other storage calls that do not put an existing trial back to WAITING: no trial is ever handed
out twice. -/
theorem gen_claimed_at_most_once (spec : Spec) (workers : List WState) (acts : List Queue.Act)
    (hno : ∀ a ∈ acts, a.isRequeue = false) :
    ((QueueIR.run pop { spec := spec, workers := workers, claims := [] } acts).claims.map (·.2)).Nodup := by
  rw [run_eq]
  exact C04.claimed_at_most_once spec workers acts hno
example : ((QueueIR.run pop C04.demo0 [.beginPop 0 0, .beginPop 1 0, .tryNext 1, .tryNext 0, .tryNext 0]).claims.map
    (·.2)).Nodup := by decide

/-- **gen_no_skip_step**: when the generated loop moves past a candidate, that candidate was not a live WAITING trial
at that instant. -/
theorem gen_no_skip_step (sys : Sys) (w t : Nat) (rest : List Nat)
    (hw : sys.workers[w]? = some (.scanning (t :: rest)))
    (hnext : (QueueIR.step pop sys (.tryNext w)).workers[w]? = some (.scanning rest)) :
    ¬ ∃ tr, sys.spec.trial? t = some tr ∧ tr.state = .waiting := by
  rw [step_eq] at hnext
  exact C04.no_skip_step sys w t rest hw hnext

/-- the candidates the generated loop starts from are all live WAITING trials of the study -/
theorem gen_list_complete (sys : Sys) (w sid tid : Nat) (t : TrialS) (hw : sys.workers[w]? = some .idle)
    (hs : (sys.spec.study? sid).isSome = true)
    (ht : sys.spec.trials[tid]? = some t) (hst : t.study = sid) (hwt : t.state = .waiting) :
    ∃ l, (QueueIR.step pop sys (.beginPop w sid)).workers[w]? = some (.scanning l) ∧ tid ∈ l := by
  rw [step_eq]
  refine ⟨waitingIds sys.spec sid, ?_, C04.list_complete sys.spec sid tid t ht hst hwt⟩
  have hlt : w < sys.workers.length := by
    rcases Nat.lt_or_ge w sys.workers.length with h | h
    · exact h
    · rw [List.getElem?_eq_none h] at hw; cases hw
  simp [Queue.step, hw, hs, updAt_getElem?]

/-- a worker that found the queue empty: the second worker of `demo0` after the first took both trials -/
example : (QueueIR.run pop C04.demo0 [.beginPop 0 0, .tryNext 0, .reset 0, .beginPop 0 0, .tryNext 0, .beginPop 1 0,
    .tryNext 1]).workers[1]? = some .empty := by decide

end OptunaVerif.C04Gen
