import OptunaVerif.Props.C04
/-!
# C04 — run-level forms of "none is skipped" and "a `got` is a claim"

`no_skip_step` and `list_complete` (Props/C04.lean) are facts about ONE step.  Here they are carried along runs of the
small-step system `Queue.run` (any number of workers, any schedule, any interleaved storage calls).  Fairness is not modelled:
nothing here says that a worker ever takes a step — the theorems say what is true of every state a run reaches.
-/
set_option linter.unusedSimpArgs false
set_option linter.unusedVariables false
namespace OptunaVerif.C04
open OptunaVerif OptunaVerif.Storage OptunaVerif.Queue

/-! ## `got t` ⇒ `(w, t) ∈ claims` -/

/-- the worker an action belongs to (`none`: a storage call from outside the pop loops) -/
def actor : Act → Option Nat
  | .beginPop w _ => some w
  | .tryNext w => some w
  | .reset w => some w
  | .ext _ => none

/-- claims are only ever appended -/
theorem claims_mono (sys : Sys) (a : Act) : ∀ p ∈ sys.claims, p ∈ (Queue.step sys a).claims := by
  intro p hp
  cases a with
  | beginPop w sid => simp only [Queue.step]; split <;> exact hp
  | reset w => exact hp
  | ext op => exact hp
  | tryNext w =>
    simp only [Queue.step]
    split
    · exact hp
    · split
      · simp only [List.mem_append]; exact Or.inl hp
      all_goals exact hp
    · exact hp

/-- a step of somebody else leaves worker `w` where it was -/
theorem step_frame (sys : Sys) (a : Act) (w : Nat) (h : actor a ≠ some w) :
    (Queue.step sys a).workers[w]? = sys.workers[w]? := by
  cases a with
  | beginPop w' sid =>
    have hne : w ≠ w' := by intro e; subst e; exact h rfl
    simp only [Queue.step]
    split
    · simp [updAt_getElem?, hne]
    · rfl
  | reset w' =>
    have hne : w ≠ w' := by intro e; subst e; exact h rfl
    simp [Queue.step, updAt_getElem?, hne]
  | ext op => rfl
  | tryNext w' =>
    have hne : w ≠ w' := by intro e; subst e; exact h rfl
    simp only [Queue.step]
    split
    · simp [updAt_getElem?, hne]
    · split <;> simp [updAt_getElem?, hne]
    · rfl

theorem updAt_self_get {α : Type} (l : List α) (w : Nat) (x y : α) (h : l[w]? = some x) :
    (updAt l w (fun _ => y))[w]? = some y := by
  simp [updAt_getElem?, h]

theorem step_beginPop_not_idle (sys : Sys) (w sid : Nat) (h : sys.workers[w]? ≠ some .idle) :
    Queue.step sys (.beginPop w sid) = sys := by
  simp only [Queue.step]

theorem step_beginPop_idle (sys : Sys) (w sid : Nat) (h : sys.workers[w]? = some .idle) :
    Queue.step sys (.beginPop w sid) = { sys with workers := updAt sys.workers w (fun _ =>
      if (sys.spec.study? sid).isSome then .scanning (waitingIds sys.spec sid) else .raised .keyError) } := by
  simp only [Queue.step, h]

theorem step_tryNext_not_scanning (sys : Sys) (w : Nat) (h : ∀ c, sys.workers[w]? ≠ some (.scanning c)) :
    Queue.step sys (.tryNext w) = sys := by
  cases hget : sys.workers[w]? with
  | none => simp only [Queue.step, hget]
  | some ws =>
    cases ws with
    | scanning c => exact absurd hget (h c)
    | idle => simp only [Queue.step, hget]
    | got t => simp only [Queue.step, hget]
    | empty => simp only [Queue.step, hget]
    | raised e => simp only [Queue.step, hget]

theorem step_tryNext_nil (sys : Sys) (w : Nat) (h : sys.workers[w]? = some (.scanning [])) :
    Queue.step sys (.tryNext w) = { sys with workers := updAt sys.workers w (fun _ => .empty) } := by
  simp only [Queue.step, h]

/-- the outcomes of one CAS of worker `w` on its next candidate `c` -/
theorem step_tryNext_cons (sys : Sys) (w c : Nat) (rest : List Nat) (h : sys.workers[w]? = some (.scanning (c :: rest))) :
    ((Storage.step sys.spec (claimOp c)).2 = .bool true ∧
      Queue.step sys (.tryNext w) =
        ⟨(Storage.step sys.spec (claimOp c)).1, updAt sys.workers w (fun _ => .got c), sys.claims ++ [(w, c)]⟩) ∨
    ((Storage.step sys.spec (claimOp c)).2 ≠ .bool true ∧
      (Queue.step sys (.tryNext w)).claims = sys.claims ∧
      ((Queue.step sys (.tryNext w)).workers[w]? = some (.scanning rest) ∨
       (∃ e, (Queue.step sys (.tryNext w)).workers[w]? = some (.raised e)) ∨
       (Queue.step sys (.tryNext w)).workers[w]? = some (.scanning (c :: rest)))) := by
  simp only [Queue.step, h]
  split
  · rename_i heq; exact Or.inl ⟨heq, rfl⟩
  · rename_i heq
    exact Or.inr ⟨by rw [heq]; simp, rfl, Or.inl (updAt_self_get _ _ _ _ h)⟩
  · rename_i heq
    exact Or.inr ⟨by rw [heq]; simp, rfl, Or.inl (updAt_self_get _ _ _ _ h)⟩
  · rename_i _ e _ heq
    exact Or.inr ⟨by rw [heq]; simp, rfl, Or.inr (Or.inl ⟨e, updAt_self_get _ _ _ _ h⟩)⟩
  · rename_i _ h1 _ _ _
    exact Or.inr ⟨h1, rfl, Or.inr (Or.inr h)⟩

/-- every worker that holds a trial holds a recorded claim of it -/
def GotClaimed (sys : Sys) : Prop := ∀ w t, sys.workers[w]? = some (WState.got t) → (w, t) ∈ sys.claims

theorem gotClaimed_step (sys : Sys) (a : Act) (hg : GotClaimed sys) : GotClaimed (Queue.step sys a) := by
  intro w t hw
  by_cases hact : actor a = some w
  · cases a with
    | ext op => simp [actor] at hact
    | beginPop w' sid =>
      simp only [actor, Option.some.injEq] at hact; subst hact
      by_cases hidle : sys.workers[w']? = some .idle
      · rw [step_beginPop_idle sys w' sid hidle] at hw
        simp only [updAt_self_get _ _ _ _ hidle, Option.some.injEq] at hw
        split at hw <;> cases hw
      · rw [step_beginPop_not_idle sys w' sid hidle] at hw ⊢
        exact hg _ t hw
    | reset w' =>
      simp only [actor, Option.some.injEq] at hact; subst hact
      simp only [Queue.step, updAt_getElem?, if_true] at hw
      cases hget : sys.workers[w']? with
      | none => rw [hget] at hw; cases hw
      | some x => rw [hget] at hw; cases hw
    | tryNext w' =>
      simp only [actor, Option.some.injEq] at hact; subst hact
      by_cases hsc : ∃ c, sys.workers[w']? = some (.scanning c)
      · obtain ⟨cands, hget⟩ := hsc
        cases cands with
        | nil =>
          rw [step_tryNext_nil sys w' hget] at hw
          simp only [updAt_self_get _ _ _ _ hget, Option.some.injEq] at hw
          cases hw
        | cons c rest =>
          rcases step_tryNext_cons sys w' c rest hget with ⟨hb, he⟩ | ⟨hb, hcl, h1 | ⟨e, h1⟩ | h1⟩
          · rw [he] at hw ⊢
            simp only [updAt_self_get _ _ _ _ hget, Option.some.injEq, WState.got.injEq] at hw
            subst hw
            simp
          · rw [h1] at hw; cases hw
          · rw [h1] at hw; cases hw
          · rw [h1] at hw; cases hw
      · have hns : ∀ c, sys.workers[w']? ≠ some (.scanning c) := fun c hc => hsc ⟨c, hc⟩
        rw [step_tryNext_not_scanning sys w' hns] at hw ⊢
        exact hg _ t hw
  · rw [step_frame sys a w hact] at hw
    exact claims_mono sys a _ (hg w t hw)

/-- **got_is_claim**: in every state of every run (any workers, any schedule, any interleaved storage calls — re-queues
included) that starts with no worker holding a trial, a worker in state `got t` has the recorded claim `(w, t)`; together with
`claimed_at_most_once`: two workers never hold the same trial. -/
theorem got_is_claim (sys : Sys) (acts : List Act) (h0 : GotClaimed sys) : GotClaimed (run sys acts) := by
  induction acts generalizing sys with
  | nil => exact h0
  | cons a rest ih => exact ih (Queue.step sys a) (gotClaimed_step sys a h0)

theorem got_is_claim_from_start (spec : Spec) (workers : List WState) (acts : List Act)
    (hstart : ∀ (w t : Nat), workers[w]? ≠ some (WState.got t)) (w t : Nat)
    (h : (run { spec := spec, workers := workers, claims := [] } acts).workers[w]? = some (.got t)) :
    (w, t) ∈ (run { spec := spec, workers := workers, claims := [] } acts).claims :=
  got_is_claim _ acts (fun w t hw => absurd hw (hstart w t)) w t h

/-- no two workers hold the same trial (runs without re-queues, from a start in which nobody holds a trial) -/
theorem holders_distinct (spec : Spec) (workers : List WState) (acts : List Act)
    (hno : ∀ a ∈ acts, a.isRequeue = false) (hstart : ∀ (w t : Nat), workers[w]? ≠ some (WState.got t)) (w1 w2 t : Nat)
    (h1 : (run { spec := spec, workers := workers, claims := [] } acts).workers[w1]? = some (.got t))
    (h2 : (run { spec := spec, workers := workers, claims := [] } acts).workers[w2]? = some (.got t)) : w1 = w2 := by
  have c1 := got_is_claim_from_start spec workers acts hstart w1 t h1
  have c2 := got_is_claim_from_start spec workers acts hstart w2 t h2
  have hnd := claimed_at_most_once spec workers acts hno
  generalize (run { spec := spec, workers := workers, claims := [] } acts).claims = cl at c1 c2 hnd
  induction cl with
  | nil => cases c1
  | cons p cl ih =>
    simp only [List.map_cons, List.nodup_cons, List.mem_map] at hnd
    rcases List.mem_cons.1 c1 with e1 | m1 <;> rcases List.mem_cons.1 c2 with e2 | m2
    · rw [← e1] at e2; exact (Prod.mk.inj e2).1.symm
    · exact absurd ⟨(w2, t), m2, by rw [← e1]⟩ hnd.1
    · exact absurd ⟨(w1, t), m1, by rw [← e2]⟩ hnd.1
    · exact ih m1 m2 hnd.2

/-! ## none is skipped — along runs -/

/-- trial `tid` is a live WAITING trial -/
def Waiting (sys : Sys) (tid : Nat) : Prop := ∃ tr, sys.spec.trial? tid = some tr ∧ tr.state = .waiting

/-- **no_skip_run**: along every run (any start, any workers, any schedule, any interleaved storage calls), whenever a worker's
pop loop moves past a candidate `t` — the step `tryNext w` that turns `scanning (t :: rest)` into `scanning rest` — then `t` was
not a live WAITING trial in the state in which that step was taken. -/
theorem no_skip_run (sys0 : Sys) (before : List Act) (w t : Nat) (rest : List Nat)
    (hw : (run sys0 before).workers[w]? = some (.scanning (t :: rest)))
    (hnext : (run sys0 (before ++ [.tryNext w])).workers[w]? = some (.scanning rest)) :
    ¬ Waiting (run sys0 before) t := by
  have : run sys0 (before ++ [.tryNext w]) = Queue.step (run sys0 before) (.tryNext w) := by
    simp [Queue.run, List.foldl_append]
  rw [this] at hnext
  exact no_skip_step (run sys0 before) w t rest hw hnext

/-- a live WAITING head candidate is always claimed: the CAS of a worker whose next candidate is WAITING succeeds -/
theorem waiting_head_claimed (sys : Sys) (w t : Nat) (rest : List Nat)
    (hw : sys.workers[w]? = some (.scanning (t :: rest))) (hwait : Waiting sys t) :
    (Queue.step sys (.tryNext w)).workers[w]? = some (.got t) ∧ (w, t) ∈ (Queue.step sys (.tryNext w)).claims := by
  have hsucc := (C01.claim_true_iff_waiting sys.spec t none).2 hwait
  rcases step_tryNext_cons sys w t rest hw with ⟨_, he⟩ | ⟨hb, _⟩
  · rw [he]; exact ⟨updAt_self_get _ _ _ _ hw, by simp⟩
  · exact absurd hsucc hb

/-- `trial` stays a live WAITING trial in every state of the run `acts` from `sys` (the states before each action and the last) -/
def StaysWaiting (tid : Nat) : Sys → List Act → Prop
  | sys, [] => Waiting sys tid
  | sys, a :: rest => Waiting sys tid ∧ StaysWaiting tid (Queue.step sys a) rest

theorem trialsFrom_ids (sid : Nat) (l : List TrialS) : ∀ (i : Nat),
    (∀ p ∈ trialsFrom sid l i, i ≤ p.1) ∧ ((trialsFrom sid l i).map (·.1)).Pairwise (· < ·) := by
  induction l with
  | nil => intro i; simp [trialsFrom]
  | cons a r ih =>
    intro i
    obtain ⟨h1, h2⟩ := ih (i + 1)
    simp only [trialsFrom]
    split
    · refine ⟨?_, ?_⟩
      · intro p hp
        rcases List.mem_cons.1 hp with rfl | hp
        · exact Nat.le_refl _
        · have := h1 p hp; omega
      · simp only [List.map_cons, List.pairwise_cons]
        refine ⟨?_, h2⟩
        intro x hx
        simp only [List.mem_map] at hx
        obtain ⟨p, hp, rfl⟩ := hx
        have := h1 p hp; omega
    · exact ⟨fun p hp => by have := h1 p hp; omega, h2⟩

/-- the candidate list of a pop is in increasing id (= creation = number) order -/
theorem waitingIds_sorted (s : Spec) (sid : Nat) : (waitingIds s sid).Pairwise (· < ·) := by
  have h := (trialsFrom_ids sid s.trials 0).2
  rw [List.pairwise_map] at h
  unfold waitingIds Spec.trialsOf
  rw [List.pairwise_map]
  exact h.filter _

/-- where worker `w` stands relative to the queued trial `tid`, `cands0` being the candidate list its pop loop started from:
still scanning with `tid` ahead of it; or holding an OLDER candidate (recorded as its claim); or ended by a storage error -/
def Ahead (cands0 : List Nat) (w tid : Nat) (sys : Sys) : Prop :=
  (∃ pre cands, cands0 = pre ++ cands ∧ sys.workers[w]? = some (.scanning cands) ∧ tid ∈ cands) ∨
  (∃ t', sys.workers[w]? = some (WState.got t') ∧ t' < tid ∧ t' ∈ cands0 ∧ (w, t') ∈ sys.claims) ∨
  (∃ e, sys.workers[w]? = some (.raised e))

theorem ahead_frame (cands0 : List Nat) (w tid : Nat) (sys sys' : Sys) (hw : sys'.workers[w]? = sys.workers[w]?)
    (hc : ∀ p ∈ sys.claims, p ∈ sys'.claims) (h : Ahead cands0 w tid sys) : Ahead cands0 w tid sys' := by
  rcases h with ⟨pre, cands, h1, h2, h3⟩ | ⟨t', h1, h2, h3, h4⟩ | ⟨e, h1⟩
  · exact Or.inl ⟨pre, cands, h1, by rw [hw]; exact h2, h3⟩
  · exact Or.inr (Or.inl ⟨t', by rw [hw]; exact h1, h2, h3, hc _ h4⟩)
  · exact Or.inr (Or.inr ⟨e, by rw [hw]; exact h1⟩)

theorem ahead_step (cands0 : List Nat) (hsorted : cands0.Pairwise (· < ·)) (w tid : Nat) (sys : Sys) (a : Act)
    (hA : Ahead cands0 w tid sys) (hW : Waiting sys tid) (hW' : Waiting (Queue.step sys a) tid)
    (hnr : a ≠ .reset w) : Ahead cands0 w tid (Queue.step sys a) := by
  by_cases hact : actor a = some w
  · cases a with
    | ext op => simp [actor] at hact
    | reset w' => simp only [actor, Option.some.injEq] at hact; subst hact; exact absurd rfl hnr
    | beginPop w' sid =>
      simp only [actor, Option.some.injEq] at hact; subst hact
      have hni : sys.workers[w']? ≠ some .idle := by
        rcases hA with ⟨_, _, _, h2, _⟩ | ⟨_, h1, _⟩ | ⟨_, h1⟩
        · intro h; rw [h] at h2; cases h2
        · intro h; rw [h] at h1; cases h1
        · intro h; rw [h] at h1; cases h1
      rw [step_beginPop_not_idle sys w' sid hni]; exact hA
    | tryNext w' =>
      simp only [actor, Option.some.injEq] at hact; subst hact
      rcases hA with ⟨pre, cands, h1, h2, h3⟩ | ⟨t', h1, h2, h3, h4⟩ | ⟨e, h1⟩
      · cases cands with
        | nil => cases h3
        | cons c rest =>
          have hsorted' : (c :: rest).Pairwise (· < ·) := by
            rw [h1] at hsorted; exact (List.pairwise_append.1 hsorted).2.1
          have hcin : c ∈ cands0 := by rw [h1]; simp
          rcases step_tryNext_cons sys w' c rest h2 with ⟨hb, he⟩ | ⟨hb, hcl, hwk⟩
          · -- the CAS succeeded
            by_cases hct : c = tid
            · subst hct
              obtain ⟨t0, _, _, hpost⟩ := claim_success_record sys.spec c hb
              obtain ⟨tr, htr, hwait⟩ := hW'
              rw [he] at htr
              have := ((trial?_some_iff _ c tr).1 htr).1
              simp only at this
              rw [hpost] at this
              simp only [Option.some.injEq] at this
              subst this
              cases hwait
            · have hmem : tid ∈ rest := by
                rcases List.mem_cons.1 h3 with h | h
                · exact absurd h.symm hct
                · exact h
              have hlt : c < tid := (List.pairwise_cons.1 hsorted').1 tid hmem
              rw [he]
              exact Or.inr (Or.inl ⟨c, updAt_self_get _ _ _ _ h2, hlt, hcin, by simp⟩)
          · -- the CAS did not succeed: then `c` is not `tid` (which is WAITING)
            have hct : c ≠ tid := by
              intro hct; subst hct
              exact hb ((C01.claim_true_iff_waiting sys.spec c none).2 hW)
            have hmem : tid ∈ rest := by
              rcases List.mem_cons.1 h3 with h | h
              · exact absurd h.symm hct
              · exact h
            rcases hwk with hwk | ⟨e, hwk⟩ | hwk
            · exact Or.inl ⟨pre ++ [c], rest, by rw [h1]; simp, hwk, hmem⟩
            · exact Or.inr (Or.inr ⟨e, hwk⟩)
            · exact Or.inl ⟨pre, c :: rest, h1, hwk, h3⟩
      · have hns : ∀ c, sys.workers[w']? ≠ some (.scanning c) := by intro c hc; rw [h1] at hc; cases hc
        rw [step_tryNext_not_scanning sys w' hns]
        exact Or.inr (Or.inl ⟨t', h1, h2, h3, h4⟩)
      · have hns : ∀ c, sys.workers[w']? ≠ some (.scanning c) := by intro c hc; rw [h1] at hc; cases hc
        rw [step_tryNext_not_scanning sys w' hns]
        exact Or.inr (Or.inr ⟨e, h1⟩)
  · exact ahead_frame cands0 w tid sys _ (step_frame sys a w hact) (claims_mono sys a) hA

theorem ahead_run (cands0 : List Nat) (hsorted : cands0.Pairwise (· < ·)) (w tid : Nat) (acts : List Act) :
    ∀ (sys : Sys), Ahead cands0 w tid sys → StaysWaiting tid sys acts → (∀ a ∈ acts, a ≠ .reset w) →
      Ahead cands0 w tid (run sys acts) := by
  induction acts with
  | nil => intro sys h _ _; exact h
  | cons a rest ih =>
    intro sys hA hS hnr
    obtain ⟨hW, hS'⟩ := hS
    have hW' : Waiting (Queue.step sys a) tid := by
      cases rest with
      | nil => exact hS'
      | cons b r => exact hS'.1
    exact ih _ (ahead_step cands0 hsorted w tid sys a hA hW hW' (hnr a (by simp))) hS'
      (fun b hb => hnr b (List.mem_cons_of_mem _ hb))

/-- **queued_trial_eventually_claimed_or_gone_partial** (no fairness, hence no "eventually": a statement about every state the
run reaches).  Let trial `tid` of study `sid` be queued (a live WAITING trial) when the idle worker `w` starts a pop loop
(`beginPop w sid`), and let it STAY WAITING through the run `acts` that follows — any schedule of any workers, any interleaved
storage calls, worker `w` not being reset (it runs this one pop loop).  Then in the last state worker `w`
* is still scanning, with `tid` among the candidates it has not tried yet (nothing was skipped), or
* has claimed a trial `t'` that was queued BEFORE `tid` (`t' < tid`: smaller id = smaller number in the study, and `t'` is one
  of the candidates listed at the start), the claim being recorded, or
* was ended by a storage error of its CAS;
in particular its pop has NOT returned `None` and it has not passed `tid`.  (If `tid` does not stay WAITING, somebody claimed
it or changed its state — `no_skip_run` — and nothing is promised to `w`.) -/
theorem queued_trial_eventually_claimed_or_gone_partial (sys : Sys) (w sid tid : Nat) (t : TrialS) (acts : List Act)
    (hidle : sys.workers[w]? = some .idle)
    (ht : sys.spec.trial? tid = some t) (hs : t.study = sid) (hwt : t.state = .waiting)
    (hnoreset : ∀ a ∈ acts, a ≠ .reset w)
    (hstay : StaysWaiting tid (Queue.step sys (.beginPop w sid)) acts) :
    Ahead (waitingIds sys.spec sid) w tid (run (Queue.step sys (.beginPop w sid)) acts) := by
  obtain ⟨hget, hlive⟩ := (trial?_some_iff sys.spec tid t).1 ht
  have hmem : tid ∈ waitingIds sys.spec sid := list_complete sys.spec sid tid t hget hs hwt
  have hstudy : (sys.spec.study? sid).isSome = true := by rw [← hs]; exact hlive
  apply ahead_run _ (waitingIds_sorted sys.spec sid) w tid acts _ _ hstay hnoreset
  rw [step_beginPop_idle sys w sid hidle]
  refine Or.inl ⟨[], waitingIds sys.spec sid, rfl, ?_, hmem⟩
  simp only [updAt_self_get _ _ _ _ hidle, hstudy, if_true]

/-- … so while a trial queued before the pop loop started is still WAITING, that pop never answers `None` -/
theorem pop_not_none_while_queued (sys : Sys) (w sid tid : Nat) (t : TrialS) (acts : List Act)
    (hidle : sys.workers[w]? = some .idle)
    (ht : sys.spec.trial? tid = some t) (hs : t.study = sid) (hwt : t.state = .waiting)
    (hnoreset : ∀ a ∈ acts, a ≠ .reset w)
    (hstay : StaysWaiting tid (Queue.step sys (.beginPop w sid)) acts) :
    (run (Queue.step sys (.beginPop w sid)) acts).workers[w]? ≠ some .empty := by
  intro he
  rcases queued_trial_eventually_claimed_or_gone_partial sys w sid tid t acts hidle ht hs hwt hnoreset hstay with
    ⟨_, _, _, h, _⟩ | ⟨_, h, _⟩ | ⟨_, h⟩ <;> (rw [he] at h; cases h)


/-! ## non-vacuity (the two-worker system `demo0` of Props/C04.lean: two queued trials 0 and 1 of study 0) -/

theorem waiting_of_state (sys : Sys) (tid : Nat) (h : (sys.spec.trial? tid).map (·.state) = some .waiting) : Waiting sys tid := by
  cases ht : sys.spec.trial? tid with
  | none => rw [ht] at h; cases h
  | some tr => rw [ht] at h; exact ⟨tr, ht, by simpa using h⟩

/-- worker 1 took trial 0 first; worker 0 then moves past candidate 0 — which was indeed no longer WAITING (`no_skip_run`) -/
example : ¬ Waiting (Queue.run demo0 [.beginPop 0 0, .beginPop 1 0, .tryNext 1]) 0 :=
  no_skip_run demo0 [.beginPop 0 0, .beginPop 1 0, .tryNext 1] 0 0 [1] (by decide) (by decide)

/-- trial 1 is queued when worker 0 starts its pop and stays WAITING while worker 1 takes trial 0 and worker 0 loses that race:
the hypotheses of `queued_trial_eventually_claimed_or_gone_partial` hold, and worker 0 is still scanning with trial 1 ahead -/
example :
    StaysWaiting 1 (Queue.step demo0 (.beginPop 0 0)) [.beginPop 1 0, .tryNext 1, .tryNext 0] ∧
    (Queue.run (Queue.step demo0 (.beginPop 0 0)) [.beginPop 1 0, .tryNext 1, .tryNext 0]).workers[0]? = some (.scanning [1]) ∧
    Ahead (waitingIds demo0.spec 0) 0 1 (Queue.run (Queue.step demo0 (.beginPop 0 0)) [.beginPop 1 0, .tryNext 1, .tryNext 0]) := by
  have hs : StaysWaiting 1 (Queue.step demo0 (.beginPop 0 0)) [.beginPop 1 0, .tryNext 1, .tryNext 0] :=
    ⟨waiting_of_state _ _ (by decide), waiting_of_state _ _ (by decide), waiting_of_state _ _ (by decide),
      waiting_of_state _ _ (by decide)⟩
  refine ⟨hs, by decide, ?_⟩
  obtain ⟨t, ht⟩ : ∃ t, demo0.spec.trial? 1 = some t := by
    cases h : demo0.spec.trial? 1 with
    | none => exact absurd h (by decide)
    | some t => exact ⟨t, rfl⟩
  have hst : t.study = 0 ∧ t.state = .waiting := by
    have : (demo0.spec.trial? 1).map (fun t => (t.study, t.state)) = some (0, .waiting) := by decide
    rw [ht] at this; simpa using this
  exact queued_trial_eventually_claimed_or_gone_partial demo0 0 0 1 t _ (by decide) ht hst.1 hst.2
    (by intro a ha; simp only [List.mem_cons, List.not_mem_nil, or_false] at ha; rcases ha with rfl | rfl | rfl <;> simp) hs

/-- … and when worker 0 is alone it ends holding the OLDER trial 0 (`t' < tid`), recorded as its claim (`got_is_claim`) -/
example :
    (Queue.run (Queue.step demo0 (.beginPop 0 0)) [.tryNext 0]).workers[0]? = some (.got 0) ∧
    (0, 0) ∈ (Queue.run (Queue.step demo0 (.beginPop 0 0)) [.tryNext 0]).claims := by decide

end OptunaVerif.C04
