import OptunaVerif.Lemmas.JournalAppend
import OptunaVerif.Props.C07
/-!
# C05 — acknowledged journal writes survive a crash; an interrupted append is all-or-nothing

Theorems about `Model/JournalAppend.lean`: any number of workers, any interleaving of their steps,
a record delivered byte by byte, death of any worker after any step (`Act.die`), stale-lock takeover.
Together with the reader theorem of C07 (every read of a file of the shape established here returns
exactly its complete records) this gives: what was acknowledged is returned by every later read; an
interrupted append contributes its whole record or nothing; survivors keep appending.
SQLite is *modelled, not verified*: one storage call = one transaction whose atomic commit is trusted
(sampled by the kill-at-the-k-th-statement runs of `verif/props/c05.py`).
-/
namespace OptunaVerif.C05
open OptunaVerif OptunaVerif.JournalFile OptunaVerif.JournalAppend

/-- what the holder's stage says about the bytes after the last newline -/
def StageOk (acked : List (List Nat)) (f : List Nat) (wk : Worker) : Prop :=
  match wk.stage with
  | none => False
  | some .locked => True
  | some (.writing rest) => rest ≠ [] ∧ tail f ++ rest = wk.record ++ [nl]
  | some .written => tail f = [] ∧ (records f).getLast? = some wk.record ∧
      -- the record just completed comes after everything acknowledged so far
      List.Sublist acked (records f).dropLast

def Inv (st : St) : Prop :=
  List.Sublist st.acked (records st.file) ∧
  match st.lock with
  | none => tail st.file = [] ∧ ∀ (w : Nat) (wk : Worker), st.ws[w]? = some wk → wk.stage = none
  | some h => ∃ wk, st.ws[h]? = some wk ∧ nl ∉ wk.record ∧ StageOk st.acked st.file wk ∧
      ∀ (w : Nat) (wk' : Worker), w ≠ h → st.ws[w]? = some wk' → wk'.stage = none

theorem inv_init (n : Nat) : Inv (JournalAppend.init n) := by
  refine ⟨by simp [JournalAppend.init], ?_⟩
  simp only [JournalAppend.init]
  refine ⟨by simp [tail, splitRec], ?_⟩
  intro w wk h
  rw [List.getElem?_replicate] at h
  split at h
  · simp only [Option.some.injEq] at h; subst h; rfl
  · simp at h

theorem setW_get (ws : List Worker) (w w' : Nat) (x : Worker) :
    (setW ws w x)[w']? = if w' = w then (ws[w']?).map (fun _ => x) else ws[w']? := by
  unfold setW; rw [updAt_getElem?]

/-- the complete records of the file only ever grow at the end -/
theorem records_prefix_step (st : St) (a : Act) (h : Inv st) :
    records st.file <+: records (step st a).file := by
  cases a with
  | acquire w r => simp only [step]; repeat' split <;> simp
  | takeover w r => simp only [step]; repeat' split <;> simp
  | release w => simp only [step]; repeat' split <;> simp
  | die w => simp only [step]; repeat' split <;> simp
  | repair w =>
    simp only [step]
    split
    · split
      · simp [(records_repair st.file).1]
      · simp
    · simp
  | writeByte w =>
    simp only [step]
    split
    · split
      · split
        · rename_i b rest _
          simp only
          by_cases hb : b = nl
          · subst hb; rw [(tail_snoc_nl st.file).1]; simp
          · rw [(tail_snoc_ne st.file b hb).1]; simp
        · simp
      · simp
    · simp

theorem inv_step (st : St) (a : Act) (h : Inv st) : Inv (step st a) := by
  obtain ⟨hack, hlock⟩ := h
  cases a with
  | acquire w r =>
    simp only [step]
    split
    · rename_i wk hl hw
      split
      · exact ⟨hack, hlock⟩
      · rename_i hc
        simp only [Bool.or_eq_true, not_or, Bool.not_eq_true] at hc
        obtain ⟨⟨hdead, hstage⟩, hnl⟩ := hc
        rw [hl] at hlock
        refine ⟨hack, ?_⟩
        simp only
        refine ⟨{ wk with stage := some .locked, record := r }, by simp [setW_get, hw], ?_, by simp [StageOk], ?_⟩
        · simpa using hnl
        · intro w' wk' hne hget
          rw [setW_get, if_neg hne] at hget
          exact hlock.2 w' wk' hget
    · exact ⟨hack, hlock⟩
  | takeover w r =>
    simp only [step]
    split
    · rename_i hh wk hl hw
      split
      · rename_i hc
        simp only [Bool.and_eq_true, Bool.not_eq_true', bne_iff_ne, ne_eq] at hc
        obtain ⟨⟨⟨⟨hdeadh, hlive⟩, hstage⟩, hnl⟩, hne⟩ := hc
        rw [hl] at hlock
        obtain ⟨wkh, hwkh, _, _, hothers⟩ := hlock
        refine ⟨hack, ?_⟩
        simp only
        have hne' : w ≠ hh := fun e => hne e.symm
        refine ⟨{ wk with stage := some .locked, record := r }, ?_, by simpa using hnl, by simp [StageOk], ?_⟩
        · rw [setW_get, if_pos rfl, updAt_getElem?, if_neg hne', hw]; rfl
        · intro w' wk' hnew hget
          rw [setW_get, if_neg hnew, updAt_getElem?] at hget
          split at hget
          · rename_i e
            subst e
            rw [hwkh] at hget
            simp only [Option.map_some, Option.some.injEq] at hget
            rw [← hget]
          · rename_i hw'
            exact hothers w' wk' hw' hget
      · exact ⟨hack, hlock⟩
    · exact ⟨hack, hlock⟩
  | die w =>
    simp only [step]
    split
    · rename_i wk hw
      refine ⟨hack, ?_⟩
      cases hl : st.lock with
      | none =>
        rw [hl] at hlock
        simp only
        refine ⟨hlock.1, ?_⟩
        intro w' wk' hget
        rw [setW_get] at hget
        split at hget
        · rename_i e; subst e
          rw [hw] at hget
          simp only [Option.map_some, Option.some.injEq] at hget
          rw [← hget]; exact hlock.2 w' wk hw
        · exact hlock.2 w' wk' hget
      | some hh =>
        rw [hl] at hlock
        obtain ⟨wkh, hwkh, hnlr, hst, hothers⟩ := hlock
        simp only
        by_cases e : hh = w
        · subst e
          rw [hw] at hwkh
          simp only [Option.some.injEq] at hwkh
          subst hwkh
          refine ⟨{ wk with dead := true }, by simp [setW_get, hw], hnlr, hst, ?_⟩
          intro w' wk' hne hget
          rw [setW_get, if_neg hne] at hget
          exact hothers w' wk' hne hget
        · refine ⟨wkh, by rw [setW_get, if_neg e]; exact hwkh, hnlr, hst, ?_⟩
          intro w' wk' hne hget
          rw [setW_get] at hget
          split at hget
          · rename_i e2; subst e2
            rw [hw] at hget
            simp only [Option.map_some, Option.some.injEq] at hget
            rw [← hget]; exact hothers w' wk hne hw
          · exact hothers w' wk' hne hget
    · exact ⟨hack, hlock⟩
  | repair w =>
    simp only [step]
    split
    · rename_i wk hw
      split
      · rename_i hc
        simp only [Bool.and_eq_true, beq_iff_eq, Bool.not_eq_true'] at hc
        obtain ⟨⟨hl, hlive⟩, hstage⟩ := hc
        rw [hl] at hlock
        obtain ⟨wkh, hwkh, hnlr, _, hothers⟩ := hlock
        rw [hw] at hwkh
        simp only [Option.some.injEq] at hwkh
        subst hwkh
        have hrr := records_repair st.file
        refine ⟨by simpa [hrr.1] using hack, ?_⟩
        simp only [hl]
        refine ⟨{ wk with stage := some (.writing (wk.record ++ [nl])) }, by simp [setW_get, hw], hnlr, ?_, ?_⟩
        · simp [StageOk, hrr.2]
        · intro w' wk' hne hget
          rw [setW_get, if_neg hne] at hget
          exact hothers w' wk' hne hget
      · exact ⟨hack, hlock⟩
    · exact ⟨hack, hlock⟩
  | writeByte w =>
    simp only [step]
    split
    · rename_i wk hw
      split
      · rename_i hc
        simp only [Bool.and_eq_true, beq_iff_eq, Bool.not_eq_true'] at hc
        obtain ⟨hl, hlive⟩ := hc
        split
        · rename_i b rest hstage
          rw [hl] at hlock
          obtain ⟨wkh, hwkh, hnlr, hst, hothers⟩ := hlock
          rw [hw] at hwkh
          simp only [Option.some.injEq] at hwkh
          subst hwkh
          simp only [StageOk, hstage] at hst
          obtain ⟨_, htail⟩ := hst
          -- the bytes still to write are a suffix of record ++ [nl]; b is nl iff it is the last one
          have hnotail : nl ∉ tail st.file := tail_noNl st.file
          by_cases hrest : rest = []
          · -- last byte: it must be the newline, the record becomes a complete line
            subst hrest
            have hb : b = nl := by
              have := congrArg List.getLast? htail
              simp at this
              exact this
            subst hb
            have htl : tail st.file = wk.record := by
              have := congrArg List.dropLast htail
              simpa using this
            have hs := tail_snoc_nl st.file
            refine ⟨?_, ?_⟩
            · simp only [hs.1]
              exact List.Sublist.trans hack (List.sublist_append_left _ _)
            · simp only [hl]
              refine ⟨{ wk with stage := some .written }, by simp [setW_get, hw], hnlr, ?_, ?_⟩
              · simp only [StageOk, hs.2, hs.1, htl]
                exact ⟨trivial, by simp, by simpa using hack⟩
              · intro w' wk' hne hget
                rw [setW_get, if_neg hne] at hget
                exact hothers w' wk' hne hget
          · -- not the last byte: it is a byte of the record, hence not a newline
            have hb : b ≠ nl := by
              intro e
              subst e
              -- record ++ [nl] = tail ++ nl :: rest with rest ≠ [] puts a newline inside the record
              have hlen := congrArg List.length htail
              simp only [List.length_append, List.length_cons, List.length_nil] at hlen
              have hmem : nl ∈ wk.record := by
                have h1 : (tail st.file ++ nl :: rest)[(tail st.file).length]? = some nl := by simp
                rw [htail] at h1
                have hlt : (tail st.file).length < wk.record.length := by
                  have : 0 < rest.length := List.length_pos_iff.2 hrest
                  omega
                rw [List.getElem?_append_left hlt] at h1
                exact List.mem_of_getElem? h1
              exact hnlr hmem
            have hs := tail_snoc_ne st.file b hb
            refine ⟨by simpa [hs.1] using hack, ?_⟩
            simp only [hl]
            refine ⟨{ wk with stage := some (.writing rest) }, ?_, hnlr, ?_, ?_⟩
            · have : rest.isEmpty = false := by simpa using hrest
              simp [setW_get, hw, this]
            · simp only [StageOk]
              refine ⟨hrest, ?_⟩
              rw [hs.2, ← htail]; simp
            · intro w' wk' hne hget
              rw [setW_get, if_neg hne] at hget
              exact hothers w' wk' hne hget
        · exact ⟨hack, hlock⟩
      · exact ⟨hack, hlock⟩
    · exact ⟨hack, hlock⟩
  | release w =>
    simp only [step]
    split
    · rename_i wk hw
      split
      · rename_i hc
        simp only [Bool.and_eq_true, beq_iff_eq, Bool.not_eq_true'] at hc
        obtain ⟨⟨hl, hlive⟩, hstage⟩ := hc
        rw [hl] at hlock
        obtain ⟨wkh, hwkh, hnlr, hst, hothers⟩ := hlock
        rw [hw] at hwkh
        simp only [Option.some.injEq] at hwkh
        subst hwkh
        simp only [StageOk, hstage] at hst
        obtain ⟨htail, hlast, hsub⟩ := hst
        refine ⟨?_, ?_⟩
        · -- records = records.dropLast ++ [record]
          have hne : records st.file ≠ [] := by
            intro e; rw [e] at hlast; simp at hlast
          have hsplit : records st.file = (records st.file).dropLast ++ [wk.record] := by
            have h1 := (List.dropLast_concat_getLast hne).symm
            have h2 : (records st.file).getLast hne = wk.record := by
              have := List.getLast?_eq_some_getLast hne
              rw [hlast] at this
              exact (Option.some.inj this).symm
            rw [h2] at h1
            exact h1
          rw [hsplit]
          exact List.Sublist.append hsub (List.Sublist.refl _)
        · simp only
          refine ⟨htail, ?_⟩
          intro w' wk' hget
          rw [setW_get] at hget
          split at hget
          · rename_i e; subst e
            rw [hw] at hget
            simp only [Option.map_some, Option.some.injEq] at hget
            rw [← hget]
          · rename_i hne
            exact hothers w' wk' hne hget
      · exact ⟨hack, hlock⟩
    · exact ⟨hack, hlock⟩


/-! ## the property, in its own words -/

theorem inv_run (st : St) (acts : List Act) (h : Inv st) : Inv (run st acts) := by
  induction acts generalizing st with
  | nil => exact h
  | cons a rest ih => exact ih _ (inv_step st a h)

theorem records_prefix_run (st : St) (acts : List Act) (h : Inv st) :
    records st.file <+: records (run st acts).file := by
  induction acts generalizing st with
  | nil => exact List.prefix_refl _
  | cons a rest ih =>
    exact List.IsPrefix.trans (records_prefix_step st a h) (ih _ (inv_step st a h))

/-- **ack_durable**: a record whose `append_logs` has returned is a complete line of the file in
every later state — whatever the other workers do, whoever dies wherever (incl. while holding the
lock or in the middle of a write), however often the lock is taken over. -/
theorem ack_durable (n : Nat) (acts more : List Act) (r : List Nat)
    (hr : r ∈ (run (JournalAppend.init n) acts).acked) :
    r ∈ records (run (run (JournalAppend.init n) acts) more).file := by
  have hinv := inv_run _ acts (inv_init n)
  have hsub := hinv.1
  have hpre := records_prefix_run _ more hinv
  exact hpre.subset (hsub.subset hr)

/-- acknowledgements are never taken back, and are made in the order of the file -/
theorem acked_in_file_order (n : Nat) (acts : List Act) :
    List.Sublist (run (JournalAppend.init n) acts).acked (records (run (JournalAppend.init n) acts).file) :=
  (inv_run _ acts (inv_init n)).1

/-- **interrupted_all_or_nothing**: complete lines only ever appear one whole record at a time —
one step either leaves the complete lines unchanged or adds exactly the full record of the worker
that wrote its final newline.  A worker that dies earlier leaves at most an unterminated tail. -/
theorem interrupted_all_or_nothing (st : St) (a : Act) (h : Inv st) :
    records (step st a).file = records st.file ∨
      ∃ w wk, a = .writeByte w ∧ st.ws[w]? = some wk ∧ records (step st a).file = records st.file ++ [wk.record] := by
  obtain ⟨_, hlock⟩ := h
  cases a with
  | acquire w r => left; simp only [step]; (repeat' split) <;> rfl
  | takeover w r => left; simp only [step]; (repeat' split) <;> rfl
  | release w => left; simp only [step]; (repeat' split) <;> rfl
  | die w => left; simp only [step]; (repeat' split) <;> rfl
  | repair w =>
    left
    simp only [step]
    split
    · split
      · exact (records_repair st.file).1
      · rfl
    · rfl
  | writeByte w =>
    simp only [step]
    split
    · rename_i wk hw
      split
      · rename_i hc
        simp only [Bool.and_eq_true, beq_iff_eq, Bool.not_eq_true'] at hc
        split
        · rename_i b rest hstage
          rw [hc.1] at hlock
          obtain ⟨wkh, hwkh, hnlr, hst, _⟩ := hlock
          rw [hw] at hwkh
          simp only [Option.some.injEq] at hwkh
          subst hwkh
          simp only [StageOk, hstage] at hst
          by_cases hb : b = nl
          · subst hb
            right
            refine ⟨w, wk, rfl, hw, ?_⟩
            simp only
            rw [(tail_snoc_nl st.file).1]
            -- the tail is the whole record: a newline can only be the last byte to write
            have hrest : rest = [] := by
              apply Classical.byContradiction
              intro hne
              have hlen := congrArg List.length hst.2
              simp only [List.length_append, List.length_cons, List.length_nil] at hlen
              have h1 : (tail st.file ++ nl :: rest)[(tail st.file).length]? = some nl := by simp
              rw [hst.2] at h1
              have hlt : (tail st.file).length < wk.record.length := by
                have : 0 < rest.length := List.length_pos_iff.2 hne
                omega
              rw [List.getElem?_append_left hlt] at h1
              exact hnlr (List.mem_of_getElem? h1)
            subst hrest
            have htl : tail st.file = wk.record := by
              have := congrArg List.dropLast hst.2
              simpa using this
            rw [htl]
          · left; simp only; exact (tail_snoc_ne st.file b hb).1
        · left; rfl
      · left; rfl
    · left; rfl

/-- The shape of the file in every reachable state is the one the reader theorem of C07 needs:
complete records followed by bytes without a newline. -/
theorem file_shape (n : Nat) (acts : List Act) :
    let st := run (JournalAppend.init n) acts
    st.file = enc (records st.file) ++ tail st.file ∧ nl ∉ tail st.file ∧ ∀ r ∈ records st.file, nl ∉ r :=
  ⟨(file_eq _).symm, tail_noNl _, (splitRec_noNl _ [] (by simp)).2⟩

/-- After the repair step of whoever appends next, nothing of an interrupted write is left. -/
theorem repair_clears_torn_tail (f : List Nat) : tail (repair f) = [] ∧ records (repair f) = records f :=
  ⟨(records_repair f).2, (records_repair f).1⟩

/-! ## non-vacuity: a writer dies inside its write, a survivor takes over, repairs, appends -/

def demoActs : List Act :=
  [ .acquire 0 [1, 2], .repair 0, .writeByte 0, .writeByte 0, .writeByte 0, .release 0,   -- worker 0 appends [1,2]
    .acquire 1 [7, 8, 9], .repair 1, .writeByte 1, .writeByte 1, .die 1,                    -- worker 1 dies mid-write
    .takeover 2 [5], .repair 2, .writeByte 2, .writeByte 2, .release 2 ]                    -- worker 2 survives

example : (run (JournalAppend.init 3) (demoActs.take 11)).file = [1, 2, 10, 7, 8] := by decide
example : (run (JournalAppend.init 3) demoActs).file = [1, 2, 10, 5, 10] := by decide
example : (run (JournalAppend.init 3) demoActs).acked = [[1, 2], [5]] := by decide
example : (run (JournalAppend.init 3) demoActs).lock = none := by decide

end OptunaVerif.C05
