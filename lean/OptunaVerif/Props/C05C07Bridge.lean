import OptunaVerif.Lemmas.C05C07Bridge
/-!
# C05 ⇄ C07 — an acknowledged append is read back, AT ITS POSITION, by every later `read_logs` of every worker

`Props/C05.lean` is about the BYTES the appender protocol leaves (`Model/JournalAppend.lean`: acquire / takeover / repair / byte-wise write /
release / death at any point); `Props/C07.lean` is about the reader (`Model/JournalFile.lean`: `readLoop` / `readLogs` with the offset cache) on an
abstract list of `Line`s, under the hypotheses `WF` and `Consistent`.  Nothing connected the two.  This file does:

* (a) `linesOf` — the reader's view of a byte file; `linesOf_eq_splitLens` (it is Python's line iteration), `linesOf_seek` (seeking to a
  record's offset shows the lines from that record on), `readBytes` — `read_logs` on bytes (Lemmas/C05C07Bridge.lean);
* (b) `records_are_submitted`, `reachable_file_wf` — reachability ⇒ `WF`;
* (c) `consistent_of_prefix`, `consistent_extends`, `read_keeps_consistent` — `Consistent` survives every continuation, and the reader re-establishes
  it for the file it has just read (the offset of an unterminated last line is not kept: the F20b repair);
* (d) `acked_has_position`, `ack_read_durable`, `interrupted_append_all_or_nothing_for_readers` — positions, not membership.

`valid : List Nat → Bool` is "`json.loads` of the line succeeds" (the `valid` flag of `JournalFile.Line`); the hypothesis on a history is that
every record handed to `append_logs` is valid (`submitted`).  Known limits kept: the lock takeover is one atomic step (finding F13 is outside
`Model/JournalAppend.lean`), one size snapshot per read.
-/
set_option linter.unusedSimpArgs false
namespace OptunaVerif.Bridge
open OptunaVerif OptunaVerif.JournalFile OptunaVerif.JournalAppend

/-! ## (b) what reachability gives: every complete line of the file is a whole submitted record -/

/-- the records handed to `append_logs` in a history -/
def submitted : List Act → List (List Nat)
  | [] => []
  | .acquire _ r :: rest => r :: submitted rest
  | .takeover _ r :: rest => r :: submitted rest
  | _ :: rest => submitted rest

def actRecord : Act → Option (List Nat)
  | .acquire _ r => some r
  | .takeover _ r => some r
  | _ => none

/-- every complete line satisfies `P`, and so does the record of every worker that is inside `append_logs` -/
def RecInv (P : List Nat → Prop) (st : St) : Prop :=
  (∀ r ∈ records st.file, P r) ∧ (∀ (w : Nat) (wk : Worker), st.ws[w]? = some wk → wk.stage ≠ none → P wk.record)

theorem step_workers (P : List Nat → Prop) (st : St) (a : Act)
    (h2 : ∀ (w : Nat) (wk : Worker), st.ws[w]? = some wk → wk.stage ≠ none → P wk.record) (ha : ∀ r, actRecord a = some r → P r) :
    ∀ (w : Nat) (wk : Worker), (step st a).ws[w]? = some wk → wk.stage ≠ none → P wk.record := by
  intro w' wk' hget hst
  -- reading position w' of `setW ws w x`
  have hset : ∀ (ws : List Worker) (w : Nat) (x : Worker), (setW ws w x)[w']? = some wk' →
      (w' = w ∧ wk' = x) ∨ (w' ≠ w ∧ ws[w']? = some wk') := by
    intro ws w x h
    rw [C05.setW_get] at h
    by_cases e : w' = w
    · left
      simp only [e, if_true] at h
      cases hw : ws[w]? with
      | none => simp [hw] at h
      | some y => simp [hw] at h; exact ⟨e, h.symm⟩
    · right; simp only [e, if_false] at h; exact ⟨e, h⟩
  cases a with
  | acquire w r =>
    cases hl : st.lock <;> cases hw : st.ws[w]? <;> simp only [step, hl, hw] at hget
    · exact h2 _ _ hget hst
    · rename_i wk
      by_cases hc : (wk.dead || wk.stage.isSome || r.contains nl) = true
      · simp only [hc, if_true] at hget; exact h2 _ _ hget hst
      · simp only [hc, if_false] at hget
        rcases hset _ _ _ hget with ⟨_, e⟩ | ⟨_, e⟩
        · subst e; exact ha r rfl
        · exact h2 _ _ e hst
    · exact h2 _ _ hget hst
    · exact h2 _ _ hget hst
  | takeover w r =>
    cases hl : st.lock <;> cases hw : st.ws[w]? <;> simp only [step, hl, hw] at hget
    · exact h2 _ _ hget hst
    · exact h2 _ _ hget hst
    · exact h2 _ _ hget hst
    · rename_i h wk
      by_cases hc : (isDead st h && !wk.dead && wk.stage.isNone && !r.contains nl && h != w) = true
      · simp only [hc, if_true] at hget
        rcases hset _ _ _ hget with ⟨_, e⟩ | ⟨_, e⟩
        · subst e; exact ha r rfl
        · rw [updAt_getElem?] at e
          by_cases e2 : w' = h
          · simp only [e2, if_true] at e
            cases hh : st.ws[h]? with
            | none => simp [hh] at e
            | some y => simp [hh] at e; subst e; simp at hst
          · simp only [e2, if_false] at e; exact h2 _ _ e hst
      · simp only [hc, if_false] at hget; exact h2 _ _ hget hst
  | repair w =>
    cases hw : st.ws[w]? <;> simp only [step, hw] at hget
    · exact h2 _ _ hget hst
    · rename_i wk
      by_cases hc : (st.lock == some w && !wk.dead && wk.stage == some .locked) = true
      · simp only [hc, if_true] at hget
        rcases hset _ _ _ hget with ⟨_, e⟩ | ⟨_, e⟩
        · subst e
          simp only [Bool.and_eq_true, beq_iff_eq] at hc
          show P wk.record
          exact h2 w wk hw (by rw [hc.2]; simp)
        · exact h2 _ _ e hst
      · simp only [hc, if_false] at hget; exact h2 _ _ hget hst
  | writeByte w =>
    cases hw : st.ws[w]? <;> simp only [step, hw] at hget
    · exact h2 _ _ hget hst
    · rename_i wk
      by_cases hc : (st.lock == some w && !wk.dead) = true
      · simp only [hc, if_true] at hget
        cases hs : wk.stage with
        | none => simp only [hs] at hget; exact h2 _ _ hget hst
        | some sg =>
          cases sg with
          | locked => simp only [hs] at hget; exact h2 _ _ hget hst
          | written => simp only [hs] at hget; exact h2 _ _ hget hst
          | writing rest =>
            cases rest with
            | nil => simp only [hs] at hget; exact h2 _ _ hget hst
            | cons b rest =>
              simp only [hs] at hget
              rcases hset _ _ _ hget with ⟨_, e⟩ | ⟨_, e⟩
              · subst e; show P wk.record; exact h2 w wk hw (by rw [hs]; simp)
              · exact h2 _ _ e hst
      · simp only [hc, if_false] at hget; exact h2 _ _ hget hst
  | release w =>
    cases hw : st.ws[w]? <;> simp only [step, hw] at hget
    · exact h2 _ _ hget hst
    · rename_i wk
      by_cases hc : (st.lock == some w && !wk.dead && wk.stage == some .written) = true
      · simp only [hc, if_true] at hget
        rcases hset _ _ _ hget with ⟨_, e⟩ | ⟨_, e⟩
        · subst e; simp at hst
        · exact h2 _ _ e hst
      · simp only [hc, if_false] at hget; exact h2 _ _ hget hst
  | die w =>
    cases hw : st.ws[w]? <;> simp only [step, hw] at hget
    · exact h2 _ _ hget hst
    · rename_i wk
      rcases hset _ _ _ hget with ⟨_, e⟩ | ⟨_, e⟩
      · subst e; show P wk.record; exact h2 w wk hw hst
      · exact h2 _ _ e hst


theorem recInv_step (P : List Nat → Prop) (st : St) (a : Act) (hinv : C05.Inv st) (h : RecInv P st)
    (ha : ∀ r, actRecord a = some r → P r) : RecInv P (step st a) := by
  refine ⟨?_, step_workers P st a h.2 ha⟩
  rcases C05.interrupted_all_or_nothing st a hinv with he | ⟨w, wk, rfl, hw, he⟩
  · rw [he]; exact h.1
  · rw [he]
    intro r hr
    rcases List.mem_append.mp hr with hr | hr
    · exact h.1 r hr
    · have hr' : r = wk.record := by simpa using hr
      subst hr'
      apply h.2 w wk hw
      intro hnone
      -- a worker that is not inside `append_logs` writes nothing: the records cannot have grown
      have : step st (.writeByte w) = st := by
        simp only [step, hw]
        by_cases hc : (st.lock == some w && !wk.dead) = true
        · simp only [hc, if_true, hnone]
        · simp [hc]
      rw [this] at he
      have := congrArg List.length he
      simp at this

theorem submitted_append (a b : List Act) : submitted (a ++ b) = submitted a ++ submitted b := by
  induction a with
  | nil => rfl
  | cons x t ih => cases x <;> simp [submitted, ih]

theorem actRecord_mem (a : Act) (acts : List Act) (r : List Nat) (h : actRecord a = some r) (ha : a ∈ acts) : r ∈ submitted acts := by
  induction acts with
  | nil => simp at ha
  | cons x t ih =>
    rcases List.mem_cons.mp ha with e | e
    · subst e; cases a <;> simp [actRecord] at h <;> subst h <;> simp [submitted]
    · have := ih e
      cases x <;> simp [submitted, this]

theorem recInv_run (P : List Nat → Prop) (st : St) (acts : List Act) (hinv : C05.Inv st) (h : RecInv P st)
    (ha : ∀ r ∈ submitted acts, P r) : RecInv P (run st acts) := by
  induction acts generalizing st with
  | nil => exact h
  | cons a rest ih =>
    have h1 := recInv_step P st a hinv h (fun r hr => ha r (actRecord_mem a (a :: rest) r hr (by simp)))
    exact ih (step st a) (C05.inv_step st a hinv) h1
      (fun r hr => ha r (by cases a <;> simp [submitted, hr]))

theorem recInv_init (P : List Nat → Prop) (n : Nat) : RecInv P (JournalAppend.init n) := by
  refine ⟨by simp [JournalAppend.init, records, splitRec], ?_⟩
  intro w wk h hs
  simp only [JournalAppend.init] at h
  rw [List.getElem?_replicate] at h
  split at h
  · simp only [Option.some.injEq] at h; subst h; simp at hs
  · simp at h

/-- **records_are_submitted** — every complete line of a reachable file is, byte for byte, a WHOLE record that some worker handed to
`append_logs` (never a fragment, never two records glued together). -/
theorem records_are_submitted (n : Nat) (acts : List Act) :
    ∀ r ∈ records (run (JournalAppend.init n) acts).file, r ∈ submitted acts :=
  (recInv_run (· ∈ submitted acts) _ acts (C05.inv_init n) (recInv_init _ n) (fun _ h => h)).1

/-- **reachable_file_wf** (b) — for every number of workers and EVERY history of acquires / takeovers / repairs / byte writes / releases /
deaths whose submitted records are valid JSON lines, the reader's view of the file satisfies the hypothesis `WF` of C07's reader theorems:
every terminated line is valid, only the last line may be unterminated.  (The first clause uses reachability: `records_are_submitted`.) -/
theorem reachable_file_wf (valid : List Nat → Bool) (n : Nat) (acts : List Act) (hv : ∀ r ∈ submitted acts, valid r = true) :
    C07.WF (linesOf valid (run (JournalAppend.init n) acts).file) := by
  have hrec : ∀ r ∈ records (run (JournalAppend.init n) acts).file, valid r = true :=
    fun r hr => hv r (records_are_submitted n acts r hr)
  refine ⟨?_, ?_⟩
  · intro i ln hget hterm
    by_cases hi : i < (records (run (JournalAppend.init n) acts).file).length
    · rw [linesOf_get_record valid _ i hi] at hget
      simp only [Option.some.injEq] at hget
      subst hget
      exact hrec _ (List.getElem_mem hi)
    · have := linesOf_get_tail valid _ i ln (Nat.le_of_not_lt hi) hget
      rw [this] at hterm; cases hterm
  · intro i ln hget hlt
    by_cases hi : i < (records (run (JournalAppend.init n) acts).file).length
    · rw [linesOf_get_record valid _ i hi] at hget
      simp only [Option.some.injEq] at hget
      subst hget; rfl
    · exfalso
      -- at or after the records there is at most one line
      have hlen : (linesOf valid (run (JournalAppend.init n) acts).file).length ≤
          (records (run (JournalAppend.init n) acts).file).length + 1 := by
        unfold linesOf tailLines; split <;> simp
      omega


/-! ## (c) the offset cache stays true while the file grows -/

/-- a cache entry never points at or past an unterminated tail: all records before it are complete, so it lies within the complete records -/
theorem consistent_within_records (valid : List Nat → Bool) (f : List Nat) (c : Cache) (h : C07.Consistent (linesOf valid f) c)
    (k o : Nat) (hget : c.get? k = some o) : k ≤ (records f).length := by
  obtain ⟨hk, _, hpre⟩ := h k o hget
  apply Nat.le_of_not_lt
  intro hlt
  have hR : (records f).length < (linesOf valid f).length := by omega
  obtain ⟨ln, hln⟩ : ∃ ln, (linesOf valid f)[(records f).length]? = some ln := ⟨_, List.getElem?_eq_getElem hR⟩
  have ht := linesOf_get_tail valid f _ ln (Nat.le_refl _) hln
  have := hpre _ ln hlt hln
  simp [Complete, ht] at this

/-- **consistent_of_prefix** — if the complete records of `f` are a prefix of those of `f'` (all a reachable continuation can do: C05's
`records_prefix_run`), every cache that is consistent with `f` is consistent with `f'`: same offsets, same completeness, for every entry.
An entry can never point into a torn tail (`consistent_within_records`), which is why a later repair cannot invalidate it. -/
theorem consistent_of_prefix (valid : List Nat → Bool) (f f' : List Nat) (hp : records f <+: records f') (c : Cache)
    (h : C07.Consistent (linesOf valid f) c) : C07.Consistent (linesOf valid f') c := by
  intro k o hget
  have hkR := consistent_within_records valid f c h k o hget
  obtain ⟨_, ho, hpre⟩ := h k o hget
  obtain ⟨t, ht⟩ := hp
  have hRR : (records f).length ≤ (records f').length := by rw [← ht]; simp
  have htake : (records f').take k = (records f).take k := by
    rw [← ht, List.take_append_of_le_length hkR]
  refine ⟨Nat.le_trans (Nat.le_trans hkR hRR) (linesOf_length_ge valid f'), ?_, ?_⟩
  · rw [ho, offsetOf_linesOf valid f k hkR, offsetOf_linesOf valid f' k (Nat.le_trans hkR hRR), htake]
  · intro j ln hj hln
    have hj1 : j < (records f).length := by omega
    have hj2 : j < (records f').length := by omega
    rw [linesOf_get_record valid f' j hj2] at hln
    have heq : (records f')[j] = (records f)[j] := by
      have : (records f')[j]? = (records f)[j]? := by
        rw [← ht, List.getElem?_append_left hj1]
      rw [List.getElem?_eq_getElem hj2, List.getElem?_eq_getElem hj1] at this
      exact Option.some.inj this
    rw [heq] at hln
    exact hpre j ln hj (by rw [linesOf_get_record valid f j hj1]; exact hln)

/-- **consistent_extends** (c) — a cache consistent with a reachable file stays consistent with the file of EVERY later state (other
workers appending, dying at any byte, taking over, repairing). -/
theorem consistent_extends (valid : List Nat → Bool) (n : Nat) (acts more : List Act) (c : Cache)
    (h : C07.Consistent (linesOf valid (run (JournalAppend.init n) acts).file) c) :
    C07.Consistent (linesOf valid (run (run (JournalAppend.init n) acts) more).file) c :=
  consistent_of_prefix valid _ _ (C05.records_prefix_run _ more (C05.inv_run _ acts (C05.inv_init n))) c h


/-! ## the reader on the bytes of a reachable file -/

def Res.cacheOf : Res → Cache
  | .ok _ c => c
  | .raised c => c
  | .keyError c => c

/-- the reader never touches the entry of log number 0 (`_log_number_offset = {0: 0}` initially) -/
theorem readLoop_keeps_zero (from_ : Nat) : ∀ (lines : List Line) (n : Nat) (rem : Int) (pend : Bool) (cache : Cache) (acc : List Nat),
    (Res.cacheOf (readLoop from_ lines n rem pend cache acc)).get? 0 = cache.get? 0 := by
  intro lines
  induction lines with
  | nil => intro n rem pend cache acc; simp [readLoop, Res.cacheOf]
  | cons ln rest ih =>
    intro n rem pend cache acc
    simp only [readLoop]
    split
    · simp [Res.cacheOf]
    · split
      · simp [Res.cacheOf]
      · split
        · simp [Res.cacheOf]
        · rename_i cache1 hc1
          have h1 : cache1.get? 0 = cache.get? 0 := by
            by_cases hs : (cache.get? (n + 1)).isSome = true
            · simp [hs] at hc1; rw [← hc1]
            · simp only [hs, Bool.false_eq_true, if_false] at hc1
              cases ho : cache.get? n with
              | none => simp [ho] at hc1
              | some o => simp [ho] at hc1; rw [← hc1, get?_set]; simp
          split
          · rw [ih, get?_del]; simpa using h1
          · split
            · rw [ih]; exact h1
            · split
              · rw [ih]; exact h1
              · rw [ih, get?_del]; simpa using h1

/-- **read_bytes_spec** — `read_logs(from_)` on the BYTES of a file whose line view is well-formed, with a consistent cache that still has its
initial entry `0 ↦ 0` (cold or hot: whether or not the offset of `from_` is cached): it returns — never raises — exactly the log numbers
`from_ … m-1`, all complete records inside the size snapshot, `m` being the first line that is incomplete or crosses the snapshot; the cache it
leaves is consistent and still has `0 ↦ 0`. -/
theorem read_bytes_spec (valid : List Nat → Bool) (f : List Nat) (hwf : C07.WF (linesOf valid f)) (size : Nat) (cache : Cache) (from_ : Nat)
    (hcons : C07.Consistent (linesOf valid f) cache) (h0 : cache.get? 0 = some 0) :
    ∃ m cache', readBytes valid f size cache from_ = .ok (List.range' from_ (m - from_)) cache' ∧ m ≤ (linesOf valid f).length ∧
      C07.Consistent (linesOf valid f) cache' ∧ cache'.get? 0 = some 0 ∧
      (∀ j ln, from_ ≤ j → j < m → (linesOf valid f)[j]? = some ln → Complete ln = true ∧ offsetOf (linesOf valid f) (j + 1) ≤ size) ∧
      (∀ ln, (linesOf valid f)[m]? = some ln → Complete ln = false ∨ size < offsetOf (linesOf valid f) (m + 1)) := by
  cases hk : cache.get? from_ with
  | some off =>
    obtain ⟨m, cache', hres, h1, h2, h3, h4, h5⟩ := C07.read_returns_contiguous_complete (linesOf valid f) hwf from_ size off cache hcons hk
    have hkR := consistent_within_records valid f cache hcons from_ off hk
    have hoff : off = offsetOf (linesOf valid f) from_ := (hcons from_ off hk).2.1
    have heq : readBytes valid f size cache from_ =
        readLogs size cache from_ (fun o => if o = offsetOf (linesOf valid f) from_ then (linesOf valid f).drop from_ else []) := by
      unfold readBytes readLogs
      simp only [hk]
      rw [hoff, linesOf_seek valid f from_ hkR]
      simp
    have hz := readLoop_keeps_zero from_ ((linesOf valid f).drop from_) from_ ((size : Int) - off) false cache []
    refine ⟨m, cache', by rw [heq, hres], h2, h3, ?_, h4, h5⟩
    have : readLoop from_ ((linesOf valid f).drop from_) from_ ((size : Int) - off) false cache [] = .ok (List.range' from_ (m - from_)) cache' := by
      rw [← hres]; unfold readLogs; simp only [hk]; rw [hoff]; simp
    rw [this] at hz
    simpa [Res.cacheOf, h0] using hz
  | none =>
    obtain ⟨m, cache', hres, h2, h3, h4, h5⟩ := C07.read_cold_returns_contiguous_complete (linesOf valid f) hwf from_ size cache hcons hk h0
    have heq : readBytes valid f size cache from_ = readLogs size cache from_ (fun o => if o = 0 then linesOf valid f else []) := by
      unfold readBytes readLogs
      simp only [hk]
      simp
    have hz := readLoop_keeps_zero from_ (linesOf valid f) 0 (size : Int) false cache []
    have hmax : max 0 from_ = from_ := by omega
    rw [hmax] at hres
    refine ⟨m, cache', by rw [heq, hres], h2, h3, ?_, fun j ln _ hj => h4 j ln hj, h5⟩
    have : readLoop from_ (linesOf valid f) 0 (size : Int) false cache [] = .ok (List.range' from_ (m - from_)) cache' := by
      rw [← hres]; unfold readLogs; simp only [hk]; simp
    rw [this] at hz
    simpa [Res.cacheOf, h0] using hz


/-! ## (c, continued) the invariant the reader maintains across its OWN successive reads -/

theorem run_append (st : St) (a b : List Act) : run st (a ++ b) = run (run st a) b := by
  unfold run; rw [List.foldl_append]

/-- what a worker's offset cache satisfies between two of its reads: consistent with the file as of some state of the history, initial entry kept -/
def ReaderOk (valid : List Nat → Bool) (n : Nat) (acts : List Act) (cache : Cache) : Prop :=
  C07.Consistent (linesOf valid (run (JournalAppend.init n) acts).file) cache ∧ cache.get? 0 = some 0

/-- a fresh backend object (`_log_number_offset = {0: 0}`) -/
theorem readerOk_init (valid : List Nat → Bool) (n : Nat) (acts : List Act) : ReaderOk valid n acts [(0, 0)] := by
  refine ⟨?_, by decide⟩
  intro k o h
  have hk : k = 0 ∧ o = 0 := by
    unfold Cache.get? at h
    by_cases e : k = 0
    · subst e; simp at h; exact ⟨rfl, h.symm⟩
    · have : ((0 : Nat) == k) = false := by simp; omega
      simp [List.find?_cons, this] at h
  obtain ⟨rfl, rfl⟩ := hk
  exact ⟨Nat.zero_le _, by simp [offsetOf], fun j ln hj => by omega⟩

theorem readerOk_later (valid : List Nat → Bool) (n : Nat) (acts more : List Act) (cache : Cache) (h : ReaderOk valid n acts cache) :
    ReaderOk valid n (acts ++ more) cache := by
  refine ⟨?_, h.2⟩
  rw [run_append]; exact consistent_extends valid n acts more cache h.1

/-- **read_keeps_consistent** (c) — a worker whose cache was left by its earlier reads (or is fresh) reads again after ANY continuation of the
history (appends, crashes at any byte, takeovers, repairs): the read returns normally, and the cache it leaves is again `ReaderOk` — for the file
it has just read, hence (`readerOk_later`) for every later one.  An unterminated last line's offset is NOT kept (the F20b repair): `Consistent`
has no entry beyond the complete records (`consistent_within_records`). -/
theorem read_keeps_consistent (valid : List Nat → Bool) (n : Nat) (acts more : List Act) (cache : Cache) (size from_ : Nat)
    (hv : ∀ r ∈ submitted (acts ++ more), valid r = true) (h : ReaderOk valid n acts cache) :
    ∃ idxs cache', readBytes valid (run (JournalAppend.init n) (acts ++ more)).file size cache from_ = .ok idxs cache' ∧
      ReaderOk valid n (acts ++ more) cache' := by
  have h' := readerOk_later valid n acts more cache h
  obtain ⟨m, cache', hres, _, hc, hz, _, _⟩ :=
    read_bytes_spec valid _ (reachable_file_wf valid n (acts ++ more) hv) size cache from_ h'.1 h'.2
  exact ⟨_, cache', hres, hc, hz⟩

/-! ## (d) acknowledged ⇒ read back at its position by every later read of every worker -/

theorem enc_take_le (rs : List (List Nat)) (a b : Nat) (hab : a ≤ b) : (enc (rs.take a)).length ≤ (enc (rs.take b)).length := by
  have : rs.take a = (rs.take b).take a := by rw [List.take_take, Nat.min_eq_left hab]
  rw [this, enc_take_drop (rs.take b) a]; simp

theorem enc_take_le_all (rs : List (List Nat)) (b : Nat) : (enc (rs.take b)).length ≤ (enc rs).length := by
  rw [enc_take_drop rs b]; simp

/-- the complete records of a reachable file stay where they are, whatever happens next -/
theorem record_position_fixed (n : Nat) (acts more : List Act) (k : Nat) (r : List Nat)
    (h : (records (run (JournalAppend.init n) acts).file)[k]? = some r) :
    (records (run (JournalAppend.init n) (acts ++ more)).file)[k]? = some r := by
  rw [run_append]
  obtain ⟨t, ht⟩ := C05.records_prefix_run _ more (C05.inv_run _ acts (C05.inv_init n))
  rw [← ht]
  have hk : k < (records (run (JournalAppend.init n) acts).file).length := by
    apply Nat.lt_of_not_le; intro hle; rw [List.getElem?_eq_none hle] at h; cases h
  rw [List.getElem?_append_left hk]; exact h

/-- **ack_read_durable** (d) — positions, not membership.  Let `r` be the `k`-th complete record of the file after the history `acts₁` (which is
where an acknowledged append has put it: `acked_has_position`).  Then after ANY continuation — `acts₂` up to the moment a reader takes its size
snapshot, `acts₃` up to the moment it iterates over the lines: other workers appending, dying at any byte, taking over, repairing — EVERY worker
`v` whose cache is `ReaderOk` for some earlier moment `pre` of the history (its own earlier reads, or a fresh object) and every `from_ ≤ k`:
`read_logs(from_)` returns normally the log numbers `from_ … m-1` with `k < m`, its `(k - from_)`-th element is `k`, line `k` of the file it read is
still `r`, and its new cache is again `ReaderOk`. -/
theorem ack_read_durable (valid : List Nat → Bool) (n : Nat) (acts₁ acts₂ acts₃ : List Act) (k : Nat) (r : List Nat)
    (hv : ∀ x ∈ submitted (acts₁ ++ acts₂ ++ acts₃), valid x = true)
    (hk : (records (run (JournalAppend.init n) acts₁).file)[k]? = some r)
    (pre post : List Act) (hsplit : acts₁ ++ acts₂ ++ acts₃ = pre ++ post) (cache : Cache) (hcache : ReaderOk valid n pre cache)
    (from_ : Nat) (hfrom : from_ ≤ k) :
    ∃ m cache', readBytes valid (run (JournalAppend.init n) (acts₁ ++ acts₂ ++ acts₃)).file
        (run (JournalAppend.init n) (acts₁ ++ acts₂)).file.length cache from_ = .ok (List.range' from_ (m - from_)) cache' ∧
      k < m ∧ (List.range' from_ (m - from_))[k - from_]? = some k ∧
      (records (run (JournalAppend.init n) (acts₁ ++ acts₂ ++ acts₃)).file)[k]? = some r ∧
      ReaderOk valid n (acts₁ ++ acts₂ ++ acts₃) cache' := by
  have hok := readerOk_later valid n pre post cache hcache
  rw [← hsplit] at hok
  have hk2 := record_position_fixed n acts₁ acts₂ k r hk
  have hk3 := record_position_fixed n (acts₁ ++ acts₂) acts₃ k r hk2
  obtain ⟨m, cache', hres, hm, hc, hz, _, h5⟩ :=
    read_bytes_spec valid _ (reachable_file_wf valid n _ hv) (run (JournalAppend.init n) (acts₁ ++ acts₂)).file.length cache from_ hok.1 hok.2
  have hkm : k < m := by
    apply Nat.lt_of_not_le
    intro hmk
    -- line m is one of the complete records (m ≤ k), valid, and ends inside the snapshot: the loop cannot have stopped there
    have hkR3 : k < (records (run (JournalAppend.init n) (acts₁ ++ acts₂ ++ acts₃)).file).length := by
      apply Nat.lt_of_not_le; intro hle; rw [List.getElem?_eq_none hle] at hk3; cases hk3
    have hkR2 : k < (records (run (JournalAppend.init n) (acts₁ ++ acts₂)).file).length := by
      apply Nat.lt_of_not_le; intro hle; rw [List.getElem?_eq_none hle] at hk2; cases hk2
    have hmR3 : m < (records (run (JournalAppend.init n) (acts₁ ++ acts₂ ++ acts₃)).file).length := by omega
    have hline := linesOf_get_record valid (run (JournalAppend.init n) (acts₁ ++ acts₂ ++ acts₃)).file m hmR3
    have hvalid : valid ((records (run (JournalAppend.init n) (acts₁ ++ acts₂ ++ acts₃)).file)[m]) = true :=
      hv _ (records_are_submitted n _ _ (List.getElem_mem hmR3))
    rcases h5 _ hline with hbad | hbad
    · simp only [Complete, recLine, Bool.true_and] at hbad
      rw [hvalid] at hbad; cases hbad
    · rw [offsetOf_linesOf valid _ (m + 1) (by omega)] at hbad
      -- the first m+1 records of the read file are those of the snapshot file
      obtain ⟨t, ht⟩ : records (run (JournalAppend.init n) (acts₁ ++ acts₂)).file <+:
          records (run (JournalAppend.init n) (acts₁ ++ acts₂ ++ acts₃)).file := by
        rw [run_append _ (acts₁ ++ acts₂) acts₃]
        exact C05.records_prefix_run _ acts₃ (C05.inv_run _ (acts₁ ++ acts₂) (C05.inv_init n))
      have htake : (records (run (JournalAppend.init n) (acts₁ ++ acts₂ ++ acts₃)).file).take (m + 1) =
          (records (run (JournalAppend.init n) (acts₁ ++ acts₂)).file).take (m + 1) := by
        rw [← ht, List.take_append_of_le_length (by omega)]
      rw [htake] at hbad
      have h1 := enc_take_le_all (records (run (JournalAppend.init n) (acts₁ ++ acts₂)).file) (m + 1)
      have h2 := congrArg List.length (file_eq (run (JournalAppend.init n) (acts₁ ++ acts₂)).file)
      simp only [List.length_append] at h2
      omega
  refine ⟨m, cache', hres, hkm, ?_, hk3, hc, hz⟩
  rw [List.getElem?_range' (by omega)]
  congr 1; omega

/-- an acknowledged record HAS a position: the acknowledged records are, in order, a subsequence of the complete records of the file
(C05's `acked_in_file_order`), so each of them is the `k`-th record for some `k` -/
theorem acked_has_position (n : Nat) (acts : List Act) (r : List Nat) (hr : r ∈ (run (JournalAppend.init n) acts).acked) :
    ∃ k : Nat, (records (run (JournalAppend.init n) acts).file)[k]? = some r := by
  have := (C05.acked_in_file_order n acts).subset hr
  obtain ⟨k, hk, he⟩ := List.getElem_of_mem this
  exact ⟨k, by rw [List.getElem?_eq_getElem hk, he]⟩

/-- **interrupted_append_all_or_nothing_for_readers** — the companion for an UNacknowledged (crashed) append: whatever complete line a later
file has at position `k` is a WHOLE submitted record (never a fragment of a torn write), and once a record is at position `k` it is at
position `k` in every later file; so every later read (`read_bytes_spec`: only complete lines, by position) either never returns the
interrupted record or returns it whole at one fixed position. -/
theorem interrupted_append_all_or_nothing_for_readers (n : Nat) (acts more : List Act) (k : Nat) (r : List Nat)
    (h : (records (run (JournalAppend.init n) acts).file)[k]? = some r) :
    r ∈ submitted acts ∧ (records (run (JournalAppend.init n) (acts ++ more)).file)[k]? = some r :=
  ⟨by obtain ⟨hk, he⟩ := List.getElem?_eq_some_iff.mp h
      exact records_are_submitted n acts r (he ▸ List.getElem_mem hk),
    record_position_fixed n acts more k r h⟩


/-! ## non-vacuity: three workers — 0 appends `[1,2]`, 1 dies after two bytes of `[7,8,9]`, 2 takes the lock over, repairs, appends `[5]` -/

def allValid : List Nat → Bool := fun _ => true

-- the history meets the hypothesis of the theorems
example : ∀ r ∈ submitted C05.demoActs, allValid r = true := fun _ _ => rfl
example : submitted C05.demoActs = [[1, 2], [7, 8, 9], [5]] := by decide
-- while worker 1 lies dead in the middle of its write, the reader sees one record and a torn line …
example : linesOf allValid (run (JournalAppend.init 3) (C05.demoActs.take 11)).file = [⟨3, true, true⟩, ⟨2, false, true⟩] := by decide
-- … a reader (fresh cache) gets record 0 only and does NOT keep the offset of the torn line (F20b)
example : readBytes allValid (run (JournalAppend.init 3) (C05.demoActs.take 11)).file 5 [(0, 0)] 0 = .ok [0] [(1, 3), (0, 0)] := by decide
-- after the takeover + repair + append the torn bytes are gone; record 0 is still at position 0, `[5]` (acknowledged) at position 1
example : records (run (JournalAppend.init 3) C05.demoActs).file = [[1, 2], [5]] := by decide
example : (records (run (JournalAppend.init 3) C05.demoActs).file)[1]? = some [5] ∧ [5] ∈ (run (JournalAppend.init 3) C05.demoActs).acked := by decide
-- the CACHED reader (cache left by the read above, taken while the file was torn) reads from 1 on the grown file: position 1 is `[5]`
example : readBytes allValid (run (JournalAppend.init 3) C05.demoActs).file 5 [(1, 3), (0, 0)] 1 = .ok [1] [(2, 5), (1, 3), (0, 0)] := by decide
-- a cold reader gets both, in order
example : readBytes allValid (run (JournalAppend.init 3) C05.demoActs).file 5 [(0, 0)] 0 = .ok [0, 1] [(2, 5), (1, 3), (0, 0)] := by decide
-- the interrupted record `[7,8,9]` is in no later file (all-or-nothing: here nothing)
example : [7, 8, 9] ∉ records (run (JournalAppend.init 3) C05.demoActs).file := by decide
-- `ack_read_durable` instantiated: acts₁ = the whole demo (record `[5]` at k = 1), two more appends by worker 0 afterwards, reader cached at take 11
example : ∃ m cache', readBytes allValid (run (JournalAppend.init 3) (C05.demoActs ++ [] ++ [.acquire 0 [4], .repair 0, .writeByte 0])).file
      (run (JournalAppend.init 3) (C05.demoActs ++ [])).file.length [(1, 3), (0, 0)] 1 = .ok (List.range' 1 (m - 1)) cache' ∧ 1 < m ∧
      (List.range' 1 (m - 1))[1 - 1]? = some 1 ∧
      (records (run (JournalAppend.init 3) (C05.demoActs ++ [] ++ [.acquire 0 [4], .repair 0, .writeByte 0])).file)[1]? = some [5] ∧
      ReaderOk allValid 3 (C05.demoActs ++ [] ++ [.acquire 0 [4], .repair 0, .writeByte 0]) cache' :=
  ack_read_durable allValid 3 C05.demoActs [] [.acquire 0 [4], .repair 0, .writeByte 0] 1 [5] (fun _ _ => rfl) (by decide)
    (C05.demoActs.take 11) (C05.demoActs.drop 11 ++ [.acquire 0 [4], .repair 0, .writeByte 0]) (by simp [← List.append_assoc]) [(1, 3), (0, 0)]
    (by
      obtain ⟨idxs, c', h1, h2⟩ := read_keeps_consistent allValid 3 (C05.demoActs.take 11) [] [(0, 0)] 5 0 (fun _ _ => rfl)
        (readerOk_init allValid 3 _)
      have : readBytes allValid (run (JournalAppend.init 3) (C05.demoActs.take 11 ++ [])).file 5 [(0, 0)] 0 = .ok [0] [(1, 3), (0, 0)] := by decide
      rw [this] at h1
      cases h1
      simpa using h2) 1 (Nat.le_refl _)

end OptunaVerif.Bridge
