import OptunaVerif.Props.C05C07Bridge
import OptunaVerif.Props.C07FileGen
/-!
# C05 ⇄ C07 bridge, for the interpreter of the GENERATED `read_logs` (T-file)

`Props/C07FileGen.lean` proves `interpRead readLogsProg = JournalFile.readLogs` for the `read_logs` regenerated from
`optuna/storages/journal/_file.py`.  Composed with `Props/C05C07Bridge.lean`: the reader side of `ack_read_durable` holds of the generated
method.  `_partial`: the HISTORY is still the hand model's acts (`Model/JournalAppend.lean`); relating a whole multi-worker history to runs of
the generated `append_logs` (`append_prefix_generated_eq_model` does it for ONE call from a quiescent state) is not done here.
-/
namespace OptunaVerif.Bridge
open OptunaVerif OptunaVerif.JournalFile OptunaVerif.JournalAppend

/-- `read_logs` as generated, on the bytes of a file -/
def genReadBytes (valid : List Nat → Bool) (f : List Nat) (size : Nat) (cache : Cache) (from_ : Nat) : Res :=
  FileIR.interpRead Generated.JournalFileMethods.readLogsProg size cache from_ (fun off => linesOf valid (f.drop off))

theorem genReadBytes_eq (valid : List Nat → Bool) (f : List Nat) (size : Nat) (cache : Cache) (from_ : Nat) :
    genReadBytes valid f size cache from_ = readBytes valid f size cache from_ :=
  C07FileGen.read_logs_generated_eq_model size cache from_ _

/-- **gen_ack_read_durable_partial** — `ack_read_durable` with the reader being the interpreter of the `read_logs` generated from the source. -/
theorem gen_ack_read_durable_partial (valid : List Nat → Bool) (n : Nat) (acts₁ acts₂ acts₃ : List Act) (k : Nat) (r : List Nat)
    (hv : ∀ x ∈ submitted (acts₁ ++ acts₂ ++ acts₃), valid x = true)
    (hk : (records (run (JournalAppend.init n) acts₁).file)[k]? = some r)
    (pre post : List Act) (hsplit : acts₁ ++ acts₂ ++ acts₃ = pre ++ post) (cache : Cache) (hcache : ReaderOk valid n pre cache)
    (from_ : Nat) (hfrom : from_ ≤ k) :
    ∃ m cache', genReadBytes valid (run (JournalAppend.init n) (acts₁ ++ acts₂ ++ acts₃)).file
        (run (JournalAppend.init n) (acts₁ ++ acts₂)).file.length cache from_ = .ok (List.range' from_ (m - from_)) cache' ∧
      k < m ∧ (List.range' from_ (m - from_))[k - from_]? = some k ∧
      (records (run (JournalAppend.init n) (acts₁ ++ acts₂ ++ acts₃)).file)[k]? = some r ∧
      ReaderOk valid n (acts₁ ++ acts₂ ++ acts₃) cache' := by
  rw [genReadBytes_eq]
  exact ack_read_durable valid n acts₁ acts₂ acts₃ k r hv hk pre post hsplit cache hcache from_ hfrom

example : genReadBytes allValid (run (JournalAppend.init 3) C05.demoActs).file 5 [(1, 3), (0, 0)] 1 = .ok [1] [(2, 5), (1, 3), (0, 0)] := by
  rw [genReadBytes_eq]; decide

end OptunaVerif.Bridge
