import OptunaVerif.Lemmas.Txn
import OptunaVerif.Generated.RdbSessions
/-!
# C05 (SQLite part) — an interrupted `RDBStorage` call is wholly applied or wholly absent

Model: `Model/Txn.lean`.  A call is the list of requests it sends to the database (`begin`, `write w`,
`flush`, `commit`, `rollback`), grouped into executions of its `with _create_scoped_session(...)` blocks;
the worker may die after any number `k` of requests; what survivors and fresh openers then read is the
last committed state (`crashView`) — **SQLite's atomic commit is trusted, not proved**.

What is proved, for every database state, every write semantics `ap`, every number of writes, loop
iterations and retries, every crash point:

* `crash_state_is_txn_boundary` — whatever the shape, a crash leaves the state after a whole number of
  the call's transactions;
* `rdb_call_atomic` — for a method whose translated shape is `oneTxn` (every writing block is plain —
  no inner commit/rollback, no re-opened session — not per-item, and there is only one), every execution
  that code of this shape can produce (`conforms`) leaves the pre-state or the post-state;
* the hypothesis on the code is `Generated.RdbSessions` (regenerated from /repo by
  `verif/translators/tsession.py` on every run): `rdb_methods_one_txn` discharges it by `decide` for
  every method of `RDBStorage` except `upgrade` (schema migration: alembic's own transactions, then the
  version row — classified in `upgrade_is_migration`, outside the storage API of the property);
* `fail_stale_trials` (a study-level loop of storage calls) is atomic per item, not per call:
  `fail_stale_trials_per_item`, `per_item_crash_is_item_boundary`;
* the predicate is not vacuous: `two_transactions_not_atomic_witness`, `inner_commit_not_atomic_witness`.
-/
namespace OptunaVerif.C05Txn
open OptunaVerif.Txn OptunaVerif.Generated

variable {σ ω : Type}

/-! ## the database side: crashes see transaction boundaries -/

/-- **crash_state_is_txn_boundary**: the worker dies after `k` requests (any `k`); the state left is
the state after 0, 1, 2, … whole block executions — never one with part of a transaction. -/
theorem crash_state_is_txn_boundary (ap : σ → ω → σ) (d : σ) (is : List (Inst ω))
    (hsafe : ∀ i ∈ is, i.safe = true) (k : Nat) :
    crashView ap d (trace is) k ∈ boundaries ap d is :=
  (trace_run ap d is hsafe).2 _ (crash_mem_durs ap _ (trace is) k)

/-- the state after the whole call is the last boundary -/
theorem post_state_eq (ap : σ → ω → σ) (d : σ) (is : List (Inst ω)) (hsafe : ∀ i ∈ is, i.safe = true) :
    postState ap d (trace is) = finalState ap d is := by
  unfold postState
  rw [(trace_run ap d is hsafe).1]

/-- **rdb_call_atomic (dynamic form)**: if at most one of the call's transactions both commits and
writes, every crash point leaves the pre-state or the post-state. -/
theorem one_effective_txn_atomic (ap : σ → ω → σ) (d : σ) (is : List (Inst ω))
    (hsafe : ∀ i ∈ is, i.safe = true) (hone : (is.filter Inst.effective).length ≤ 1) (k : Nat) :
    crashView ap d (trace is) k = d ∨ crashView ap d (trace is) k = postState ap d (trace is) := by
  rw [post_state_eq ap d is hsafe]
  exact boundaries_one ap d is hone _ (crash_state_is_txn_boundary ap d is hsafe k)

/-! ## from the shape of the code to the property -/

/-- **rdb_call_atomic**: a method whose translated shape has all its writes in one plain, non-per-item
session block (`Method.oneTxn`, a decidable predicate over the generated table): for every execution
such code can produce (`conforms`: any branch taken, any number of writes and flushes inside the
block, any number of failed retries, exceptions anywhere), every initial database state and **every
crash point**, the state a survivor reads is the pre-state or the post-state of the call. -/
theorem rdb_call_atomic (m : Method) (hm : m.oneTxn = true) (ap : σ → ω → σ) (d : σ) (is : List (Inst ω))
    (hc : conforms m.blocks is = true) (k : Nat) :
    crashView ap d (trace is) k = d ∨ crashView ap d (trace is) k = postState ap d (trace is) := by
  simp only [Method.oneTxn, Bool.and_eq_true] at hm
  obtain ⟨hsafe, hone⟩ := conforms_oneTxn m.blocks is hm.2 hc
  exact one_effective_txn_atomic ap d is hsafe hone k

/-! ## the hypothesis on the code, from the generated table -/

/-- `_create_scoped_session` commits after the `yield`, rolls back first thing in every `except`
branch (one of which catches `Exception`), closes in `finally`, and does nothing else with the session. -/
theorem ctx_commit_or_rollback : RdbSessions.ctx.ok = true := by decide

/-- No function that is handed the caller's session (`…_without_commit`, `_get_prepared_new_trial`,
the model class methods) commits, rolls back or re-opens the session — except through the guard
`check_trial_is_updatable`. -/
theorem helpers_never_commit :
    ∀ h ∈ RdbSessions.helpers, h.commits = 0 ∧ h.rollbacks = 0 ∧ h.nested = 0 := by decide

/-- **Every guard is safe** (dominating, covered or fresh — see `Txn.Block.guardsSafe`): the setters
test the trial's state before their first write, `set_trial_state_values` re-tests the same row,
`_get_prepared_new_trial` only tests the trial it has just inserted as RUNNING. -/
theorem guards_safe :
    ∀ m ∈ RdbSessions.methods ++ RdbSessions.composites, ∀ b ∈ m.blocks, b.guardsSafe = true := by decide

/-- … and these are the blocks that contain guards (name, number of guard sites per block). -/
theorem guarded_methods :
    (RdbSessions.methods.filter (fun m => m.blocks.any (fun b => b.guards != 0))).map
        (fun m => (m.name, m.blocks.map (·.guards))) =
      [("create_new_trial", [6]), ("_create_new_trial", [6]), ("set_trial_param", [1]),
       ("set_trial_state_values", [2]), ("set_trial_intermediate_value", [1]),
       ("set_trial_user_attr", [1]), ("set_trial_system_attr", [1])] := by decide

/-- **Every method of `RDBStorage` except `upgrade` has the one-transaction shape** — the public
writers (`create_new_study`, `delete_study`, `set_study_*_attr`, `create_new_trial`/`_create_new_trial`
incl. the template path and the retry loop, `set_trial_param`, `set_trial_state_values`,
`set_trial_intermediate_value`, `set_trial_*_attr`, `record_heartbeat`), and trivially the readers. -/
theorem rdb_methods_one_txn :
    ∀ m ∈ RdbSessions.methods, m.name ≠ "upgrade" → m.oneTxn = true := by decide

/-- the table is not empty of writers: these are the public methods with a write site -/
theorem rdb_public_writers :
    (RdbSessions.methods.filter (fun m => m.isPublic && m.hasWrites)).map (·.name) =
      ["create_new_study", "delete_study", "set_study_user_attr", "set_study_system_attr",
       "create_new_trial", "_create_new_trial", "set_trial_param", "set_trial_state_values",
       "set_trial_intermediate_value", "set_trial_user_attr", "set_trial_system_attr", "upgrade",
       "record_heartbeat"] := by decide

/-- Methods with more than one session block: all blocks but one are read-only
(`create_new_study`: the insert, then `get_study_id_from_name`; `get_best_trial`: two read blocks, the
first re-opening the session through `get_study_directions` — harmless without writes). -/
theorem multi_block_methods_have_one_writer :
    ∀ m ∈ RdbSessions.methods, m.name ≠ "upgrade" → 2 ≤ m.blocks.length →
      (m.blocks.filter Block.hasWrites).length ≤ 1 := by decide

/-- `upgrade` is a schema migration, not a storage call of the property: alembic runs its own
transactions outside every session block (`external`), then the version row is updated in one more. -/
theorem upgrade_is_migration :
    ∀ m ∈ RdbSessions.methods, m.name = "upgrade" → m.external ≠ 0 ∧ m.oneTxn = false ∧ perItemShape m.blocks = true := by
  decide

/-- **rdb_call_atomic, instantiated**: every method of `RDBStorage` other than `upgrade`, as the code
is today. -/
theorem rdb_every_call_atomic (m : Method) (hmem : m ∈ RdbSessions.methods) (hname : m.name ≠ "upgrade")
    (ap : σ → ω → σ) (d : σ) (is : List (Inst ω)) (hc : conforms m.blocks is = true) (k : Nat) :
    crashView ap d (trace is) k = d ∨ crashView ap d (trace is) k = postState ap d (trace is) :=
  rdb_call_atomic m (rdb_methods_one_txn m hmem hname) ap d is hc k

/-! ## atomic per item: `fail_stale_trials` -/

theorem conforms_perItem_safe (bs : List Block) (is : List (Inst ω)) (hs : perItemShape bs = true)
    (hc : conforms bs is = true) : ∀ i ∈ is, i.safe = true := by
  simp only [perItemShape, List.all_eq_true] at hs
  simp only [conforms, Bool.and_eq_true, List.all_eq_true] at hc
  intro i hi
  have hok := hc.1 i hi
  unfold instOk at hok
  cases hg : bs[i.blk]? with
  | none => simp [hg] at hok
  | some b =>
    cases hw : i.hasWrite with
    | false => simp [Inst.safe, hw]
    | true =>
      simp only [hg, hw, Bool.not_true, Bool.or_false, Bool.and_eq_true, Bool.or_eq_true, Bool.not_eq_true'] at hok
      have hb := hs b (List.mem_of_getElem? hg)
      simp only [hok.1, Bool.not_true, Bool.false_or] at hb
      rcases hok.2 with k2 | k2
      · rw [hb] at k2; simp at k2
      · exact k2

/-- **per_item_crash_is_item_boundary**: for code whose writing blocks are all plain (one transaction
per loop item), a crash at any point leaves the state after a whole number of items. -/
theorem per_item_crash_is_item_boundary (bs : List Block) (hs : perItemShape bs = true) (ap : σ → ω → σ) (d : σ)
    (is : List (Inst ω)) (hc : conforms bs is = true) (k : Nat) :
    crashView ap d (trace is) k ∈ boundaries ap d is :=
  crash_state_is_txn_boundary ap d is (conforms_perItem_safe bs is hs hc) k

/-- `fail_stale_trials(study)`: a read-only `_get_stale_trial_ids`, then one `set_trial_state_values`
transaction per stale trial, then read-only `get_trial`s for the callbacks.  Atomic per item (each trial
is failed or not), **not** per call — the property's "storage call" is each `set_trial_state_values`. -/
theorem fail_stale_trials_per_item :
    ∀ m ∈ RdbSessions.composites, m.external = 0 ∧ perItemShape m.blocks = true ∧ m.oneTxn = false ∧
      (m.blocks.head?.map Block.hasWrites) = some false := by decide

/-! ## the predicate is not vacuous -/

/-- the database of the witnesses: a log of the writes applied -/
def apLog (l : List Nat) (w : Nat) : List Nat := l ++ [w]

def twoTxns : List (Inst Nat) :=
  [{ blk := 0, body := [.write 1], committed := true }, { blk := 1, body := [.write 2], committed := true }]

def twoBlocks : List Block :=
  [{ writes := 1, flushes := 0, commits := 0, rollbacks := 0, nested := 0, guards := 0, guardsSafe := true, rep := .once, ignoreIntegrity := false },
   { writes := 1, flushes := 0, commits := 0, rollbacks := 0, nested := 0, guards := 0, guardsSafe := true, rep := .once, ignoreIntegrity := false }]

/-- **two_transactions_not_atomic_witness**: a call shaped as two write transactions is rejected by
the predicate, conforms to its shape, and has a crash point (after the first commit) at which a
survivor reads a half-applied state: neither the pre-state nor the post-state. -/
theorem two_transactions_not_atomic_witness :
    oneTxnShape twoBlocks = false ∧ conforms twoBlocks twoTxns = true ∧
      crashView apLog [] (trace twoTxns) 3 = [1] ∧ postState apLog [] (trace twoTxns) = [1, 2] ∧
      ∃ k, crashView apLog [] (trace twoTxns) k ≠ [] ∧
        crashView apLog [] (trace twoTxns) k ≠ postState apLog [] (trace twoTxns) := by
  refine ⟨by decide, by decide, by decide, by decide, 3, by decide, by decide⟩

def innerCommit : List (Inst Nat) :=
  [{ blk := 0, body := [.write 1, .commit, .begin, .write 2], committed := true }]

def innerCommitBlock : List Block :=
  [{ writes := 2, flushes := 0, commits := 1, rollbacks := 0, nested := 0, guards := 0, guardsSafe := true, rep := .once, ignoreIntegrity := false }]

/-- **inner_commit_not_atomic_witness**: one session block with an explicit `session.commit()` between
two writes: rejected by the predicate, and a crash after the inner commit exposes the first write alone. -/
theorem inner_commit_not_atomic_witness :
    oneTxnShape innerCommitBlock = false ∧ conforms innerCommitBlock innerCommit = true ∧
      crashView apLog [] (trace innerCommit) 3 = [1] ∧ postState apLog [] (trace innerCommit) = [1, 2] := by
  refine ⟨by decide, by decide, by decide, by decide⟩

/-- a per-item loop (the shape of `fail_stale_trials`) is likewise not atomic per call -/
theorem per_item_not_atomic_per_call_witness :
    ∃ m ∈ RdbSessions.composites, ∃ is : List (Inst Nat), conforms m.blocks is = true ∧
      ∃ k, crashView apLog [] (trace is) k ≠ [] ∧ crashView apLog [] (trace is) k ≠ postState apLog [] (trace is) := by
  refine ⟨_, List.mem_cons_self, [{ blk := 0, body := [], committed := true },
    { blk := 1, body := [.write 7], committed := true }, { blk := 1, body := [.write 8], committed := true }],
    by decide, 5, by decide, by decide⟩

/-! ## non-vacuity of the positive theorems -/

/-- `_create_new_trial` with a template: two failed attempts (deadlock → rollback), then the attempt that
commits — 3 executions of the one block, 2 + 2 + 3 writes and a flush each. -/
def retryRun : List (Inst Nat) :=
  [{ blk := 0, body := [.write 1, .flush, .write 2], committed := false },
   { blk := 0, body := [.write 1, .flush], committed := false },
   { blk := 0, body := [.write 1, .flush, .write 2, .write 3], committed := true }]

def createNewTrial : Method :=
  { name := "_create_new_trial", isPublic := true, external := 0,
    blocks := [{ writes := 24, flushes := 1, commits := 0, rollbacks := 0, nested := 0, guards := 6, guardsSafe := true, rep := .retry, ignoreIntegrity := false }] }

example : createNewTrial ∈ RdbSessions.methods := by decide
example : createNewTrial.oneTxn = true ∧ conforms createNewTrial.blocks retryRun = true := by decide
example : (trace retryRun).length = 15 := by decide
-- crash inside the committing attempt: pre-state; after its commit: post-state
example : crashView apLog [] (trace retryRun) 13 = [] ∧ crashView apLog [] (trace retryRun) 15 = [1, 2, 3] := by decide
example : ∀ i ∈ retryRun, i.safe = true := by decide
example : (retryRun.filter Inst.effective).length = 1 := by decide
example : boundaries apLog [] retryRun = [[], [], [], [1, 2, 3]] := by decide

/-- `set_trial_param` on a finished trial: the dominating guard fires — the session is re-opened by
`get_trial`, whose exit commits (nothing), and the block is left by `UpdateFinishedTrialError`. -/
def guardFired : List (Inst Nat) := [{ blk := 0, body := [.commit], committed := false }]
example : ∃ m ∈ RdbSessions.methods, m.name = "set_trial_param" ∧ m.oneTxn = true ∧
    conforms m.blocks guardFired = true ∧ conforms m.blocks [⟨0, [.write 1, .write 2], true⟩] = true ∧
    conforms m.blocks [(⟨0, [.write 1, .commit, .begin, .write 2], true⟩ : Inst Nat)] = false := by
  refine ⟨⟨"set_trial_param", true, [⟨3, 0, 0, 0, 0, 1, true, .once, true⟩], 0⟩, by decide, by decide, by decide, by decide, by decide, by decide⟩

/-- `create_new_study`: the insert, then the read-only `get_study_id_from_name` -/
def createStudyRun : List (Inst Nat) :=
  [{ blk := 0, body := [.write 5], committed := true }, { blk := 1, body := [], committed := true }]
example : ∃ m ∈ RdbSessions.methods, m.name = "create_new_study" ∧ conforms m.blocks createStudyRun = true := by
  refine ⟨_, List.mem_cons_self, by decide, by decide⟩

-- a read-only block whose instance re-opens the session inside (get_best_trial): safe although not plain
example : (⟨1, [.commit, .begin], true⟩ : Inst Nat).safe = true ∧ (⟨1, [.commit, .begin], true⟩ : Inst Nat).plain = false := by decide
example : RdbSessions.ctx.commitAfterYield = true := by decide
example : RdbSessions.helpers.length > 20 ∧ RdbSessions.methods.length > 30 := by decide
-- `fail_stale_trials`: two items; crash between them = the state with the first trial failed
example : ∃ m ∈ RdbSessions.composites, conforms m.blocks
    [(⟨0, [], true⟩ : Inst Nat), ⟨1, [.write 7], true⟩, ⟨1, [.write 8], true⟩, ⟨2, [], true⟩, ⟨2, [], true⟩] = true := by
  refine ⟨_, List.mem_cons_self, by decide⟩
example : boundaries apLog [] [(⟨0, [], true⟩ : Inst Nat), ⟨1, [.write 7], true⟩, ⟨1, [.write 8], true⟩] =
    [[], [], [7], [7, 8]] := by decide

end OptunaVerif.C05Txn
