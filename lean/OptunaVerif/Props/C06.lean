import OptunaVerif.Lemmas.Journal
import OptunaVerif.Lemmas.JournalRefine
import OptunaVerif.Props.C01
/-!
# C06 — journal replay is deterministic; all workers converge

Theorems about `Model/Journal.lean` (the model of `JournalStorageReplayResult.apply_logs` and of
`JournalStorage._sync_with_backend`), for **all** logs, workers, batch splits, sync points and
snapshot positions.  `pub st = st.spec` is what `get_all_studies` / `get_all_trials` expose; the
remaining fields (`cursor`, `owned`, `lastCreated`) are local to a worker.
-/
namespace OptunaVerif.C06
open OptunaVerif OptunaVerif.Storage OptunaVerif.Journal

/-- The public state after replaying a whole list of records: a plain left fold. -/
def pubReplay (s : Spec) (rs : List Rec) : Spec := rs.foldl applySpec s

/-! ## the state is a function of the log prefix alone -/

/-- Error-swallowing replay by *any* worker from *any* local bookkeeping: the public state is the
fold of the worker-independent transformer, and the cursor counts the records. -/
theorem applyAll_pub (w : String) (st : JState) (rs : List Rec) :
    (applyAll w st rs).spec = pubReplay st.spec rs ∧ (applyAll w st rs).cursor = st.cursor + rs.length := by
  induction rs generalizing st with
  | nil => simp [applyAll, pubReplay]
  | cons r rs ih =>
    have h1 := (apply_spec w { st with cursor := st.cursor + 1 } r).1
    have h2 := apply_cursor w { st with cursor := st.cursor + 1 } r
    obtain ⟨ih1, ih2⟩ := ih (apply w { st with cursor := st.cursor + 1 } r).1
    have e : applyAll w st (r :: rs) =
        applyAll w (apply w { st with cursor := st.cursor + 1 } r).1 rs := rfl
    rw [e, ih1, ih2, h1, h2]
    refine ⟨rfl, ?_⟩
    simp only [List.length_cons]
    omega

/-- **issuer_independent**: whichever worker replays a log (and whatever it owned before), it sees
the same studies and trials. -/
theorem issuer_independent (w w' : String) (st st' : JState) (rs : List Rec) (h : st.spec = st'.spec) :
    (applyAll w st rs).spec = (applyAll w' st' rs).spec := by
  rw [(applyAll_pub w st rs).1, (applyAll_pub w' st' rs).1, h]

/-- **replay_is_fold**: replaying `l₁ ++ l₂` is replaying `l₂` from the state after `l₁`; hence any
split of the same log into batches gives the same state. -/
theorem replay_is_fold (w : String) (st : JState) (l₁ l₂ : List Rec) :
    applyAll w st (l₁ ++ l₂) = applyAll w (applyAll w st l₁) l₂ := by
  simp [applyAll, List.foldl_append]

/-! ## `apply_logs` with errors: resumption -/

/-- One call of `apply_logs` consumes some number `n` of records (all of them, or up to and
including the first one rejected for this worker) and leaves exactly the public state of the
error-free replay of those `n` records, with the cursor just past them. -/
theorem applyLogs_prefix (w : String) (st : JState) (rs : List Rec) :
    ∃ n, n ≤ rs.length ∧
      (applyLogs w st rs).1.cursor = st.cursor + n ∧
      (applyLogs w st rs).1.spec = pubReplay st.spec (rs.take n) ∧
      ((applyLogs w st rs).2 = none → n = rs.length) ∧
      ((applyLogs w st rs).2 ≠ none → 0 < n) := by
  induction rs generalizing st with
  | nil => exact ⟨0, by simp [applyLogs, pubReplay]⟩
  | cons r rs ih =>
    have h1 := (apply_spec w { st with cursor := st.cursor + 1 } r).1
    have h2 := apply_cursor w { st with cursor := st.cursor + 1 } r
    simp only [applyLogs]
    split
    · rename_i st' e heq
      refine ⟨1, by simp, ?_, ?_, by simp, by simp⟩
      · have : (apply w { st with cursor := st.cursor + 1 } r).1 = st' := by rw [heq]
        rw [← this, h2]
      · have : (apply w { st with cursor := st.cursor + 1 } r).1 = st' := by rw [heq]
        rw [← this, h1]; simp [pubReplay]
    · rename_i st' heq
      have e1 : (apply w { st with cursor := st.cursor + 1 } r).1 = st' := by rw [heq]
      obtain ⟨n, hn, hc, hs, hnone, hsome⟩ := ih st'
      refine ⟨n + 1, by simp; omega, ?_, ?_, ?_, by intro; omega⟩
      · rw [hc, ← e1, h2]; simp; omega
      · rw [hs, ← e1, h1]; simp [pubReplay]
      · intro h; simp [hnone h]

/-- The invariant every replica satisfies between calls: its public state is the replay of the
first `cursor` records of the (append-only) log. -/
def Synced (log : List Rec) (st : JState) : Prop :=
  st.cursor ≤ log.length ∧ st.spec = pubReplay Storage.init (log.take st.cursor)

theorem pubReplay_append (s : Spec) (l₁ l₂ : List Rec) :
    pubReplay s (l₁ ++ l₂) = pubReplay (pubReplay s l₁) l₂ := by
  simp [pubReplay, List.foldl_append]

/-- **resume_after_error**: a sync — whether it ends normally or is aborted by an error raised for
one of this worker's own records — keeps the invariant; so after *any* sequence of syncs at *any*
points of a growing log the replica holds exactly the replay of the prefix it has read. -/
theorem sync_keeps_synced (w : String) (log : List Rec) (upto : Nat) (st : JState)
    (h : Synced log st) : Synced log (sync w st log upto).1 := by
  obtain ⟨hc, hs⟩ := h
  unfold sync
  obtain ⟨n, hn, hcur, hspec, _, _⟩ := applyLogs_prefix w st ((log.take upto).drop st.cursor)
  have hlen : ((log.take upto).drop st.cursor).length ≤ log.length - st.cursor := by
    simp only [List.length_drop, List.length_take]; omega
  refine ⟨by rw [hcur]; omega, ?_⟩
  rw [hspec, hs, ← pubReplay_append]
  congr 1
  -- the records consumed are the next `n` records of the log
  have hn' : n ≤ (min upto log.length) - st.cursor := by
    simpa [List.length_drop, List.length_take] using hn
  rw [hcur]
  have : (List.drop st.cursor (List.take upto log)).take n = (log.drop st.cursor).take n := by
    rw [List.drop_take]
    rw [List.take_take]
    congr 1
    omega
  rw [this, ← List.take_add]

theorem init_synced (log : List Rec) : Synced log JState.init := by
  simp [Synced, JState.init, pubReplay]

/-- Appending records to the log does not disturb what a replica has already derived. -/
theorem synced_mono (log ext : List Rec) (st : JState) (h : Synced log st) : Synced (log ++ ext) st := by
  obtain ⟨hc, hs⟩ := h
  refine ⟨by simp; omega, ?_⟩
  rw [hs, List.take_append_of_le_length hc]

/-- **workers converge**: two replicas that have read the same number of records of the same log
expose the same studies and trials — regardless of who issued which record, how their syncs were
batched, and which errors they raised on the way. -/
theorem workers_converge (log : List Rec) (st st' : JState) (h : Synced log st) (h' : Synced log st')
    (hc : st.cursor = st'.cursor) : st.spec = st'.spec := by
  rw [h.2, h'.2, hc]

/-! ## rejected operations -/

/-- **rejected_changes_nothing**: an error is raised only when the replaying worker is the issuer
of the record, and a record that is rejected changes no worker's public state. -/
theorem rejected_changes_nothing (w : String) (st : JState) (r : Rec) (e : Err)
    (h : (apply w st r).2 = some e) :
    r.worker = w ∧ (apply w st r).1.spec = st.spec ∧
      ∀ w' (st' : JState), st'.spec = st.spec → (apply w' st' r).1.spec = st'.spec := by
  have h2 := (apply_spec w st r).2
  rw [h] at h2
  by_cases hw : (r.worker == w) = true
  · simp only [hw, if_true] at h2
    have hrej : applySpec st.spec r = st.spec := by
      unfold applySpec; rw [← h2]
    refine ⟨by simpa using hw, by rw [(apply_spec w st r).1, hrej], ?_⟩
    intro w' st' hs
    rw [(apply_spec w' st' r).1, hs, hrej]
  · simp [hw] at h2

/-! ## snapshots -/

/-- **snapshot_plus_tail**: restoring a snapshot taken (by any worker) after `k` records and
replaying the tail equals replaying the whole log from scratch, for every `k`. -/
theorem snapshot_plus_tail (w by_ : String) (log : List Rec) (k : Nat) :
    (applyAll w (restore (applyAll by_ JState.init (log.take k))) (log.drop k)).spec =
      (applyAll w JState.init log).spec := by
  rw [(applyAll_pub w _ _).1, (applyAll_pub w _ _).1]
  show pubReplay (applyAll by_ JState.init (log.take k)).spec (log.drop k) = _
  rw [(applyAll_pub by_ _ _).1, ← pubReplay_append, List.take_append_drop]

/-- The snapshot also resumes at the right record. -/
theorem snapshot_cursor (by_ : String) (log : List Rec) (k : Nat) (hk : k ≤ log.length) :
    (restore (applyAll by_ JState.init (log.take k))).cursor = k := by
  show (applyAll by_ JState.init (log.take k)).cursor = k
  rw [(applyAll_pub by_ _ _).2]; simp [JState.init, hk]

/-! ## the replay refines the storage contract (so the journal backend inherits C01's theorems) -/

/-- the contract calls a log stands for, record by record (the `raised` flag of a `set_trial_param`
is what its issuer observed) -/
def opsOf : Spec → List Rec → List Op
  | _, [] => []
  | s, r :: rs => opOf r (rejects s r == some .valueError) :: opsOf (applySpec s r) rs

theorem jinv_replay (s : Spec) (rs : List Rec) (h : JInv s) : JInv (pubReplay s rs) := by
  induction rs generalizing s with
  | nil => exact h
  | cons r rs ih => exact ih _ (jinv_step s r h)

/-- **replay_refines_spec**: the public state after replaying any log is the state the contract model
reaches by the corresponding calls, and every record is rejected at its issuer with exactly the error
the contract gives that call. -/
theorem replay_refines_spec (s : Spec) (rs : List Rec) (h : JInv s) :
    pubReplay s rs = C01.after s (opsOf s rs) := by
  induction rs generalizing s with
  | nil => rfl
  | cons r rs ih =>
    have h1 := (apply_refines_step s r h).1
    show pubReplay (applySpec s r) rs = C01.after (Storage.step s _).1 (opsOf (applySpec s r) rs)
    rw [← h1]
    exact ih _ (jinv_step s r h)

theorem issuer_error_is_contract_error (rs : List Rec) (r : Rec) :
    let s := pubReplay Storage.init rs
    rejects s r = errOf (Storage.step s (opOf r (rejects s r == some .valueError))).2 :=
  (apply_refines_step _ r (jinv_replay _ rs jinv_init)).2

/-- corollary: on a journal, trial numbers are 0,1,2,… in creation order per study — whatever was
logged by whichever workers (C01's `numbers_dense`, transferred through the refinement). -/
theorem journal_numbers_dense (rs : List Rec) : C01.Numbered (pubReplay Storage.init rs) := by
  rw [replay_refines_spec _ rs jinv_init]
  exact C01.numbers_dense _

/-- corollary: a finished trial's record is the same after any further log suffix. -/
theorem journal_finished_frozen (rs more : List Rec) (tid : Nat) (t : TrialS)
    (h : (pubReplay Storage.init rs).trials[tid]? = some t) (hf : t.state.isFinished = true) :
    (pubReplay Storage.init (rs ++ more)).trials[tid]? = some t := by
  rw [pubReplay_append, replay_refines_spec _ more (jinv_replay _ rs jinv_init)]
  exact C01.finished_frozen _ _ tid t h hf

/-! ## non-vacuity -/

def demoLog : List Rec :=
  [ .createStudy "A" "s" [1], .createStudy "B" "s" [1],            -- B's duplicate is rejected at B only
    .createTrial "A" 0 none, .setTrialStateValues "B" 0 .complete (some [.fin 1]),
    .setTrialUserAttr "A" 0 "k" "v",                                -- finished: rejected at A only
    .createTrial "B" 7 none ]                                       -- unknown study: rejected at B only

example : (applyLogs "B" JState.init demoLog).2 = some .duplicated := by decide
example : (applyLogs "A" JState.init demoLog).2 = some .updateFinished := by decide
example : (applyLogs "C" JState.init demoLog).2 = none := by decide
example : (applyAll "A" JState.init demoLog).spec = (applyAll "B" JState.init demoLog).spec := by decide
example : (sync "B" (sync "B" JState.init demoLog 6).1 demoLog 6).1.cursor = 6 := by decide

end OptunaVerif.C06
