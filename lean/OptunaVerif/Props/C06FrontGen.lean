import OptunaVerif.Generated.JournalFront
import OptunaVerif.Generated.JournalHandlers
import OptunaVerif.Props.C06Gen
import OptunaVerif.Props.C03
/-!
# C06 (translator tie, front end) — a `JournalStorage` call IS the contract call

`Generated/JournalFront.lean` is regenerated on every run by `verif/translators/tjournalfront.py` from the
PUBLIC methods of `JournalStorage` (optuna/storages/journal/_storage.py): for every writer the statements
that build its record, the `JournalOperation` member, the step sequences before / inside / after
`with self._thread_lock:`; for every getter its sync + read; `__getstate__` / `__setstate__` /
`restore_replay_result` / `_write_log` / `_sync_with_backend` as tables.

Proved here (all workers, all replica states reachable by logs, any records of other workers in between):
* `front_builds` — the record a generated writer appends is the record of `Model/Journal.lean` for that call;
* `front_disciplined` — the replay result is touched only inside the lock, after write+sync / sync;
* `front_record_roundtrip` — that record, applied by the GENERATED handlers (`Generated/JournalHandlers`,
  `C06Gen.interpLogs_eq`), raises the contract's error at the caller and leaves the contract's state
  (composition of `C06Gen`, `C06.apply_refines_step` and `C03.JournalLin.journal_log_linearizes`);
* the return expressions: `front_create_new_trial_returns_own_id`, `front_claim_answer`,
  `front_unit_answers`, `front_create_new_study_returns_id_partial` (+ the witness of what is false);
* `front_getter_is_contract_read`; `pickle_regenerates_worker_id`; `restore_table`.
-/
set_option linter.unusedSimpArgs false
set_option linter.unusedVariables false
namespace OptunaVerif.C06FrontGen
open OptunaVerif OptunaVerif.Storage OptunaVerif.Journal OptunaVerif.JournalFrontIR
open OptunaVerif.Generated.JournalFront

abbrev opCodes := OptunaVerif.Generated.JournalHandlers.program.opCodes

/-- the record of `Model/Journal.lean` a mutating contract call stands for, issued by worker `w` -/
def recOf (w : String) : Op → Option Rec
  | .createStudy n d => some (.createStudy w n d)
  | .deleteStudy sid => some (.deleteStudy w sid)
  | .setStudyUserAttr sid k v => some (.setStudyUserAttr w sid k v)
  | .setStudySystemAttr sid k v => some (.setStudySystemAttr w sid k v)
  | .createTrial sid t _ => some (.createTrial w sid t)
  | .setTrialParam tid n p _ => some (.setTrialParam w tid n p)
  | .setTrialStateValues tid st vs => some (.setTrialStateValues w tid st vs)
  | .setTrialInter tid s v => some (.setTrialInter w tid s v)
  | .setTrialUserAttr tid k v => some (.setTrialUserAttr w tid k v)
  | .setTrialSystemAttr tid k v => some (.setTrialSystemAttr w tid k v)
  | _ => none

/-- what the callers of `create_new_trial` guarantee of a template (a `FrozenTrial`): `values` is not the
empty list (its `.value` would raise) and the parameter names are the keys of a dict -/
def frontOK : Op → Bool
  | .createTrial _ (some t) _ => t.values != some [] && decide ((t.params.map (·.1)).Nodup)
  | _ => true

/-- the record the GENERATED front end appends for the call `op` made by worker `w` -/
def frontRec (w : String) (op : Op) : Option Rec := frontRecOf program opCodes w op

theorem get?_map_dist (all : AList Param) (k : String) (p : Param)
    (hn : (all.map (·.1)).Nodup) (hm : (k, p) ∈ all) :
    AList.get? (all.map (fun q => (q.1, q.2.dist))) k = some p.dist := by
  induction all with
  | nil => simp at hm
  | cons a rest ih =>
    obtain ⟨k', p'⟩ := a
    simp only [List.map_cons, List.nodup_cons] at hn
    simp only [List.map_cons, AList.get?]
    rcases List.mem_cons.1 hm with h | h
    · cases h; simp
    · have hne : k' ≠ k := by
        intro he; subst he
        exact hn.1 (List.mem_map.2 ⟨(k', p), h, rfl⟩)
      simp only [hne, if_false]
      exact ih hn.2 h

theorem mapM_params (all ps : AList Param) (hn : (all.map (·.1)).Nodup) (hsub : ∀ q ∈ ps, q ∈ all) :
    (ps.map (fun p => (p.1, p.2.internal))).mapM
      (fun p => (AList.get? (all.map (fun q => (q.1, q.2.dist))) p.1).map (fun ds => (p.1, (⟨p.2, ds⟩ : Param)))) = some ps := by
  induction ps with
  | nil => rfl
  | cons a rest ih =>
    obtain ⟨k, p⟩ := a
    have h1 := get?_map_dist all k p hn (hsub _ (by simp))
    have h2 := ih (fun q hq => hsub q (by simp [hq]))
    simp only [List.map_cons, List.mapM_cons, h1, Option.map_some, h2]
    rfl


/-- the writer a mutating call goes to, as generated -/
def writerBody : Op → Option Method
  | .createStudy .. => some m_create_new_study | .deleteStudy .. => some m_delete_study
  | .setStudyUserAttr .. => some m_set_study_user_attr | .setStudySystemAttr .. => some m_set_study_system_attr
  | .createTrial .. => some m_create_new_trial | .setTrialParam .. => some m_set_trial_param
  | .setTrialStateValues .. => some m_set_trial_state_values | .setTrialInter .. => some m_set_trial_intermediate_value
  | .setTrialUserAttr .. => some m_set_trial_user_attr | .setTrialSystemAttr .. => some m_set_trial_system_attr
  | _ => none

/-- every mutating contract call reaches the generated method of its name -/
theorem select_writer (op : Op) : (writerOf op).bind program.method? = writerBody op := by
  cases op <;> rfl

/-- the `JournalOperation` member each writer passes to `_write_log` has the op code of the record type -/
theorem writer_codes :
    (m_create_new_study.member?.bind (JournalIR.lookup · opCodes)) = some 0 ∧
    (m_delete_study.member?.bind (JournalIR.lookup · opCodes)) = some 1 ∧
    (m_set_study_user_attr.member?.bind (JournalIR.lookup · opCodes)) = some 2 ∧
    (m_set_study_system_attr.member?.bind (JournalIR.lookup · opCodes)) = some 3 ∧
    (m_create_new_trial.member?.bind (JournalIR.lookup · opCodes)) = some 4 ∧
    (m_set_trial_param.member?.bind (JournalIR.lookup · opCodes)) = some 5 ∧
    (m_set_trial_state_values.member?.bind (JournalIR.lookup · opCodes)) = some 6 ∧
    (m_set_trial_intermediate_value.member?.bind (JournalIR.lookup · opCodes)) = some 7 ∧
    (m_set_trial_user_attr.member?.bind (JournalIR.lookup · opCodes)) = some 8 ∧
    (m_set_trial_system_attr.member?.bind (JournalIR.lookup · opCodes)) = some 9 := by
  decide

theorem frontRec_eq (w : String) (op : Op) :
    frontRec w op = (writerBody op).bind (fun m => buildRec opCodes m w op) := by
  unfold frontRec frontRecOf; rw [select_writer]

theorem buildRec_eq (m : Method) (w : String) (op : Op) (code : Nat)
    (hc : (m.member?.bind (JournalIR.lookup · opCodes)) = some code) :
    buildRec opCodes m w op = (runFs op m.log []).bind (decodeRec code w) := by
  unfold buildRec
  cases hm : m.member? with
  | none => simp [hm] at hc
  | some mem =>
    simp only [hm, Option.bind] at hc
    simp only [hc]
    cases runFs op m.log [] <;> rfl

macro "front_simp" "[" ts:Lean.Parser.Tactic.simpLemma,* "]" : tactic =>
  `(tactic| simp [recOf, writerBody, runFs, runF, evalField, evalFCond, aSid?, aTid?, aTmpl?, aState?,
      decodeRec, decodeTemplate, gNat, gStr, AList.set, AList.get?, $ts,*])

theorem front_builds (w : String) (op : Op) (hok : frontOK op = true) : frontRec w op = recOf w op := by
  rw [frontRec_eq]
  obtain ⟨c0, c1, c2, c3, c4, c5, c6, c7, c8, c9⟩ := writer_codes
  cases op with
  | createTrial sid tmpl r =>
    cases tmpl with
    | none => (simp only [writerBody, Option.bind]; rw [buildRec_eq _ w _ 4 c4]; front_simp [m_create_new_trial])
    | some t =>
      simp only [frontOK, Bool.and_eq_true, bne_iff_ne, ne_eq, decide_eq_true_eq] at hok
      obtain ⟨hv, hn⟩ := hok
      have hp := mapM_params t.params t.params hn (fun q hq => hq)
      simp only [writerBody, Option.bind]; rw [buildRec_eq _ w _ 4 c4]
      obtain ⟨st, values, params, ua, sa, inter, hs, hc⟩ := t
      simp only at hp hv
      cases hs <;> cases hc <;> (
        cases values with
        | none => front_simp [m_create_new_trial, hp]
        | some l =>
          cases l with
          | nil => exact absurd rfl hv
          | cons v l2 =>
            cases l2 with
            | nil => front_simp [m_create_new_trial, hp]
            | cons v2 l3 => front_simp [m_create_new_trial, hp])
  | setTrialStateValues tid st vs => cases st <;> (simp only [writerBody, Option.bind]; rw [buildRec_eq _ w _ 6 c6]; front_simp [m_set_trial_state_values, TState.isFinished, JournalIR.tstate_beq])
  | createStudy n d => (simp only [writerBody, Option.bind]; rw [buildRec_eq _ w _ 0 c0]; front_simp [m_create_new_study])
  | deleteStudy sid => (simp only [writerBody, Option.bind]; rw [buildRec_eq _ w _ 1 c1]; front_simp [m_delete_study])
  | setStudyUserAttr sid k v => (simp only [writerBody, Option.bind]; rw [buildRec_eq _ w _ 2 c2]; front_simp [m_set_study_user_attr])
  | setStudySystemAttr sid k v => (simp only [writerBody, Option.bind]; rw [buildRec_eq _ w _ 3 c3]; front_simp [m_set_study_system_attr])
  | setTrialParam tid n p r => (simp only [writerBody, Option.bind]; rw [buildRec_eq _ w _ 5 c5]; front_simp [m_set_trial_param])
  | setTrialInter tid s v => (simp only [writerBody, Option.bind]; rw [buildRec_eq _ w _ 7 c7]; front_simp [m_set_trial_intermediate_value])
  | setTrialUserAttr tid k v => (simp only [writerBody, Option.bind]; rw [buildRec_eq _ w _ 8 c8]; front_simp [m_set_trial_user_attr])
  | setTrialSystemAttr tid k v => (simp only [writerBody, Option.bind]; rw [buildRec_eq _ w _ 9 c9]; front_simp [m_set_trial_system_attr])
  | _ => rfl


abbrev handlers := OptunaVerif.Generated.JournalHandlers.program

/-- **front_disciplined**: every public method of `JournalStorage` touches `self._replay_result` (reads, the
snapshot, the sync itself) only while it holds `_thread_lock`; a writer does so only after
`_write_log` + `_sync_with_backend`, a getter only after `_sync_with_backend`; nothing is read before or
after the `with` block. -/
theorem front_disciplined : ∀ m ∈ program.methods, m.disciplined = true := by decide

/-- `_write_log` stamps the record with the op code and with THIS thread's worker id; `_sync_with_backend`
reads from the replica's cursor and applies what it read -/
theorem write_sync_tables :
    program.writeLogKeys = [("op_code", "op_code"), ("worker_id", "self._replay_result.worker_id")] ∧
    program.syncCalls = ["self._backend.read_logs(self._replay_result.log_number_read)",
      "self._replay_result.apply_logs(logs)"] := by decide

/-- the contract call a record stands for is the call it was built from (up to the flag by which the
contract model is told whether the implementation answered `ValueError`: U1) -/
def withRaised : Op → Bool → Op
  | .createTrial sid t _, _ => .createTrial sid t false
  | .setTrialParam tid n p _, b => .setTrialParam tid n p b
  | op, _ => op

theorem opOf_recOf (w : String) (op : Op) (r : Rec) (b : Bool) (h : recOf w op = some r) :
    opOf r b = withRaised op b := by
  cases op <;> simp [recOf] at h <;> subst h <;> rfl

theorem recOf_worker (w : String) (op : Op) (r : Rec) (h : recOf w op = some r) : r.worker = w := by
  cases op <;> simp [recOf] at h <;> subst h <;> rfl

/-- one call of a writer of the GENERATED front end by worker `w` whose replica is `st` (synced to the log
prefix before its record), with other workers' records `post` landing between its append and its
read: the replica after its sync (GENERATED handlers), the error raised, the value returned -/
def frontCall (w : String) (st : JState) (op : Op) (post : List Rec) : Option (JState × Option Err × Out) :=
  match (writerOf op).bind program.method?, frontRec w op with
  | some m, some r =>
    let res := JournalIR.interpLogs handlers w st (r :: post)
    some (res.1, res.2, m.answer w res.1 op)
  | _, _ => none

/-- **front_record_roundtrip**: a `JournalStorage` call IS the contract call.  For every mutating call of the
storage contract, made by any worker on a replica holding any state reachable by logs, whatever records
other workers append between its append and its read: the record the generated front end builds, applied
by the generated handlers, raises at the caller exactly the contract's error, and if it raises nothing
the replica ends at the contract's state after that call followed by the other workers' records, with
the cursor past everything read. -/
theorem front_record_roundtrip (w : String) (st : JState) (op : Op) (post : List Rec)
    (hm : (writerOf op).isSome = true) (hok : frontOK op = true)
    (hpost : ∀ x ∈ post, (x.worker == w) = false) (hJ : JInv st.spec) :
    ∃ r st' err ans, recOf w op = some r ∧ frontCall w st op post = some (st', err, ans) ∧
      let cop := withRaised op (rejects st.spec r == some .valueError)
      err = errOf (Storage.step st.spec cop).2 ∧
      (err = none →
        st'.spec = C06.pubReplay (Storage.step st.spec cop).1 post ∧
        st'.cursor = st.cursor + 1 + post.length) := by
  have hb := front_builds w op hok
  have hsel := select_writer op
  cases hr : recOf w op with
  | none => cases op <;> simp [recOf] at hr <;> simp [writerOf] at hm
  | some r =>
    cases hmb : writerBody op with
    | none => cases op <;> simp [writerBody] at hmb <;> simp [recOf] at hr
    | some m =>
      rw [hr] at hb
      have hw := recOf_worker w op r hr
      have hlin := C03.JournalLin.journal_log_linearizes w st r post hpost
      have hsp := apply_spec w { st with cursor := st.cursor + 1 } r
      have href := apply_refines_step st.spec r hJ
      rw [opOf_recOf w op r _ hr] at href
      refine ⟨r, (JournalIR.interpLogs handlers w st (r :: post)).1, (JournalIR.interpLogs handlers w st (r :: post)).2,
        m.answer w (JournalIR.interpLogs handlers w st (r :: post)).1 op, rfl, ?_, ?_⟩
      · simp only [frontCall, hsel, hmb, hb]
      · simp only [C06Gen.interpLogs_eq]
        have herr : (applyLogs w st (r :: post)).2 = rejects st.spec r := by
          rw [hlin.1, hsp.2]; simp [hw]
        refine ⟨by rw [herr]; exact href.2, ?_⟩
        intro hnone
        have hacc : (Journal.apply w { st with cursor := st.cursor + 1 } r).2 = none := by
          rw [← hlin.1]; exact hnone
        obtain ⟨_, _, hs⟩ := hlin.2 hacc
        refine ⟨by rw [hs, hsp.1]; exact congrArg (fun s => C06.pubReplay s post) href.1, ?_⟩
        obtain ⟨n, hn, hc, _, hfull, _⟩ := C06.applyLogs_prefix w st (r :: post)
        rw [hc, hfull hnone]; simp; omega


/-- what `frontCall` computes, spelled out -/
theorem frontCall_eq (w : String) (st : JState) (op : Op) (post : List Rec) (m : Method) (r : Rec)
    (hm : writerBody op = some m) (hr : recOf w op = some r) (hok : frontOK op = true) :
    frontCall w st op post =
      some ((applyLogs w st (r :: post)).1, (applyLogs w st (r :: post)).2, m.answer w (applyLogs w st (r :: post)).1 op) := by
  have hb := front_builds w op hok
  rw [hr] at hb
  simp only [frontCall, select_writer, hm, hb, C06Gen.interpLogs_eq]

theorem get?_erase (l : AList Nat) (k : String) : (Journal.erase l k).get? k = none := by
  induction l with
  | nil => rfl
  | cons a t ih =>
    obtain ⟨k', v⟩ := a
    by_cases h : k' = k
    · subst h; simpa [Journal.erase, List.filter] using ih
    · have : (k' != k) = true := by simpa using h
      simp only [Journal.erase, List.filter, this, AList.get?, h, if_false]
      exact ih

/-- **front_create_new_trial_returns_own_id**: `create_new_trial` returns the id ITS OWN record created —
`_last_created_trial_id_by_this_process` read inside the lock after the sync — even when other workers'
`CREATE_TRIAL` records sit in the same batch; it is the id the contract gives that call. -/
theorem front_create_new_trial_returns_own_id (w : String) (st : JState) (sid : Nat) (tmpl : Option Template) (b : Bool)
    (post : List Rec) (hok : frontOK (.createTrial sid tmpl b) = true)
    (hpost : ∀ x ∈ post, (x.worker == w) = false) (st' : JState) (ans : Out)
    (h : frontCall w st (.createTrial sid tmpl b) post = some (st', none, ans)) :
    ans = .newId st.spec.trials.length ∧ ans = (Storage.step st.spec (.createTrial sid tmpl false)).2 ∧
      st'.lastCreated = some st.spec.trials.length := by
  rw [frontCall_eq w st _ post m_create_new_trial (.createTrial w sid tmpl) rfl rfl hok] at h
  simp only [Option.some.injEq, Prod.mk.injEq] at h
  obtain ⟨h1, h2, h3⟩ := h
  have hlin := C03.JournalLin.journal_log_linearizes w st (.createTrial w sid tmpl) post hpost
  rw [h2] at hlin
  have hacc := hlin.1.symm
  obtain ⟨_, hlc, _⟩ := hlin.2 hacc
  -- the handler, at the issuer
  have key : (st.spec.study? sid).isSome = true ∧
      (Journal.apply w { st with cursor := st.cursor + 1 } (.createTrial w sid tmpl)).1.lastCreated = some st.spec.trials.length := by
    cases hs : st.spec.study? sid with
    | none => simp [Journal.apply, reject, Rec.worker, hs] at hacc
    | some x => simp [Journal.apply, Rec.worker, hs]
  have hl : st'.lastCreated = some st.spec.trials.length := by rw [← h1, hlc]; exact key.2
  have ha : ans = .newId st.spec.trials.length := by
    rw [← h3, h1]
    simp [Method.answer, m_create_new_trial, readOut, hl]
  refine ⟨ha, ?_, hl⟩
  rw [ha]
  cases hs : st.spec.study? sid with
  | none => simp [hs] at key
  | some x => simp [Storage.step, hs]

/-- **front_claim_answer**: `set_trial_state_values` answers `True` iff this record made the transition
(`owned_trial_id == trial_id` read inside the lock after the sync): it is the contract's answer. -/
theorem front_claim_answer (w : String) (st : JState) (tid : Nat) (state : TState) (values : Option (List XVal))
    (post : List Rec) (hpost : ∀ x ∈ post, (x.worker == w) = false) (st' : JState) (ans : Out)
    (h : frontCall w st (.setTrialStateValues tid state values) post = some (st', none, ans)) :
    ans = (Storage.step st.spec (.setTrialStateValues tid state values)).2 := by
  rw [frontCall_eq w st _ post m_set_trial_state_values (.setTrialStateValues w tid state values) rfl rfl rfl] at h
  simp only [Option.some.injEq, Prod.mk.injEq] at h
  obtain ⟨h1, h2, h3⟩ := h
  have hlin := C03.JournalLin.journal_log_linearizes w st (.setTrialStateValues w tid state values) post hpost
  rw [h2] at hlin
  have hacc := hlin.1.symm
  obtain ⟨how, _, _⟩ := hlin.2 hacc
  rw [h1] at how
  have ha : ans = .bool (claimAnswer w st' tid state) := by
    rw [← h3, h1]; simp [Method.answer, m_set_trial_state_values, readOut]
  rw [ha]
  cases hu : st.spec.writable tid with
  | error e => simp [Journal.apply, reject, Rec.worker, updatable, hu] at hacc
  | ok t =>
    have hnf : t.state.isFinished = false := by
      unfold Spec.writable at hu
      split at hu
      · cases hu
      · split at hu
        · cases hu
        · rename_i hh; cases hu; simpa using hh
    cases state <;> cases hts : t.state <;> simp [hts, TState.isFinished] at hnf <;>
      simp [Journal.apply, Rec.worker, updatable, hu, hts, get?_erase, AList.get?_set_same, JournalIR.tstate_beq] at how <;>
      simp [Storage.step, hu, hts, claimAnswer, how, JournalIR.tstate_beq]


/-- calls whose method returns `None` -/
def unitCall : Op → Bool
  | .deleteStudy .. | .setStudyUserAttr .. | .setStudySystemAttr .. | .setTrialParam .. | .setTrialInter ..
  | .setTrialUserAttr .. | .setTrialSystemAttr .. => true
  | _ => false

theorem step_unit_or_err (s : Spec) (op : Op) (hu : unitCall op = true) :
    (Storage.step s op).2 = .unit ∨ ∃ e, (Storage.step s op).2 = .err e := by
  cases op <;> simp [unitCall] at hu <;> simp only [Storage.step] <;> (repeat' split) <;> simp

/-- **front_unit_answers**: the writers that return `None` return it exactly when the contract's call
succeeds (they raise the contract's error otherwise: `front_record_roundtrip`). -/
theorem front_unit_answers (w : String) (st : JState) (op : Op) (post : List Rec) (hu : unitCall op = true)
    (hpost : ∀ x ∈ post, (x.worker == w) = false) (hJ : JInv st.spec) (st' : JState) (ans : Out)
    (h : frontCall w st op post = some (st', none, ans)) :
    ans = .unit ∧ (Storage.step st.spec (withRaised op false)).2 = .unit := by
  have hok : frontOK op = true := by cases op <;> first | rfl | simp [unitCall] at hu
  have hm : (writerOf op).isSome = true := by cases op <;> first | rfl | simp [unitCall] at hu
  obtain ⟨r, st2, err, ans2, hr, hc, herr, _⟩ := front_record_roundtrip w st op post hm hok hpost hJ
  rw [hc] at h
  simp only [Option.some.injEq, Prod.mk.injEq] at h
  obtain ⟨_, he, ha⟩ := h
  subst he
  have hrej : rejects st.spec r = none := by
    have := (apply_refines_step st.spec r hJ).2
    rw [opOf_recOf w op r _ hr] at this
    rw [this]; exact herr.symm
  simp only [hrej] at herr
  have hflag : ((none : Option Err) == some Err.valueError) = false := rfl
  rw [hflag] at herr
  constructor
  · rw [← ha]
    obtain ⟨m, hmb⟩ : ∃ m, writerBody op = some m := by cases op <;> first | exact ⟨_, rfl⟩ | simp [unitCall] at hu
    have := frontCall_eq w st op post m r hmb hr hok
    rw [hc] at this
    simp only [Option.some.injEq, Prod.mk.injEq] at this
    rw [this.2.2]
    cases op <;> simp [unitCall] at hu <;> simp [writerBody] at hmb <;> subst hmb <;> rfl
  · have hsh := step_unit_or_err st.spec (withRaised op false) (by cases op <;> first | rfl | simp [unitCall] at hu)
    rcases hsh with h1 | ⟨e, h1⟩
    · exact h1
    · rw [h1] at herr; simp [errOf] at herr

theorem findIdx_append_last {α : Type} (p : α → Bool) (l : List α) (a : α) (i : Nat)
    (hl : ∀ x ∈ l, p x = false) (ha : p a = true) : findIdx p (l ++ [a]) i = some (i + l.length) := by
  induction l generalizing i with
  | nil => simp [findIdx, ha]
  | cons x t ih =>
    simp only [List.cons_append, findIdx, hl x (by simp), Bool.false_eq_true, if_false, List.length_cons]
    rw [ih (i + 1) (fun y hy => hl y (by simp [hy]))]; congr 1; omega

/-- **front_create_new_study_returns_id_partial**: with nothing appended by others between the append
and the read, `create_new_study` returns the id the contract gives.  (PARTIAL: with records of other
workers in between the statement needs "none of them deletes the new study" — see
`front_create_new_study_deleted_in_between_witness`; the general form under that hypothesis is not proved.) -/
theorem front_create_new_study_returns_id_partial (w : String) (st : JState) (name : String) (dirs : List Nat)
    (st' : JState) (ans : Out)
    (h : frontCall w st (.createStudy name dirs) [] = some (st', none, ans)) :
    ans = .newId st.spec.studies.length ∧ ans = (Storage.step st.spec (.createStudy name dirs)).2 := by
  rw [frontCall_eq w st _ [] m_create_new_study (.createStudy w name dirs) rfl rfl rfl] at h
  simp only [Option.some.injEq, Prod.mk.injEq] at h
  obtain ⟨h1, h2, h3⟩ := h
  cases hn : st.spec.nameTaken name with
  | true => simp [applyLogs, Journal.apply, reject, Rec.worker, hn] at h2
  | false =>
    have hst : st'.spec.studies = st.spec.studies ++ [some (StudyS.mk name dirs [] [] [])] := by
      rw [← h1]; simp [applyLogs, Journal.apply, Rec.worker, hn]
    have ha : ans = .newId st.spec.studies.length := by
      rw [← h3, h1]
      have hall : ∀ x ∈ st.spec.studies, (match x with | some s => s.name == name | none => false) = false := by
        intro x hx
        unfold Spec.nameTaken at hn
        have := (List.any_eq_false.1 hn) x hx
        cases x with
        | none => rfl
        | some s => simpa using this
      have hgen : ∀ p : Option StudyS → Bool, (∀ o, p o = (match o with | some s => s.name == name | none => false)) →
          findIdx p (st.spec.studies ++ [some (StudyS.mk name dirs [] [] [])]) 0 = some st.spec.studies.length := by
        intro p hp
        have := findIdx_append_last p st.spec.studies (some (StudyS.mk name dirs [] [] [])) 0
          (fun x hx => by rw [hp]; exact hall x hx) (by rw [hp]; simp)
        simpa using this
      simp only [Method.answer, m_create_new_study, readOut, Storage.step, hst]
      rw [hgen _ (fun o => by cases o <;> rfl)]
      simp
    exact ⟨ha, by rw [ha]; simp [Storage.step, hn]⟩

/-- what is NOT true of today's code: if another worker's `DELETE_STUDY` of the id being handed out lands
between the append and the read of `create_new_study`, the search by name finds nothing and the method
runs into `assert False, "Should not reach."` (here the marker `runtimeError`), although its record was
accepted by every replica. -/
theorem front_create_new_study_deleted_in_between_witness :
    frontCall "A" JState.init (.createStudy "s" [1]) [.deleteStudy "B" 0] =
      some ((applyLogs "A" JState.init [.createStudy "A" "s" [1], .deleteStudy "B" 0]).1, none, .err .runtimeError) := by
  rw [frontCall_eq "A" JState.init _ _ m_create_new_study (.createStudy "A" "s" [1]) rfl rfl rfl]
  decide


/-! ## getters -/

def getterBody : Op → Option Method
  | .getStudyIdFromName .. => some m_get_study_id_from_name | .getStudyNameFromId .. => some m_get_study_name_from_id
  | .getStudyDirections .. => some m_get_study_directions | .getStudyUserAttrs .. => some m_get_study_user_attrs
  | .getStudySystemAttrs .. => some m_get_study_system_attrs | .getAllStudies => some m_get_all_studies
  | .getTrialIdFromNumber .. => some m_get_trial_id_from_study_id_trial_number | .getTrial .. => some m_get_trial
  | .getAllTrials .. => some m_get_all_trials
  | _ => none

theorem select_getter (op : Op) : (getterOf op).bind program.method? = getterBody op := by
  cases op <;> rfl

/-- **front_getter_is_contract_read**: each getter of `JournalStorage` syncs first and then answers what the
contract's getter answers on the public state of the replica (same `KeyError` conditions, in source order),
and changes nothing. -/
theorem front_getter_is_contract_read (w : String) (st : JState) (op : Op) (m : Method) (h : getterBody op = some m) :
    m.locked.head? = some .sync ∧ m.answer w st op = (Storage.step st.spec op).2 ∧ (Storage.step st.spec op).1 = st.spec := by
  cases op <;> simp [getterBody] at h <;> subst h <;>
    refine ⟨rfl, ?_, ?_⟩ <;>
    simp [Method.answer, readOut, readOut.aSidG, Storage.step, m_get_study_id_from_name, m_get_study_name_from_id,
      m_get_study_directions, m_get_study_user_attrs, m_get_study_system_attrs, m_get_all_studies,
      m_get_trial_id_from_study_id_trial_number, m_get_trial, m_get_all_trials] <;>
    (repeat' split) <;> simp_all


/-! ## pickling and snapshots -/

/-- **pickle_regenerates_worker_id**: `__getstate__` drops the worker id prefix (with the replay result and
the lock) and `__setstate__` draws a FRESH prefix before it rebuilds the replay result from it — an
unpickled storage never speaks under the id of the object it was copied from (so "issued by this
worker" stays a per-object notion: the hypothesis `hpost` of the theorems above). -/
theorem pickle_regenerates_worker_id :
    "_worker_id_prefix" ∈ program.getstateDrops ∧ "_replay_result" ∈ program.getstateDrops ∧
    "_thread_lock" ∈ program.getstateDrops ∧
    program.setstateSets = [("_worker_id_prefix", "str(uuid.uuid4()) + '-'"),
      ("_replay_result", "JournalStorageReplayResult(self._worker_id_prefix)"), ("_thread_lock", "threading.Lock()")] := by
  decide

/-- **restore_table**: `restore_replay_result` adopts a snapshot by overwriting exactly the worker-local
fields — the prefix becomes this object's, the owned-trial map is emptied, the last created id reset —
which is `Journal.restore` (`owned := []`, `lastCreated := none`; `C06.snapshot_plus_tail`). -/
theorem restore_table :
    program.restoreSets = [("r._worker_id_prefix", "self._worker_id_prefix"), ("r._worker_id_to_owned_trial_id", "{}"),
      ("r._last_created_trial_id_by_this_process", "-1"), ("self._replay_result", "r")] := by
  decide
example (snap : JState) : (restore snap).owned = [] ∧ (restore snap).lastCreated = none ∧ (restore snap).spec = snap.spec :=
  ⟨rfl, rfl, rfl⟩

/-- why `front_disciplined` matters for `create_new_trial`: two threads of one process share the replay result;
once thread A has left the lock, thread B's own `CREATE_TRIAL` sync overwrites
`_last_created_trial_id_by_this_process` — a read outside the lock returns B's id to A. -/
theorem late_read_returns_other_threads_id_witness :
    let stA := (applyLogs "p-A" JState.init [.createStudy "p-A" "s" [1], .createTrial "p-A" 0 none]).1
    let stB := (applyLogs "p-B" stA [.createTrial "p-B" 0 none]).1
    stA.lastCreated = some 0 ∧ stB.lastCreated = some 1 := by decide

/-! ## non-vacuity -/

def demoTmpl : Template :=
  { state := .waiting, values := none, params := [("x", ⟨"1/2", ⟨0, false, "F"⟩⟩), ("y", ⟨"3", ⟨1, false, "I"⟩⟩)],
    userAttrs := [("u", "1")], systemAttrs := [], inter := [(0, .fin 1)], hasStart := false, hasComplete := false }

example : frontOK (.createTrial 0 (some demoTmpl) false) = true := by decide
example : frontRec "A" (.createTrial 0 (some demoTmpl) false) = some (.createTrial "A" 0 (some demoTmpl)) := by
  rw [front_builds _ _ (by decide)]; rfl
example : frontRec "A" (.createTrial 0 (some { demoTmpl with values := some [] }) false) = none := by
  rw [frontRec_eq]; decide
example : frontRec "A" (.setTrialStateValues 3 .complete (some [.fin 2])) =
    some (.setTrialStateValues "A" 3 .complete (some [.fin 2])) := by rw [front_builds _ _ rfl]; rfl
example : frontRec "A" (.getTrial 3) = none := by rw [front_builds _ _ rfl]; rfl
/-- two workers: A creates a study and a trial while B's `CREATE_TRIAL` lands in A's batch; A is answered its own id 0 -/
example : frontCall "A" (applyAll "A" JState.init [.createStudy "A" "s" [1]]) (.createTrial 0 none false)
    [.createTrial "B" 0 none] =
    some ((applyLogs "A" (applyAll "A" JState.init [.createStudy "A" "s" [1]]) [.createTrial "A" 0 none, .createTrial "B" 0 none]).1,
      none, .newId 0) := by
  rw [frontCall_eq "A" _ _ _ m_create_new_trial (.createTrial "A" 0 none) rfl rfl rfl]; decide
/-- a claim of a trial that B has just claimed is answered False, B's is answered True -/
example : (frontCall "A" (applyAll "A" JState.init [.createStudy "B" "s" [1], .createTrial "B" 0 (some demoTmpl),
      .setTrialStateValues "B" 0 .running none]) (.setTrialStateValues 0 .running none) []).map (·.2.2) = some (.bool false) := by
  rw [frontCall_eq "A" _ _ _ m_set_trial_state_values (.setTrialStateValues "A" 0 .running none) rfl rfl rfl]; decide
example : (frontCall "B" (applyAll "B" JState.init [.createStudy "B" "s" [1], .createTrial "B" 0 (some demoTmpl)])
      (.setTrialStateValues 0 .running none) []).map (·.2.2) = some (.bool true) := by
  rw [frontCall_eq "B" _ _ _ m_set_trial_state_values (.setTrialStateValues "B" 0 .running none) rfl rfl rfl]; decide
example : JInv (JState.init).spec := jinv_init
example : getterBody (.getAllTrials 0 none) = some m_get_all_trials := rfl

end OptunaVerif.C06FrontGen

