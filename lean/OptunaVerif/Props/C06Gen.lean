import OptunaVerif.Generated.JournalHandlers
import OptunaVerif.Lemmas.JournalIR
import OptunaVerif.Props.C06
/-!
# C06 (translator tie) — the journal handlers *as written in the source today* are the hand model

`Generated/JournalHandlers.lean` is regenerated on every run by `verif/translators/tjournal.py` from
`optuna/storages/journal/_storage.py`: every `_apply_*` method of `JournalStorageReplayResult`, the
helpers `_study_exists` / `_trial_exists_and_updatable`, the dispatch chain of `apply_logs` and the
`JournalOperation` codes, as data of the statement language of `Model/JournalIR.lean`.

Proved here, for **all** replica states, records and workers (no bound, no sampling):
* per op code, the interpreter of the generated handler equals the corresponding branch of the
  hand-written `Journal.apply` (`interp_*`);
* the generated dispatch selects, for every record, the handler of its op code (`dispatch_table`,
  `select_handler`), hence `interpLog program = Journal.apply`, `interpLogs program = Journal.applyLogs`
  (cursor advanced before the record, abort at the first error), `interpAll program = Journal.applyAll`;
* therefore every theorem of `Props/C06.lean` holds of the interpreter of the generated handlers
  (`gen_*`).

A source change that alters a guard, its order, which worker raises, what is written before a raise,
the owned-trial bookkeeping, the cursor … changes the generated data and one of the `interp_*`
equalities no longer type-checks.
-/
set_option linter.unusedSimpArgs false
namespace OptunaVerif.C06Gen
open OptunaVerif OptunaVerif.Storage OptunaVerif.Journal OptunaVerif.JournalIR
open OptunaVerif.Generated.JournalHandlers


/-! ## one equality per op code -/

/-- `_apply_create_study` as written today is the `createStudy` branch of the hand model. -/
theorem interp_createStudy (w : String) (st : JState) (w' name : String) (dirs : List Nat) :
    interp applyCreateStudy w st (.createStudy w' name dirs) = Journal.apply w st (.createStudy w' name dirs) := by
  cases hw : (w' == w) <;> cases hn : st.spec.nameTaken name <;>
    simp [interp, applyCreateStudy, block, exec, doAct, evalCond, Env.init, finish, keyErr, bad, setSpec, owe,
      recStudyId?, recTrialId?, recNewStudy?, recAttr?, recTmpl?, recParam?, recState?, recValues?, recInter?,
      Journal.apply, reject, Rec.worker, updatable, Spec.writable, tstate_beq,
      isFinished_running, isFinished_complete, isFinished_pruned, isFinished_fail, isFinished_waiting, hw, hn, updAt_concat_length]
example : (interp applyCreateStudy "A" JState.init (.createStudy "A" "s" [1])).1.spec.studies.length = 1 ∧
    (interp applyCreateStudy "B" (interp applyCreateStudy "A" JState.init (.createStudy "A" "s" [1])).1
      (.createStudy "B" "s" [2])).2 = some .duplicated := by decide

/-- `_apply_delete_study` as written today is the `deleteStudy` branch of the hand model. -/
theorem interp_deleteStudy (w : String) (st : JState) (w' : String) (sid : Nat) :
    interp applyDeleteStudy w st (.deleteStudy w' sid) = Journal.apply w st (.deleteStudy w' sid) := by
  cases hw : (w' == w) <;> cases h : st.spec.study? sid <;>
    simp [interp, applyDeleteStudy, studyExists, block, exec, doAct, evalCond, Env.init, finish, keyErr, bad, setSpec, owe,
      recStudyId?, recTrialId?, recNewStudy?, recAttr?, recTmpl?, recParam?, recState?, recValues?, recInter?,
      Journal.apply, reject, Rec.worker, updatable, Spec.writable, tstate_beq,
      isFinished_running, isFinished_complete, isFinished_pruned, isFinished_fail, isFinished_waiting, hw, h]
example : (interp applyDeleteStudy "A" JState.init (.deleteStudy "A" 0)).2 = some .keyError ∧
    (interp applyDeleteStudy "B" JState.init (.deleteStudy "A" 0)).2 = none := by decide

/-- `_apply_set_study_user_attr` as written today is the `setStudyUserAttr` branch of the hand model. -/
theorem interp_setStudyUserAttr (w : String) (st : JState) (w' : String) (sid : Nat) (k v : String) :
    interp applySetStudyUserAttr w st (.setStudyUserAttr w' sid k v) = Journal.apply w st (.setStudyUserAttr w' sid k v) := by
  cases hw : (w' == w) <;> cases h : st.spec.study? sid <;>
    simp [interp, applySetStudyUserAttr, studyExists, block, exec, doAct, evalCond, Env.init, finish, keyErr, bad, setSpec, owe,
      recStudyId?, recTrialId?, recNewStudy?, recAttr?, recTmpl?, recParam?, recState?, recValues?, recInter?,
      Journal.apply, reject, Rec.worker, updatable, Spec.writable, tstate_beq,
      isFinished_running, isFinished_complete, isFinished_pruned, isFinished_fail, isFinished_waiting, hw, h]

/-- `_apply_set_study_system_attr` as written today is the `setStudySystemAttr` branch of the hand model. -/
theorem interp_setStudySystemAttr (w : String) (st : JState) (w' : String) (sid : Nat) (k v : String) :
    interp applySetStudySystemAttr w st (.setStudySystemAttr w' sid k v) = Journal.apply w st (.setStudySystemAttr w' sid k v) := by
  cases hw : (w' == w) <;> cases h : st.spec.study? sid <;>
    simp [interp, applySetStudySystemAttr, studyExists, block, exec, doAct, evalCond, Env.init, finish, keyErr, bad, setSpec, owe,
      recStudyId?, recTrialId?, recNewStudy?, recAttr?, recTmpl?, recParam?, recState?, recValues?, recInter?,
      Journal.apply, reject, Rec.worker, updatable, Spec.writable, tstate_beq,
      isFinished_running, isFinished_complete, isFinished_pruned, isFinished_fail, isFinished_waiting, hw, h]

/-- `_apply_create_trial` as written today is the `createTrial` branch of the hand model. -/
theorem interp_createTrial (w : String) (st : JState) (w' : String) (sid : Nat) (tmpl : Option Template) :
    interp applyCreateTrial w st (.createTrial w' sid tmpl) = Journal.apply w st (.createTrial w' sid tmpl) := by
  cases hw : (w' == w) <;> cases h : st.spec.study? sid <;>
    simp [interp, applyCreateTrial, studyExists, block, exec, doAct, evalCond, Env.init, finish, keyErr, bad, setSpec, owe,
      recStudyId?, recTrialId?, recNewStudy?, recAttr?, recTmpl?, recParam?, recState?, recValues?, recInter?,
      Journal.apply, reject, Rec.worker, updatable, Spec.writable, tstate_beq,
      isFinished_running, isFinished_complete, isFinished_pruned, isFinished_fail, isFinished_waiting, hw, h, buildTrial_all]
  have hst : (mkTrial sid (st.spec.trialsOf sid).length tmpl).study = sid := by cases tmpl <;> rfl
  have ht := trial?_concat st.spec (mkTrial sid (st.spec.trialsOf sid).length tmpl) (by rw [hst, h]; rfl)
  simp only [ht]
  cases hs : ((mkTrial sid (st.spec.trialsOf sid).length tmpl).state == TState.running) <;> simp_all
example : (interp applyCreateTrial "A" (interp applyCreateStudy "A" JState.init (.createStudy "A" "s" [1])).1
    (.createTrial "A" 0 none)).1.owned = [("A", 0)] := by decide

/-- `_apply_set_trial_param` as written today is the `setTrialParam` branch of the hand model. -/
theorem interp_setTrialParam (w : String) (st : JState) (w' : String) (tid : Nat) (name : String) (p : Param) :
    interp applySetTrialParam w st (.setTrialParam w' tid name p) = Journal.apply w st (.setTrialParam w' tid name p) := by
  cases hw : (w' == w) <;> cases h : st.spec.trial? tid with
  | none => simp [interp, applySetTrialParam, trialExistsAndUpdatable, block, exec, doAct, evalCond, Env.init, finish, keyErr, bad, setSpec, owe,
      recStudyId?, recTrialId?, recNewStudy?, recAttr?, recTmpl?, recParam?, recState?, recValues?, recInter?,
      Journal.apply, reject, Rec.worker, updatable, Spec.writable, tstate_beq,
      isFinished_running, isFinished_complete, isFinished_pruned, isFinished_fail, isFinished_waiting, hw, h]
  | some t =>
    have h' := trial?_some h
    cases hf : t.state.isFinished with
    | true => simp [interp, applySetTrialParam, trialExistsAndUpdatable, block, exec, doAct, evalCond, Env.init, finish, keyErr, bad, setSpec, owe,
      recStudyId?, recTrialId?, recNewStudy?, recAttr?, recTmpl?, recParam?, recState?, recValues?, recInter?,
      Journal.apply, reject, Rec.worker, updatable, Spec.writable, tstate_beq,
      isFinished_running, isFinished_complete, isFinished_pruned, isFinished_fail, isFinished_waiting, hw, h, hf]
    | false =>
      cases hd : firstDistOf st.spec t.study name with
      | none =>
        simp [interp, applySetTrialParam, trialExistsAndUpdatable, block, exec, doAct, evalCond, Env.init, finish, keyErr, bad, setSpec, owe,
      recStudyId?, recTrialId?, recNewStudy?, recAttr?, recTmpl?, recParam?, recState?, recValues?, recInter?,
      Journal.apply, reject, Rec.worker, updatable, Spec.writable, tstate_beq,
      isFinished_running, isFinished_complete, isFinished_pruned, isFinished_fail, isFinished_waiting, hw, h, h', hf, hd, setParam,
          ← updTrial_const st.spec tid t _ h]
      | some d0 =>
        cases hc : d0.compat p.dist <;>
        simp [interp, applySetTrialParam, trialExistsAndUpdatable, block, exec, doAct, evalCond, Env.init, finish, keyErr, bad, setSpec, owe,
      recStudyId?, recTrialId?, recNewStudy?, recAttr?, recTmpl?, recParam?, recState?, recValues?, recInter?,
      Journal.apply, reject, Rec.worker, updatable, Spec.writable, tstate_beq,
      isFinished_running, isFinished_complete, isFinished_pruned, isFinished_fail, isFinished_waiting, hw, h, h', hf, hd, hc, setParam,
          ← updTrial_const st.spec tid t _ h]

/-- `_apply_set_trial_state_values` as written today is the `setTrialStateValues` branch of the hand model. -/
theorem interp_setTrialStateValues (w : String) (st : JState) (w' : String) (tid : Nat) (state : TState)
    (values : Option (List XVal)) :
    interp applySetTrialStateValues w st (.setTrialStateValues w' tid state values) =
      Journal.apply w st (.setTrialStateValues w' tid state values) := by
  cases hw : (w' == w) <;> cases h : st.spec.trial? tid with
  | none => simp [interp, applySetTrialStateValues, trialExistsAndUpdatable, block, exec, doAct, evalCond, Env.init, finish, keyErr, bad, setSpec, owe,
      recStudyId?, recTrialId?, recNewStudy?, recAttr?, recTmpl?, recParam?, recState?, recValues?, recInter?,
      Journal.apply, reject, Rec.worker, updatable, Spec.writable, tstate_beq,
      isFinished_running, isFinished_complete, isFinished_pruned, isFinished_fail, isFinished_waiting, hw, h]
  | some t =>
    cases hf : t.state.isFinished with
    | true => simp [interp, applySetTrialStateValues, trialExistsAndUpdatable, block, exec, doAct, evalCond, Env.init, finish, keyErr, bad, setSpec, owe,
      recStudyId?, recTrialId?, recNewStudy?, recAttr?, recTmpl?, recParam?, recState?, recValues?, recInter?,
      Journal.apply, reject, Rec.worker, updatable, Spec.writable, tstate_beq,
      isFinished_running, isFinished_complete, isFinished_pruned, isFinished_fail, isFinished_waiting, hw, h, hf]
    | false =>
      cases state <;> cases hts : t.state <;> cases values <;>
        simp [interp, applySetTrialStateValues, trialExistsAndUpdatable, block, exec, doAct, evalCond, Env.init, finish, keyErr, bad, setSpec, owe,
      recStudyId?, recTrialId?, recNewStudy?, recAttr?, recTmpl?, recParam?, recState?, recValues?, recInter?,
      Journal.apply, reject, Rec.worker, updatable, Spec.writable, tstate_beq,
      isFinished_running, isFinished_complete, isFinished_pruned, isFinished_fail, isFinished_waiting, hw, h, hf, hts,
          ← updTrial_const st.spec tid t _ h]

/-- `_apply_set_trial_intermediate_value` as written today is the `setTrialInter` branch of the hand model. -/
theorem interp_setTrialInter (w : String) (st : JState) (w' : String) (tid : Nat) (stp : Int) (v : XVal) :
    interp applySetTrialIntermediateValue w st (.setTrialInter w' tid stp v) = Journal.apply w st (.setTrialInter w' tid stp v) := by
  cases hw : (w' == w) <;> cases h : st.spec.trial? tid with
  | none => simp [interp, applySetTrialIntermediateValue, trialExistsAndUpdatable, block, exec, doAct, evalCond, Env.init, finish, keyErr, bad, setSpec, owe,
      recStudyId?, recTrialId?, recNewStudy?, recAttr?, recTmpl?, recParam?, recState?, recValues?, recInter?,
      Journal.apply, reject, Rec.worker, updatable, Spec.writable, tstate_beq,
      isFinished_running, isFinished_complete, isFinished_pruned, isFinished_fail, isFinished_waiting, hw, h]
  | some t =>
    cases hf : t.state.isFinished <;>
    simp [interp, applySetTrialIntermediateValue, trialExistsAndUpdatable, block, exec, doAct, evalCond, Env.init, finish, keyErr, bad, setSpec, owe,
      recStudyId?, recTrialId?, recNewStudy?, recAttr?, recTmpl?, recParam?, recState?, recValues?, recInter?,
      Journal.apply, reject, Rec.worker, updatable, Spec.writable, tstate_beq,
      isFinished_running, isFinished_complete, isFinished_pruned, isFinished_fail, isFinished_waiting, hw, h, hf, ← updTrial_const st.spec tid t _ h]

/-- `_apply_set_trial_user_attr` as written today is the `setTrialUserAttr` branch of the hand model. -/
theorem interp_setTrialUserAttr (w : String) (st : JState) (w' : String) (tid : Nat) (k v : String) :
    interp applySetTrialUserAttr w st (.setTrialUserAttr w' tid k v) = Journal.apply w st (.setTrialUserAttr w' tid k v) := by
  cases hw : (w' == w) <;> cases h : st.spec.trial? tid with
  | none => simp [interp, applySetTrialUserAttr, trialExistsAndUpdatable, block, exec, doAct, evalCond, Env.init, finish, keyErr, bad, setSpec, owe,
      recStudyId?, recTrialId?, recNewStudy?, recAttr?, recTmpl?, recParam?, recState?, recValues?, recInter?,
      Journal.apply, reject, Rec.worker, updatable, Spec.writable, tstate_beq,
      isFinished_running, isFinished_complete, isFinished_pruned, isFinished_fail, isFinished_waiting, hw, h]
  | some t =>
    cases hf : t.state.isFinished <;>
    simp [interp, applySetTrialUserAttr, trialExistsAndUpdatable, block, exec, doAct, evalCond, Env.init, finish, keyErr, bad, setSpec, owe,
      recStudyId?, recTrialId?, recNewStudy?, recAttr?, recTmpl?, recParam?, recState?, recValues?, recInter?,
      Journal.apply, reject, Rec.worker, updatable, Spec.writable, tstate_beq,
      isFinished_running, isFinished_complete, isFinished_pruned, isFinished_fail, isFinished_waiting, hw, h, hf, ← updTrial_const st.spec tid t _ h]

/-- `_apply_set_trial_system_attr` as written today is the `setTrialSystemAttr` branch of the hand model. -/
theorem interp_setTrialSystemAttr (w : String) (st : JState) (w' : String) (tid : Nat) (k v : String) :
    interp applySetTrialSystemAttr w st (.setTrialSystemAttr w' tid k v) = Journal.apply w st (.setTrialSystemAttr w' tid k v) := by
  cases hw : (w' == w) <;> cases h : st.spec.trial? tid with
  | none => simp [interp, applySetTrialSystemAttr, trialExistsAndUpdatable, block, exec, doAct, evalCond, Env.init, finish, keyErr, bad, setSpec, owe,
      recStudyId?, recTrialId?, recNewStudy?, recAttr?, recTmpl?, recParam?, recState?, recValues?, recInter?,
      Journal.apply, reject, Rec.worker, updatable, Spec.writable, tstate_beq,
      isFinished_running, isFinished_complete, isFinished_pruned, isFinished_fail, isFinished_waiting, hw, h]
  | some t =>
    cases hf : t.state.isFinished <;>
    simp [interp, applySetTrialSystemAttr, trialExistsAndUpdatable, block, exec, doAct, evalCond, Env.init, finish, keyErr, bad, setSpec, owe,
      recStudyId?, recTrialId?, recNewStudy?, recAttr?, recTmpl?, recParam?, recState?, recValues?, recInter?,
      Journal.apply, reject, Rec.worker, updatable, Spec.writable, tstate_beq,
      isFinished_running, isFinished_complete, isFinished_pruned, isFinished_fail, isFinished_waiting, hw, h, hf, ← updTrial_const st.spec tid t _ h]

/-! ## the dispatch of `apply_logs` -/

/-- the handler the hand model uses for a record (by constructor) -/
def handlerOf : Rec → Stmt
  | .createStudy .. => applyCreateStudy
  | .deleteStudy .. => applyDeleteStudy
  | .setStudyUserAttr .. => applySetStudyUserAttr
  | .setStudySystemAttr .. => applySetStudySystemAttr
  | .createTrial .. => applyCreateTrial
  | .setTrialParam .. => applySetTrialParam
  | .setTrialStateValues .. => applySetTrialStateValues
  | .setTrialInter .. => applySetTrialIntermediateValue
  | .setTrialUserAttr .. => applySetTrialUserAttr
  | .setTrialSystemAttr .. => applySetTrialSystemAttr

/-- **dispatch_table**: `JournalOperation` numbers its members the way the record type (and the
driver's record parser) does, `apply_logs` tests them in this order and calls these methods, and it
advances `log_number_read` before it dispatches. -/
theorem dispatch_table :
    program.opCodes = [("CREATE_STUDY", 0), ("DELETE_STUDY", 1), ("SET_STUDY_USER_ATTR", 2),
      ("SET_STUDY_SYSTEM_ATTR", 3), ("CREATE_TRIAL", 4), ("SET_TRIAL_PARAM", 5), ("SET_TRIAL_STATE_VALUES", 6),
      ("SET_TRIAL_INTERMEDIATE_VALUE", 7), ("SET_TRIAL_USER_ATTR", 8), ("SET_TRIAL_SYSTEM_ATTR", 9)] ∧
    program.dispatch = [("CREATE_STUDY", "_apply_create_study"), ("DELETE_STUDY", "_apply_delete_study"),
      ("SET_STUDY_USER_ATTR", "_apply_set_study_user_attr"), ("SET_STUDY_SYSTEM_ATTR", "_apply_set_study_system_attr"),
      ("CREATE_TRIAL", "_apply_create_trial"), ("SET_TRIAL_PARAM", "_apply_set_trial_param"),
      ("SET_TRIAL_STATE_VALUES", "_apply_set_trial_state_values"),
      ("SET_TRIAL_INTERMEDIATE_VALUE", "_apply_set_trial_intermediate_value"),
      ("SET_TRIAL_USER_ATTR", "_apply_set_trial_user_attr"), ("SET_TRIAL_SYSTEM_ATTR", "_apply_set_trial_system_attr")] ∧
    program.cursorFirst = true := by
  refine ⟨?_, ?_, ?_⟩ <;> decide

/-- for every record, the if-chain of `apply_logs` reaches the handler of the record's op code
(first matching arm; enum values looked up in `JournalOperation`) -/
theorem select_handler (r : Rec) : program.select (recOpCode r) = some (handlerOf r) := by
  cases r <;> rfl

/-- **interpLog_eq**: one iteration of the loop body of `apply_logs` (after the cursor update), as
generated from the source, is `Journal.apply` — for every worker, state and record. -/
theorem interpLog_eq (w : String) (st : JState) (r : Rec) :
    interpLog program w st r = Journal.apply w st r := by
  unfold interpLog
  rw [select_handler]
  cases r with
  | createStudy w' name dirs => exact interp_createStudy w st w' name dirs
  | deleteStudy w' sid => exact interp_deleteStudy w st w' sid
  | setStudyUserAttr w' sid k v => exact interp_setStudyUserAttr w st w' sid k v
  | setStudySystemAttr w' sid k v => exact interp_setStudySystemAttr w st w' sid k v
  | createTrial w' sid tmpl => exact interp_createTrial w st w' sid tmpl
  | setTrialParam w' tid name p => exact interp_setTrialParam w st w' tid name p
  | setTrialStateValues w' tid state values => exact interp_setTrialStateValues w st w' tid state values
  | setTrialInter w' tid stp v => exact interp_setTrialInter w st w' tid stp v
  | setTrialUserAttr w' tid k v => exact interp_setTrialUserAttr w st w' tid k v
  | setTrialSystemAttr w' tid k v => exact interp_setTrialSystemAttr w st w' tid k v

/-- **interpLogs_eq**: `apply_logs` as generated (cursor first, abort at the first exception) is
`Journal.applyLogs`. -/
theorem interpLogs_eq (w : String) (st : JState) (rs : List Rec) :
    interpLogs program w st rs = Journal.applyLogs w st rs := by
  induction rs generalizing st with
  | nil => rfl
  | cons r rs ih =>
    have hc : program.cursorFirst = true := dispatch_table.2.2
    simp only [interpLogs, applyLogs, hc, if_true, bump, interpLog_eq]
    split <;> simp_all

theorem interpAll_eq (w : String) (st : JState) (rs : List Rec) :
    interpAll program w st rs = Journal.applyAll w st rs := by
  simp only [interpAll, applyAll, bump, interpLog_eq]

/-- `_sync_with_backend` over the generated `apply_logs` is `Journal.sync` -/
theorem syncLogs_eq (w : String) (st : JState) (log : List Rec) (upto : Nat) :
    syncLogs program w st log upto = Journal.sync w st log upto := by
  simp only [syncLogs, sync, interpLogs_eq]

/-- the generated handlers never leave the replica representation: the marker `unrepresentable`
(unpaid id-map maintenance, an unbound local, an id stored out of range) is never the answer -/
theorem gen_representable (w : String) (st : JState) (r : Rec) :
    (interpLog program w st r).2 ≠ some unrepresentable := by
  rw [interpLog_eq, (apply_spec w st r).2]
  have hu : ∀ (s : Spec) (tid : Nat) (e : Err), updatable s tid = .error e → e ≠ .runtimeError := by
    intro s tid e h
    unfold updatable Spec.writable at h
    split at h
    · cases h; simp
    · split at h
      · cases h; simp
      · cases h
  split
  · cases r <;> simp only [rejects] <;> (repeat' split) <;> simp_all [unrepresentable] <;>
      (first | exact hu _ _ _ ‹_› | skip)
  · simp

/-! ## the theorems of C06 hold of the generated handlers -/

/-- **gen_issuer_independent**: whichever worker runs the generated handlers over a log, from
whatever local bookkeeping, it derives the same studies and trials. -/
theorem gen_issuer_independent (w w' : String) (st st' : JState) (rs : List Rec) (h : st.spec = st'.spec) :
    (interpAll program w st rs).spec = (interpAll program w' st' rs).spec := by
  rw [interpAll_eq, interpAll_eq]; exact C06.issuer_independent w w' st st' rs h
example : (JState.init).spec = (restore (interpAll program "A" JState.init [])).spec := by decide

/-- **gen_replay_is_fold**: any split of a log into batches gives the same replica. -/
theorem gen_replay_is_fold (w : String) (st : JState) (l₁ l₂ : List Rec) :
    interpAll program w st (l₁ ++ l₂) = interpAll program w (interpAll program w st l₁) l₂ := by
  simp only [interpAll_eq]; exact C06.replay_is_fold w st l₁ l₂

/-- **gen_rejected_changes_nothing**: the generated handler raises only at the issuer of the record,
and a record it rejects changes no worker's public state. -/
theorem gen_rejected_changes_nothing (w : String) (st : JState) (r : Rec) (e : Err)
    (h : (interpLog program w st r).2 = some e) :
    r.worker = w ∧ (interpLog program w st r).1.spec = st.spec ∧
      ∀ w' (st' : JState), st'.spec = st.spec → (interpLog program w' st' r).1.spec = st'.spec := by
  simp only [interpLog_eq] at h ⊢
  exact C06.rejected_changes_nothing w st r e h
example : (interpLog program "B" (interpAll program "B" JState.init (C06.demoLog.take 1)) (C06.demoLog.getD 1 default)).2 =
    some .duplicated := by decide

/-- **gen_sync_keeps_synced** (resume after error): a sync over the generated `apply_logs` — ended
normally or aborted by an error for one of this worker's own records — leaves the replica holding
exactly the replay of the prefix it has read. -/
theorem gen_sync_keeps_synced (w : String) (log : List Rec) (upto : Nat) (st : JState)
    (h : C06.Synced log st) : C06.Synced log (syncLogs program w st log upto).1 := by
  rw [syncLogs_eq]; exact C06.sync_keeps_synced w log upto st h
example : C06.Synced C06.demoLog JState.init := C06.init_synced _

/-- **gen_snapshot_plus_tail**: restoring a snapshot taken by any worker after `k` records and running
the generated handlers over the tail equals running them over the whole log. -/
theorem gen_snapshot_plus_tail (w by_ : String) (log : List Rec) (k : Nat) :
    (interpAll program w (restore (interpAll program by_ JState.init (log.take k))) (log.drop k)).spec =
      (interpAll program w JState.init log).spec := by
  simp only [interpAll_eq]; exact C06.snapshot_plus_tail w by_ log k

/-- **gen_replay_refines_spec**: the public state the generated handlers derive from any log is the
state the storage contract reaches by the calls the records stand for. -/
theorem gen_replay_refines_spec (w : String) (st : JState) (rs : List Rec) (h : JInv st.spec) :
    (interpAll program w st rs).spec = C01.after st.spec (C06.opsOf st.spec rs) := by
  rw [interpAll_eq, (C06.applyAll_pub w st rs).1]
  exact C06.replay_refines_spec st.spec rs h
example : JInv (JState.init).spec := jinv_init

/-- and the error the generated handler raises at the issuer is the contract's error for that call -/
theorem gen_issuer_error_is_contract_error (rs : List Rec) (r : Rec) :
    let st := interpAll program r.worker JState.init rs
    (interpLog program r.worker st r).2 =
      errOf (Storage.step st.spec (opOf r ((interpLog program r.worker st r).2 == some .valueError))).2 := by
  intro st
  have hs : st.spec = C06.pubReplay Storage.init rs := by
    show (interpAll program r.worker JState.init rs).spec = _
    rw [interpAll_eq, (C06.applyAll_pub _ _ _).1]; rfl
  rw [interpLog_eq, (apply_spec r.worker st r).2]
  simp only [beq_self_eq_true, if_true, hs]
  exact C06.issuer_error_is_contract_error rs r

/-! ## non-vacuity: the generated handlers run, reject at the issuer only, and own trials -/

example : (interpLogs program "B" JState.init C06.demoLog).2 = some .duplicated := by decide
example : (interpLogs program "A" JState.init C06.demoLog).2 = some .updateFinished := by decide
example : (interpLogs program "C" JState.init C06.demoLog).2 = none := by decide
example : (interpLogs program "C" JState.init C06.demoLog).1.cursor = 6 := by decide
example : (interpAll program "A" JState.init C06.demoLog).spec.trials.length = 1 := by decide
example : (interpAll program "A" JState.init C06.demoLog).owned = [("A", 0)] := by decide
example : (interpAll program "A" JState.init C06.demoLog).lastCreated = some 0 := by decide
example : (interpAll program "B" JState.init C06.demoLog).owned = [] := by decide
/-- a log with every op code (template trial, parameter conflict rejected at its issuer, claim of a
RUNNING trial answered False, deletion) -/
def demoAll : List Rec :=
  [ .createStudy "A" "s" [1], .setStudyUserAttr "A" 0 "k" "1", .setStudySystemAttr "B" 0 "k" "2",
    .createTrial "A" 0 none,
    .createTrial "B" 0 (some ⟨.waiting, none, [("x", ⟨"1/2", ⟨0, false, "d"⟩⟩)], [], [], [], false, false⟩),
    .setTrialParam "A" 0 "x" ⟨"1", ⟨1, false, "e"⟩⟩,            -- incompatible with trial 1's "x": rejected at A
    .setTrialParam "A" 0 "y" ⟨"1", ⟨1, false, "e"⟩⟩,
    .setTrialStateValues "B" 1 .running none, .setTrialStateValues "A" 1 .running none,  -- A's claim fails
    .setTrialInter "A" 0 3 (.fin 1), .setTrialUserAttr "A" 0 "u" "1", .setTrialSystemAttr "A" 0 "s" "1",
    .setTrialStateValues "A" 0 .complete (some [.fin 2]),
    .deleteStudy "B" 0, .setTrialUserAttr "A" 0 "u" "2" ]                                -- trial is gone: KeyError at A
example : C06.demoLog.map recOpCode = [0, 0, 4, 6, 8, 4] ∧
    demoAll.map recOpCode = [0, 2, 3, 4, 4, 5, 5, 6, 6, 7, 8, 9, 6, 1, 8] := by decide
example : (interpLogs program "A" JState.init demoAll).2 = some .valueError := by decide
example : (interpLogs program "A" JState.init demoAll).1.cursor = 6 := by decide
set_option maxRecDepth 20000 in
example : (interpAll program "A" JState.init demoAll).owned = [] ∧
    (interpAll program "B" JState.init demoAll).owned = [("B", 1)] := by decide
set_option maxRecDepth 20000 in
example : (interpAll program "A" JState.init demoAll).spec = (interpAll program "B" JState.init demoAll).spec := by
  decide
set_option maxRecDepth 20000 in
example : (interpLog program "A" (interpAll program "A" JState.init (demoAll.take 14)) (demoAll.getD 14 default)).2 =
    some .keyError := by decide

end OptunaVerif.C06Gen
