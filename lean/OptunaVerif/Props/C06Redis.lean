import OptunaVerif.Lemmas.JournalRedis
import OptunaVerif.Props.C06
/-!
# C06 / C03 / C01 — the Redis journal backend is one totally ordered, gap-checked log

Theorems about `Model/JournalRedis.lean` (small-step model of `JournalRedisBackend`: every Redis command is one
atomic step of one worker), for **every** number of workers, every interleaving, every crash point and both
`use_cluster` modes.  A state is *reachable* when it is `run cfg (init n) evs` for some event list.

"Acknowledged" is taken at its strongest: a record counts as acknowledged from the moment its `SET` / `EVAL`
has been executed (the call returns right after its last command), and a read "begins" with its first command
(the `GET` of the counter) — so everything acknowledged before the *call* began is covered a fortiori.
-/
namespace OptunaVerif.C06Redis
open OptunaVerif OptunaVerif.JournalRedis

variable {ρ : Type}

/-! ## the key space -/

/-- **redis_log_total_order**: in every reachable state (1) the counter is ≥ -1, (2) no log key exists outside
`0..counter`, (3) in non-cluster mode every key `0..counter` is present — there is never a gap —, (4) in
cluster mode every absent key within `0..counter` is the pending `SET` of exactly one worker (who took that
number with `INCR`); and in every later state (5) the counter has not gone back and (6) a key that held a
record still holds that same record. -/
theorem redis_log_total_order (cfg : Cfg) (n : Nat) (evs more : List (Ev ρ)) :
    let st := run cfg (init n) evs
    let st' := run cfg st more
    (∀ c, st.db.counter = some c → -1 ≤ c) ∧
    (∀ k r, st.db.log k = some r → ∃ c, st.db.counter = some c ∧ 0 ≤ k ∧ k ≤ c) ∧
    (cfg.cluster = false → ∀ c, st.db.counter = some c → ∀ k, 0 ≤ k → k ≤ c → ∃ r, st.db.log k = some r) ∧
    (∀ c k, st.db.counter = some c → 0 ≤ k → k ≤ c → st.db.log k = none →
        ∃ w d r rest, pcOf st w = some (.appSet d k r rest) ∧
          ∀ w' d' r' rest', pcOf st w' = some (.appSet d' k r' rest') → w' = w) ∧
    (∀ c, st.db.counter = some c → ∃ c', st'.db.counter = some c' ∧ c ≤ c') ∧
    (∀ k r, st.db.log k = some r → st'.db.log k = some r) := by
  intro st st'
  have hinv : Inv cfg st := inv_reachable cfg n evs
  have hext : Ext st.db st'.db := ext_run cfg st more hinv
  refine ⟨hinv.cnt, hinv.range, ?_, ?_, hext.cnt, hext.log⟩
  · intro hcl c hc k h0 hle
    cases hk : st.db.log k with
    | some r => exact ⟨r, rfl⟩
    | none =>
      obtain ⟨w, d, r, rest, hw⟩ := hinv.owner c k hc h0 hle hk
      have := (hinv.loc w _ hw).1
      rw [hcl] at this; cases this
  · intro c k hc h0 hle hk
    obtain ⟨w, d, r, rest, hw⟩ := hinv.owner c k hc h0 hle hk
    exact ⟨w, d, r, rest, hw, fun w' d' r' rest' hw' => hinv.uniq _ _ _ _ _ _ _ _ _ hw' hw⟩

/-- non-vacuity: cluster mode, three workers; worker 0 has taken number 0 and not yet SET it, worker 1 has
appended record 11 as number 1: a gap with its one owner, keys within range -/
example :
    let st := (run { cluster := true } (init 3)
      [.call 0 (.append [10]), .step 0, .step 0, .call 1 (.append [11]), .step 1, .step 1, .step 1] : St Nat)
    st.db.counter = some 1 ∧ st.db.log 0 = none ∧ st.db.log 1 = some 11 ∧
      pcOf st 0 = some (.appSet [] 0 10 []) := by decide

/-- **redis_number_handed_out_once**: the number `INCR` (or the script) is about to return is fresh: its key is
absent and no worker has a `SET` pending for it — so two records can never meet in one key. -/
theorem redis_number_handed_out_once (cfg : Cfg) (n : Nat) (evs : List (Ev ρ)) (c : Int) :
    let st := run cfg (init n) evs
    st.db.counter = some c →
      st.db.log (c + 1) = none ∧ ∀ v d r rest, pcOf st v ≠ some (.appSet d (c + 1) r rest) := by
  intro st hc
  have hinv : Inv cfg st := inv_reachable cfg n evs
  refine ⟨hinv.fresh c hc, ?_⟩
  intro v d r rest hv
  obtain ⟨_, ⟨c', hc', _, hle⟩, _, _⟩ := hinv.loc v _ hv
  rw [hc] at hc'; cases hc'; omega

example : (run { cluster := true } (init 2) [.call 0 (.append [10]), .step 0, .step 0] : St Nat).db.counter = some 0 := by
  decide

/-! ## readers -/

/-- **redis_read_is_prefix_slice**: let worker `w` be about to issue the first command of `read_logs(k)` in the
reachable state `s₀`; let the call return `l` (at the `step w` after any events `mid` in which `w` starts no other
call).  Then there is `m` (the counter value the reader fetched) such that `m ≥` the counter of `s₀` — hence `m`
covers every record acknowledged before the read began, see `redis_append_ack_durable` — and `l` is exactly the
records `k..m` in order: `|l| = m + 1 - k` and `l[i]` is the value of key `k+i` in the store (whole records: a
Redis value is stored whole). -/
theorem redis_read_is_prefix_slice (cfg : Cfg) (n : Nat) (pre mid : List (Ev ρ)) (w k : Nat) (l : List ρ) :
    let s₀ := run cfg (init n) pre
    let fin := step cfg (run cfg s₀ mid) (.step w)
    pcOf s₀ w = some (.rdCounter k) → NoCall w mid → fin.2.ret = some (.read l) →
    ∃ m : Int, (∀ c, s₀.db.counter = some c → c ≤ m) ∧ l.length = (m + 1 - k).toNat ∧
      ∀ i (h : i < l.length), fin.1.db.log ((k : Int) + (i : Nat)) = some l[i] := by
  intro s₀ fin hpc hnc hret
  exact reader_returns_slice cfg s₀.db w k mid s₀ (inv_reachable cfg n pre) (Ext.refl _) hpc hnc l hret

/-- the schedule of `clusterSlowWriter`: the reader meets the gap of a slow writer, polls, and returns both
records in order once the slow writer has SET its own -/
example :
    let pre : List (Ev Nat) := [.call 0 (.append [10]), .step 0, .step 0, .call 1 (.append [11]), .step 1, .step 1, .step 1,
                                .call 2 (.read 0)]
    let mid : List (Ev Nat) := [.step 2, .step 2, .step 2, .step 0, .step 2]
    pcOf (run { cluster := true } (init 3) pre) 2 = some (.rdCounter 0) ∧
      (step { cluster := true } (run { cluster := true } (run { cluster := true } (init 3) pre) mid) (.step 2)).2.ret
        = some (.read [10, 11]) := by decide

/-- **redis_append_ack_durable**: a record that is in the store under number `a` when a `read_logs(k)` with
`k ≤ a` issues its first command is returned by that read, at position `a - k`. -/
theorem redis_append_ack_durable (cfg : Cfg) (n : Nat) (pre mid : List (Ev ρ)) (w k : Nat) (l : List ρ) (a : Int) (r : ρ) :
    let s₀ := run cfg (init n) pre
    let fin := step cfg (run cfg s₀ mid) (.step w)
    pcOf s₀ w = some (.rdCounter k) → NoCall w mid → fin.2.ret = some (.read l) →
    s₀.db.log a = some r → (k : Int) ≤ a → l[(a - k).toNat]? = some r := by
  intro s₀ fin hpc hnc hret ha hka
  have hinv := inv_reachable cfg n pre
  obtain ⟨m, hcov, hlen, hsl⟩ := reader_returns_slice cfg s₀.db w k mid s₀ hinv (Ext.refl _) hpc hnc l hret
  obtain ⟨c, hc, h0, hle⟩ := hinv.range a r ha
  have hm := hcov c hc
  have hi : (a - k).toNat < l.length := by omega
  have h1 := hsl (a - k).toNat hi
  have hfin : fin.1 = run cfg s₀ (mid ++ [.step w]) := by
    show (step cfg (run cfg s₀ mid) (.step w)).1 = _
    rw [run_append]; rfl
  have h2 : fin.1.db.log a = some r := by
    rw [hfin]; exact (ext_run cfg s₀ _ hinv).log a r ha
  have e : (k : Int) + ((a - k).toNat : Nat) = a := by omega
  rw [e, h2] at h1
  rw [List.getElem?_eq_getElem hi]
  exact h1.symm

/-- **redis_append_returns_stored_in_order**: an `append_logs(recs)` that returns has stored every record of
`recs`, in the order given, under strictly increasing numbers (so a later complete read returns them, by
`redis_append_ack_durable`, in that order). -/
theorem redis_append_returns_stored_in_order (cfg : Cfg) (n : Nat) (pre mid : List (Ev ρ)) (w : Nat) (recs : List ρ)
    (d : List (Int × ρ)) :
    let s₀ := run cfg (init n) pre
    let fin := step cfg (run cfg s₀ mid) (.step w)
    pcOf s₀ w = some (.appSetnx recs) → NoCall w mid → fin.2.ret = some (.appended d) →
    d.map Prod.snd = recs ∧ d.Pairwise (fun x y => x.1 < y.1) ∧ ∀ p ∈ d, fin.1.db.log p.1 = some p.2 := by
  intro s₀ fin hpc hnc hret
  exact writer_returns_stored cfg w recs mid s₀ (inv_reachable cfg n pre) hpc hnc d hret

/-- two writers interleaved in non-cluster mode: worker 0's records 10, 12 get the numbers 0 and 2 -/
example :
    let pre : List (Ev Nat) := [.call 0 (.append [10, 12]), .call 1 (.append [11])]
    let mid : List (Ev Nat) := [.step 0, .step 0, .step 1, .step 1]
    pcOf (run { cluster := false } (init 2) pre) 0 = some (.appSetnx [10, 12]) ∧
      (step { cluster := false } (run { cluster := false } (run { cluster := false } (init 2) pre) mid) (.step 0)).2.ret
        = some (.appended [(0, 10), (2, 12)]) := by decide

/-- **cluster_gap_reader_waits** (one poll): a reader whose next key is absent neither skips it nor returns: its
program counter, its partial result and the store are unchanged by the poll (which may repeat without bound). -/
theorem cluster_gap_reader_waits (cfg : Cfg) (st : St ρ) (w : Nat) (wk : Worker ρ) (k : Nat) (cur mx : Int) (acc : List ρ)
    (hw : st.ws[w]? = some wk) (hl : wk.dead = false) (hpc : wk.pc = .rdGet k cur mx acc) (hgap : st.db.log cur = none) :
    (step cfg st (.step w)).2 = ⟨.getLog cur none, none⟩ ∧ (step cfg st (.step w)).1.db.log = st.db.log ∧
      pcOf (step cfg st (.step w)).1 w = some (.rdGet k cur mx acc) := by
  rw [step_step_live cfg st w wk hw hl, hpc]
  simp [stepW, hgap, pcOf, updAt_getElem?, hw]

/-- **noncluster_read_wait_free**: in non-cluster mode a reader never meets an absent key: every `GET` of its loop
hits, so `read_logs(k)` finishes after exactly `m - k + 2` commands whatever the others do. -/
theorem noncluster_read_wait_free (n : Nat) (evs : List (Ev ρ)) (w k : Nat) (cur mx : Int) (acc : List ρ) :
    let st := run { cluster := false } (init n) evs
    pcOf st w = some (.rdGet k cur mx acc) → ∃ r, st.db.log cur = some r := by
  intro st hpc
  have hinv : Inv { cluster := false } st := inv_reachable _ n evs
  obtain ⟨h1, h2, ⟨c, hc, hle⟩, _, _⟩ := hinv.loc w _ hpc
  cases hk : st.db.log cur with
  | some r => exact ⟨r, rfl⟩
  | none =>
    obtain ⟨v, d, r, rest, hv⟩ := hinv.owner c cur hc (by omega) (by omega) hk
    have := (hinv.loc v _ hv).1
    cases this

example : pcOf (run { cluster := false } (init 2)
    [.call 0 (.append [10]), .step 0, .step 0, .call 1 (.read 0), .step 1] : St Nat) 1 = some (.rdGet 0 0 0 []) := by decide

/-! ## the liveness finding of cluster mode -/

/-- **cluster_crash_gap_blocks_readers**: in a reachable state let worker `v` be dead between its `INCR` (which
returned `g`) and its `SET`.  Then key `g` stays absent for ever, and no `read_logs(k)` with `k ≤ g` that issues
its first command from now on ever returns — whatever the other workers do, however long it polls. -/
theorem cluster_crash_gap_blocks_readers (cfg : Cfg) (n : Nat) (pre mid : List (Ev ρ)) (v : Nat) (wk : Worker ρ)
    (d : List (Int × ρ)) (g : Int) (r : ρ) (rest : List ρ) (w k : Nat) (l : List ρ) :
    let s₀ := run cfg (init n) pre
    s₀.ws[v]? = some wk → wk.dead = true → wk.pc = .appSet d g r rest →
    (∀ more, (run cfg s₀ more).db.log g = none) ∧
    (pcOf s₀ w = some (.rdCounter k) → (k : Int) ≤ g → NoCall w mid →
      (step cfg (run cfg s₀ mid) (.step w)).2.ret ≠ some (.read l)) := by
  intro s₀ hv hd hpc
  have hinv := inv_reachable cfg n pre
  have hgap := dead_gap_never_filled cfg s₀ hinv v wk hv hd d g r rest hpc
  refine ⟨hgap, ?_⟩
  intro hw hkg hnc hret
  obtain ⟨m, hcov, hlen, hsl⟩ := reader_returns_slice cfg s₀.db w k mid s₀ hinv (Ext.refl _) hw hnc l hret
  have hp := hinv.loc v wk.pc (pcOf_eq hv)
  rw [hpc] at hp
  obtain ⟨_, ⟨c, hc, h0, hle⟩, _, _⟩ := hp
  have hm := hcov c hc
  have hi : (g - k).toNat < l.length := by omega
  have h1 := hsl (g - k).toNat hi
  have e : (k : Int) + ((g - k).toNat : Nat) = g := by omega
  have h2 : (step cfg (run cfg s₀ mid) (.step w)).1.db.log g = none := by
    have := hgap (mid ++ [.step w])
    rw [run_append] at this; exact this
  rw [e, h2] at h1
  cases h1

/-- **cluster_crash_gap_blocks_readers_witness** (what `use_cluster=True` costs today): three workers; writer 0 dies
between `INCR` and `SET`; writer 1 then appends record 11 and IS acknowledged (number 1); reader 2 asks for the whole
log, learns the counter 1 and polls key 0: after 6 polls it is still there, nothing was returned to it, the
acknowledged record 11 is in the store but unreachable through `read_logs(0)` — and (second part) whatever happens
after reader 2 has entered `read_logs(0)` (any events of any workers, any number of polls), the call never returns. -/
theorem cluster_crash_gap_blocks_readers_witness :
    (pcOf (clusterCrashGap 6).final 2 = some (.rdGet 0 0 1 []) ∧
      (clusterCrashGap 6).final.db.log 0 = none ∧ (clusterCrashGap 6).final.db.log 1 = some 11 ∧
      (clusterCrashGap 6).obs.map (·.ret) =
        [none, none, none, none, none, none, none, some (.appended [(1, 11)]), none, none, none, none, none, none, none, none]) ∧
    (∀ (mid : List (Ev Nat)) (l : List Nat), NoCall 2 mid →
        (step { cluster := true } (run { cluster := true } (run { cluster := true } (init 3) clusterCrashGapBase) mid) (.step 2)).2.ret
          ≠ some (.read l)) := by
  refine ⟨by decide, ?_⟩
  intro mid l hnc
  have h := cluster_crash_gap_blocks_readers (ρ := Nat) { cluster := true } 3 clusterCrashGapBase mid 0
    { pc := .appSet [] 0 10 [], dead := true } [] 0 10 [] 2 0 l (by decide) rfl rfl
  exact h.2 (by decide) (by simp) hnc

/-- the same schedule in non-cluster mode: the dying writer's record is either wholly there or not at all, the
reader returns both records at once -/
theorem noncluster_crash_leaves_no_gap_witness :
    nonClusterCrash.obs.map (·.ret) =
      [none, none, some (.appended [(0, 10)]), none, none, none, some (.appended [(1, 11)]), none, none, none,
       some (.read [10, 11])] := by decide

/-! ## refinement: what readers see is the one log that `Model/Journal.lean` replays -/

/-- **redis_official_log_grows**: the official log (records of the keys 0, 1, 2, … up to the counter or the first
gap) of a reachable state is a prefix of the official log of every later state. -/
theorem redis_official_log_grows (cfg : Cfg) (n : Nat) (evs more : List (Ev ρ)) :
    officialLog (run cfg (init n) evs).db <+: officialLog (run cfg (run cfg (init n) evs) more).db := by
  have hinv := inv_reachable cfg n evs
  exact officialLog_mono (inv_run cfg _ more hinv) (ext_run cfg _ more hinv)

example : officialLog (clusterSlowWriter.final.db) = [10, 11] := by decide

theorem slice_append {log : Int → Option ρ} {p l : List ρ} (hp : Slice log 0 p) (hl : Slice log (p.length : Nat) l) :
    Slice log 0 (p ++ l) := by
  intro i hi
  by_cases h : i < p.length
  · rw [List.getElem_append_left h]; exact hp i h
  · rw [List.getElem_append_right (by omega)]
    have := hl (i - p.length) (by simp at hi; omega)
    rw [← this]; congr 1; omega

/-- **redis_sync_refines_journal**: a replica that has replayed the records `p` of the keys `0..k-1` (`k` = its
`log_number_read`) and whose `read_logs(k)` returns `l` has now replayed `p ++ l`, a prefix of the official log;
and feeding `l` to `apply_logs` is exactly `Journal.sync` against that log with `k + |l|` records visible — so the
theorems of `Props/C06.lean` (replay is a fold, issuer independence, resumption, snapshot + tail) apply to the
Redis backend as they do to the file backend. -/
theorem redis_sync_refines_journal (cfg : Cfg) (n : Nat) (pre mid : List (Ev Journal.Rec)) (w k : Nat)
    (l p : List Journal.Rec) (wid : String) (js : Journal.JState) :
    let s₀ := run cfg (init n) pre
    let fin := step cfg (run cfg s₀ mid) (.step w)
    pcOf s₀ w = some (.rdCounter k) → NoCall w mid → fin.2.ret = some (.read l) →
    (∀ i (h : i < p.length), s₀.db.log (i : Nat) = some p[i]) → p.length = k → js.cursor = k →
    (p ++ l) <+: officialLog fin.1.db ∧
      Journal.sync wid js (officialLog fin.1.db) (k + l.length) = Journal.applyLogs wid js l := by
  intro s₀ fin hpc hnc hret hp hk hcur
  have hinv := inv_reachable cfg n pre
  obtain ⟨m, _, _, hsl⟩ := reader_returns_slice cfg s₀.db w k mid s₀ hinv (Ext.refl _) hpc hnc l hret
  have hfin : fin.1 = run cfg s₀ (mid ++ [.step w]) := by
    show (step cfg (run cfg s₀ mid) (.step w)).1 = _
    rw [run_append]; rfl
  have hinv' : Inv cfg fin.1 := by rw [hfin]; exact inv_run cfg _ _ hinv
  have hext : Ext s₀.db fin.1.db := by rw [hfin]; exact ext_run cfg _ _ hinv
  have hp' : Slice fin.1.db.log 0 p := by
    intro i hi
    have := hext.log _ _ (hp i hi)
    simpa using this
  have hpre : (p ++ l) <+: officialLog fin.1.db :=
    slice_prefix_official hinv' _ (slice_append hp' (by rw [hk]; exact hsl))
  refine ⟨hpre, ?_⟩
  obtain ⟨t, ht⟩ := hpre
  unfold Journal.sync
  rw [← ht, hcur]
  have e1 : ((p ++ l ++ t).take (k + l.length)) = p ++ l := by
    rw [List.take_append_of_le_length (by simp [hk])]
    exact List.take_of_length_le (by simp [hk])
  rw [e1, ← hk, List.drop_left]

/-- **redis_workers_converge**: two replicas (any workers, at any two moments of one run) that have replayed the
same number of records of the Redis log see the same studies and trials. -/
theorem redis_workers_converge (cfg : Cfg) (n : Nat) (evs more : List (Ev Journal.Rec)) (p₁ p₂ : List Journal.Rec)
    (w₁ w₂ : String) :
    p₁ <+: officialLog (run cfg (init n) evs).db → p₂ <+: officialLog (run cfg (run cfg (init n) evs) more).db →
    p₁.length = p₂.length →
    (Journal.applyAll w₁ Journal.JState.init p₁).spec = (Journal.applyAll w₂ Journal.JState.init p₂).spec := by
  intro h1 h2 hlen
  have h1' := h1.trans (redis_official_log_grows cfg n evs more)
  have : p₁ = p₂ := (List.prefix_of_prefix_length_le h1' h2 (by omega)).eq_of_length hlen
  subst this
  exact C06.issuer_independent w₁ w₂ _ _ p₁ rfl

/-- non-vacuity of the refinement: a `create_study` record appended through the Redis model and read back by
another worker is what `Journal.sync` consumes -/
example :
    let rec0 : Journal.Rec := .createStudy "w0" "s" [0]
    let pre : List (Ev Journal.Rec) := [.call 0 (.append [rec0]), .step 0, .step 0, .call 1 (.read 0)]
    pcOf (run { cluster := false } (init 2) pre) 1 = some (.rdCounter 0) ∧
      (step { cluster := false } (run { cluster := false } (run { cluster := false } (init 2) pre) [.step 1]) (.step 1)).2.ret
        = some (.read [rec0]) := by decide

/-! ## the snapshot key -/

/-- **snapshot_frame**: `save_snapshot` / `load_snapshot` never touch the counter or a log key, the log commands
never touch the snapshot key, and `load_snapshot` returns the value of the last `SET` of the snapshot key. -/
theorem snapshot_frame (cfg : Cfg) (db : Redis ρ) (pc : PC ρ) :
    ((∃ s, pc = .snapSet s) ∨ pc = .snapGet →
        (stepW cfg db pc).1.counter = db.counter ∧ (stepW cfg db pc).1.log = db.log) ∧
    ((∀ s, pc ≠ .snapSet s) → (stepW cfg db pc).1.snap = db.snap) ∧
    (∀ s, pc = .snapSet s → (stepW cfg db pc).1.snap = some s) ∧
    (pc = .snapGet → (stepW cfg db pc).2.2.ret = some (.snapLoaded db.snap)) := by
  refine ⟨?_, ?_, ?_, ?_⟩
  · rintro (⟨s, rfl⟩ | rfl) <;> exact ⟨rfl, rfl⟩
  · intro h
    cases pc with
    | snapSet s => exact absurd rfl (h s)
    | appSetnx recs => cases hc : db.counter <;> simp [stepW, hc]
    | rdCounter k => cases hc : db.counter <;> simp only [stepW, hc] <;> try split <;> rfl
    | rdGet k cur mx acc => cases hl : db.log cur <;> simp only [stepW, hl] <;> try split <;> rfl
    | _ => rfl
  · rintro s rfl; rfl
  · rintro rfl; rfl

example : ((run { cluster := false } (init 2)
    [.call 0 (.saveSnapshot 7), .step 0, .call 1 .loadSnapshot] : St Nat).db.snap) = some 7 := by decide

end OptunaVerif.C06Redis
