import OptunaVerif.Model.JournalRun
import OptunaVerif.Props.C06FrontGen
/-!
# C06 — run-level theorems (audit follow-up)

`C06.replay_is_fold` / `workers_converge` are statements about ONE replica and a predicate.  Here the
whole system: any number of workers, one shared log, the events `append / sync / call / snapshot /
restore / join / crash` of `Model/JournalRun.lean`, and induction over ALL event lists.

What of a replica is determined by the log prefix it has read, and what is issuer-relative:
* `spec` (studies and trials — everything `get_all_studies` / `get_all_trials` / `get_trial` show) and `cursor`
  are functions of the log prefix alone (`replica_is_replay_of_prefix`);
* `owned` (`_worker_id_to_owned_trial_id`) and `lastCreated` (`_last_created_trial_id_by_this_process`) are
  issuer-relative bookkeeping: they depend on which records the replaying worker issued itself and are reset
  by `restore`; no theorem below equates them across workers (`C06.issuer_independent` is about `spec`).
-/
set_option linter.unusedVariables false
namespace OptunaVerif.C06Run
open OptunaVerif OptunaVerif.Storage OptunaVerif.Journal OptunaVerif.JournalRun

/-- the fresh replay of a whole log: what a new worker that reads everything derives -/
def fresh (log : List Rec) : Spec := C06.pubReplay Storage.init log

/-- the run invariant: every live replica and every saved snapshot holds the replay of the log prefix it has read -/
def Inv (s : Sys) : Prop :=
  (∀ p ∈ s.reps, C06.Synced s.log p.2) ∧ (∀ snap ∈ s.snaps, C06.Synced s.log snap)

theorem rep?_mem (s : Sys) (w : String) (st : JState) (h : s.rep? w = some st) : (w, st) ∈ s.reps := by
  unfold Sys.rep? at h
  cases hf : s.reps.find? (fun p => p.1 == w) with
  | none => simp [hf] at h
  | some p =>
    simp only [hf, Option.map_some, Option.some.injEq] at h
    have hm := List.mem_of_find?_eq_some hf
    have hp : p.1 = w := by simpa using List.find?_some hf
    obtain ⟨a, b⟩ := p
    simp only at hp h; subst hp h; exact hm

theorem mem_setRep (s : Sys) (w : String) (st : JState) (p : String × JState) (h : p ∈ (s.setRep w st).reps) :
    p = (w, st) ∨ p ∈ s.reps := by
  simp only [Sys.setRep, List.mem_cons, List.mem_filter] at h
  rcases h with h | h
  · exact .inl h
  · exact .inr h.1

theorem restore_synced (log : List Rec) (snap : JState) (h : C06.Synced log snap) : C06.Synced log (restore snap) := h

theorem inv_append (s : Sys) (w : String) (op : Op) (h : Inv s) : Inv (doAppend s w op) := by
  unfold doAppend
  split
  · exact ⟨fun p hp => C06.synced_mono s.log _ p.2 (h.1 p hp), fun sn hs => C06.synced_mono s.log _ sn (h.2 sn hs)⟩
  · exact h

theorem inv_sync (s : Sys) (w : String) (h : Inv s) : Inv (doSync s w) := by
  unfold doSync
  cases hst : s.rep? w with
  | none => exact h
  | some st =>
    refine ⟨fun p hp => ?_, h.2⟩
    rcases mem_setRep s w _ p hp with e | e
    · rw [e]; exact C06.sync_keeps_synced w s.log s.log.length st (h.1 _ (rep?_mem s w st hst))
    · exact h.1 p e

theorem inv_step (s : Sys) (e : Ev) (h : Inv s) : Inv (stepEv s e) := by
  cases e with
  | append w op => exact inv_append s w op h
  | sync w => exact inv_sync s w h
  | call w op => exact inv_sync _ w (inv_append s w op h)
  | snapshot w =>
    simp only [stepEv]
    cases hst : s.rep? w with
    | none => exact h
    | some st =>
      refine ⟨h.1, fun sn hs => ?_⟩
      rcases List.mem_append.1 hs with e | e
      · exact h.2 sn e
      · simp at e; rw [e]; exact h.1 _ (rep?_mem s w st hst)
  | restore w k =>
    simp only [stepEv]
    cases hk : s.snaps[k]? with
    | none => exact h
    | some snap =>
      refine ⟨fun p hp => ?_, h.2⟩
      rcases mem_setRep s w _ p hp with e | e
      · rw [e]; exact restore_synced s.log snap (h.2 snap (List.mem_of_getElem? hk))
      · exact h.1 p e
  | join w =>
    simp only [stepEv]
    cases hst : s.rep? w with
    | some st => exact h
    | none =>
      refine ⟨fun p hp => ?_, h.2⟩
      rcases mem_setRep s w _ p hp with e | e
      · rw [e]; exact C06.init_synced s.log
      · exact h.1 p e
  | crash w =>
    exact ⟨fun p hp => h.1 p (List.mem_filter.1 hp).1, h.2⟩

theorem inv_run (s : Sys) (evs : List Ev) (h : Inv s) : Inv (run s evs) := by
  induction evs generalizing s with
  | nil => exact h
  | cons e rest ih => exact ih _ (inv_step s e h)

theorem inv_init : Inv Sys.init := ⟨by intro p hp; simp [Sys.init] at hp, by intro p hp; simp [Sys.init] at hp⟩

/-- **replica_is_replay_of_prefix**: after ANY list of events, every live worker's replica holds, in its public
part (`spec`), exactly the replay of the first `cursor` records of the shared log, and its cursor is within the
log; the same holds of every snapshot ever saved.  (`owned` / `lastCreated` are issuer-relative: see the header.) -/
theorem replica_is_replay_of_prefix (evs : List Ev) :
    let s := run Sys.init evs
    (∀ w st, s.rep? w = some st → st.cursor ≤ s.log.length ∧ st.spec = fresh (s.log.take st.cursor)) ∧
    (∀ snap ∈ s.snaps, snap.cursor ≤ s.log.length ∧ snap.spec = fresh (s.log.take snap.cursor)) := by
  intro s
  have hI := inv_run Sys.init evs inv_init
  exact ⟨fun w st h => hI.1 _ (rep?_mem s w st h), fun sn hs => hI.2 sn hs⟩

/-- **restore_is_synced**: whichever snapshot `k` (saved at any earlier point by any worker) a worker `w` — live,
crashed or fresh — adopts, right after the `restore` its replica holds the replay of the prefix the snapshot had
read, and once it has read the tail (`cursor = |log|`, by any number of later syncs, whatever else happened in
between) its public state is the fresh replay of the whole log. -/
theorem restore_is_synced (evs later : List Ev) (w : String) (k : Nat) (snap : JState)
    (hk : (run Sys.init evs).snaps[k]? = some snap) :
    (stepEv (run Sys.init evs) (.restore w k)).rep? w = some (restore snap) ∧
    C06.Synced (run Sys.init evs).log (restore snap) ∧
    (∀ st, (run (stepEv (run Sys.init evs) (.restore w k)) later).rep? w = some st →
      st.cursor = (run (stepEv (run Sys.init evs) (.restore w k)) later).log.length →
      st.spec = fresh (run (stepEv (run Sys.init evs) (.restore w k)) later).log) := by
  have hI := inv_run Sys.init evs inv_init
  refine ⟨?_, restore_synced _ snap (hI.2 snap (List.mem_of_getElem? hk)), ?_⟩
  · simp [stepEv, hk, Sys.setRep, Sys.rep?]
  · intro st hst hc
    have hI2 := inv_run _ later (inv_step _ (.restore w k) hI)
    have := hI2.1 _ (rep?_mem _ w st hst)
    rw [this.2, hc, List.take_length]; rfl

/-- **workers_converge_run**: in every reachable state, any two live workers that have read the same number of
records expose the same studies and trials; and every worker that has read the whole log exposes the fresh replay
of the whole log — whoever issued which record, however the syncs were batched and aborted, whichever snapshots
were restored, whoever crashed. -/
theorem workers_converge_run (evs : List Ev) (w w' : String) (st st' : JState)
    (h : (run Sys.init evs).rep? w = some st) (h' : (run Sys.init evs).rep? w' = some st') :
    (st.cursor = st'.cursor → st.spec = st'.spec) ∧
    (st.cursor = (run Sys.init evs).log.length → st.spec = fresh (run Sys.init evs).log) := by
  have hI := inv_run Sys.init evs inv_init
  have a := hI.1 _ (rep?_mem _ w st h)
  have b := hI.1 _ (rep?_mem _ w' st' h')
  refine ⟨fun hc => C06.workers_converge _ st st' a b hc, fun hc => ?_⟩
  rw [a.2, hc, List.take_length]; rfl

/-- a sync makes progress: it either reaches the end of the log or raises (for one of the worker's own records) and
has moved past that record — so finitely many syncs reach the end -/
theorem sync_progress (w : String) (log : List Rec) (st : JState) (hc : st.cursor ≤ log.length) :
    ((sync w st log log.length).2 = none → (sync w st log log.length).1.cursor = log.length) ∧
    ((sync w st log log.length).2 ≠ none → st.cursor < (sync w st log log.length).1.cursor) := by
  unfold sync
  obtain ⟨n, hn, hcur, _, hnone, hsome⟩ := C06.applyLogs_prefix w st ((log.take log.length).drop st.cursor)
  simp only [List.take_length, List.length_drop] at hn hnone hsome hcur ⊢
  constructor
  · intro h; rw [hcur, hnone h]; omega
  · intro h; rw [hcur]; have := hsome h; omega

/-- **rejected_record_changes_nobody** (run level): when a `sync` of worker `w` raises `e` in a reachable state, the
record it stopped at (the one just before its new cursor) was issued by `w` itself, and that record changed the public
state of NO replica: the replay of the log up to and including it equals the replay up to it — for `w` and for every
other worker that reads past it. -/
theorem rejected_record_changes_nobody (evs : List Ev) (w : String) (st : JState) (e : Err)
    (h : (run Sys.init evs).rep? w = some st)
    (he : (sync w st (run Sys.init evs).log (run Sys.init evs).log.length).2 = some e) :
    let log := (run Sys.init evs).log
    let st' := (sync w st log log.length).1
    ∃ r, log[st'.cursor - 1]? = some r ∧ r.worker = w ∧ 0 < st'.cursor ∧
      fresh (log.take st'.cursor) = fresh (log.take (st'.cursor - 1)) := by
  intro log st'
  have hI := inv_run Sys.init evs inv_init
  have hs := hI.1 _ (rep?_mem _ w st h)
  -- walk the batch to the record that raised
  have key : ∀ (rs : List Rec) (s0 : JState), (applyLogs w s0 rs).2 = some e →
      ∃ (k : Nat) (r : Rec), rs[k]? = some r ∧ (applyLogs w s0 rs).1.cursor = s0.cursor + k + 1 ∧ r.worker = w ∧
        applySpec (C06.pubReplay s0.spec (rs.take k)) r = C06.pubReplay s0.spec (rs.take k) := by
    intro rs
    induction rs with
    | nil => intro s0 h0; simp [applyLogs] at h0
    | cons r rest ih =>
      intro s0 h0
      have h1 := (apply_spec w { s0 with cursor := s0.cursor + 1 } r)
      have h2 := apply_cursor w { s0 with cursor := s0.cursor + 1 } r
      simp only [applyLogs] at h0 ⊢
      split at h0
      · rename_i st1 e1 heq
        have hrej := C06.rejected_changes_nothing w { s0 with cursor := s0.cursor + 1 } r e1 (by rw [heq])
        refine ⟨0, r, rfl, ?_, hrej.1, ?_⟩
        · have : (Journal.apply w { s0 with cursor := s0.cursor + 1 } r).1 = st1 := by rw [heq]
          simp only [heq]; rw [← this, h2]
        · have := hrej.2.1; rw [h1.1] at this; simpa [C06.pubReplay] using this
      · rename_i st1 heq
        have e1 : (Journal.apply w { s0 with cursor := s0.cursor + 1 } r).1 = st1 := by rw [heq]
        obtain ⟨k, r', hk, hc, hw, hsp⟩ := ih st1 h0
        refine ⟨k + 1, r', by simpa using hk, ?_, hw, ?_⟩
        · rw [hc, ← e1, h2]; simp only [List.length_cons]; omega
        · have hs1 : st1.spec = applySpec s0.spec r := by rw [← e1, h1.1]
          simpa [C06.pubReplay, hs1] using hsp
  unfold sync at he
  obtain ⟨k, r, hk, hc, hw, hsp⟩ := key _ st he
  have hcur : st'.cursor = st.cursor + k + 1 := hc
  simp only [List.take_length] at hk
  have hget : log[st.cursor + k]? = some r := by rw [← hk, List.getElem?_drop]
  refine ⟨r, by rw [hcur]; simpa using hget, hw, by omega, ?_⟩
  -- fresh (take (c+k+1)) = applySpec (fresh (take (c+k))) r = fresh (take (c+k))
  have hlt : st.cursor + k < log.length := by
    have := (List.getElem?_eq_some_iff.1 hget).1; exact this
  have htake : log.take (st.cursor + k + 1) = log.take (st.cursor + k) ++ [r] := by
    rw [List.take_add_one, hget]; rfl
  have hpre : fresh (log.take (st.cursor + k)) = C06.pubReplay st.spec ((List.drop st.cursor log).take k) := by
    rw [hs.2]
    unfold fresh
    rw [← C06.pubReplay_append, ← List.take_add]
  rw [hcur, show st.cursor + k + 1 - 1 = st.cursor + k by omega, htake]
  unfold fresh at *
  rw [C06.pubReplay_append, hpre]
  simpa [C06.pubReplay, List.take_length] using hsp


/-! ## the answer the issuer gets is the contract's answer at the position of its record -/

/-- records issued by other workers never raise here, so a batch that starts with them is replayed through -/
theorem applyLogs_append_foreign (w : String) (st : JState) (pre rs : List Rec)
    (h : ∀ x ∈ pre, (x.worker == w) = false) :
    applyLogs w st (pre ++ rs) = applyLogs w (applyAll w st pre) rs := by
  induction pre generalizing st with
  | nil => rfl
  | cons r rest ih =>
    have he := (apply_spec w { st with cursor := st.cursor + 1 } r).2
    rw [h r (by simp)] at he
    simp only [Bool.false_eq_true, if_false] at he
    simp only [List.cons_append, applyLogs]
    split
    · rename_i st' e heq; rw [heq] at he; simp at he
    · rename_i st' heq
      have e1 : (Journal.apply w { st with cursor := st.cursor + 1 } r).1 = st' := by rw [heq]
      rw [ih st' (fun x hx => h x (by simp [hx]))]
      show _ = applyLogs w (applyAll w (Journal.apply w { st with cursor := st.cursor + 1 } r).1 rest) rs
      rw [e1]

theorem issue_worker (w : String) (op : Op) (r : Rec) (h : issue w op = some r) : r.worker = w := by
  cases op <;> simp [issue] at h <;> subst h <;> rfl

theorem issue_eq_recOf (w : String) (op : Op) : issue w op = C06FrontGen.recOf w op := by
  cases op <;> rfl

/-- **ack_is_contract_answer_run_partial**: in every reachable state, when live worker `w` makes the call `op`
(`append` + `sync` under its lock), the error it is answered is exactly the contract's error for `op` in the
contract state AT THE POSITION OF ITS RECORD IN THE LOG ORDER (the fresh replay of everything appended before it,
by whomever), and if none is raised its replica then shows the contract's state after that call, has read the
whole log, and (for `create_new_trial`) holds as last created id the contract's new id.
PARTIAL — remaining hypothesis `hpre`: the part of the log `w` has not read yet contains no record of `w` itself
(true when worker ids are unique per object and every call syncs, as the front end does; not proved as a run
invariant here because `restore` / `join` may reuse the id of a crashed worker). -/
theorem ack_is_contract_answer_run_partial (evs : List Ev) (w : String) (st : JState) (op : Op) (r : Rec)
    (h : (run Sys.init evs).rep? w = some st) (hr : issue w op = some r)
    (hpre : ∀ x ∈ (run Sys.init evs).log.drop st.cursor, (x.worker == w) = false) :
    let log := (run Sys.init evs).log
    let res := sync w st (log ++ [r]) (log ++ [r]).length
    let cop := C06FrontGen.withRaised op (rejects (fresh log) r == some .valueError)
    (stepEv (run Sys.init evs) (.call w op)).rep? w = some res.1 ∧
    res.2 = errOf (Storage.step (fresh log) cop).2 ∧
    (res.2 = none →
      res.1.spec = (Storage.step (fresh log) cop).1 ∧ res.1.cursor = (log ++ [r]).length ∧
      (∀ sid t b, op = .createTrial sid t b → res.1.lastCreated = some (fresh log).trials.length)) := by
  intro log res cop
  have hI := inv_run Sys.init evs inv_init
  have hs := hI.1 _ (rep?_mem _ w st h)
  -- the batch read by the sync: the unread foreign records, then the own record
  have hbatch : ((log ++ [r]).take (log ++ [r]).length).drop st.cursor = log.drop st.cursor ++ [r] := by
    rw [List.take_length, List.drop_append_of_le_length hs.1]
  have hres : res = applyLogs w (applyAll w st (log.drop st.cursor)) [r] := by
    show sync w st (log ++ [r]) (log ++ [r]).length = _
    unfold sync; rw [hbatch, applyLogs_append_foreign w st _ [r] hpre]
  -- the replica just before its own record holds the fresh replay of the log
  have hst1 : (applyAll w st (log.drop st.cursor)).spec = fresh log := by
    rw [(C06.applyAll_pub w st _).1, hs.2]
    unfold fresh; rw [← C06.pubReplay_append, List.take_append_drop]
  have hc1 : (applyAll w st (log.drop st.cursor)).cursor = log.length := by
    have hle : st.cursor ≤ log.length := hs.1
    rw [(C06.applyAll_pub w st _).2, List.length_drop]; omega
  have hJ : JInv (fresh log) := C06.jinv_replay _ log jinv_init
  have hw := issue_worker w op r hr
  have href := apply_refines_step (fresh log) r hJ
  rw [C06FrontGen.opOf_recOf w op r _ (by rw [← issue_eq_recOf]; exact hr)] at href
  have key : ∀ s1 : JState,
      (Journal.apply w { s1 with cursor := s1.cursor + 1 } r).1.spec = applySpec s1.spec r ∧
      (Journal.apply w { s1 with cursor := s1.cursor + 1 } r).2 = rejects s1.spec r ∧
      (Journal.apply w { s1 with cursor := s1.cursor + 1 } r).1.cursor = s1.cursor + 1 := by
    intro s1
    have a := apply_spec w { s1 with cursor := s1.cursor + 1 } r
    have c := apply_cursor w { s1 with cursor := s1.cursor + 1 } r
    rw [hw] at a
    simp only [beq_self_eq_true, if_true] at a
    exact ⟨a.1, a.2, c⟩
  obtain ⟨hsp1', hsp2', hcur⟩ := key (applyAll w st (log.drop st.cursor))
  have hsp1 := hsp1'.trans (by rw [hst1])
  have hsp2 := hsp2'.trans (by rw [hst1])
  refine ⟨?_, ?_, ?_⟩
  · have h2 : (doAppend (JournalRun.run Sys.init evs) w op).rep? w = some st := by
      simp only [doAppend, h, hr]; exact h
    have h3 : (doAppend (JournalRun.run Sys.init evs) w op).log = log ++ [r] := by
      simp only [doAppend, h, hr]; rfl
    simp only [stepEv, doSync, h2, h3]
    simp only [Sys.setRep, Sys.rep?, List.find?, beq_self_eq_true, Option.map_some]; rfl
  · rw [hres]; simp only [applyLogs]
    split
    · rename_i st' e heq
      have := congrArg Prod.snd heq
      rw [hsp2] at this; simp only at this
      show some e = _; rw [← this]; exact href.2
    · rename_i st' heq
      have := congrArg Prod.snd heq
      rw [hsp2] at this; simp only at this
      show none = _; rw [← this]; exact href.2
  · intro hnone
    rw [hres] at hnone ⊢
    simp only [applyLogs] at hnone ⊢
    split at hnone
    · cases hnone
    · rename_i st' heq
      simp only [heq]
      have e1 := congrArg Prod.fst heq
      simp only at e1
      refine ⟨by rw [← e1, hsp1]; exact href.1, by rw [← e1, hcur]; simp [hc1], ?_⟩
      intro sid t b hop
      subst hop
      simp only [issue, Option.some.injEq] at hr
      subst hr
      have hacc := congrArg Prod.snd heq
      simp only at hacc
      rw [← e1]
      cases hs2 : (fresh log).study? sid with
      | none => simp [Journal.apply, reject, Rec.worker, hst1, hs2] at hacc
      | some x => simp [Journal.apply, Rec.worker, hst1, hs2]

/-! ## the same system over the GENERATED handlers and the GENERATED front end -/

abbrev handlers := OptunaVerif.Generated.JournalHandlers.program

/-- one event with `_sync_with_backend` running the handlers generated from the source (`JournalIR.syncLogs`) and
the record built by the generated front end (`C06FrontGen.frontRec`) -/
def stepEvGen (s : Sys) : Ev → Sys
  | .append w op => match s.rep? w, C06FrontGen.frontRec w op with
    | some _, some r => { s with log := s.log ++ [r] }
    | _, _ => s
  | .sync w => match s.rep? w with
    | some st => s.setRep w (JournalIR.syncLogs handlers w st s.log s.log.length).1
    | none => s
  | .call w op =>
    let s1 := match s.rep? w, C06FrontGen.frontRec w op with
      | some _, some r => { s with log := s.log ++ [r] }
      | _, _ => s
    match s1.rep? w with
    | some st => s1.setRep w (JournalIR.syncLogs handlers w st s1.log s1.log.length).1
    | none => s1
  | e => stepEv s e

/-- the calls of an event are ones the front end can encode (`C06FrontGen.frontOK`: a template has values ≠ [] and
dict-like params) -/
def evOK : Ev → Bool
  | .append _ op | .call _ op => C06FrontGen.frontOK op
  | _ => true

theorem stepEvGen_eq (s : Sys) (e : Ev) (h : evOK e = true) : stepEvGen s e = stepEv s e := by
  cases e with
  | append w op =>
    simp only [stepEvGen, stepEv, doAppend, C06FrontGen.front_builds w op h, issue_eq_recOf]
    cases s.rep? w <;> cases C06FrontGen.recOf w op <;> rfl
  | sync w =>
    simp only [stepEvGen, stepEv, doSync, C06Gen.syncLogs_eq]
    cases s.rep? w <;> rfl
  | call w op =>
    simp only [stepEvGen, stepEv, doAppend, doSync, C06FrontGen.front_builds w op h, issue_eq_recOf, C06Gen.syncLogs_eq]
    cases hrp : s.rep? w <;> cases hrc : C06FrontGen.recOf w op <;> simp only [hrp] <;>
      (first | rfl | (rename_i r; have : Sys.rep? { s with log := s.log ++ [r] } w = s.rep? w := rfl
                      simp only [this, hrp]))
  | _ => rfl

theorem runGen_eq (s : Sys) (evs : List Ev) (h : evs.all evOK = true) : evs.foldl stepEvGen s = JournalRun.run s evs := by
  induction evs generalizing s with
  | nil => rfl
  | cons e rest ih =>
    simp only [List.all_cons, Bool.and_eq_true] at h
    simp only [List.foldl_cons, JournalRun.run, stepEvGen_eq s e h.1]
    exact ih _ h.2

/-- **workers_converge_run_gen**: the run-level convergence theorem for the code as generated from the source —
records built by the generated front end, replicas advanced by the generated handlers. -/
theorem workers_converge_run_gen (evs : List Ev) (hok : evs.all evOK = true) (w w' : String) (st st' : JState)
    (h : (evs.foldl stepEvGen Sys.init).rep? w = some st) (h' : (evs.foldl stepEvGen Sys.init).rep? w' = some st') :
    (st.cursor ≤ (evs.foldl stepEvGen Sys.init).log.length ∧ st.spec = fresh ((evs.foldl stepEvGen Sys.init).log.take st.cursor)) ∧
    (st.cursor = st'.cursor → st.spec = st'.spec) ∧
    (st.cursor = (evs.foldl stepEvGen Sys.init).log.length → st.spec = fresh (evs.foldl stepEvGen Sys.init).log) := by
  rw [runGen_eq _ evs hok] at h h' ⊢
  exact ⟨(replica_is_replay_of_prefix evs).1 w st h, workers_converge_run evs w w' st st' h h'⟩

/-! ## non-vacuity: three workers, a rejected record, a snapshot mid-way, a restore by a fresh worker, a crash -/

def demoRun : List Ev :=
  [ .join "A", .join "B", .join "C",
    .call "A" (.createStudy "s" [1]), .call "B" (.createStudy "s" [2]),        -- B's duplicate is rejected (at B only)
    .call "A" (.createTrial 0 none false), .sync "C", .snapshot "C",           -- snapshot after 3 records
    .append "B" (.createTrial 0 none false), .call "A" (.setTrialStateValues 0 .complete (some [.fin 1])),
    .crash "B",                                                                -- B dies with an unread record of its own in the log
    .restore "D" 0, .sync "D", .sync "C" ]                                     -- fresh worker D adopts C's snapshot, reads the tail

example : demoRun.all evOK = true := by decide
example : (JournalRun.run Sys.init demoRun).log.length = 5 := by decide
example : ackErr (JournalRun.run Sys.init (demoRun.take 4 ++ [.append "B" (.createStudy "s" [2])])) "B" = some .duplicated := by decide
example : ((JournalRun.run Sys.init demoRun).snaps[0]?).map (·.cursor) = some 3 := by decide
example : (JournalRun.run Sys.init demoRun).rep? "B" = none := by decide
example : ((JournalRun.run Sys.init demoRun).rep? "D").map (·.cursor) = some 5 := by decide
example : ((JournalRun.run Sys.init demoRun).rep? "D").map (·.spec) = some (fresh (JournalRun.run Sys.init demoRun).log) := by decide
example : ((JournalRun.run Sys.init demoRun).rep? "D").map (·.spec) = ((JournalRun.run Sys.init demoRun).rep? "C").map (·.spec) := by decide
example : ((JournalRun.run Sys.init demoRun).rep? "A").map (·.cursor) = some 5 := by decide
example : demoRun.foldl stepEvGen Sys.init = JournalRun.run Sys.init demoRun := runGen_eq _ _ (by decide)

/-! ## `hpre` is a run invariant under the id discipline of the real code -/

/-- the number of records issued by `w` in a list -/
def own (w : String) (l : List Rec) : Nat := l.countP (fun x => x.worker == w)

/-- a batch is read up to its end, or up to and including a record of the reader itself -/
theorem applyLogs_split (w : String) (rs : List Rec) : ∀ st : JState, ∃ a b, rs = a ++ b ∧
    (applyLogs w st rs).1.cursor = st.cursor + a.length ∧
    (b = [] ∨ ∃ a' x, a = a' ++ [x] ∧ (x.worker == w) = true) := by
  induction rs with
  | nil => intro st; exact ⟨[], [], rfl, rfl, .inl rfl⟩
  | cons r rest ih =>
    intro st
    have hsp := (apply_spec w { st with cursor := st.cursor + 1 } r).2
    have hcu := apply_cursor w { st with cursor := st.cursor + 1 } r
    simp only [applyLogs]
    split
    · rename_i st' e heq
      rw [heq] at hsp hcu
      simp only at hsp hcu
      refine ⟨[r], rest, rfl, by simp [hcu], .inr ⟨[], r, rfl, ?_⟩⟩
      cases hw : r.worker == w with
      | true => rfl
      | false => rw [hw] at hsp; simp at hsp
    · rename_i st' heq
      rw [heq] at hcu
      simp only at hcu
      obtain ⟨a, b, h1, h2, h3⟩ := ih st'
      refine ⟨r :: a, b, by rw [h1]; rfl, by rw [h2, hcu]; simp; omega, ?_⟩
      rcases h3 with h3 | ⟨a', x, h3, h4⟩
      · exact .inl h3
      · exact .inr ⟨r :: a', x, by rw [h3]; rfl, h4⟩

/-- a sync leaves unread at most one own record fewer than before (none if there was at most one) -/
theorem sync_own (w : String) (st : JState) (log : List Rec) (hc : st.cursor ≤ log.length) :
    own w (log.drop (sync w st log log.length).1.cursor) ≤ own w (log.drop st.cursor) - 1 := by
  unfold sync
  rw [List.take_length]
  obtain ⟨a, b, h1, h2, h3⟩ := applyLogs_split w (log.drop st.cursor) st
  rw [h2]
  have hdrop : log.drop (st.cursor + a.length) = b := by
    rw [← List.drop_drop, h1, List.drop_left]
  rw [hdrop, h1]
  unfold own
  rw [List.countP_append]
  rcases h3 with h3 | ⟨a', x, h3, h4⟩
  · subst h3; simp
  · subst h3
    rw [List.countP_append]
    simp only [List.countP_cons, List.countP_nil, h4, if_true]
    omega

theorem rep?_setRep_self (s : Sys) (w : String) (st : JState) : (s.setRep w st).rep? w = some st := by
  simp [Sys.setRep, Sys.rep?]

theorem rep?_setRep_ne (s : Sys) (w w' : String) (st : JState) (h : (w' == w) = false) :
    (s.setRep w' st).rep? w = s.rep? w := by
  simp only [Sys.setRep, Sys.rep?, List.find?_cons, h]
  congr 1
  induction s.reps with
  | nil => rfl
  | cons p t ih =>
    simp only [List.filter_cons, List.find?_cons]
    by_cases hp : (p.1 == w) = true
    · have : (p.1 != w') = true := by
        simp only [beq_iff_eq] at hp; simp only [bne_iff_ne, ne_eq, hp]; intro e; simp [e] at h
      simp [this, hp]
    · simp only [Bool.not_eq_true] at hp
      by_cases hq : (p.1 != w') = true
      · simp [hq, hp, ih]
      · simp [hq, hp, ih]

theorem find?_filter_ne (l : List (String × JState)) (w w' : String) :
    (l.filter (fun p => p.1 != w')).find? (fun p => p.1 == w) =
      if w' = w then none else l.find? (fun p => p.1 == w) := by
  by_cases hw : w' = w
  · subst hw
    simp only [if_true, List.find?_eq_none, List.mem_filter]
    intro x hx; simpa using hx.2
  · simp only [hw, if_false]
    induction l with
    | nil => rfl
    | cons q t ih =>
      simp only [List.filter_cons, List.find?_cons]
      by_cases hq : q.1 = w'
      · have h2 : (w' == w) = false := by simp [hw]
        simp [hq, h2, ih]
      · have : (q.1 != w') = true := by simp [hq]
        simp only [this, if_true, List.find?_cons, ih]

theorem rep?_crash (s : Sys) (w w' : String) (st : JState)
    (h : Sys.rep? { s with reps := s.reps.filter (fun p => p.1 != w') } w = some st) : s.rep? w = some st := by
  simp only [Sys.rep?, find?_filter_ne] at h ⊢
  split at h
  · simp at h
  · exact h

/-- the ghost invariant for worker `w`: all records and all live workers carry ids that joined / restored before
(`seen`), and `w` has at most `p` records of its own in the part of the log it has not read -/
def K (w : String) (s : Sys) (seen : List String) (p : Nat) : Prop :=
  (∀ x ∈ s.log, x.worker ∈ seen) ∧ (∀ q ∈ s.reps, q.1 ∈ seen) ∧
  (∀ st, s.rep? w = some st → own w (s.log.drop st.cursor) ≤ p)

def seenStep (seen : List String) : Ev → List String
  | .join w => w :: seen
  | .restore w _ => w :: seen
  | _ => seen

def okEv (seen : List String) : Ev → Bool
  | .join w => !seen.contains w
  | .restore w _ => !seen.contains w
  | _ => true

theorem freshFrom_cons (seen : List String) (e : Ev) (rest : List Ev) :
    freshFrom seen (e :: rest) = (okEv seen e && freshFrom (seenStep seen e) rest) := by
  cases e <;> simp [freshFrom, okEv, seenStep]

theorem k_append (w w' : String) (op : Op) (s : Sys) (seen : List String) (p : Nat) (hk : K w s seen p) (hI : Inv s) :
    K w (doAppend s w' op) seen (if w' == w then p + 1 else p) := by
  obtain ⟨ha, hb, hc⟩ := hk
  unfold doAppend
  split
  · rename_i st' r hl hr
    have hrw := issue_worker w' op r hr
    refine ⟨?_, hb, ?_⟩
    · intro x hx
      simp only [List.mem_append, List.mem_singleton] at hx
      rcases hx with hx | hx
      · exact ha x hx
      · rw [hx, hrw]; exact hb _ (rep?_mem s w' st' hl)
    · intro st hst
      have hst' : s.rep? w = some st := hst
      have hle : st.cursor ≤ s.log.length := (hI.1 _ (rep?_mem s w st hst')).1
      show own w ((s.log ++ [r]).drop st.cursor) ≤ _
      rw [List.drop_append_of_le_length hle]
      unfold own
      rw [List.countP_append]
      have := hc st hst'
      unfold own at this
      simp only [List.countP_cons, List.countP_nil, hrw]
      cases hww : w' == w <;> simp <;> omega
  · refine ⟨ha, hb, fun st hst => ?_⟩
    have := hc st hst
    split <;> omega

theorem k_sync (w w' : String) (s : Sys) (seen : List String) (p : Nat) (hk : K w s seen p) (hI : Inv s) :
    K w (doSync s w') seen (if w' == w then p - 1 else p) := by
  obtain ⟨ha, hb, hc⟩ := hk
  unfold doSync
  cases hl : s.rep? w' with
  | none =>
    refine ⟨ha, hb, fun st hst => ?_⟩
    have := hc st hst
    cases hww : w' == w with
    | false => simpa using this
    | true =>
      have e : w' = w := by simpa using hww
      subst e; rw [hl] at hst; cases hst
  | some st' =>
    refine ⟨ha, ?_, ?_⟩
    · intro q hq
      rcases mem_setRep s w' _ q hq with e | e
      · rw [e]; exact hb (w', st') (rep?_mem s w' st' hl)
      · exact hb q e
    · intro st hst
      cases hww : w' == w with
      | false =>
        rw [rep?_setRep_ne s w w' _ hww] at hst
        have := hc st hst
        show own w (s.log.drop st.cursor) ≤ _
        simpa using this
      | true =>
        have e : w' = w := by simpa using hww
        subst e
        rw [rep?_setRep_self] at hst
        simp only [Option.some.injEq] at hst
        subst hst
        have hle : st'.cursor ≤ s.log.length := (hI.1 _ (rep?_mem s w' st' hl)).1
        have h1 := sync_own w' st' s.log hle
        have h2 := hc st' hl
        show own w' (s.log.drop _) ≤ _
        simp only [if_true]
        omega

theorem k_mono (w : String) (s : Sys) (seen : List String) (x : String) (p : Nat) (hk : K w s seen p) :
    (∀ y ∈ s.log, y.worker ∈ x :: seen) ∧ (∀ q ∈ s.reps, q.1 ∈ x :: seen) :=
  ⟨fun y hy => List.mem_cons_of_mem _ (hk.1 y hy), fun q hq => List.mem_cons_of_mem _ (hk.2.1 q hq)⟩

/-- a worker whose id is new has no record in the log -/
theorem own_fresh (w : String) (log : List Rec) (seen : List String) (n : Nat) (ha : ∀ x ∈ log, x.worker ∈ seen)
    (hw : seen.contains w = false) : own w (log.drop n) = 0 := by
  unfold own
  rw [List.countP_eq_zero]
  intro x hx
  have := ha x (List.mem_of_mem_drop hx)
  intro hxw
  have e : x.worker = w := by simpa using hxw
  rw [e] at this
  have : seen.contains w = true := by simpa using this
  rw [hw] at this; cases this

theorem k_setRep_fresh (w w' : String) (s : Sys) (seen : List String) (p : Nat) (st0 : JState) (hk : K w s seen p)
    (hok : seen.contains w' = false) : K w (s.setRep w' st0) (w' :: seen) p := by
  obtain ⟨hm1, hm2⟩ := k_mono w s seen w' p hk
  refine ⟨hm1, ?_, ?_⟩
  · intro q hq
    rcases mem_setRep s w' _ q hq with e | e
    · rw [e]; exact List.mem_cons_self
    · exact hm2 q e
  · intro st hst
    cases hww : w' == w with
    | false => rw [rep?_setRep_ne s w w' _ hww] at hst; exact hk.2.2 st hst
    | true =>
      have e : w' = w := by simpa using hww
      subst e
      show own w' ((s.setRep w' st0).log.drop st.cursor) ≤ p
      have : (s.setRep w' st0).log = s.log := rfl
      rw [this, own_fresh w' s.log seen _ hk.1 hok]; omega

theorem k_step (w : String) (s : Sys) (seen : List String) (p : Nat) (e : Ev) (hk : K w s seen p) (hI : Inv s)
    (hok : okEv seen e = true) : K w (stepEv s e) (seenStep seen e) (pendStep w p e) := by
  cases e with
  | append w' op => exact k_append w w' op s seen p hk hI
  | sync w' => exact k_sync w w' s seen p hk hI
  | call w' op =>
    have h1 := k_sync w w' _ seen _ (k_append w w' op s seen p hk hI) (inv_append s w' op hI)
    have : (if (w' == w) = true then (if (w' == w) = true then p + 1 else p) - 1 else if (w' == w) = true then p + 1 else p) = p := by
      split <;> omega
    rw [this] at h1
    exact h1
  | snapshot w' =>
    simp only [stepEv, seenStep, pendStep]
    split
    · exact hk
    · exact hk
  | crash w' =>
    simp only [stepEv, seenStep, pendStep]
    refine ⟨hk.1, ?_, ?_⟩
    · intro q hq
      simp only [List.mem_filter] at hq
      exact hk.2.1 q hq.1
    · intro st hst
      exact hk.2.2 st (rep?_crash s w w' st hst)
  | join w' =>
    have hc : seen.contains w' = false := by simpa [okEv] using hok
    simp only [stepEv, seenStep, pendStep]
    split
    · rename_i st' hl
      exfalso
      have := hk.2.1 _ (rep?_mem s w' st' hl)
      have : seen.contains w' = true := by simpa using this
      rw [hc] at this; cases this
    · exact k_setRep_fresh w w' s seen p _ hk hc
  | restore w' k =>
    have hc : seen.contains w' = false := by simpa [okEv] using hok
    simp only [stepEv, seenStep, pendStep]
    split
    · exact k_setRep_fresh w w' s seen p _ hk hc
    · obtain ⟨hm1, hm2⟩ := k_mono w s seen w' p hk
      exact ⟨hm1, hm2, hk.2.2⟩

theorem k_run (w : String) (evs : List Ev) : ∀ (s : Sys) (seen : List String) (p : Nat), K w s seen p → Inv s →
    freshFrom seen evs = true → ∃ seen', K w (run s evs) seen' (evs.foldl (pendStep w) p) := by
  induction evs with
  | nil => intro s seen p hk _ _; exact ⟨seen, hk⟩
  | cons e rest ih =>
    intro s seen p hk hI hf
    rw [freshFrom_cons, Bool.and_eq_true] at hf
    exact ih _ _ _ (k_step w s seen p e hk hI hf.1) (inv_step s e hI) hf.2

/-- **hpre_invariant**: in every run in which worker ids are never re-used (`FreshIds`: each `JournalStorage` object
draws a fresh uuid4), every live worker `w` that is between calls (`pending w evs = 0`: each of its `append`s has been
followed by its `sync`, as every public writer does before it returns) has read every record of its own: the part of
the log beyond its cursor contains no record issued by `w` -/
theorem hpre_invariant (evs : List Ev) (hf : FreshIds evs = true) (w : String) (st : JState)
    (h : (run Sys.init evs).rep? w = some st) (hp : pending w evs = 0) :
    ∀ x ∈ (run Sys.init evs).log.drop st.cursor, (x.worker == w) = false := by
  have hk0 : K w Sys.init [] 0 :=
    ⟨by intro x hx; simp [Sys.init] at hx, by intro q hq; simp [Sys.init] at hq, by intro st hst; simp [Sys.init, Sys.rep?] at hst⟩
  obtain ⟨seen', hk⟩ := k_run w evs Sys.init [] 0 hk0 inv_init hf
  have := hk.2.2 st h
  unfold pending at hp
  rw [hp] at this
  have h0 : own w ((run Sys.init evs).log.drop st.cursor) = 0 := by omega
  unfold own at h0
  rw [List.countP_eq_zero] at h0
  intro x hx
  simpa using h0 x hx

/-- **ack_is_contract_answer_run** — `ack_is_contract_answer_run_partial` without `hpre`, for runs with `FreshIds` and a
worker that is between calls -/
theorem ack_is_contract_answer_run (evs : List Ev) (hf : FreshIds evs = true) (w : String) (st : JState) (op : Op) (r : Rec)
    (h : (run Sys.init evs).rep? w = some st) (hp : pending w evs = 0) (hr : issue w op = some r) :
    let log := (run Sys.init evs).log
    let res := sync w st (log ++ [r]) (log ++ [r]).length
    let cop := C06FrontGen.withRaised op (rejects (fresh log) r == some .valueError)
    (stepEv (run Sys.init evs) (.call w op)).rep? w = some res.1 ∧
    res.2 = errOf (Storage.step (fresh log) cop).2 ∧
    (res.2 = none →
      res.1.spec = (Storage.step (fresh log) cop).1 ∧ res.1.cursor = (log ++ [r]).length ∧
      (∀ sid t b, op = .createTrial sid t b → res.1.lastCreated = some (fresh log).trials.length)) :=
  ack_is_contract_answer_run_partial evs w st op r h hr (hpre_invariant evs hf w st h hp)

/-- **sync_between_calls_reads_all**: in a `FreshIds` run, the sync of a worker that is between calls (what every getter
does first, under its lock) raises nothing, reads the whole log, and leaves the replica at the fresh replay of the
whole log -/
theorem sync_between_calls_reads_all (evs : List Ev) (hf : FreshIds evs = true) (w : String) (st : JState)
    (h : (run Sys.init evs).rep? w = some st) (hp : pending w evs = 0) :
    let log := (run Sys.init evs).log
    let res := sync w st log log.length
    (stepEv (run Sys.init evs) (.sync w)).rep? w = some res.1 ∧ res.2 = none ∧
    res.1.spec = fresh log ∧ res.1.cursor = log.length := by
  intro log res
  have hpre := hpre_invariant evs hf w st h hp
  have hI := inv_run Sys.init evs inv_init
  have hs := hI.1 _ (rep?_mem _ w st h)
  have hres : res = (applyAll w st (log.drop st.cursor), none) := by
    show sync w st log log.length = _
    unfold sync
    rw [List.take_length]
    have := applyLogs_append_foreign w st (log.drop st.cursor) [] hpre
    rw [List.append_nil] at this
    rw [this]; rfl
  refine ⟨?_, by rw [hres], ?_, ?_⟩
  · simp only [stepEv, doSync, h]
    exact rep?_setRep_self _ w _
  · rw [hres]
    show (applyAll w st (log.drop st.cursor)).spec = fresh log
    rw [(C06.applyAll_pub w st _).1, hs.2]
    unfold fresh; rw [← C06.pubReplay_append, List.take_append_drop]
  · rw [hres]
    show (applyAll w st (log.drop st.cursor)).cursor = log.length
    have hle : st.cursor ≤ log.length := hs.1
    rw [(C06.applyAll_pub w st _).2, List.length_drop]; omega

/-- a disciplined run stays disciplined: after a `call` the caller is between calls again -/
theorem pending_call (w : String) (evs : List Ev) (op : Op) : pending w (evs ++ [.call w op]) = pending w evs := by
  simp [pending, List.foldl_append, pendStep]

example : FreshIds demoRun = true := by decide
example : pending "A" demoRun = 0 ∧ pending "C" demoRun = 0 ∧ pending "D" demoRun = 0 := by decide
/-- B appended and crashed before its sync: it is not between calls -/
example : pending "B" (demoRun.take 9) = 1 := by decide
/-- re-using the id of the crashed B is what `FreshIds` excludes -/
example : FreshIds (demoRun ++ [.join "B"]) = false := by decide
/-- and it is needed: B re-joined finds its old unread record -/
example : ((run Sys.init (demoRun ++ [.join "B"])).rep? "B").map
    (fun st => ((run Sys.init (demoRun ++ [.join "B"])).log.drop st.cursor).any (fun x => x.worker == "B")) = some true := by decide

end OptunaVerif.C06Run
