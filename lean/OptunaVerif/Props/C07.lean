import OptunaVerif.Lemmas.JournalFile
/-!
# C07 — the journal file reader returns exactly the complete records and keeps its offset cache true

`readLoop` is the loop of `JournalFileBackend.read_logs` (size snapshot, seek by cached offset,
per-line bookkeeping, tolerated bad last line).  The theorems hold for every file whose lines are
complete valid records except possibly the last one (what the appender protocol with the tail repair
guarantees — see C05), every size snapshot, every starting record and every consistent cache.
-/
namespace OptunaVerif.C07
open OptunaVerif OptunaVerif.JournalFile

/-- the lines of a file produced by the appender protocol: every terminated line is a valid record
(no glued or garbage lines) and only the last line may be unterminated (in flight / torn) -/
def WF (all : List Line) : Prop :=
  (∀ (i : Nat) (ln : Line), all[i]? = some ln → ln.terminated = true → ln.valid = true) ∧
  (∀ (i : Nat) (ln : Line), all[i]? = some ln → i + 1 < all.length → ln.terminated = true)

/-- every cached entry is the true byte offset of its record, and all records before it are complete -/
def Consistent (all : List Line) (c : Cache) : Prop :=
  ∀ k o, c.get? k = some o → k ≤ all.length ∧ o = offsetOf all k ∧
    ∀ j ln, j < k → all[j]? = some ln → Complete ln = true

theorem consistent_set (all : List Line) (c : Cache) (k : Nat) (h : Consistent all c)
    (hk : k ≤ all.length) (hc : ∀ j ln, j < k → all[j]? = some ln → Complete ln = true) :
    Consistent all (c.set k (offsetOf all k)) := by
  intro k' o hget
  rw [get?_set] at hget
  split at hget
  · rename_i e
    subst e
    simp only [Option.some.injEq] at hget
    exact ⟨hk, hget.symm, hc⟩
  · exact h k' o hget

theorem consistent_del (all : List Line) (c : Cache) (k : Nat) (h : Consistent all c) :
    Consistent all (c.del k) := by
  intro k' o hget
  rw [get?_del] at hget
  split at hget
  · simp at hget
  · exact h k' o hget

/-- deleting the only possibly-wrong entry restores consistency -/
theorem consistent_del_of_set (all : List Line) (c : Cache) (k o : Nat) (h : Consistent all c) :
    Consistent all ((c.set k o).del k) := by
  intro k' o' hget
  rw [get?_del] at hget
  split at hget
  · simp at hget
  · rename_i hne
    rw [get?_set, if_neg hne] at hget
    exact h k' o' hget

/-- **The reader theorem.**  Started at line number `n` of the file (`rest` = the lines from `n` on),
with `remaining` = snapshot size minus the offset of line `n` and a consistent cache that knows line
`n`, the loop returns — never raises — the line numbers `max n from_ … m-1` for some `m`, all of
them complete records lying inside the snapshot, `m` being the first line that is incomplete or
crosses the snapshot (or the end of the file); and the cache it leaves is consistent. -/
theorem readLoop_spec (all : List Line) (hwf : WF all) (from_ size : Nat) :
    ∀ (rest pre : List Line) (n : Nat) (cache : Cache) (acc : List Nat),
      all = pre ++ rest → pre.length = n → Consistent all cache →
      cache.get? n = some (offsetOf all n) →
      (∀ j ln, j < n → all[j]? = some ln → Complete ln = true) →
      ∃ m cache', readLoop from_ rest n ((size : Int) - offsetOf all n) false cache acc =
          .ok (acc.reverse ++ List.range' (max n from_) (m - max n from_)) cache' ∧
        n ≤ m ∧ m ≤ all.length ∧ Consistent all cache' ∧
        (∀ j ln, n ≤ j → j < m → all[j]? = some ln → Complete ln = true ∧ offsetOf all (j + 1) ≤ size) ∧
        (∀ ln, all[m]? = some ln → Complete ln = false ∨ size < offsetOf all (m + 1)) := by
  intro rest
  induction rest with
  | nil =>
    intro pre n cache acc hall hlen hcons _ _
    refine ⟨n, cache, by simp [readLoop]; omega, Nat.le_refl _, ?_, hcons, ?_, ?_⟩
    · rw [hall]; simp [hlen]
    · intro j ln h1 h2; omega
    · intro ln hget
      have : all.length = n := by rw [hall]; simp [hlen]
      rw [List.getElem?_eq_none (by omega)] at hget
      simp at hget
  | cons ln rest ih =>
    intro pre n cache acc hall hlen hcons hn hpre
    have hget : all[n]? = some ln := by
      rw [hall, List.getElem?_append_right (by omega)]; simp [hlen]
    have hlt : n < all.length := by rw [hall]; simp [hlen]
    have hoff := offsetOf_succ all n ln hget
    have hrem : (size : Int) - offsetOf all n - ln.len = (size : Int) - offsetOf all (n + 1) := by
      rw [hoff]; push_cast; omega
    have hall' : all = (pre ++ [ln]) ++ rest := by rw [hall]; simp
    have hlen' : (pre ++ [ln]).length = n + 1 := by simp [hlen]
    simp only [readLoop]
    by_cases hneg : (size : Int) - offsetOf all n - ln.len < 0
    · -- the line crosses the snapshot: stop here
      simp only [hneg, if_true]
      refine ⟨n, cache, by simp; omega, Nat.le_refl _, Nat.le_of_lt hlt, hcons, ?_, ?_⟩
      · intro j l h1 h2; omega
      · intro l hl
        rw [hget] at hl
        simp only [Option.some.injEq] at hl
        subst hl
        right
        rw [hrem] at hneg
        omega
    · simp only [hneg, if_false, Bool.false_eq_true]
      have hfit : offsetOf all (n + 1) ≤ size := by rw [hrem] at hneg; omega
      -- the cache after the bookkeeping step knows line n+1 at its true offset
      obtain ⟨cache1, hc1, hc1get, hc1cons⟩ : ∃ cache1,
          (if (cache.get? (n + 1)).isSome then some cache
            else (cache.get? n).map (fun o => cache.set (n + 1) (o + ln.len))) = some cache1 ∧
          cache1.get? (n + 1) = some (offsetOf all (n + 1)) ∧
          (Complete ln = true → Consistent all cache1) ∧
          True := by
        by_cases hs : (cache.get? (n + 1)).isSome = true
        · obtain ⟨o, ho⟩ := Option.isSome_iff_exists.1 hs
          have := hcons (n + 1) o ho
          refine ⟨cache, by simp [hs], by rw [ho, this.2.1], fun _ => hcons, trivial⟩
        · refine ⟨cache.set (n + 1) (offsetOf all n + ln.len), by simp [hs, hn], ?_, ?_, trivial⟩
          · rw [get?_set, if_pos rfl, hoff]
          · intro hcomp
            rw [← hoff]
            refine consistent_set all cache (n + 1) hcons hlt ?_
            intro j l hj hl
            rcases Nat.lt_or_ge j n with h1 | h1
            · exact hpre j l h1 hl
            · have : j = n := by omega
              subst this
              rw [hget] at hl
              simp only [Option.some.injEq] at hl
              subst hl; exact hcomp
      simp only [hc1]
      by_cases hterm : ln.terminated = true
      · have hvalid : ln.valid = true := hwf.1 n ln hget hterm
        have hcomp : Complete ln = true := by simp [Complete, hterm, hvalid]
        have hcons1 := hc1cons.1 hcomp
        have hpre' : ∀ j l, j < n + 1 → all[j]? = some l → Complete l = true := by
          intro j l hj hl
          rcases Nat.lt_or_ge j n with h1 | h1
          · exact hpre j l h1 hl
          · have : j = n := by omega
            subst this
            rw [hget] at hl
            simp only [Option.some.injEq] at hl
            subst hl; exact hcomp
        simp only [hterm, Bool.not_true, Bool.false_eq_true, if_false]
        by_cases hlow : n < from_
        · -- a record before the requested one: skipped, offset remembered
          simp only [hlow, if_true]
          obtain ⟨m, cache', hres, h1, h2, h3, h4, h5⟩ :=
            ih (pre ++ [ln]) (n + 1) cache1 acc hall' hlen' hcons1 hc1get hpre'
          refine ⟨m, cache', ?_, by omega, h2, h3, ?_, h5⟩
          · rw [hrem, hres]
            have e1 : max (n + 1) from_ = from_ := by omega
            have e2 : max n from_ = from_ := by omega
            rw [e1, e2]
          · intro j l hj1 hj2 hl
            rcases Nat.lt_or_ge n j with hh | hh
            · exact h4 j l (by omega) hj2 hl
            · have : j = n := by omega
              subst this
              rw [hget] at hl
              simp only [Option.some.injEq] at hl
              subst hl
              exact ⟨hcomp, hfit⟩
        · -- a requested record: returned
          simp only [hlow, if_false, hvalid, if_true]
          obtain ⟨m, cache', hres, h1, h2, h3, h4, h5⟩ :=
            ih (pre ++ [ln]) (n + 1) cache1 (n :: acc) hall' hlen' hcons1 hc1get hpre'
          refine ⟨m, cache', ?_, by omega, h2, h3, ?_, h5⟩
          · rw [hrem, hres]
            have e1 : max (n + 1) from_ = n + 1 := by omega
            have e2 : max n from_ = n := by omega
            rw [e1, e2]
            have e3 : m - n = (m - (n + 1)) + 1 := by omega
            rw [e3, List.range'_succ]
            simp
          · intro j l hj1 hj2 hl
            rcases Nat.lt_or_ge n j with hh | hh
            · exact h4 j l (by omega) hj2 hl
            · have : j = n := by omega
              subst this
              rw [hget] at hl
              simp only [Option.some.injEq] at hl
              subst hl
              exact ⟨hcomp, hfit⟩
      · -- an unterminated line: by well-formedness it is the last one; it is dropped, its offset forgotten
        have hterm' : ln.terminated = false := by simpa using hterm
        simp only [hterm', Bool.not_false, if_true]
        have hlast : rest = [] := by
          cases rest with
          | nil => rfl
          | cons x xs =>
            have : n + 1 < all.length := by rw [hall]; simp [hlen]
            have := hwf.2 n ln hget this
            rw [hterm'] at this; simp at this
        subst hlast
        refine ⟨n, cache1.del (n + 1), by simp [readLoop]; omega, Nat.le_refl _, Nat.le_of_lt hlt, ?_, ?_, ?_⟩
        · -- cache1 is `cache` or `cache.set (n+1) _`
          by_cases hs : (cache.get? (n + 1)).isSome = true
          · have : cache1 = cache := by simpa [hs] using hc1.symm
            rw [this]; exact consistent_del all cache (n + 1) hcons
          · have : cache1 = cache.set (n + 1) (offsetOf all n + ln.len) := by
              simpa [hs, hn] using hc1.symm
            rw [this]; exact consistent_del_of_set all cache (n + 1) _ hcons
        · intro j l h1 h2; omega
        · intro l hl
          rw [hget] at hl
          simp only [Option.some.injEq] at hl
          subst hl
          left; simp [Complete, hterm']

/-! ### consequences, in the words of the property -/

/-- `read_logs(k)` on a well-formed file, from a consistent cache that knows record `k`'s offset,
returns exactly records `k … m-1` (contiguous, in order, never a partly written one), where `m`
covers every complete record that lies inside the size snapshot, and leaves a consistent cache. -/
theorem read_returns_contiguous_complete (all : List Line) (hwf : WF all) (k size off : Nat) (cache : Cache)
    (hcons : Consistent all cache) (hk : cache.get? k = some off) :
    ∃ m cache', readLogs size cache k (fun o => if o = offsetOf all k then all.drop k else []) =
        .ok (List.range' k (m - k)) cache' ∧ k ≤ m ∧ m ≤ all.length ∧ Consistent all cache' ∧
      (∀ j ln, k ≤ j → j < m → all[j]? = some ln → Complete ln = true ∧ offsetOf all (j + 1) ≤ size) ∧
      (∀ ln, all[m]? = some ln → Complete ln = false ∨ size < offsetOf all (m + 1)) := by
  obtain ⟨hkle, hoff, hpre⟩ := hcons k off hk
  subst hoff
  unfold readLogs
  simp only [hk, if_true]
  obtain ⟨m, cache', hres, h1, h2, h3, h4, h5⟩ :=
    readLoop_spec all hwf k size (all.drop k) (all.take k) k cache [] (by simp)
      (by simp [Nat.min_eq_left hkle]) hcons hk hpre
  refine ⟨m, cache', ?_, h1, h2, h3, h4, h5⟩
  rw [hres]; simp

/-- A cold reader (offset of `k` unknown) scans from the start and returns the same records. -/
theorem read_cold_returns_contiguous_complete (all : List Line) (hwf : WF all) (k size : Nat) (cache : Cache)
    (hcons : Consistent all cache) (hk : cache.get? k = none) (h0 : cache.get? 0 = some 0) :
    ∃ m cache', readLogs size cache k (fun o => if o = 0 then all else []) =
        .ok (List.range' (max 0 k) (m - max 0 k)) cache' ∧ m ≤ all.length ∧ Consistent all cache' ∧
      (∀ j ln, j < m → all[j]? = some ln → Complete ln = true ∧ offsetOf all (j + 1) ≤ size) ∧
      (∀ ln, all[m]? = some ln → Complete ln = false ∨ size < offsetOf all (m + 1)) := by
  unfold readLogs
  simp only [hk, if_true]
  have hoff0 : offsetOf all 0 = 0 := by simp [offsetOf]
  obtain ⟨m, cache', hres, _, h2, h3, h4, h5⟩ :=
    readLoop_spec all hwf k size all [] 0 cache [] (by simp) rfl hcons (by rw [hoff0]; exact h0)
      (by intro j ln hj; omega)
  refine ⟨m, cache', ?_, h2, h3, fun j ln hj => h4 j ln (Nat.zero_le _) hj, h5⟩
  rw [hoff0] at hres
  simpa using hres

/-! ### non-vacuity -/

def demoFile : List Line :=
  [⟨24, true, true⟩, ⟨30, true, true⟩, ⟨7, false, false⟩]     -- two records and a torn tail

theorem demoFile_get (i : Nat) (ln : Line) (h : demoFile[i]? = some ln) :
    (i = 0 ∧ ln = ⟨24, true, true⟩) ∨ (i = 1 ∧ ln = ⟨30, true, true⟩) ∨ (i = 2 ∧ ln = ⟨7, false, false⟩) := by
  match i, h with
  | 0, h => left; simp [demoFile] at h; exact ⟨rfl, h.symm⟩
  | 1, h => right; left; simp [demoFile] at h; exact ⟨rfl, h.symm⟩
  | 2, h => right; right; simp [demoFile] at h; exact ⟨rfl, h.symm⟩
  | i + 3, h => simp [demoFile] at h

example : WF demoFile := by
  refine ⟨?_, ?_⟩
  · intro i ln h ht
    rcases demoFile_get i ln h with ⟨_, e⟩ | ⟨_, e⟩ | ⟨_, e⟩ <;> subst e <;> simp at ht ⊢
  · intro i ln h hlt
    rcases demoFile_get i ln h with ⟨_, e⟩ | ⟨_, e⟩ | ⟨hi, e⟩
    · subst e; rfl
    · subst e; rfl
    · subst hi; simp [demoFile] at hlt
example : readLoop 1 demoFile 0 61 false [(0, 0)] [] = .ok [1] [(2, 54), (1, 24), (0, 0)] := by decide
example : readLoop 0 demoFile 0 30 false [(0, 0)] [] = .ok [0] [(1, 24), (0, 0)] := by decide

end OptunaVerif.C07
