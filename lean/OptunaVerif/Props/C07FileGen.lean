import OptunaVerif.Lemmas.FileIR
import OptunaVerif.Props.C07
import OptunaVerif.Props.C05
import OptunaVerif.Props.C07Lock
/-!
# C07 / C05 (translator tie) — `optuna/storages/journal/_file.py` *as written in the source today* is the hand models

`Generated/JournalFileMethods.lean` is regenerated on every run by `verif/translators/tfile.py`:
`JournalFileBackend.read_logs` (statements before the loop + loop body), `append_logs` (+ `get_lock_file`;
flattened step sequence), `JournalFileSymlinkLock` / `JournalFileOpenLock` (`acquire`, `release` as statement
trees) — data of the languages of `Model/FileIR.lean`.

Proved here for **all** inputs (no bound, no sampling):
* reader: the interpreter of the generated loop body is `JournalFile.readLoop`, the interpreter of the whole
  method is `JournalFile.readLogs` (`read_*_generated_eq_model`); the reader theorems of `Props/C07.lean` restated
  for the interpreter (`gen_read_*`);
* appender: the interpreter of the generated step sequence leaves the file `repair f ++ record ++ [nl]`, its
  effects on file and lock are exactly the hand model's (truncate to the repaired length only when there is
  a torn tail, ONE append of the joined buffer through an `O_APPEND` handle, `fsync` after everything was
  flushed, inside the lock), the acts it stands for are `acquire; repair; writeByte…; release`, and after every
  prefix of the steps (death of the writer) file and lock are those of the hand model (`append_*_eq_model`);
  `ack_durable`, `interrupted_all_or_nothing`, `repair_clears_torn_tail` of `Props/C05.lean` restated (`gen_*`);
* lock classes: one call of the interpreter of the generated class is one call of `FileLock.stepW` at every
  program point, hence the generated classes run exactly like the hand model under every schedule
  (`lock_*_generated_eq_model`); `mutual_exclusion`, `release_only_own_lock`, `punctual_schedule_safe` of
  `Props/C07Lock.lean` restated for the interpreter's own run (`gen_*`).

A source edit that changes an order, a guard, which handle is written through, which call samples the mtime,
where a timer is (re)started … changes the generated data and a NAMED theorem below no longer checks; the
driver `filegen` runs interpreter and hand model side by side and supplies the concrete input.
-/
namespace OptunaVerif.C07FileGen
open OptunaVerif OptunaVerif.JournalFile OptunaVerif.FileIR OptunaVerif.Generated.JournalFileMethods

/-! ## 1. `read_logs` -/

/-- the loop body of `read_logs` as written today is the hand model's `readLoop` (remaining-size snapshot
first, pending error raised next, offset cached, **newline check before the skip of records below
`log_number_from`** (F20b), decode error only tolerated on the last line) -/
theorem read_loop_generated_eq_model (from_ : Nat) (lines : List Line) (n : Nat) (s : RIter) :
    interpLoop readLogsProg.body from_ lines n s = readLoop from_ lines n s.remaining s.pending s.cache s.acc :=
  read_loop_eq from_ lines n s

example : interpLoop readLogsProg.body 1 C07.demoFile 0
    { remaining := 61, pending := false, cache := [(0, 0)], acc := [], byteLen := none } =
    .ok [1] [(2, 54), (1, 24), (0, 0)] := by rw [read_loop_generated_eq_model]; decide

/-- `read_logs` as written today (size snapshot, cache lookup, seek, loop, `return logs`) is `JournalFile.readLogs` -/
theorem read_logs_generated_eq_model (size : Nat) (cache : Cache) (from_ : Nat) (linesFrom : Nat → List Line) :
    interpRead readLogsProg size cache from_ linesFrom = JournalFile.readLogs size cache from_ linesFrom :=
  read_eq size cache from_ linesFrom

example : interpRead readLogsProg 61 [(1, 24), (0, 0)] 1 (fun o => if o = 24 then C07.demoFile.drop 1 else []) =
    .ok [1] [(2, 54), (1, 24), (0, 0)] := by rw [read_logs_generated_eq_model]; decide

/-- `C07.read_returns_contiguous_complete` for the interpreter of the generated method -/
theorem gen_read_returns_contiguous_complete (all : List Line) (hwf : C07.WF all) (k size off : Nat) (cache : Cache)
    (hcons : C07.Consistent all cache) (hk : cache.get? k = some off) :
    ∃ m cache', interpRead readLogsProg size cache k (fun o => if o = offsetOf all k then all.drop k else []) =
        .ok (List.range' k (m - k)) cache' ∧ k ≤ m ∧ m ≤ all.length ∧ C07.Consistent all cache' ∧
      (∀ j ln, k ≤ j → j < m → all[j]? = some ln → Complete ln = true ∧ offsetOf all (j + 1) ≤ size) ∧
      (∀ ln, all[m]? = some ln → Complete ln = false ∨ size < offsetOf all (m + 1)) := by
  rw [read_logs_generated_eq_model]
  exact C07.read_returns_contiguous_complete all hwf k size off cache hcons hk

/-- `C07.read_cold_returns_contiguous_complete` for the interpreter of the generated method -/
theorem gen_read_cold_returns_contiguous_complete (all : List Line) (hwf : C07.WF all) (k size : Nat) (cache : Cache)
    (hcons : C07.Consistent all cache) (hk : cache.get? k = none) (h0 : cache.get? 0 = some 0) :
    ∃ m cache', interpRead readLogsProg size cache k (fun o => if o = 0 then all else []) =
        .ok (List.range' (max 0 k) (m - max 0 k)) cache' ∧ m ≤ all.length ∧ C07.Consistent all cache' ∧
      (∀ j ln, j < m → all[j]? = some ln → Complete ln = true ∧ offsetOf all (j + 1) ≤ size) ∧
      (∀ ln, all[m]? = some ln → Complete ln = false ∨ size < offsetOf all (m + 1)) := by
  rw [read_logs_generated_eq_model]
  exact C07.read_cold_returns_contiguous_complete all hwf k size cache hcons hk h0

/-! ## 2. `append_logs` -/

section Appender
open OptunaVerif.JournalAppend

/-- the `rb+` block of `append_logs` as written today (seek to the end, scan back to the last newline,
truncate if something follows it) is the hand model's `repair` (F9) -/
theorem append_repair_generated_eq_model (f r : List Nat) :
    (aRun r (upToCloseRW appendLogsSteps) (aInit f)).file = repair f ∧
    (aRun r (upToCloseRW appendLogsSteps) (aInit f)).ok = true ∧
    (aRun r (upToCloseRW appendLogsSteps) (aInit f)).h = none :=
  repair_block_eq f r

example : (aRun [1] (upToCloseRW appendLogsSteps) (aInit [5, 10, 7, 8])).file = [5, 10] := by decide

/-- `C05.repair_clears_torn_tail` for the interpreter: after the generated repair block nothing of an
interrupted write is left and no complete record is touched -/
theorem gen_repair_clears_torn_tail (f r : List Nat) :
    JournalAppend.tail (aRun r (upToCloseRW appendLogsSteps) (aInit f)).file = [] ∧
    records (aRun r (upToCloseRW appendLogsSteps) (aInit f)).file = records f := by
  rw [(append_repair_generated_eq_model f r).1]
  exact C05.repair_clears_torn_tail f

/-- the file after `append_logs` as written today: the repaired file followed by the whole record and its
newline; every step had what it needed; the lock is released, no handle is left open -/
theorem append_file_generated_eq_model (f r : List Nat) :
    (aRun r appendLogsSteps (aInit f)).file = repair f ++ (r ++ [nl]) ∧
    (aRun r appendLogsSteps (aInit f)).ok = true ∧ (aRun r appendLogsSteps (aInit f)).locked = false ∧
    (aRun r appendLogsSteps (aInit f)).h = none :=
  append_file_eq f r

example : (aRun [1, 2] appendLogsSteps (aInit [5, 10, 7, 8])).file = [5, 10, 1, 2, 10] := by decide

/-- what reaches the file and the lock, in order, is the hand model's appender: lock; truncate to the
repaired length (only if there is a torn tail); ONE `O_APPEND` write of `record ++ [nl]` (not a positional
write through the `rb+` handle); `fsync` with nothing left in a user-space buffer; unlock -/
theorem append_effects_generated_eq_model (f r : List Nat) :
    (aRun r appendLogsSteps (aInit f)).effs.reverse = modelEffects f r :=
  append_effects_eq f r

example : (aRun [1, 2] appendLogsSteps (aInit [5, 10, 7, 8])).effs.reverse =
    [.lock, .truncateTo 2, .append [1, 2, 10], .sync true, .unlock] := by decide

/-- the acts of `Model/JournalAppend.lean` the generated steps stand for -/
theorem append_acts_generated_eq_model (w : Nat) (f r : List Nat) :
    actsOfRun w r appendLogsSteps (aInit f) =
      [.acquire w r, .repair w] ++ List.replicate (r.length + 1) (.writeByte w) ++ [.release w] :=
  append_acts_eq w f r

example : actsOfRun 0 [1] appendLogsSteps (aInit [5]) = [.acquire 0 [1], .repair 0, .writeByte 0, .writeByte 0, .release 0] := by rfl

/-- **death of the writer after any step**: after the first `k` generated steps the file and the lock are
those of the hand model after the acts these steps stand for -/
theorem append_prefix_generated_eq_model (k : Nat) (f : List Nat) (a : List (List Nat)) (ws : List Worker) (w : Nat)
    (wk : Worker) (r : List Nat) (hw : ws[w]? = some wk) (hd : wk.dead = false) (hs : wk.stage = none)
    (hr : r.contains nl = false) :
    (JournalAppend.run { file := f, lock := none, ws := ws, acked := a }
        (actsOfRun w r (appendLogsSteps.take k) (aInit f))).file = (aRun r (appendLogsSteps.take k) (aInit f)).file ∧
    ((JournalAppend.run { file := f, lock := none, ws := ws, acked := a }
        (actsOfRun w r (appendLogsSteps.take k) (aInit f))).lock = some w ↔
      (aRun r (appendLogsSteps.take k) (aInit f)).locked = true) :=
  append_prefix_sim k f a ws w wk r hw hd hs hr

example : (aRun [1, 2] (appendLogsSteps.take 8) (aInit [5, 10, 7, 8])).file = [5, 10] ∧
    (aRun [1, 2] (appendLogsSteps.take 10) (aInit [5, 10, 7, 8])).locked = true := by decide

/-- `C05.interrupted_all_or_nothing` for the interpreter: whatever step the writer dies after, the complete
records of the file are the old ones, or the old ones plus the whole new record -/
theorem gen_interrupted_all_or_nothing (k : Nat) (f r : List Nat) (hr : nl ∉ r) :
    records (aRun r (appendLogsSteps.take k) (aInit f)).file = records f ∨
    records (aRun r (appendLogsSteps.take k) (aInit f)).file = records f ++ [r] := by
  rcases append_prefix_file k f r with h | h | h
  · left; rw [h]
  · left; rw [h]; exact (records_repair f).1
  · right; rw [h]; exact (records_after_append f r hr).1

example : records (aRun [1, 2] (appendLogsSteps.take 9) (aInit [5, 10, 7, 8])).file = [[5]] := by decide

/-- `C05.ack_durable` for the interpreter: after any history `pre` of the hand model that leaves the lock free
and worker `w` idle and alive, the record appended by the generated `append_logs` is a complete line of the
file in every later state — whatever the other workers do, whoever dies wherever, however often the lock is
taken over -/
theorem gen_ack_durable (n : Nat) (pre more : List Act) (w : Nat) (wk : Worker) (r : List Nat)
    (hlock : (JournalAppend.run (JournalAppend.init n) pre).lock = none)
    (hw : (JournalAppend.run (JournalAppend.init n) pre).ws[w]? = some wk) (hd : wk.dead = false)
    (hs : wk.stage = none) (hr : r.contains nl = false) :
    r ∈ records (JournalAppend.run (JournalAppend.run (JournalAppend.init n)
        (pre ++ actsOfRun w r appendLogsSteps (aInit (JournalAppend.run (JournalAppend.init n) pre).file))) more).file := by
  apply C05.ack_durable
  rw [append_acts_generated_eq_model]
  simp only [JournalAppend.run, List.foldl_append]
  have key := hand_append (JournalAppend.run (JournalAppend.init n) pre).file (JournalAppend.run (JournalAppend.init n) pre).acked
    (JournalAppend.run (JournalAppend.init n) pre).ws w wk r hw hd hs hr
  have hst : JournalAppend.run (JournalAppend.init n) pre =
      { file := (JournalAppend.run (JournalAppend.init n) pre).file, lock := none,
        ws := (JournalAppend.run (JournalAppend.init n) pre).ws, acked := (JournalAppend.run (JournalAppend.init n) pre).acked } := by
    cases h : JournalAppend.run (JournalAppend.init n) pre with
    | mk file lock ws acked => rw [h] at hlock; simp at hlock; simp [hlock]
  simp only [JournalAppend.run, List.foldl_append] at key hst
  rw [hst, key]
  simp

example : (JournalAppend.run (JournalAppend.init 2) (actsOfRun 0 [1, 2] appendLogsSteps (aInit []))).acked = [[1, 2]] := by decide

end Appender

/-! ## 3. the lock classes -/

section Lock
open OptunaVerif.FileLock

/-- **one call of a generated lock class is one call of the hand model**: at every program point that
exists for the configuration, the interpreter performs the same call with the same outcome, the same effect
on the lock path and on the worker's `mtime` / timer / rename counter, and ends at the control state of the
hand model's next program point.  (`symlink` vs `open(O_CREAT|O_EXCL)` + `close`; `lstat` / `stat` of the lock
file itself — F31; "mtime changed ⇒ restart the timer"; the grace comparison; rename-to-unique + unlink; the
timer restart after a takeover — F29.) -/
theorem lock_step_generated_eq_model (cfg : Cfg) (sh : Shared) (w : Nat) (wk : Worker) (hok : pcOk cfg wk.pc = true) :
    gstepW (lockOf cfg.kind) cfg sh w (embed (lockOf cfg.kind) cfg wk) =
      ((stepW cfg sh w wk).1, embed (lockOf cfg.kind) cfg (stepW cfg sh w wk).2.1, (stepW cfg sh w wk).2.2) :=
  gstepW_eq cfg sh w wk hok

/-- the symlink class and the open class separately (so that a change of one class names that class) -/
theorem symlink_lock_steps_eq_model (g : Option Nat) (sh : Shared) (w : Nat) (wk : Worker) (hok : pcOk ⟨.symlink, g⟩ wk.pc = true) :
    gstepW symlinkLock ⟨.symlink, g⟩ sh w (embed symlinkLock ⟨.symlink, g⟩ wk) =
      ((stepW ⟨.symlink, g⟩ sh w wk).1, embed symlinkLock ⟨.symlink, g⟩ (stepW ⟨.symlink, g⟩ sh w wk).2.1,
       (stepW ⟨.symlink, g⟩ sh w wk).2.2) :=
  gstepW_eq ⟨.symlink, g⟩ sh w wk hok

theorem open_lock_steps_eq_model (g : Option Nat) (sh : Shared) (w : Nat) (wk : Worker) (hok : pcOk ⟨.openExcl, g⟩ wk.pc = true) :
    gstepW openLock ⟨.openExcl, g⟩ sh w (embed openLock ⟨.openExcl, g⟩ wk) =
      ((stepW ⟨.openExcl, g⟩ sh w wk).1, embed openLock ⟨.openExcl, g⟩ (stepW ⟨.openExcl, g⟩ sh w wk).2.1,
       (stepW ⟨.openExcl, g⟩ sh w wk).2.2) :=
  gstepW_eq ⟨.openExcl, g⟩ sh w wk hok

example : pcOk ⟨.symlink, some 2⟩ .tkRestart = true ∧ pcOk ⟨.openExcl, none⟩ .closing = true := by decide

/-- the generated classes run exactly like the hand model under every schedule: read back through
`pcOfCtl` (which call comes next), the interpreter's state is the hand model's -/
theorem lock_run_generated_eq_model (cfg : Cfg) (n : Nat) (evs : List Ev) :
    (grun (lockOf cfg.kind) cfg (gInit (lockOf cfg.kind) cfg n) evs).toSt = run cfg (init n) evs :=
  toSt_grun cfg n evs

example : (grun openLock f13Open.cfg (gInit openLock f13Open.cfg 3) f13Open.evs).toSt.sh.lock = some (2, 3) := by decide

/-- … and every call of every worker has the same outcome -/
theorem lock_trace_generated_eq_model (cfg : Cfg) (n : Nat) (evs : List Ev) :
    gtrace (lockOf cfg.kind) cfg (gInit (lockOf cfg.kind) cfg n) evs = htrace cfg (init n) evs :=
  gtrace_init cfg n evs

example : (gtrace symlinkLock soloTakeoverSymlink.cfg (gInit symlinkLock soloTakeoverSymlink.cfg 2) soloTakeoverSymlink.evs).getLast? =
    some .createOk := by decide

/-- the hypothesis of mutual exclusion evaluated on the interpreter's own run is the hand model's -/
theorem gen_safeSched_eq (cfg : Cfg) (n : Nat) (evs : List Ev) :
    gsafeSched (lockOf cfg.kind) cfg (gInit (lockOf cfg.kind) cfg n) evs = safeSched cfg (init n) evs := by
  rw [gInit_eq]; exact gsafeSched_eq cfg evs (init n) (pcOkSt_init cfg n)

example : gsafeSched openLock f13Open.cfg (gInit openLock f13Open.cfg 3) f13Open.evs = false := by decide

/-- `C07Lock.mutual_exclusion` for the interpreter of the generated lock classes: under every schedule in which
no takeover removes the lock file of a live creator, two live workers that hold (the next call of each is
`close`, the critical section, or the rename of its own release) are the same worker -/
theorem gen_mutual_exclusion (cfg : Cfg) (n : Nat) (evs : List Ev)
    (hsafe : gsafeSched (lockOf cfg.kind) cfg (gInit (lockOf cfg.kind) cfg n) evs = true)
    (w v : Nat) (wk vk : Worker)
    (hw : (grun (lockOf cfg.kind) cfg (gInit (lockOf cfg.kind) cfg n) evs).toSt.ws[w]? = some wk)
    (hv : (grun (lockOf cfg.kind) cfg (gInit (lockOf cfg.kind) cfg n) evs).toSt.ws[v]? = some vk)
    (hwl : wk.dead = false) (hvl : vk.dead = false) (hwh : holding wk.pc = true) (hvh : holding vk.pc = true) : w = v := by
  rw [gen_safeSched_eq] at hsafe
  rw [lock_run_generated_eq_model] at hw hv
  exact C07Lock.mutual_exclusion cfg n evs hsafe w v wk vk hw hv hwl hvl hwh hvh

example : gsafeSched openLock soloTakeoverOpen.cfg (gInit openLock soloTakeoverOpen.cfg 2) soloTakeoverOpen.evs = true ∧
    liveHolders (grun openLock soloTakeoverOpen.cfg (gInit openLock soloTakeoverOpen.cfg 2) soloTakeoverOpen.evs).toSt = [1] := by decide

/-- `C07Lock.release_only_own_lock` for the interpreter: the rename of a live holder's own `release()` finds
the lock file it created, succeeds and removes exactly that file -/
theorem gen_release_only_own_lock (cfg : Cfg) (n : Nat) (evs : List Ev)
    (hsafe : gsafeSched (lockOf cfg.kind) cfg (gInit (lockOf cfg.kind) cfg n) evs = true)
    (w : Nat) (wk : Worker)
    (hw : (grun (lockOf cfg.kind) cfg (gInit (lockOf cfg.kind) cfg n) evs).toSt.ws[w]? = some wk)
    (hlive : wk.dead = false) (hpc : wk.pc = .relRename) :
    (∃ s, (grun (lockOf cfg.kind) cfg (gInit (lockOf cfg.kind) cfg n) evs).sh.lock = some (w, s)) ∧
    (gtrace (lockOf cfg.kind) cfg (gInit (lockOf cfg.kind) cfg n) (evs ++ [.step w])).getLast? = some (.renameOk w) := by
  rw [gen_safeSched_eq] at hsafe
  rw [lock_run_generated_eq_model] at hw
  obtain ⟨⟨s, hs⟩, hlab, _⟩ := C07Lock.release_only_own_lock cfg n evs hsafe w wk hw hlive hpc
  refine ⟨⟨s, ?_⟩, ?_⟩
  · have := congrArg (fun st => st.sh.lock) (lock_run_generated_eq_model cfg n evs)
    simp only [GSt.toSt] at this
    rw [this]; exact hs
  · rw [lock_trace_generated_eq_model]
    rw [htrace_snoc, List.getLast?_concat, hlab]

example : pcOfCtl ((grun openLock ⟨.openExcl, some 2⟩ (gInit openLock ⟨.openExcl, some 2⟩ 2) (stepsOf 0 4)).ws[0]?.map (·.ctl)).get! =
    some .relRename := by decide

/-- `C07Lock.punctual_schedule_safe` for the interpreter (both classes): punctual holders, no tick inside a
waiter's sample→rename window, no concurrent takeovers ⇒ no takeover of a live creator's lock -/
theorem gen_punctual_schedule_safe (cfg : Cfg) (g : Nat) (hg : cfg.grace = some g) (n : Nat) (evs : List Ev)
    (hp : gpunctualSched (lockOf cfg.kind) cfg g (gInit (lockOf cfg.kind) cfg n) evs = true) :
    gsafeSched (lockOf cfg.kind) cfg (gInit (lockOf cfg.kind) cfg n) evs = true := by
  rw [gen_safeSched_eq]
  rw [gInit_eq, gpunctualSched_eq cfg g evs (init n) (pcOkSt_init cfg n)] at hp
  exact C07Lock.punctual_schedule_safe cfg g hg n evs hp

example : gpunctualSched symlinkLock symlinkHandover.cfg 2 (gInit symlinkLock symlinkHandover.cfg 3) symlinkHandover.evs = true ∧
    gpunctualSched openLock f13Open.cfg 2 (gInit openLock f13Open.cfg 3) f13Open.evs = false := by decide

end Lock

end OptunaVerif.C07FileGen
