import OptunaVerif.Lemmas.FileLockTimed
/-!
# C07 / C05 — the file lock: mutual exclusion, release, stale-lock takeover

About `Model/FileLock.lean`: any number of workers, both lock classes (`cfg.kind`), any grace period,
any interleaving of system calls, clock ticks and crashes (`evs : List Ev`), started from `init n`.

The hypothesis of the safety theorems is `safeSched cfg (init n) evs = true`: **no stale-lock takeover
(`rename` inside `acquire`) removes the lock file of a creator who is alive** — a decidable predicate
of the schedule, prefix closed (`safe_prefix`), evaluated by the driver for every schedule of the tie.
It holds for every schedule when `grace_period=None` (`no_grace_every_schedule_safe`).  It cannot be
dropped on today's code: `takeover_race_two_holders_witness` (F13; open lock and symlink lock),
`stalled_waiter_two_holders_witness` (both classes); each of these schedules is replayed on the real code by `verif/props/c07_lock.py` on every run.
-/
namespace OptunaVerif.C07Lock
open OptunaVerif OptunaVerif.FileLock

/-- the invariant behind everything: in every reachable state a live worker between its successful
`symlink` / `open(O_EXCL)` and the `rename` of its own `release()` is the creator of the lock file that
exists at that moment -/
theorem holder_owns_lock (cfg : Cfg) (n : Nat) (evs : List Ev) (hsafe : safeSched cfg (init n) evs = true)
    (w : Nat) (wk : Worker) (hw : (run cfg (init n) evs).ws[w]? = some wk) (hlive : wk.dead = false)
    (hh : holding wk.pc = true) : ∃ s, (run cfg (init n) evs).sh.lock = some (w, s) :=
  inv_run cfg evs (init n) (inv_init n) hsafe w wk hw hlive hh

example : safeSched soloTakeoverOpen.cfg (init 2) soloTakeoverOpen.evs = true ∧
    liveAt soloTakeoverOpen.final holding 1 = true ∧ soloTakeoverOpen.final.sh.lock = some (1, 3) := by decide

/-- **mutual exclusion**: for every number of workers and every schedule without a takeover of a live
creator's lock, two live workers that both hold (created the lock file, have not yet renamed it away —
this contains the critical section) are the same worker -/
theorem mutual_exclusion (cfg : Cfg) (n : Nat) (evs : List Ev) (hsafe : safeSched cfg (init n) evs = true)
    (w v : Nat) (wk vk : Worker)
    (hw : (run cfg (init n) evs).ws[w]? = some wk) (hv : (run cfg (init n) evs).ws[v]? = some vk)
    (hwl : wk.dead = false) (hvl : vk.dead = false)
    (hwh : holding wk.pc = true) (hvh : holding vk.pc = true) : w = v := by
  obtain ⟨s, h1⟩ := holder_owns_lock cfg n evs hsafe w wk hw hwl hwh
  obtain ⟨s', h2⟩ := holder_owns_lock cfg n evs hsafe v vk hv hvl hvh
  rw [h1] at h2
  simp only [Option.some.injEq, Prod.mk.injEq] at h2
  exact h2.1

-- non-vacuity: a contended safe schedule (holder dies, one waiter takes over) that ends with a holder
example : soloTakeoverSymlink.safe = true ∧ liveHolders soloTakeoverSymlink.final = [1] := by decide

/-- the hypothesis speaks about the whole history: it holds for every prefix of a safe schedule … -/
theorem safe_prefix (cfg : Cfg) (n : Nat) (evs : List Ev) (k : Nat) (hsafe : safeSched cfg (init n) evs = true) :
    safeSched cfg (init n) (evs.take k) = true :=
  safeSched_take cfg (init n) evs k hsafe

example : safeSched soloTakeoverOpen.cfg (init 2) (soloTakeoverOpen.evs.take 12) = true := by decide

/-- … so mutual exclusion holds in **every reachable state** of a safe schedule, not only the last -/
theorem mutual_exclusion_every_prefix (cfg : Cfg) (n : Nat) (evs : List Ev)
    (hsafe : safeSched cfg (init n) evs = true) (k : Nat) (w v : Nat) (wk vk : Worker)
    (hw : (run cfg (init n) (evs.take k)).ws[w]? = some wk) (hv : (run cfg (init n) (evs.take k)).ws[v]? = some vk)
    (hwl : wk.dead = false) (hvl : vk.dead = false)
    (hwh : holding wk.pc = true) (hvh : holding vk.pc = true) : w = v :=
  mutual_exclusion cfg n (evs.take k) (safe_prefix cfg n evs k hsafe) w v wk vk hw hv hwl hvl hwh hvh

example : liveHolders (run soloTakeoverOpen.cfg (init 2) (soloTakeoverOpen.evs.take 3)) = [0] := by decide

/-- the same as a count: at most one live worker is inside its critical section -/
theorem at_most_one_live_holder (cfg : Cfg) (n : Nat) (evs : List Ev) (hsafe : safeSched cfg (init n) evs = true) :
    (liveHolders (run cfg (init n) evs)).length ≤ 1 := by
  have hnd : (liveHolders (run cfg (init n) evs)).Nodup := List.Pairwise.filter _ List.nodup_range
  match hl : liveHolders (run cfg (init n) evs) with
  | [] => simp
  | [_] => simp
  | a :: b :: t =>
    exfalso
    rw [hl] at hnd
    have ha : a ∈ liveHolders (run cfg (init n) evs) := by rw [hl]; simp
    have hb : b ∈ liveHolders (run cfg (init n) evs) := by rw [hl]; simp
    simp only [liveHolders, List.mem_filter] at ha hb
    have key : ∀ x, liveAt (run cfg (init n) evs) inCrit x = true →
        ∃ wk : Worker, (run cfg (init n) evs).ws[x]? = some wk ∧ wk.dead = false ∧ holding wk.pc = true := by
      intro x hx
      unfold liveAt at hx
      cases hx' : (run cfg (init n) evs).ws[x]? with
      | none => rw [hx'] at hx; simp at hx
      | some wk =>
        rw [hx'] at hx
        simp only [Bool.and_eq_true, Bool.not_eq_eq_eq_not, Bool.not_true] at hx
        refine ⟨wk, rfl, hx.1, ?_⟩
        cases hpc : wk.pc <;> simp_all [inCrit, holding]
    obtain ⟨wk, h1, h2, h3⟩ := key a ha.2
    obtain ⟨vk, h4, h5, h6⟩ := key b hb.2
    have := mutual_exclusion cfg n evs hsafe a b wk vk h1 h4 h2 h5 h3 h6
    subst this
    simp at hnd

example : (liveHolders soloTakeoverOpen.final).length = 1 := by decide

/-- **release only removes the caller's own lock file**: when a live holder performs the `rename` of
its `release()`, the lock file that exists is the one it created; the rename succeeds (no
`RuntimeError("did not possess lock")`) and what goes away is its own file -/
theorem release_only_own_lock (cfg : Cfg) (n : Nat) (evs : List Ev) (hsafe : safeSched cfg (init n) evs = true)
    (w : Nat) (wk : Worker) (hw : (run cfg (init n) evs).ws[w]? = some wk) (hlive : wk.dead = false)
    (hpc : wk.pc = .relRename) :
    (∃ s, (run cfg (init n) evs).sh.lock = some (w, s)) ∧
    (step cfg (run cfg (init n) evs) (.step w)).2 = .renameOk w ∧
    (step cfg (run cfg (init n) evs) (.step w)).1.sh.lock = none := by
  obtain ⟨s, h⟩ := holder_owns_lock cfg n evs hsafe w wk hw hlive (by simp [hpc, holding])
  refine ⟨⟨s, h⟩, ?_, ?_⟩
  · rw [step_live cfg _ w wk hw hlive]; simp [stepW, hpc, doRename, h]
  · rw [step_live cfg _ w wk hw hlive]; simp [stepW, hpc, doRename, h]

example : pcOf (run { kind := .openExcl, grace := some 2 } (init 2) (stepsOf 0 4)) 0 = some .relRename ∧
    safeSched { kind := .openExcl, grace := some 2 } (init 2) (stepsOf 0 4) = true := by decide

/-- with `grace_period=None` every schedule satisfies the hypothesis (nobody ever attempts a takeover) -/
theorem no_grace_every_schedule_safe (cfg : Cfg) (hg : cfg.grace = none) (n : Nat) (evs : List Ev) :
    safeSched cfg (init n) evs = true :=
  safeSched_of_no_grace cfg hg evs (init n) (tkFree_init n)

-- non-vacuity: a contended schedule with a crashed holder and many ticks; the waiter just keeps polling
example : safeSched { kind := .openExcl, grace := none } (init 2) (stepsOf 0 3 ++ [.crash 0] ++ stepsOf 1 2 ++ ticks 9 ++ stepsOf 1 4) = true ∧
    pcOf (run { kind := .openExcl, grace := none } (init 2) (stepsOf 0 3 ++ [.crash 0] ++ stepsOf 1 2 ++ ticks 9 ++ stepsOf 1 4)) 1 = some .sleep := by decide

/-- **mutual exclusion, unconditionally, when there is no grace period**: every schedule, crashes included -/
theorem mutual_exclusion_no_grace (cfg : Cfg) (hg : cfg.grace = none) (n : Nat) (evs : List Ev)
    (w v : Nat) (wk vk : Worker)
    (hw : (run cfg (init n) evs).ws[w]? = some wk) (hv : (run cfg (init n) evs).ws[v]? = some vk)
    (hwl : wk.dead = false) (hvl : vk.dead = false)
    (hwh : holding wk.pc = true) (hvh : holding vk.pc = true) : w = v :=
  mutual_exclusion cfg n evs (no_grace_every_schedule_safe cfg hg n evs) w v wk vk hw hv hwl hvl hwh hvh

-- non-vacuity: holder 0, waiter 1 polls (create fails, sleeps, create fails …)
example : liveHolders (run { kind := .symlink, grace := none } (init 2) (stepsOf 0 2 ++ stepsOf 1 4)) = [0] ∧
    pcOf (run { kind := .symlink, grace := none } (init 2) (stepsOf 0 2 ++ stepsOf 1 4)) 1 = some .sleep := by decide

/-! ### the hypothesis cannot be dropped on today's code (each schedule is replayed on the real classes) -/

/-- **F13** (open lock, grace 2, three workers, 37 events): holder 0 dies in its critical section; waiters
1 and 2 both pass the grace check; 1 renames the stale lock away, creates the lock, enters; 2's pending
`rename` removes the lock file 1 has just created and 2 enters too: two live holders.  The takeover is
not a compare-and-swap. -/
theorem takeover_race_two_holders_witness :
    liveHolders f13Open.final = [1, 2] ∧ f13Open.safe = false ∧
    (∃ k, liveTakeoverAt (run f13Open.cfg (init f13Open.n) (f13Open.evs.take k)) (.step 2) = true) := by
  refine ⟨by decide, by decide, 31, by decide⟩

/-- F13 on the symlink lock (34 events) -/
theorem takeover_race_two_holders_witness_symlink :
    liveHolders f13Symlink.final = [1, 2] ∧ f13Symlink.safe = false := by decide

/-- **the repair fb3aa05** (the symlink lock samples the link's own mtime with `os.lstat`), on the schedule
that gave two holders before it: both waiters have watched the dead holder's lock for longer than the
grace period; 1 takes over completely and enters; 2 polls afterwards, finds a lock file with a new stamp,
restarts its timer and keeps polling.  One holder, the schedule is safe (and punctual). -/
theorem symlink_sequential_takeovers_now_safe :
    liveHolders f13SymlinkSequential.final = [1] ∧ f13SymlinkSequential.safe = true ∧
    punctualSched f13SymlinkSequential.cfg 2 (init 3) f13SymlinkSequential.evs = true ∧
    pcOf f13SymlinkSequential.final 2 = some .sleep := by decide

/-- **the repair d602c3c**: after a successful takeover the taker restarts its timer with one more clock
read (`tkRestart`), then sleeps -/
theorem takeover_restarts_timer (cfg : Cfg) (st : St) (w : Nat) (wk : Worker) (hw : st.ws[w]? = some wk)
    (hlive : wk.dead = false) (hpc : wk.pc = .tkRestart) :
    (step cfg st (.step w)).2 = .monotonic st.sh.now ∧
    (step cfg st (.step w)).1.ws[w]? = some { wk with pc := .sleep, last := st.sh.now } ∧
    (step cfg st (.step w)).1.sh = st.sh := by
  rw [step_live cfg st w wk hw hlive]
  refine ⟨by simp [stepW, hpc], ?_, by simp [stepW, hpc]⟩
  simp only
  rw [updAt_self st.ws w wk _ hw]
  simp [stepW, hpc]

example : pcOf (run soloTakeoverSymlink.cfg (init 2) (soloTakeoverSymlink.evs.take 17)) 1 = some .tkRestart := by decide

/-- the schedule that ended with two live holders before d602c3c (symlink lock, ONE waiter past the grace
period, a newcomer wins the re-created lock while the taker sleeps): the taker now sees an unexpired timer
and keeps polling; one holder, safe, punctual -/
theorem symlink_single_waiter_no_longer_steals :
    liveHolders symlinkAfterTakeover.final = [2] ∧ symlinkAfterTakeover.safe = true ∧
    pcOf symlinkAfterTakeover.final 1 = some .sleep := by decide

/-- the stalled waiter on the symlink lock (same interleaving) -/
theorem stalled_waiter_two_holders_witness_symlink :
    liveHolders stalledWaiterSymlink.final = [0, 1] ∧ stalledWaiterSymlink.safe = false ∧
    stalledWaiterSymlink.final.ws.all (fun wk => !wk.dead) = true := by decide

/-- no crash at all (open lock, two workers): a waiter suspended for longer than the grace period
between sampling the clock and comparing it removes the fresh lock of a live holder -/
theorem stalled_waiter_two_holders_witness :
    liveHolders stalledWaiter.final = [0, 1] ∧ stalledWaiter.safe = false ∧
    stalledWaiter.final.ws.all (fun wk => !wk.dead) = true := by decide

/-! ### a timing discipline that implies the hypothesis (both classes) -/

/-- `punctualSched cfg g st evs` (decidable, `Model/FileLock.lean`): (H0) the clock never passes
`stamp + grace` while the creator of the lock file is alive — *every live holder releases within the
grace period*; (W0) the clock does not move while a live waiter is between its `stat` and the `rename`
of a takeover; (U) a takeover `rename` finds no other live waiter in that window.  Crashes — also of
holders — are unrestricted.  Such a schedule never takes over a live creator's lock (both classes, since
repo fb3aa05 made the symlink lock sample the link's own mtime). -/
theorem punctual_schedule_safe (cfg : Cfg) (g : Nat) (hg : cfg.grace = some g) (n : Nat)
    (evs : List Ev) (hp : punctualSched cfg g (init n) evs = true) : safeSched cfg (init n) evs = true :=
  safeSched_of_punctual cfg g hg evs (init n) (tinv_init g n) hp

-- non-vacuity: the holder dies, the waiter takes over after the grace period — punctual;
-- the F13 schedule violates (U), the stalled waiter violates (W0)
example : punctualSched soloTakeoverOpen.cfg 2 (init 2) soloTakeoverOpen.evs = true ∧
    punctualSched soloTakeoverSymlink.cfg 2 (init 2) soloTakeoverSymlink.evs = true ∧
    punctualSched f13Symlink.cfg 2 (init 3) f13Symlink.evs = false ∧
    punctualSched f13Open.cfg 2 (init 3) f13Open.evs = false ∧
    punctualSched stalledWaiter.cfg 2 (init 2) stalledWaiter.evs = false := by decide

/-- **mutual exclusion (both classes) when holders are punctual**, waiters are not stalled and
takeovers are not concurrent — crashes of holders included -/
theorem mutual_exclusion_punctual (cfg : Cfg) (g : Nat) (hg : cfg.grace = some g) (n : Nat)
    (evs : List Ev) (hp : punctualSched cfg g (init n) evs = true) (w v : Nat) (wk vk : Worker)
    (hw : (run cfg (init n) evs).ws[w]? = some wk) (hv : (run cfg (init n) evs).ws[v]? = some vk)
    (hwl : wk.dead = false) (hvl : vk.dead = false)
    (hwh : holding wk.pc = true) (hvh : holding vk.pc = true) : w = v :=
  mutual_exclusion cfg n evs (punctual_schedule_safe cfg g hg n evs hp) w v wk vk hw hv hwl hvl hwh hvh

example : liveHolders soloTakeoverOpen.final = [1] := by decide

/-- the hand-over schedule that gave two holders on the symlink lock before fb3aa05 (no crash, punctual
holders, the lock changes hands between two polls of a waiter): the waiter now sees the new lock stamp
and restarts its timer — punctual, safe, one holder -/
theorem symlink_handover_now_safe :
    punctualSched symlinkHandover.cfg 2 (init 3) symlinkHandover.evs = true ∧
    symlinkHandover.safe = true ∧ liveHolders symlinkHandover.final = [2] ∧
    pcOf symlinkHandover.final 1 = some .sleep := by decide

/-! ### a crashed holder is taken over (C05) -/

/-- **a crashed holder is taken over**: the lock file exists (its creator `o` is dead, or merely slow:
the code cannot tell), waiter `w` is about to retry the exclusive create, has already sampled the
current mtime and its timer is past the grace period.  Then `w` running alone — create fails, `stat`,
clock check, `rename`, `unlink`, timer restart, `sleep`, create succeeds (, `close`) — ends inside its
critical section as the creator of the lock file; 8 calls with the symlink lock, 9 with the open lock. -/
theorem crashed_holder_taken_over (cfg : Cfg) (g : Nat) (hg : cfg.grace = some g) (st : St) (w : Nat) (wk : Worker)
    (o s : Nat) (hw : st.ws[w]? = some wk) (hlive : wk.dead = false) (hpc : wk.pc = .create)
    (hlock : st.sh.lock = some (o, s)) (hm : wk.mtime = some s)
    (hlast : wk.last + g < st.sh.now) :
    (run cfg st (stepsOf w (match cfg.kind with | .symlink => 8 | .openExcl => 9))).sh.lock = some (w, st.sh.now) ∧
    pcOf (run cfg st (stepsOf w (match cfg.kind with | .symlink => 8 | .openExcl => 9))) w = some .crit := by
  rw [run_solo cfg w _ st wk hw hlive]
  have h := solo_takeover cfg g hg st.sh w wk o s hpc hlock hm hlast
  refine ⟨h.1, ?_⟩
  simp only [pcOf]
  rw [updAt_self st.ws w wk _ hw]
  simp only [Option.map_some, Option.some.injEq]
  exact h.2

-- non-vacuity: the state of `soloTakeoverOpen` after the holder's crash, the waiter's first sampling and 3 ticks
example :
    let st := run soloTakeoverOpen.cfg (init 2) (soloTakeoverOpen.evs.take 13)
    st.ws[1]? = some { pc := .create, dead := false, mtime := some 0, last := 0, nren := 0, failed := 0 } ∧
    st.sh.lock = some (0, 0) ∧ st.sh.now = 3 ∧ isLive st 0 = false := by decide

/-- a takeover of a lock file whose creator is dead never violates the hypothesis -/
theorem takeover_of_dead_creator_is_safe (st : St) (e : Ev) (o s : Nat) (hlock : st.sh.lock = some (o, s))
    (hdead : isLive st o = false) : liveTakeoverAt st e = false := by
  cases e <;> simp [liveTakeoverAt, hlock, hdead]

example : isLive (run soloTakeoverOpen.cfg (init 2) (soloTakeoverOpen.evs.take 16)) 0 = false ∧
    pcOf (run soloTakeoverOpen.cfg (init 2) (soloTakeoverOpen.evs.take 16)) 1 = some .tkRename := by decide

/-- a free lock is acquired by the next create call -/
theorem free_lock_acquired (cfg : Cfg) (st : St) (w : Nat) (wk : Worker) (hw : st.ws[w]? = some wk) (hlive : wk.dead = false)
    (hpc : wk.pc = .create) (hfree : st.sh.lock = none) :
    (step cfg st (.step w)).1.sh.lock = some (w, st.sh.now) ∧ (step cfg st (.step w)).2 = .createOk := by
  rw [step_live cfg st w wk hw hlive]
  simp [stepW, hpc, hfree]

example : pcOf (run { kind := .symlink, grace := some 2 } (init 1) (stepsOf 0 1)) 0 = some .create := by decide

/-- **no dead-lock**: every live worker can always move — each of its calls returns and takes it to a
different program point (the lock is polled, never waited for) -/
theorem no_deadlock_step (cfg : Cfg) (st : St) (w : Nat) (wk : Worker) (hw : st.ws[w]? = some wk) (hlive : wk.dead = false) :
    pcOf (step cfg st (.step w)).1 w ≠ pcOf st w := by
  rw [step_live cfg st w wk hw hlive]
  simp only [pcOf]
  rw [updAt_self st.ws w wk _ hw, hw]
  simp only [Option.map_some, ne_eq, Option.some.injEq]
  exact stepW_pc_ne cfg st.sh w wk

example : pcOf (init 2) 1 = some .idle := by decide

end OptunaVerif.C07Lock
