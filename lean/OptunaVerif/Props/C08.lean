import OptunaVerif.Lemmas.CacheCalls
/-!
# C08 — client-side trial caches never serve a view that differs from the backend

Model: `Model/Cache.lean` — `_CachedStorage` (`Client`), `GrpcClientCache` behind a servicer
(`Proxy`), any number of them plus raw writers on one backend (`Sys`); the backend is the storage
contract model `Storage.Spec` of C01.  All theorems are for **all** histories: arbitrary backend
states satisfying the invariants of C01 (`Wf`, which every reachable state satisfies), arbitrary
cache states satisfying `Inv`/`PInv` (which every reachable cache satisfies, `sys_inv_run`),
arbitrary operations, ids, batch sizes and numbers of clients.

What is *not* claimed, because it is false for the code (each with a `decide`d witness at the end of
the file that the harness replays on the real classes):
* a cached answer about a study that **another** client has deleted
  (`foreign_delete_serves_dead_trial_witness`) — every "equals the backend" theorem therefore carries
  the hypothesis `Targets`: the study the read is about has not been deleted;
* one `get_all_trials` of a thread whose sync is followed, before it reads the dict, by the critical
  section of another thread's `create_new_trial` carrying an older snapshot
  (`stale_create_snapshot_after_sync_witness`) — the "equals the backend" theorems are about one method
  call executed without another thread of the *same* client in between; across threads the invariant
  is what is proved (`every_section_keeps_inv`), so the next call is correct again.
The system theorem is therefore named `all_clients_see_backend_partial`.
-/
namespace OptunaVerif.C08
open OptunaVerif OptunaVerif.Storage OptunaVerif.C01 OptunaVerif.Cache

/-! ## the two fetch filters denote the same set -/

/-- **servicer_filter_eq_rdb_filter**: the Python-side filter of the servicer's `GetTrials` and the
SQL-side filter built by `RDBStorage._get_trials` (included ids cut to `<= watermark`, then one of
three queries) select the same trials in the same order — for every watermark (−1 and below
included), every included-id set (empty, ids above the watermark, ids of other studies). -/
theorem servicer_filter_eq_rdb_filter (inc : List Nat) (w : Int) (l : List (Nat × TrialS)) :
    rdbFilter inc w l = servicerFilter inc w l := rdbFilter_eq_servicerFilter inc w l

/-- … and what they select: ids in the included set or above the watermark. -/
theorem fetch_selects (inc : List Nat) (w : Int) (l : List (Nat × TrialS)) (x : Nat × TrialS) :
    x ∈ rdbFilter inc w l ↔ x ∈ l ∧ ((x.1 : Int) > w ∨ x.1 ∈ inc) := by
  rw [rdbFilter_eq_servicerFilter]; exact mem_servicerFilter inc w l x

/-- The two-pass update loop of `_CachedStorage` and the one-pass loop of `GrpcClientCache` compute
the same entry from the same batch. -/
theorem cached_loop_eq_proxy_loop (e : Entry) (l : List (Nat × TrialS)) : e.absorb2 l = e.absorb l :=
  absorb2_eq_absorb e l

/-! ## cache_covers: the invariant and who preserves it -/

/-- Every reachable backend state is well-formed (numbers dense, study ids of trials in range). -/
theorem backend_wf (ops : List Op) : Wf (after Storage.init ops) := by
  suffices ∀ s, Wf s → Wf (after s ops) from this _ wf_init
  induction ops with
  | nil => intro s h; exact h
  | cons op ops ih => intro s h; exact ih _ (wf_step s op h)

/-- **cache_covers (backend step)**: the invariant of a `_CachedStorage` survives *every* backend
step — a write of this client, of any other client, of a raw writer, in any study. -/
theorem cache_covers_backend_step (s : Spec) (op : Op) (c : Client) (h : Inv s c) :
    Inv (step s op).1 c := inv_step s op c h

/-- … and any number of them. -/
theorem cache_covers_backend_steps (s : Spec) (ops : List Op) (c : Client) (h : Inv s c) :
    Inv (after s ops) c := by
  induction ops generalizing s with
  | nil => exact h
  | cons op ops ih => exact ih _ (inv_step s op c h)

/-- **cache_covers (sync)**: `_read_trials_from_remote_storage` re-establishes the invariant, whether
the backend answers or raises `KeyError`; other studies' entries are not touched. -/
theorem cache_covers_sync (s : Spec) (hW : Wf s) (c : Client) (sid : Nat) (h : Inv s c) :
    Inv s (c.sync s sid).1 := by
  cases hs : c.sync s sid with
  | mk c' r =>
    cases r with
    | none => exact (sync_ok s hW.numbered c sid c' h hs).2.1
    | some err => exact (sync_err s c sid c' err h hs).2.2

/-- **cache_covers (create)**: the locked part of `create_new_trial` keeps the invariant for any
snapshot of the new backend record — final if it shows a finished state, possibly *out of date*
otherwise (another thread or worker may have changed the trial between the backend call and the
critical section) — even when trials with smaller ids created by other workers have not been fetched
yet.  (The watermark is not touched: the F6 repair.) -/
theorem cache_covers_create (s : Spec) (hW : Wf s) (c : Client) (sid : Nat) (p : Nat × TrialS)
    (h : Inv s c) (hp : Snapshot s sid p) : Inv s (c.noteCreated sid p) :=
  inv_noteCreated s hW.numbered c sid p h hp

/-- **cache_covers (delete)**: the locked part of `delete_study`. -/
theorem cache_covers_delete (s : Spec) (c : Client) (sid : Nat) (h : Inv s c) : Inv s (c.dropStudy sid) :=
  inv_dropStudy s c sid h

/-! ## sync_then_equal -/

/-- **sync_then_equal**: right after a successful sync, `get_all_trials` of the cached client returns
exactly the backend's trials of the study, in the backend's order, for every state filter; and the
sync fails (with `KeyError`) exactly when the backend would. -/
theorem sync_then_equal (s : Spec) (hW : Wf s) (c : Client) (sid : Nat) (h : Inv s c)
    (states : Option (List TState)) :
    (callCached s c (.getAllTrials sid states)).2.2 = (step s (.getAllTrials sid states)).2 := by
  simp only [callCached]
  cases hs : c.sync s sid with
  | mk c' r =>
    cases r with
    | none =>
      obtain ⟨hlive, hinv, hfresh, _⟩ := sync_ok s hW.numbered c sid c' h hs
      obtain ⟨st, hst⟩ := Option.isSome_iff_exists.1 hlive
      have hE : EntryInv s sid (entryD c'.studies sid) := entryInv_entryD s c' hinv sid
      simp only [step, hst]
      rw [readAll_of_allFresh s hW.numbered sid _ hE.toEntryCore hfresh states]
    | some err =>
      obtain ⟨hdead, herr, _⟩ := sync_err s c sid c' err h hs
      simp only [step, hdead, herr]

/-- **order_by_number**: `get_all_trials` sorts what it returns by trial number — unconditionally. -/
theorem order_by_number (e : Entry) (states : Option (List TState)) :
    (e.readAll states).Pairwise (fun a b => a.2.number ≤ b.2.number) := readAll_sorted e states

/-- … and after a sync the numbers are strictly increasing (no duplicates, no gaps are possible
because the list is the backend's). -/
theorem order_by_number_strict (s : Spec) (hW : Wf s) (sid : Nat) (states : Option (List TState)) :
    ((s.trialsOf sid).filter (fun p => stateIn states p.2.state)).Pairwise
      (fun a b => a.2.number < b.2.number) :=
  (trialsOf_sorted s hW.numbered sid).filter _

/-! ## finished_never_stale and the memo dicts -/

/-- **finished_never_stale**: a trial that `get_trial` serves from the cache without a fetch carries
the requested id, is finished, and equals the backend's record — in every state reachable by any
writes of any clients since it was cached.  `_get_cached_trial` never raises. -/
theorem finished_never_stale (s : Spec) (c : Client) (h : Inv s c) (tid : Nat) :
    c.serveTrial tid ≠ .crash ∧
      ∀ id t, c.serveTrial tid = .hit id t →
        id = tid ∧ s.trials[tid]? = some t ∧ t.state.isFinished = true :=
  serveTrial_sound s c h tid

/-- An unfinished trial is never served from the cache. -/
theorem unfinished_never_served (s : Spec) (c : Client) (h : Inv s c) (tid id : Nat) (t : TrialS)
    (hs : c.serveTrial tid = .hit id t) : t.state.isFinished = true :=
  ((serveTrial_sound s c h tid).2 id t hs).2.2

/-- **number lookup**: a hit in `_study_id_and_number_to_trial_id` is the id the backend's own
`get_trial_id_from_study_id_trial_number` finds. -/
theorem number_lookup_correct (s : Spec) (hW : Wf s) (c : Client) (h : Inv s c) (sid n tid : Nat)
    (hf : find c.sn2id (sid, n) = some tid) : ∃ t, (s.trialsOf sid)[n]? = some (tid, t) :=
  lookup_sound s hW.numbered c h sid n tid hf

/-! ## every public method of `_CachedStorage` -/

/-- **cache_covers (every method)**: each public method of `_CachedStorage`, executed by one thread
against any well-formed backend state, keeps the invariant. -/
theorem cache_covers_call (s : Spec) (hW : Wf s) (c : Client) (h : Inv s c) (op : Op) :
    Inv (callCached s c op).1 (callCached s c op).2.1 := by
  cases op with
  | createStudy name dirs =>
    simp only [callCached]
    cases hstep : step s (.createStudy name dirs) with
    | mk s' out =>
      have hinv : Inv s' c := by
        have := inv_step s (.createStudy name dirs) c h
        rwa [hstep] at this
      cases out with
      | newId sid =>
        simp only
        obtain ⟨hsid, hlive⟩ := new_study_id_fresh s s' name dirs sid hstep
        have hslot := study?_some s' sid _ hlive
        refine ⟨?_, ?_, ?_, hinv.m3⟩
        · intro sid2 e he
          simp only [find_insert] at he
          split at he
          · rename_i hh; subst hh
            simp only [Option.some.injEq] at he
            subst he
            have hE := entryInv_empty s' sid2
            exact entryInv_setDirs s' sid2 _ dirs (entryInv_setName s' sid2 _ name hE
              ⟨_, hslot, by intro st e; simp only [Option.some.injEq] at e; subst e; rfl⟩)
              ⟨_, hslot, by intro st e; simp only [Option.some.injEq] at e; subst e; rfl⟩
          · exact hinv.entries sid2 e he
        · intro tid sid2 n hf
          obtain ⟨e2, t2, g1, g2⟩ := h.m1 tid sid2 n hf
          have hne : sid2 ≠ sid := by
            intro hh; subst hh
            obtain ⟨t', k1, k2, _, _⟩ := (h.entries sid2 e2 g1).static n tid t2 g2
            have := hW.bound tid t' k1
            omega
          exact ⟨e2, t2, by simp [find_insert, hne, g1], g2⟩
        · intro sid2 e n tid t he hf
          simp only [find_insert] at he
          split at he
          · simp only [Option.some.injEq] at he
            subst he
            simp [Entry.empty, find] at hf
          · exact h.m2 sid2 e n tid t he hf
      | _ => exact hinv
  | deleteStudy sid =>
    simp only [callCached]
    exact inv_dropStudy _ _ _ (inv_step s _ c h)
  | getStudyNameFromId sid =>
    simp only [callCached]
    cases hm : (find c.studies sid).bind (·.name) with
    | some nm => exact h
    | none =>
      simp only
      cases hstep : step s (.getStudyNameFromId sid) with
      | mk s' out =>
        have hinv : Inv s' c := by
          have := inv_step s (.getStudyNameFromId sid) c h
          rwa [hstep] at this
        cases out with
        | str nm =>
          simp only
          refine inv_upsert_field s' c sid _ hinv (fun e => rfl) ?_
          refine entryInv_setName s' sid _ nm (entryInv_entryD s' c hinv sid) ?_
          simp only [step] at hstep
          split at hstep
          · simp at hstep
          · rename_i st hst
            simp only [Prod.mk.injEq, Out.str.injEq] at hstep
            obtain ⟨e1, e2⟩ := hstep
            subst e1; subst e2
            exact ⟨_, study?_some s sid st hst, by intro st' e; simp only [Option.some.injEq] at e; subst e; rfl⟩
        | _ => exact hinv
  | getStudyDirections sid =>
    simp only [callCached]
    cases hm : (find c.studies sid).bind (·.directions) with
    | some nm => exact h
    | none =>
      simp only
      cases hstep : step s (.getStudyDirections sid) with
      | mk s' out =>
        have hinv : Inv s' c := by
          have := inv_step s (.getStudyDirections sid) c h
          rwa [hstep] at this
        cases out with
        | nats d =>
          simp only
          refine inv_upsert_field s' c sid _ hinv (fun e => rfl) ?_
          refine entryInv_setDirs s' sid _ d (entryInv_entryD s' c hinv sid) ?_
          simp only [step] at hstep
          split at hstep
          · simp at hstep
          · rename_i st hst
            simp only [Prod.mk.injEq, Out.nats.injEq] at hstep
            obtain ⟨e1, e2⟩ := hstep
            subst e1; subst e2
            exact ⟨_, study?_some s sid st hst, by intro st' e; simp only [Option.some.injEq] at e; subst e; rfl⟩
        | _ => exact hinv
  | createTrial sid tm ir =>
    simp only [callCached]
    cases hstep : step s (.createTrial sid tm ir) with
    | mk s' out =>
      have hinv : Inv s' c := by
        have := inv_step s (.createTrial sid tm ir) c h
        rwa [hstep] at this
      have hN' : Numbered s' := by
        have := numbered_step s (.createTrial sid tm ir) hW.numbered
        rwa [hstep] at this
      cases out with
      | newId tid =>
        simp only
        cases ht : s'.trials[tid]? with
        | none => exact hinv
        | some t =>
          simp only
          exact inv_noteCreated s' hN' c sid (tid, t) hinv (createTrial_current s s' sid tm ir tid t hstep ht).snapshot
      | _ => exact hinv
  | getTrialIdFromNumber sid n =>
    simp only [callCached]
    cases hf : find c.sn2id (sid, n) with
    | some tid => exact h
    | none => exact inv_step s _ c h
  | getTrial tid =>
    simp only [callCached]
    cases hf : c.serveTrial tid with
    | miss => exact inv_step s _ c h
    | hit id t => exact h
    | crash => exact h
  | getTrialNumberFromId tid =>
    simp only [callCached]
    cases hf : c.serveTrial tid with
    | miss => exact inv_step s _ c h
    | hit id t => exact h
    | crash => exact h
  | getTrialParam tid name =>
    simp only [callCached]
    cases hf : c.serveTrial tid with
    | miss => exact inv_step s _ c h
    | hit id t => exact h
    | crash => exact h
  | getAllTrials sid states =>
    simp only [callCached]
    have := cache_covers_sync s hW c sid h
    cases hs : c.sync s sid with
    | mk c' r =>
      rw [hs] at this
      cases r <;> exact this
  | getNTrials sid states =>
    simp only [callCached]
    have := cache_covers_sync s hW c sid h
    cases hs : c.sync s sid with
    | mk c' r =>
      rw [hs] at this
      cases r <;> exact this
  | _ => exact inv_step s _ c h

/-! ## what the cached client answers = what the backend would answer at that moment -/

/-- The cache never changes what is written: the backend after a call through `_CachedStorage` is
the backend after the same call made directly. -/
theorem cached_call_backend (s : Spec) (c : Client) (op : Op) :
    (callCached s c op).1 = (step s op).1 := by
  cases op <;> simp only [callCached]
  case createStudy name dirs =>
    cases hstep : step s (.createStudy name dirs) with
    | mk s' out => cases out <;> rfl
  case getStudyNameFromId sid =>
    cases (find c.studies sid).bind (·.name) with
    | some nm => simp only [step]; split <;> rfl
    | none =>
      simp only
      cases hstep : step s (.getStudyNameFromId sid) with
      | mk s' out => cases out <;> rfl
  case getStudyDirections sid =>
    cases (find c.studies sid).bind (·.directions) with
    | some nm => simp only [step]; split <;> rfl
    | none =>
      simp only
      cases hstep : step s (.getStudyDirections sid) with
      | mk s' out => cases out <;> rfl
  case createTrial sid tm ir =>
    cases hstep : step s (.createTrial sid tm ir) with
    | mk s' out =>
      cases out with
      | newId tid => simp only; cases s'.trials[tid]? <;> rfl
      | _ => rfl
  case getTrialIdFromNumber sid n =>
    cases find c.sn2id (sid, n) with
    | some tid => simp only [step]; (repeat' split) <;> rfl
    | none => rfl
  case getTrial tid =>
    cases c.serveTrial tid <;> simp only [step] <;> (repeat' split) <;> rfl
  case getTrialNumberFromId tid =>
    cases c.serveTrial tid <;> simp only [step] <;> (repeat' split) <;> rfl
  case getTrialParam tid name =>
    cases c.serveTrial tid <;> simp only [step] <;> (repeat' split) <;> rfl
  case getAllTrials sid states =>
    cases hs : c.sync s sid with
    | mk c' r => cases r <;> simp only [step] <;> split <;> rfl
  case getNTrials sid states =>
    cases hs : c.sync s sid with
    | mk c' r => cases r <;> simp only [step] <;> split <;> rfl

/-- The read is not about a study that has been deleted (by anybody).  For a study-level read: the
slot of the study id does not hold a deleted study; for a trial-level read: if a record with that
id was ever created, its study is live. -/
def Targets (s : Spec) : Op → Prop
  | .getStudyNameFromId sid | .getStudyDirections sid | .getTrialIdFromNumber sid _ =>
    s.studies[sid]? ≠ some none
  | .getTrial tid | .getTrialNumberFromId tid | .getTrialParam tid _ =>
    ∀ t, s.trials[tid]? = some t → (s.study? t.study).isSome = true
  | _ => True

/-- **cached_answers_equal_backend**: every public method of `_CachedStorage` — `get_all_trials`
with any state filter, `get_n_trials`, `get_trial` and the getters `BaseStorage` derives from it,
`get_trial_id_from_study_id_trial_number`, `get_study_name_from_id`, `get_study_directions`, and
every pass-through call — returns exactly what the backend would return at that moment, provided
the read is not about a deleted study. -/
theorem cached_answers_equal_backend (s : Spec) (hW : Wf s) (c : Client) (h : Inv s c) (op : Op)
    (hT : Targets s op) : (callCached s c op).2.2 = (step s op).2 := by
  cases op with
  | createStudy name dirs =>
    simp only [callCached]
    cases hstep : step s (.createStudy name dirs) with
    | mk s' out => cases out <;> rfl
  | getStudyNameFromId sid =>
    simp only [callCached]
    cases hm : (find c.studies sid).bind (·.name) with
    | some nm =>
      simp only
      obtain ⟨e, he, hn⟩ := Option.bind_eq_some_iff.1 hm
      obtain ⟨o, ho, hv⟩ := (h.entries sid e he).memoName nm hn
      cases o with
      | none => exact absurd ho hT
      | some st =>
        have : s.study? sid = some st := by simp [Spec.study?, ho]
        simp only [step, this, hv st rfl]
    | none =>
      simp only
      cases hstep : step s (.getStudyNameFromId sid) with
      | mk s' out => cases out <;> rfl
  | getStudyDirections sid =>
    simp only [callCached]
    cases hm : (find c.studies sid).bind (·.directions) with
    | some d =>
      simp only
      obtain ⟨e, he, hn⟩ := Option.bind_eq_some_iff.1 hm
      obtain ⟨o, ho, hv⟩ := (h.entries sid e he).memoDirs d hn
      cases o with
      | none => exact absurd ho hT
      | some st =>
        have : s.study? sid = some st := by simp [Spec.study?, ho]
        simp only [step, this, hv st rfl]
    | none =>
      simp only
      cases hstep : step s (.getStudyDirections sid) with
      | mk s' out => cases out <;> rfl
  | createTrial sid tm ir =>
    simp only [callCached]
    cases hstep : step s (.createTrial sid tm ir) with
    | mk s' out =>
      cases out with
      | newId tid => simp only; cases s'.trials[tid]? <;> rfl
      | _ => rfl
  | getTrialIdFromNumber sid n =>
    simp only [callCached]
    cases hf : find c.sn2id (sid, n) with
    | none => rfl
    | some tid =>
      simp only
      obtain ⟨t, ht⟩ := lookup_sound s hW.numbered c h sid n tid hf
      obtain ⟨t', k1, k2, _⟩ := h.m3 sid n tid hf
      have hb := hW.bound tid t' k1
      rw [k2] at hb
      have hex : ∃ o, s.studies[sid]? = some o := ⟨s.studies[sid], by simp [hb]⟩
      obtain ⟨o, ho⟩ := hex
      cases o with
      | none => exact absurd ho hT
      | some st =>
        have : s.study? sid = some st := by simp [Spec.study?, ho]
        simp only [step, this, ht]
  | getTrial tid =>
    simp only [callCached]
    obtain ⟨hnc, hhit⟩ := serveTrial_sound s c h tid
    cases hf : c.serveTrial tid with
    | miss => rfl
    | crash => exact absurd hf hnc
    | hit id t =>
      obtain ⟨e1, e2, _⟩ := hhit id t hf
      subst e1
      simp only [step, trial?_of_live s id t e2 (hT t e2)]
  | getTrialNumberFromId tid =>
    simp only [callCached]
    obtain ⟨hnc, hhit⟩ := serveTrial_sound s c h tid
    cases hf : c.serveTrial tid with
    | miss => rfl
    | crash => exact absurd hf hnc
    | hit id t =>
      obtain ⟨e1, e2, _⟩ := hhit id t hf
      subst e1
      simp only [step, trial?_of_live s id t e2 (hT t e2)]
  | getTrialParam tid name =>
    simp only [callCached]
    obtain ⟨hnc, hhit⟩ := serveTrial_sound s c h tid
    cases hf : c.serveTrial tid with
    | miss => rfl
    | crash => exact absurd hf hnc
    | hit id t =>
      obtain ⟨e1, e2, _⟩ := hhit id t hf
      subst e1
      simp only [step, trial?_of_live s id t e2 (hT t e2), trialParamOut]
      cases t.params.get? name <;> rfl
  | getAllTrials sid states => exact sync_then_equal s hW c sid h states
  | getNTrials sid states =>
    have := sync_then_equal s hW c sid h states
    simp only [callCached] at this ⊢
    cases hs : c.sync s sid with
    | mk c' r =>
      rw [hs] at this
      cases r with
      | none =>
        simp only [step] at this ⊢
        split at this
        · simp at this
        · simp only [Out.trials.injEq] at this
          simp only [this]
      | some err =>
        simp only [step] at this ⊢
        split at this
        · simpa using this
        · simp at this
  | _ => rfl

/-! ## the gRPC client cache -/

/-- **proxy_cache_covers**: the invariant of a `GrpcClientCache` — every entry satisfies `EntryInv`. -/
def PInv (s : Spec) (p : Proxy) : Prop := ∀ sid e, find p.studies sid = some e → EntryInv s sid e

/-- what the servicer forwards to: the storage itself, or a `_CachedStorage` with its invariant -/
def SInv (s : Spec) : Option Client → Prop
  | none => True
  | some c => Inv s c

/-- **proxy_cache_covers (backend step)**: every backend step of any client keeps it. -/
theorem proxy_cache_covers_backend_step (s : Spec) (op : Op) (p : Proxy) (h : PInv s p) :
    PInv (step s op).1 p := fun sid e he => entryInv_step s op sid e (h sid e he)

theorem sinv_step (s : Spec) (op : Op) (sc : Option Client) (h : SInv s sc) : SInv (step s op).1 sc := by
  cases sc with
  | none => trivial
  | some c => exact inv_step s op c h

theorem server_call_spec (s : Spec) (hW : Wf s) (sc : Option Client) (hS : SInv s sc) (op : Op) :
    (callServer s sc op).1 = (step s op).1 ∧ SInv (step s op).1 (callServer s sc op).2.1 ∧
      (Targets s op → (callServer s sc op).2.2 = (step s op).2) := by
  cases sc with
  | none => exact ⟨rfl, trivial, fun _ => rfl⟩
  | some c =>
    simp only [callServer]
    refine ⟨cached_call_backend s c op, ?_, cached_answers_equal_backend s hW c hS op⟩
    have := cache_covers_call s hW c hS op
    rw [cached_call_backend] at this
    exact this

theorem pinv_entryD (s : Spec) (p : Proxy) (h : PInv s p) (sid : Nat) : EntryInv s sid (entryD p.studies sid) := by
  unfold entryD
  cases hf : find p.studies sid with
  | none => exact entryInv_empty s sid
  | some e => exact h sid e hf

/-- `GrpcClientCache.get_all_trials`: the backend is not changed, both caches keep their invariants,
and the answer is the backend's list of the study (every state filter), or `KeyError` exactly when
the backend raises it — whether the servicer sits on the storage itself or on a `_CachedStorage`. -/
theorem proxy_getAll_spec (s : Spec) (hW : Wf s) (sc : Option Client) (hS : SInv s sc) (p : Proxy)
    (hP : PInv s p) (sid : Nat) (states : Option (List TState)) :
    (p.getAll s sc sid states).1 = s ∧ SInv s (p.getAll s sc sid states).2.1 ∧
      PInv s (p.getAll s sc sid states).2.2.1 ∧
      (p.getAll s sc sid states).2.2.2 =
        (match s.study? sid with
          | none => .error .keyError
          | some _ => .ok ((s.trialsOf sid).filter (fun q => stateIn states q.2.state))) := by
  obtain ⟨b1, b2, b3⟩ := server_call_spec s hW sc hS (.getAllTrials sid none)
  have hst : (step s (.getAllTrials sid none)).1 = s := by simp only [step]; split <;> rfl
  rw [hst] at b1 b2
  have b3' := b3 trivial
  unfold Proxy.getAll
  cases hres : callServer s sc (.getAllTrials sid none) with
  | mk s' rest =>
    cases rest with
    | mk sc' out =>
      rw [hres] at b1 b2 b3'
      simp only at b1 b2 b3'
      subst b1
      cases hlive : s'.study? sid with
      | none =>
        simp only [step, hlive] at b3'
        subst b3'
        refine ⟨rfl, b2, ?_, rfl⟩
        intro sid2 e he
        simp only [find_erase] at he
        split at he
        · simp at he
        · exact hP sid2 e he
      | some st =>
        simp only [step, hlive] at b3'
        have hall : (s'.trialsOf sid).filter (fun q => stateIn none q.2.state) = s'.trialsOf sid :=
          List.filter_eq_self.2 (fun _ _ => rfl)
        rw [hall] at b3'
        subst b3'
        obtain ⟨a1, a2⟩ := absorb_spec s' hW.numbered sid (entryD p.studies sid) _ (pinv_entryD s' p hP sid)
          (fetched_current s' sid _ _) (fetched_all s' sid _ _)
        refine ⟨rfl, b2, ?_, ?_⟩
        · intro sid2 e he
          simp only [find_insert] at he
          split at he
          · rename_i hh; subst hh
            simp only [Option.some.injEq] at he
            subst he
            exact a1
          · exact hP sid2 e he
        · dsimp only
          rw [readAll_of_allFresh s' hW.numbered sid _ a1.toEntryCore a2 states]

/-- **proxy_cache_covers (every method)** and **proxied answers equal the backend**: each public
method of `GrpcStorageProxy` leaves the backend exactly as the direct call would, keeps the
invariants of the client cache and of the servicer's `_CachedStorage`, and returns what the backend
would return at that moment (reads that the servicer's `_CachedStorage` answers: for studies that
have not been deleted). -/
theorem proxy_call_spec (s : Spec) (hW : Wf s) (sc : Option Client) (hS : SInv s sc) (p : Proxy)
    (hP : PInv s p) (op : Op) :
    (callProxy s sc p op).1 = (step s op).1 ∧ SInv (step s op).1 (callProxy s sc p op).2.1 ∧
      PInv (step s op).1 (callProxy s sc p op).2.2.1 ∧
      (Targets s op → (callProxy s sc p op).2.2.2 = (step s op).2) := by
  have hgen : ∀ op', (callProxy s sc p op' = (let r := callServer s sc op'; (r.1, r.2.1, p, r.2.2))) →
      (callProxy s sc p op').1 = (step s op').1 ∧ SInv (step s op').1 (callProxy s sc p op').2.1 ∧
      PInv (step s op').1 (callProxy s sc p op').2.2.1 ∧
      (Targets s op' → (callProxy s sc p op').2.2.2 = (step s op').2) := by
    intro op' he
    obtain ⟨b1, b2, b3⟩ := server_call_spec s hW sc hS op'
    rw [he]
    exact ⟨b1, b2, proxy_cache_covers_backend_step s op' p hP, b3⟩
  cases op with
  | getAllTrials sid states =>
    obtain ⟨g1, g2, g3, g4⟩ := proxy_getAll_spec s hW sc hS p hP sid states
    have hst : (step s (.getAllTrials sid states)).1 = s := by simp only [step]; split <;> rfl
    rw [hst]
    simp only [callProxy]
    cases hres : p.getAll s sc sid states with
    | mk s' r1 => cases r1 with
      | mk sc' r2 => cases r2 with
        | mk p' res =>
          rw [hres] at g1 g2 g3 g4
          simp only at g1 g2 g3 g4
          cases res with
          | ok l =>
            refine ⟨g1, g2, g3, fun _ => ?_⟩
            simp only [step]
            split at g4
            · simp at g4
            · rename_i st hst'
              simp only [Except.ok.injEq] at g4
              simp [hst', g4]
          | error err =>
            refine ⟨g1, g2, g3, fun _ => ?_⟩
            simp only [step]
            split at g4
            · rename_i hst'
              simp only [Except.error.injEq] at g4
              simp [hst', g4]
            · simp at g4
  | getNTrials sid states =>
    obtain ⟨g1, g2, g3, g4⟩ := proxy_getAll_spec s hW sc hS p hP sid states
    have hst : (step s (.getNTrials sid states)).1 = s := by simp only [step]; split <;> rfl
    rw [hst]
    simp only [callProxy]
    cases hres : p.getAll s sc sid states with
    | mk s' r1 => cases r1 with
      | mk sc' r2 => cases r2 with
        | mk p' res =>
          rw [hres] at g1 g2 g3 g4
          simp only at g1 g2 g3 g4
          cases res with
          | ok l =>
            refine ⟨g1, g2, g3, fun _ => ?_⟩
            simp only [step]
            split at g4
            · simp at g4
            · rename_i st hst'
              simp only [Except.ok.injEq] at g4
              simp [hst', g4]
          | error err =>
            refine ⟨g1, g2, g3, fun _ => ?_⟩
            simp only [step]
            split at g4
            · rename_i hst'
              simp only [Except.error.injEq] at g4
              simp [hst', g4]
            · simp at g4
  | deleteStudy sid =>
    obtain ⟨b1, b2, b3⟩ := server_call_spec s hW sc hS (.deleteStudy sid)
    simp only [callProxy]
    cases hres : callServer s sc (.deleteStudy sid) with
    | mk s' r1 => cases r1 with
      | mk sc' out =>
        rw [hres] at b1 b2 b3
        simp only at b1 b2 b3
        have hP' := proxy_cache_covers_backend_step s (.deleteStudy sid) p hP
        cases out with
        | unit =>
          refine ⟨b1, b2, ?_, b3⟩
          intro sid2 e he
          simp only [find_erase] at he
          split at he
          · simp at he
          · exact hP' sid2 e he
        | _ => exact ⟨b1, b2, hP', b3⟩
  | _ => exact hgen _ rfl

/-! ## any number of clients — cached, proxied, raw — interleaved on one backend -/

def NodeInv (s : Spec) : Node → Prop
  | .raw => True
  | .cached c => Inv s c
  | .proxy _ p => PInv s p

/-- the backend is well-formed and every client's cache satisfies its invariant w.r.t. the backend -/
structure SysInv (y : Sys) : Prop where
  wf : Wf y.backend
  nodes : ∀ (i : Nat) (n : Node), y.nodes[i]? = some n → NodeInv y.backend n

theorem nodeInv_step (s : Spec) (op : Op) (n : Node) (h : NodeInv s n) : NodeInv (step s op).1 n := by
  cases n with
  | raw => trivial
  | cached c => exact inv_step s op c h
  | proxy srv p => exact proxy_cache_covers_backend_step s op p h

theorem setNode_get (l : List Node) (i k : Nat) (n : Node) :
    (setNode l i n)[k]? = if k = i then (l[k]?).map (fun _ => n) else l[k]? := updAt_getElem? _ _ _ _

theorem server_of (y : Sys) (srv : Option Nat) (j : Nat) (c : Client)
    (h : srv.bind (fun j => match y.nodes[j]? with | some (.cached c) => some (j, c) | _ => none) = some (j, c)) :
    y.nodes[j]? = some (.cached c) := by
  cases srv with
  | none => simp at h
  | some j' =>
    simp only [Option.bind_some] at h
    split at h
    · rename_i c0 hc0
      simp only [Option.some.injEq, Prod.mk.injEq] at h
      obtain ⟨e1, e2⟩ := h
      subst e1; subst e2
      exact hc0
    · simp at h

/-- **One call of any client of the system**: the system invariant is kept, the backend moves exactly
as the direct call would move it, and the caller gets exactly the backend's answer (reads of deleted
studies excepted). -/
theorem sys_call_spec (y : Sys) (h : SysInv y) (i : Nat) (op : Op) :
    SysInv (y.call i op).1 ∧ (y.call i op).1.backend = (step y.backend op).1 ∧
      (Targets y.backend op → (y.call i op).2 = (step y.backend op).2) := by
  have hstepNodes : ∀ k n, y.nodes[k]? = some n → NodeInv (step y.backend op).1 n :=
    fun k n hk => nodeInv_step _ op n (h.nodes k n hk)
  have hwf := wf_step y.backend op h.wf
  unfold Sys.call
  cases hn : y.nodes[i]? with
  | none => exact ⟨⟨hwf, hstepNodes⟩, rfl, fun _ => rfl⟩
  | some node =>
    cases node with
    | raw => exact ⟨⟨hwf, hstepNodes⟩, rfl, fun _ => rfl⟩
    | cached c =>
      have hc : Inv y.backend c := h.nodes i _ hn
      have hb := cached_call_backend y.backend c op
      have hi := cache_covers_call y.backend h.wf c hc op
      simp only
      refine ⟨⟨by rw [hb]; exact hwf, ?_⟩, hb, cached_answers_equal_backend y.backend h.wf c hc op⟩
      intro k n hk
      simp only [setNode_get] at hk
      simp only [hb] at hi ⊢
      split at hk
      · rename_i hki; subst hki
        rw [hn] at hk
        simp only [Option.map_some, Option.some.injEq] at hk
        subst hk
        exact hi
      · exact hstepNodes k n hk
    | proxy srv p =>
      have hp : PInv y.backend p := h.nodes i _ hn
      simp only
      cases hb : srv.bind (fun j => match y.nodes[j]? with | some (.cached c) => some (j, c) | _ => none) with
      | none =>
        simp only
        obtain ⟨b1, _, b3, b4⟩ := proxy_call_spec y.backend h.wf none trivial p hp op
        refine ⟨⟨by rw [b1]; exact hwf, ?_⟩, b1, b4⟩
        intro k n hk
        simp only [setNode_get] at hk
        simp only [b1]
        split at hk
        · rename_i hki; subst hki
          rw [hn] at hk
          simp only [Option.map_some, Option.some.injEq] at hk
          subst hk
          exact b3
        · exact hstepNodes k n hk
      | some jc =>
        obtain ⟨j, c⟩ := jc
        have hj := server_of y srv j c hb
        have hc : Inv y.backend c := h.nodes j _ hj
        obtain ⟨b1, b2, b3, b4⟩ := proxy_call_spec y.backend h.wf (some c) hc p hp op
        simp only
        cases hres : callProxy y.backend (some c) p op with
        | mk s' r1 => cases r1 with
          | mk sc' r2 => cases r2 with
            | mk p' out =>
              rw [hres] at b1 b2 b3 b4
              simp only at b1 b2 b3 b4
              subst b1
              cases sc' with
              | none =>
                refine ⟨⟨hwf, ?_⟩, rfl, b4⟩
                intro k n hk
                simp only [setNode_get] at hk
                split at hk
                · rename_i hki; subst hki
                  rw [hn] at hk
                  simp only [Option.map_some, Option.some.injEq] at hk
                  subst hk
                  exact b3
                · exact hstepNodes k n hk
              | some c' =>
                refine ⟨⟨hwf, ?_⟩, rfl, b4⟩
                intro k n hk
                simp only [setNode_get] at hk
                split at hk
                · rename_i hki; subst hki
                  split at hk
                  · rename_i hkj
                    rw [hn] at hk
                    simp only [Option.map_some, Option.some.injEq] at hk
                    subst hk
                    exact b3
                  · rw [hn] at hk
                    simp only [Option.map_some, Option.some.injEq] at hk
                    subst hk
                    exact b3
                · split at hk
                  · rename_i hkj; subst hkj
                    rw [hj] at hk
                    simp only [Option.map_some, Option.some.injEq] at hk
                    subst hk
                    exact b2
                  · exact hstepNodes k n hk

/-- **cache_covers, system level**: after any history of calls by any of the clients, every cache
satisfies its invariant with respect to the backend as it is then. -/
theorem sys_inv_run (y : Sys) (h : SysInv y) (calls : List (Nat × Op)) : SysInv (y.run calls) := by
  induction calls generalizing y with
  | nil => exact h
  | cons c r ih => exact ih _ (sys_call_spec y h c.1 c.2).1

/-- The caches never change what is stored: the backend after any history through any mix of clients
is the backend after the same calls made directly. -/
theorem sys_backend_run (y : Sys) (h : SysInv y) (calls : List (Nat × Op)) :
    (y.run calls).backend = after y.backend (calls.map (·.2)) := by
  induction calls generalizing y with
  | nil => rfl
  | cons c r ih =>
    obtain ⟨h1, h2, _⟩ := sys_call_spec y h c.1 c.2
    have := ih _ h1
    simp only [Sys.run, List.foldl_cons, List.map_cons, after] at this ⊢
    rw [this, h2]

/-- a node whose cache is still empty -/
def isFreshNode : Node → Prop
  | .raw => True
  | .cached c => c = Client.init
  | .proxy _ p => p = Proxy.init

theorem sysInv_init (nodes : List Node) (h : ∀ n, n ∈ nodes → isFreshNode n) :
    SysInv { backend := Storage.init, nodes := nodes } := by
  refine ⟨wf_init, ?_⟩
  intro i n hn
  have hm : n ∈ nodes := List.mem_of_getElem? hn
  have := h n hm
  cases n with
  | raw => trivial
  | cached c => simp only [isFreshNode] at this; subst this; exact inv_init _
  | proxy srv p =>
    simp only [isFreshNode] at this; subst this
    intro sid e he
    simp [Proxy.init, find] at he

/-- **all_clients_see_backend_partial** (the property; *partial*: without reads about studies deleted
by another client and without a second thread of the same client between the steps of one call — both
excluded cases are false on the code, see the witnesses below): start from an empty database with any number of
clients of any kind (cached `_CachedStorage`, proxies whose servicer sits on the storage or on one of
the cached clients, raw writers), let them execute **any** interleaved history of storage calls, then
let any client `i` make any call `op`: it receives exactly what the underlying storage — which holds
exactly what the same calls made directly would have stored — answers at that moment. The only
exception (hypothesis `Targets`) is a cached read about a study that has been deleted. -/
theorem all_clients_see_backend_partial (nodes : List Node) (hfresh : ∀ n, n ∈ nodes → isFreshNode n)
    (calls : List (Nat × Op)) (i : Nat) (op : Op) :
    let y := Sys.run { backend := Storage.init, nodes := nodes } calls
    y.backend = after Storage.init (calls.map (·.2)) ∧
      (Targets y.backend op → (y.call i op).2 = (step y.backend op).2) := by
  intro y
  have h0 := sysInv_init nodes hfresh
  have hy : SysInv y := sys_inv_run _ h0 calls
  exact ⟨sys_backend_run _ h0 calls, (sys_call_spec y hy i op).2.2⟩

/-! ## threads inside one `_CachedStorage`: every critical section keeps the invariant -/

/-- The lock-granular pieces a run of several threads of one `_CachedStorage` object (and of all other
clients of the database) is made of.  A public method = a backend call outside the lock and one or
two of these sections; other threads and clients may run between them. -/
inductive Section where
  /-- any backend call (another client, a raw writer, or the unlocked backend call of a method) -/
  | backend (op : Op)
  /-- `_read_trials_from_remote_storage` (the lock is held across the fetch) -/
  | sync (sid : Nat)
  /-- locked part of `create_new_trial`, with the record its backend call returned earlier -/
  | noteCreated (sid : Nat) (p : Nat × TrialS)
  /-- locked part of `delete_study` -/
  | dropStudy (sid : Nat)
  /-- locked tail of `get_study_name_from_id` / `get_study_directions`, with what the backend returned earlier -/
  | memoName (sid : Nat) (nm : String)
  | memoDirs (sid : Nat) (d : List Nat)

/-- what the payload of a section must satisfy (it does when it was read from the backend earlier:
`payload_stable`) -/
def Section.enabled (s : Spec) : Section → Prop
  | .noteCreated sid p => Snapshot s sid p
  | .memoName sid nm => ∃ o, s.studies[sid]? = some o ∧ ∀ st, o = some st → st.name = nm
  | .memoDirs sid d => ∃ o, s.studies[sid]? = some o ∧ ∀ st, o = some st → st.directions = d
  | _ => True

def Section.run (s : Spec) (c : Client) : Section → Spec × Client
  | .backend op => ((step s op).1, c)
  | .sync sid => (s, (c.sync s sid).1)
  | .noteCreated sid p => (s, c.noteCreated sid p)
  | .dropStudy sid => (s, c.dropStudy sid)
  | .memoName sid nm => (s, { c with studies := upsert c.studies sid (fun e => { e with name := some nm }) })
  | .memoDirs sid d => (s, { c with studies := upsert c.studies sid (fun e => { e with directions := some d }) })

theorem snapshot_step (s : Spec) (op : Op) (sid : Nat) (p : Nat × TrialS) (h : Snapshot s sid p) :
    Snapshot (step s op).1 sid p := by
  obtain ⟨t', h1, h2, h3, h4⟩ := h
  obtain ⟨t1, g1, g2, g3⟩ := trial_study_step s op p.1 t' h1
  refine ⟨t1, g1, g2.trans h2, g3.trans h3, ?_⟩
  intro hf
  have e := h4 hf
  subst e
  have := finished_frozen_step s op p.1 p.2 h1 hf
  rw [g1] at this
  simpa using this

/-- A payload that was valid when it was read stays valid through every later backend step: the
record a thread carries into its critical section may be out of date, but never in a harmful way. -/
theorem payload_stable (s : Spec) (op : Op) (x : Section) (hx : x.enabled s) :
    x.enabled (step s op).1 := by
  cases x with
  | noteCreated sid p => exact snapshot_step s op sid p hx
  | memoName sid nm => exact memo_step (·.name) s op sid nm (fun f st hf => (hf st).1) hx
  | memoDirs sid d => exact memo_step (·.directions) s op sid d (fun f st hf => (hf st).2) hx
  | _ => trivial

/-- **every_section_keeps_inv**: whatever the interleaving of threads inside one `_CachedStorage` and
of other clients, at lock granularity, the invariant holds after every step — so every later sync
makes the cached view equal to the backend again (`sync_then_equal`) and a trial served from the
cache is never stale (`finished_never_stale`). -/
theorem every_section_keeps_inv (s : Spec) (hW : Wf s) (c : Client) (h : Inv s c) (x : Section)
    (hx : x.enabled s) : Wf (x.run s c).1 ∧ Inv (x.run s c).1 (x.run s c).2 := by
  cases x with
  | backend op => exact ⟨wf_step s op hW, inv_step s op c h⟩
  | sync sid => exact ⟨hW, cache_covers_sync s hW c sid h⟩
  | noteCreated sid p => exact ⟨hW, inv_noteCreated s hW.numbered c sid p h hx⟩
  | dropStudy sid => exact ⟨hW, inv_dropStudy s c sid h⟩
  | memoName sid nm =>
    exact ⟨hW, inv_upsert_field s c sid _ h (fun e => rfl)
      (entryInv_setName s sid _ nm (entryInv_entryD s c h sid) hx)⟩
  | memoDirs sid d =>
    exact ⟨hW, inv_upsert_field s c sid _ h (fun e => rfl)
      (entryInv_setDirs s sid _ d (entryInv_entryD s c h sid) hx)⟩

/-! ### … and so does every RUN of sections -/

/-- a run of critical sections / backend calls, in the order the lock and the database serialise them -/
def runSections (s : Spec) (c : Client) (secs : List Section) : Spec × Client :=
  secs.foldl (fun sc x => x.run sc.1 sc.2) (s, c)

/-- every section's payload is valid in the state in which that section runs -/
def EnabledAlong : Spec → Client → List Section → Prop
  | _, _, [] => True
  | s, c, x :: rest => x.enabled s ∧ EnabledAlong (x.run s c).1 (x.run s c).2 rest

theorem runSections_cons (s : Spec) (c : Client) (x : Section) (rest : List Section) :
    runSections s c (x :: rest) = runSections (x.run s c).1 (x.run s c).2 rest := rfl

/-- **sections_keep_inv**: for EVERY list of sections — any number of threads of one `_CachedStorage`, any other clients, any
interleaving at lock granularity, any length — if each payload is valid when its section runs, well-formedness and the cache
invariant hold at the end (and, `sections_keep_inv_every_prefix`, after every step on the way). -/
theorem sections_keep_inv : ∀ (secs : List Section) (s : Spec) (c : Client), Wf s → Inv s c → EnabledAlong s c secs →
    Wf (runSections s c secs).1 ∧ Inv (runSections s c secs).1 (runSections s c secs).2 := by
  intro secs
  induction secs with
  | nil => intro s c hW h _; exact ⟨hW, h⟩
  | cons x rest ih =>
    intro s c hW h hen
    obtain ⟨h1, h2⟩ := every_section_keeps_inv s hW c h x hen.1
    rw [runSections_cons]
    exact ih _ _ h1 h2 hen.2

theorem enabledAlong_take : ∀ (secs : List Section) (k : Nat) (s : Spec) (c : Client), EnabledAlong s c secs →
    EnabledAlong s c (secs.take k) := by
  intro secs
  induction secs with
  | nil => intro k s c h; simpa using h
  | cons x rest ih =>
    intro k s c h
    cases k with
    | zero => trivial
    | succ k => exact ⟨h.1, ih k _ _ h.2⟩

theorem sections_keep_inv_every_prefix (secs : List Section) (s : Spec) (c : Client) (hW : Wf s) (h : Inv s c)
    (hen : EnabledAlong s c secs) (k : Nat) :
    Wf (runSections s c (secs.take k)).1 ∧ Inv (runSections s c (secs.take k)).1 (runSections s c (secs.take k)).2 :=
  sections_keep_inv (secs.take k) s c hW h (enabledAlong_take secs k s c hen)

/-- only backend calls move the backend -/
theorem section_run_spec (s : Spec) (c : Client) (x : Section) :
    (x.run s c).1 = s ∨ ∃ op, (x.run s c).1 = (step s op).1 := by
  cases x with
  | backend op => exact Or.inr ⟨op, rfl⟩
  | _ => exact Or.inl rfl

/-- payloads that were all valid BEFORE the run (read from the backend earlier) stay valid until their section runs
(`payload_stable`), so the run keeps the invariant: the records the threads carry may be out of date, never harmful -/
theorem sections_keep_inv_of_read : ∀ (secs : List Section) (s : Spec) (c : Client), Wf s → Inv s c →
    (∀ x ∈ secs, x.enabled s) →
    Wf (runSections s c secs).1 ∧ Inv (runSections s c secs).1 (runSections s c secs).2 := by
  intro secs s c hW h hall
  refine sections_keep_inv secs s c hW h ?_
  clear hW h
  induction secs generalizing s c with
  | nil => trivial
  | cons x rest ih =>
    refine ⟨hall x (by simp), ih _ _ ?_⟩
    intro y hy
    have hys := hall y (List.mem_cons_of_mem _ hy)
    rcases section_run_spec s c x with e | ⟨op, e⟩
    · rw [e]; exact hys
    · rw [e]; exact payload_stable s op y hys

/-- a five-step run: two backend writes of anybody, two syncs, the locked part of `delete_study` -/
def demoSecs : List Section :=
  [.backend (.createStudy "s" [1]), .sync 0, .backend (.createTrial 0 none false), .sync 0, .dropStudy 0]

theorem demoSecs_enabled (s : Spec) (c : Client) : EnabledAlong s c demoSecs :=
  ⟨trivial, trivial, trivial, trivial, trivial, trivial⟩

/-- non-vacuity: from the empty database and a fresh client the hypotheses of `sections_keep_inv` hold for `demoSecs` -/
example : Inv (runSections Storage.init Client.init demoSecs).1 (runSections Storage.init Client.init demoSecs).2 :=
  (sections_keep_inv demoSecs Storage.init Client.init wf_init (inv_init _) (demoSecs_enabled _ _)).2

/-! ## sensitivity: the two ways the property fails -/

def wTmpl : Template :=
  { state := .fail, values := none, params := [], userAttrs := [], systemAttrs := [], inter := [],
    hasStart := true, hasComplete := true }

/-- backend: one study; worker B (raw) has a RUNNING trial (id 0) -/
def wS1 : Spec := after Storage.init [.createStudy "s" [1], .createTrial 0 none false]
/-- client A synced before B's trial existed -/
def wA0 : Client := (Client.init.sync (after Storage.init [.createStudy "s" [1]]) 0).1
/-- A adds an already finished trial (id 1) -/
def wS2 : Spec := (step wS1 (.createTrial 0 (some wTmpl) false)).1
def wNew : Nat × TrialS := (1, mkTrial 0 1 (some wTmpl))
/-- … B's trial finishes afterwards -/
def wS3 : Spec := (step wS2 (.setTrialStateValues 0 .fail none)).1

/-- **create_finished_template_hides_foreign_trial** (finding F6, regression witness): on the model
variant whose `create_new_trial` advances the watermark for a finished template
(`Client.noteCreatedF6`, the code before the repair), worker B's trial never appears in A's
`get_all_trials` — not even after it has finished — while the backend holds two trials. -/
theorem create_finished_template_hides_foreign_trial :
    ((entryD ((wA0.noteCreatedF6 0 wNew).sync wS3 0).1.studies 0).readAll none).length = 1 ∧
      (wS3.trialsOf 0).length = 2 := by decide

/-- The same history with the code as it is now: A sees both trials. -/
theorem create_finished_template_repaired :
    (entryD ((wA0.noteCreated 0 wNew).sync wS3 0).1.studies 0).readAll none = wS3.trialsOf 0 := by decide

/-- client A creates a study and a finished trial through its `_CachedStorage` -/
def dA : Spec × Client :=
  let r1 := callCached Storage.init Client.init (.createStudy "s" [1])
  let r2 := callCached r1.1 r1.2.1 (.createTrial 0 (some wTmpl) false)
  (r2.1, r2.2.1)
/-- another client deletes the study -/
def dS : Spec := (step dA.1 (.deleteStudy 0)).1

/-- **foreign_delete_serves_dead_trial_witness** (genuine limit of the code, reported): after a
*foreign* `delete_study`, `_CachedStorage` still answers `get_trial`, `get_study_name_from_id`,
`get_study_directions` and `get_trial_id_from_study_id_trial_number` from its cache, where the
backend raises `KeyError`.  This is why the theorems above carry `Targets`. -/
theorem foreign_delete_serves_dead_trial_witness :
    (step dS (.getTrial 0)).2 = .err .keyError ∧
    (callCached dS dA.2 (.getTrial 0)).2.2 = .trial 0 (mkTrial 0 0 (some wTmpl)) ∧
    (callCached dS dA.2 (.getStudyNameFromId 0)).2.2 = .str "s" ∧
    (step dS (.getStudyNameFromId 0)).2 = .err .keyError ∧
    (callCached dS dA.2 (.getTrialIdFromNumber 0 0)).2.2 = .nat 0 ∧
    (callCached dS dA.2 (.getAllTrials 0 none)).2.2 = .err .keyError := by decide

def wWaiting : Template :=
  { state := .waiting, values := none, params := [], userAttrs := [], systemAttrs := [], inter := [],
    hasStart := false, hasComplete := false }
/-- thread T1 of client A has made the backend call of `create_new_trial(WAITING template)` … -/
def rS1 : Spec := after Storage.init [.createStudy "s" [1], .createTrial 0 (some wWaiting) false]
def rSnap : Nat × TrialS := (0, mkTrial 0 0 (some wWaiting))
/-- … a foreign worker claims the trial (WAITING → RUNNING) … -/
def rS2 : Spec := (step rS1 (.setTrialStateValues 0 .running none)).1
/-- … thread T2 of A syncs (sees RUNNING), then T1 enters its critical section with its old snapshot -/
def rA : Client := ((Client.init.sync rS2 0).1).noteCreated 0 rSnap

/-- **stale_create_snapshot_after_sync_witness** (narrow genuine race, reported): between T2's sync
and T2's read of the dict, T1 files its out-of-date snapshot, so T2's `get_all_trials` shows the
trial WAITING although the backend had it RUNNING before T2's call began.  The invariant still holds
(`every_section_keeps_inv`): the id is in the unfinished set and the next sync repairs the view. -/
theorem stale_create_snapshot_after_sync_witness :
    (entryD rA.studies 0).readAll none ≠ rS2.trialsOf 0 ∧
    (entryD rA.studies 0).unfinished = [0] ∧
    (entryD (rA.sync rS2 0).1.studies 0).readAll none = rS2.trialsOf 0 := by decide

/-! ## non-vacuity -/

example : Snapshot rS2 0 rSnap ∧ ¬ Current rS2 0 rSnap := by
  refine ⟨⟨(rS2.trials[0]?).getD rSnap.2, by decide, by decide, by decide, by decide⟩, ?_⟩
  intro h
  have : rS2.trials[0]? = some rSnap.2 := h.1
  revert this
  decide


/-- a four-client system: a `_CachedStorage`, a proxy whose servicer uses it, a proxy on a servicer
over the storage itself, a raw writer -/
def demoNodes : List Node := [.cached Client.init, .proxy (some 0) Proxy.init, .proxy none Proxy.init, .raw]

def demoCalls : List (Nat × Op) :=
  [ (3, .createStudy "a" [1]), (0, .createStudy "b" [2]),
    (0, .getAllTrials 0 none), (1, .getAllTrials 0 none), (2, .getAllTrials 0 none),
    (3, .createTrial 0 none false),                 -- id 0, RUNNING, by the raw writer
    (1, .createTrial 1 none false),                 -- id 1, other study, through proxy → cached server
    (0, .createTrial 0 (some wTmpl) false),         -- id 2, finished template through the cached client
    (2, .createTrial 0 (some { wTmpl with state := .waiting, hasStart := false, hasComplete := false }) false),
    (0, .getAllTrials 0 none), (1, .getAllTrials 0 (some [.running])), (2, .getAllTrials 0 none),
    (3, .setTrialStateValues 3 .running none), (2, .setTrialStateValues 0 .fail none),   -- out of creation order
    (0, .getTrial 2), (0, .getTrial 0), (0, .getTrialIdFromNumber 0 2), (0, .getStudyNameFromId 0) ]

def demoSys : Sys := Sys.run { backend := Storage.init, nodes := demoNodes } demoCalls

example : ∀ n, n ∈ demoNodes → isFreshNode n := by
  intro n hn
  simp only [demoNodes, List.mem_cons, List.not_mem_nil, or_false] at hn
  rcases hn with h | h | h | h <;> subst h <;> simp [isFreshNode]

-- the hypotheses of the theorems are satisfiable by interesting states: three trials of study 0,
-- a non-trivial watermark and unfinished set in the cached client, served-from-cache reads
example : (demoSys.backend.trialsOf 0).length = 3 := by decide
example : (match (demoSys.nodes[0]? : Option Node) with
    | some (.cached c) => ((entryD c.studies 0).watermark, (entryD c.studies 0).unfinished)
    | _ => (0, [])) = (2, [0, 3]) := by decide
example : (match (demoSys.nodes[0]? : Option Node) with
    | some (.cached c) => c.serveTrial 2
    | _ => .miss) = .hit 2 (mkTrial 0 1 (some wTmpl)) := by decide
example : (demoSys.call 0 (.getAllTrials 0 (some [.fail]))).2 =
    (step demoSys.backend (.getAllTrials 0 (some [.fail]))).2 := by decide
example : (demoSys.call 1 (.getAllTrials 0 none)).2 = (step demoSys.backend (.getAllTrials 0 none)).2 := by decide
example : Targets demoSys.backend (.getTrial 2) := by
  intro t ht
  have : demoSys.backend.trials[2]? = some (mkTrial 0 1 (some wTmpl)) := by decide
  rw [this] at ht
  simp only [Option.some.injEq] at ht
  subst ht
  decide
example : servicerFilter [1, 7] 3 [(1, mkTrial 0 0 none), (2, mkTrial 0 1 none), (5, mkTrial 0 2 none)] =
    [(1, mkTrial 0 0 none), (5, mkTrial 0 2 none)] := by decide
example : rdbFilter [] (-1) [(0, mkTrial 0 0 none)] = [(0, mkTrial 0 0 none)] := by decide

end OptunaVerif.C08
