import OptunaVerif.Generated.CacheMethods
import OptunaVerif.Lemmas.CacheIR
import OptunaVerif.Props.C08
/-!
# C08 (translator tie) — the two client-side trial caches *as written in the source today* are the hand model

`Generated/CacheMethods.lean` is regenerated on every run by `verif/translators/tcache.py` from
`optuna/storages/_cached_storage.py` (every method of `_CachedStorage`), `optuna/storages/_rdb/storage.py`
(`RDBStorage._get_trials`), `optuna/storages/_grpc/client.py` (`GrpcClientCache`, three methods of `GrpcStorageProxy`) and
`optuna/storages/_grpc/servicer.py` (`GetTrials`), as data of the statement language of `Model/CacheIR.lean`.

Proved here, for **all** backend states, cache states and arguments (no bound, no sampling):
* per method, the interpreter of the generated body equals the hand model (`interp_*`): the branches of
  `Cache.callCached` (memo of name / directions / number→id, `create_new_trial` with the unfinished-set bookkeeping and
  the untouched watermark — finding F6 —, `_get_cached_trial`, `delete_study`'s memo cleanup, `get_all_trials` =
  `Client.sync` + `Entry.readAll`, every pass-through), `Cache.rdbFilter` / `fetchRdb` (whichever of the three queries,
  also through the `OperationalError` fallback), `Cache.servicerFilter`, `Cache.Proxy.getAll`, `Cache.callProxy`;
* hence the composition in which every callee is the interpreter of its own generated body (`CacheIR.Program.callCached`,
  `callProxy`, `sysCall` of `CacheMethods.program`) equals the hand model (`gen_*_eq`);
* therefore the theorems of `Props/C08.lean` hold of the interpreter of the generated code (`gen_*`).
-/
set_option linter.unusedSimpArgs false
set_option linter.unusedVariables false
namespace OptunaVerif.C08Gen
open OptunaVerif OptunaVerif.Storage OptunaVerif.Cache OptunaVerif.CacheIR OptunaVerif.C08
open OptunaVerif.Generated

abbrev G : Program := CacheMethods.program

macro "cache_simp" "[" ts:Lean.Parser.Tactic.simpLemma,* "]" : tactic =>
  `(tactic| simp [interpCached, block, exec, evalCond, cachedM, finishCached, ok, bad, keyErr, setL, setStudies, initLocals,
      opSid, opTid, opNum, opStates, backendMatches, updAlias, aliasEntry, callCached, upsert, entryD, find_insert_same,
      insert_insert, forLoop, $ts,*])

/-! ## `_CachedStorage`: the memo getters, `create_new_study`, `create_new_trial` -/

/-- (for the examples) the backend's fetch as generated -/
abbrev handFetch' : Fetch := rdbFetch CacheMethods.rdbGetTrials false

theorem interp_createNewStudy (fetch : Fetch) (s : Spec) (c : Client) (name : String) (dirs : List Nat) :
    interpCached CacheMethods.createNewStudy fetch s c (.createStudy name dirs) =
      some (callCached s c (.createStudy name dirs)) := by
  cases h : s.nameTaken name <;> cache_simp [CacheMethods.createNewStudy, step, h]
example : (interpCached CacheMethods.createNewStudy handFetch' Storage.init Client.init (.createStudy "s" [1])).map (fun r => (r.2.1.studies.length, r.2.2)) =
    some (1, .newId 0) := by decide

theorem interp_getStudyNameFromId (fetch : Fetch) (s : Spec) (c : Client) (sid : Nat) :
    interpCached CacheMethods.getStudyNameFromId fetch s c (.getStudyNameFromId sid) =
      some (callCached s c (.getStudyNameFromId sid)) := by
  cases hs : s.study? sid <;> cases hf : find c.studies sid with
  | none => cache_simp [CacheMethods.getStudyNameFromId, step, hs, hf]
  | some e =>
    cases hn : e.name <;> cache_simp [CacheMethods.getStudyNameFromId, step, hs, hf, hn]

theorem interp_getStudyDirections (fetch : Fetch) (s : Spec) (c : Client) (sid : Nat) :
    interpCached CacheMethods.getStudyDirections fetch s c (.getStudyDirections sid) =
      some (callCached s c (.getStudyDirections sid)) := by
  cases hs : s.study? sid <;> cases hf : find c.studies sid with
  | none => cache_simp [CacheMethods.getStudyDirections, step, hs, hf]
  | some e =>
    cases hn : e.directions <;> cache_simp [CacheMethods.getStudyDirections, step, hs, hf, hn]

theorem interp_createNewTrial (fetch : Fetch) (s : Spec) (c : Client) (sid : Nat) (tm : Option Template) (ir : Bool) :
    interpCached CacheMethods.createNewTrial fetch s c (.createTrial sid tm ir) =
      some (callCached s c (.createTrial sid tm ir)) := by
  cases hs : s.study? sid with
  | none => cache_simp [CacheMethods.createNewTrial, step, hs]
  | some st =>
    by_cases hc : (ir = true ∧ s.tmplConflict sid st tm = true)
    · cache_simp [CacheMethods.createNewTrial, step, hs, hc]
    · cases hfin : (mkTrial sid (s.trialsOf sid).length tm).state.isFinished <;>
      cases hf : find c.studies sid with
      | none =>
        cache_simp [CacheMethods.createNewTrial, CacheMethods.addTrialsToCache, step, hs, hc, hf, hfin, Client.noteCreated,
          Client.addOne, exec_call]
      | some e =>
        cache_simp [CacheMethods.createNewTrial, CacheMethods.addTrialsToCache, step, hs, hc, hf, hfin, Client.noteCreated,
          Client.addOne, exec_call, insert_self _ _ _ hf]
example : (interpCached CacheMethods.createNewTrial handFetch' wS1 wA0 (.createTrial 0 (some wTmpl) false)).map
    (fun r => ((entryD r.2.1.studies 0).watermark, (entryD r.2.1.studies 0).unfinished, r.2.2)) = some (-1, [], .newId 1) := by decide

/-! ## number lookup, `get_trial` / `_get_cached_trial` -/

theorem interp_getTrialIdFromNumber (fetch : Fetch) (s : Spec) (c : Client) (sid n : Nat) :
    interpCached CacheMethods.getTrialIdFromStudyIdTrialNumber fetch s c (.getTrialIdFromNumber sid n) =
      some (callCached s c (.getTrialIdFromNumber sid n)) := by
  cases hf : find c.sn2id (sid, n) with
  | some tid => cache_simp [CacheMethods.getTrialIdFromStudyIdTrialNumber, hf]
  | none =>
    have hdef : CacheMethods.getTrialIdFromStudyIdTrialNumber =
      .seq (.act .makeKey) (.seq (.locked (.ite (.prim .keyInSn2id) (.ret .sn2idAtKey) .skip))
        (.seq (.act (.backend .getTrialIdFromStudyIdTrialNumber)) (.ret .backendResult))) := rfl
    unfold interpCached
    rw [hdef, exec_seq]
    have h1 : exec (cachedM (.getTrialIdFromNumber sid n) fetch) (.act .makeKey) none
        { s := s, c := c, l := initLocals (.getTrialIdFromNumber sid n) } =
        ({ s := s, c := c, l := { initLocals (.getTrialIdFromNumber sid n) with key := some (sid, n) } }, .next) := by
      simp [exec, cachedM, initLocals, opSid, opNum, ok, setL]
    rw [h1]
    simp only []
    rw [exec_seq]
    have h2 : ∀ x : CSt, x.c = c → x.l.key = some (sid, n) →
        exec (cachedM (.getTrialIdFromNumber sid n) fetch) (.locked (.ite (.prim .keyInSn2id) (.ret .sn2idAtKey) .skip)) none x =
        (x, .next) := by
      intro x hc hk
      simp [exec, evalCond, cachedM, hc, hk, hf]
    rw [h2 _ rfl rfl]
    simp only []
    rw [exec_forward_ret _ _ _ rfl]
    simp [callCached, hf]
example : (interpCached CacheMethods.getTrialIdFromStudyIdTrialNumber handFetch' wS2 (wA0.noteCreated 0 wNew) (.getTrialIdFromNumber 0 1)).map (·.2.2) =
    some (.nat 1) := by decide

/-- `get_trial` (also behind `get_trial_number_from_id` / `get_trial_param` of BaseStorage) -/
theorem interp_getTrial_body (fetch : Fetch) (s : Spec) (c : Client) (op : Op) (tid : Nat) (hop : opTid op = some tid)
    (hm : backendMatches .getTrial op = true) :
    interpCached CacheMethods.getTrial fetch s c op =
      some (match c.serveTrial tid with
        | .hit id t => (s, c, .trial id t)
        | .crash => (s, c, .err .keyError)
        | .miss => ((step s op).1, c, (step s op).2)) := by
  have hdef : CacheMethods.getTrial =
      .seq (.locked (.seq (.call .trialId .trial CacheMethods.getCachedTrial) (.ite (.not (.prim .trialIsNone)) (.ret .trial) .skip)))
        (.seq (.act (.backend .getTrial)) (.ret .backendResult)) := rfl
  unfold interpCached
  rw [hdef, exec_seq]
  have hx : ∀ x : CSt, (exec (cachedM op fetch) (.seq (.act (.backend .getTrial)) (.ret .backendResult)) none x).1.c = x.c →
      True := fun _ _ => trivial
  cases hf : find c.id2sn tid with
  | none =>
    have : exec (cachedM op fetch)
        (.locked (.seq (.call .trialId .trial CacheMethods.getCachedTrial) (.ite (.not (.prim .trialIsNone)) (.ret .trial) .skip)))
        none { s := s, c := c, l := initLocals op } =
        ({ s := s, c := c, l := { initLocals op with trial := some none } }, .next) := by
      simp [exec, evalCond, cachedM, CacheMethods.getCachedTrial, block, initLocals, hop, hf, ok, setL]
    rw [this]
    simp only []
    rw [exec_forward_ret _ _ _ hm]
    simp [Client.serveTrial, hf]
  | some sn =>
    obtain ⟨sid, n⟩ := sn
    cases hs : find c.studies sid with
    | none =>
      simp [exec, evalCond, cachedM, CacheMethods.getCachedTrial, block, initLocals, hop, hf, hs, ok, setL, keyErr,
        finishCached, Client.serveTrial]
    | some e =>
      cases hu : e.unfinished.contains tid with
      | true =>
        have hu' : tid ∈ e.unfinished := by simpa using hu
        have : exec (cachedM op fetch)
            (.locked (.seq (.call .trialId .trial CacheMethods.getCachedTrial) (.ite (.not (.prim .trialIsNone)) (.ret .trial) .skip)))
            none { s := s, c := c, l := initLocals op } =
            ({ s := s, c := c, l := { initLocals op with trial := some none } }, .next) := by
          simp [exec, evalCond, cachedM, CacheMethods.getCachedTrial, block, initLocals, hop, hf, hs, hu, hu', ok, setL, aliasEntry]
        rw [this]
        simp only []
        rw [exec_forward_ret _ _ _ hm]
        simp [Client.serveTrial, hf, hs, hu, hu']
      | false =>
        have hu' : tid ∉ e.unfinished := by simpa using hu
        cases ht : find e.trials n with
        | none =>
          simp [exec, evalCond, cachedM, CacheMethods.getCachedTrial, block, initLocals, hop, hf, hs, hu, hu', ht, ok, setL, keyErr,
            aliasEntry, finishCached, Client.serveTrial]
        | some p =>
          simp [exec, evalCond, cachedM, CacheMethods.getCachedTrial, block, initLocals, hop, hf, hs, hu, hu', ht, ok, setL, keyErr,
            aliasEntry, finishCached, Client.serveTrial]
example : (interpCached CacheMethods.getTrial handFetch' wS3 (wA0.noteCreated 0 wNew) (.getTrial 1)).map (·.2.2) =
    some (.trial 1 (mkTrial 0 1 (some wTmpl))) := by decide

/-! ## `delete_study` -/

/-- the body of the loop of `delete_study` -/
def dropBody : Stmt := block [.act .lookupIdOpt, .ite (.prim .tidInId2sn) (.act .delId2sn) .skip,
  .ite (.prim .keyInSn2id) (.act .delSn2id) .skip]

theorem drop_loop (op : Op) (fetch : Fetch) (sid : Nat) (ks : List (Nat × (Nat × TrialS))) (x : CSt)
    (hsid : x.l.sid = some sid) (hkey : x.l.key = none) :
    ∃ l', forLoop (exec (cachedM op fetch) dropBody none) ((cachedM op fetch).bind .cachedNumbers)
        (ks.map (fun kv => Sum.inl kv.1)) x = ({ x with c := ks.foldl (dropStep sid) x.c, l := l' }, .next) ∧
      l'.sid = some sid ∧ l'.key = none := by
  induction ks generalizing x with
  | nil => exact ⟨x.l, rfl, hsid, hkey⟩
  | cons kv t ih =>
    simp only [List.map_cons, forLoop_cons, List.foldl_cons]
    have hstep : exec (cachedM op fetch) dropBody none ((cachedM op fetch).bind .cachedNumbers (Sum.inl kv.1) x) =
        ({ x with c := dropStep sid x.c kv, l := { x.l with num := some kv.1, tid := find x.c.sn2id (sid, kv.1) } }, .next) := by
      cases h1 : find x.c.sn2id (sid, kv.1) with
      | none =>
        simp [dropBody, block, exec, evalCond, cachedM, setL, ok, hsid, hkey, h1, dropStep, erase_of_find_none _ _ h1]
      | some tid =>
        cases h2 : find x.c.id2sn tid with
        | none =>
          simp [dropBody, block, exec, evalCond, cachedM, setL, ok, hsid, hkey, h1, h2, dropStep, erase_of_find_none _ _ h2]
        | some sn =>
          simp [dropBody, block, exec, evalCond, cachedM, setL, ok, hsid, hkey, h1, h2, dropStep]
    rw [hstep]
    simp only []
    obtain ⟨l', e2, s2, k2⟩ := ih { x with c := dropStep sid x.c kv, l := { x.l with num := some kv.1, tid := find x.c.sn2id (sid, kv.1) } } hsid hkey
    exact ⟨l', e2, s2, k2⟩

theorem drop_studies (sid : Nat) (kvs : List (Nat × (Nat × TrialS))) (c : Client) :
    (kvs.foldl (dropStep sid) c).studies = c.studies := by
  induction kvs generalizing c with
  | nil => rfl
  | cons kv t ih => simp only [List.foldl_cons]; rw [ih]; rfl

theorem interp_deleteStudy (fetch : Fetch) (s : Spec) (c : Client) (sid : Nat) :
    interpCached CacheMethods.deleteStudy fetch s c (.deleteStudy sid) = some (callCached s c (.deleteStudy sid)) := by
  have hdef : CacheMethods.deleteStudy =
      .seq (.locked (.ite (.prim .studyIdInStudies) (.seq (.forIn .cachedNumbers dropBody) (.act .delStudy)) .skip))
        (.act (.backend .deleteStudy)) := rfl
  have hu : ∀ s' : Spec, (step s' (.deleteStudy sid)).2 = .unit ∨ ∃ e, (step s' (.deleteStudy sid)).2 = .err e := by
    intro s'
    simp only [step]
    split
    · exact .inr ⟨_, rfl⟩
    · exact .inl rfl
  unfold interpCached
  rw [hdef, exec_seq, exec_locked, exec_ite]
  simp only [callCached, dropStudy_eq]
  cases hf : find c.studies sid with
  | none =>
    have h1 : evalCond (cachedM (.deleteStudy sid) fetch) (.prim .studyIdInStudies) none
        { s := s, c := c, l := initLocals (.deleteStudy sid) } =
        ({ s := s, c := c, l := initLocals (.deleteStudy sid) }, .ok false) := by
      simp [evalCond, cachedM, initLocals, opSid, hf]
    rw [h1]
    simp only [exec_skip]
    rw [exec_forward_unit .deleteStudy _ _ rfl _ (hu _)]
  | some e =>
    have h1 : evalCond (cachedM (.deleteStudy sid) fetch) (.prim .studyIdInStudies) none
        { s := s, c := c, l := initLocals (.deleteStudy sid) } =
        ({ s := s, c := c, l := initLocals (.deleteStudy sid) }, .ok true) := by
      simp [evalCond, cachedM, initLocals, opSid, hf]
    rw [h1]
    simp only []
    rw [exec_seq, exec_forIn]
    have hit : (cachedM (.deleteStudy sid) fetch).items .cachedNumbers { s := s, c := c, l := initLocals (.deleteStudy sid) } =
        ({ s := s, c := c, l := initLocals (.deleteStudy sid) }, .ok (e.trials.map (fun kv => Sum.inl kv.1))) := by
      simp [cachedM, initLocals, opSid, hf]
    rw [hit]
    simp only []
    obtain ⟨l', hl, hs', _⟩ := drop_loop (.deleteStudy sid) fetch sid e.trials
      { s := s, c := c, l := initLocals (.deleteStudy sid) } rfl rfl
    rw [hl]
    simp only []
    have hst := drop_studies sid e.trials c
    have h2 : exec (cachedM (.deleteStudy sid) fetch) (.act .delStudy) none
        { s := s, c := e.trials.foldl (dropStep sid) c, l := l' } =
        ({ s := s, c := { e.trials.foldl (dropStep sid) c with
              studies := erase (e.trials.foldl (dropStep sid) c).studies sid }, l := l' }, .next) := by
      simp [exec, cachedM, hs', hst, hf, ok, setStudies]
    rw [h2]
    simp only []
    rw [exec_forward_unit .deleteStudy _ _ rfl _ (hu _)]
example : (interpCached CacheMethods.deleteStudy handFetch' wS2 (wA0.noteCreated 0 wNew) (.deleteStudy 0)).map
    (fun r => (r.2.1.studies.length, r.2.1.id2sn.length, r.2.1.sn2id.length, r.2.2)) = some (0, 0, 0, .unit) := by decide

/-! ## `get_all_trials`: `_read_trials_from_remote_storage`, `_add_trials_to_cache` -/

/-- the loop body of `_add_trials_to_cache` -/
def addBody : Stmt := block [.act .setId2sn, .act .setSn2id, .act .setEntryTrial]

theorem add_loop (op : Op) (fetch : Fetch) (sid : Nat) (l : List (Nat × TrialS)) (x : CSt)
    (hsid : x.l.sid = some sid) (hst : x.l.study = .stored sid) (hex : ∃ e0, find x.c.studies sid = some e0) :
    ∃ l', forLoop (exec (cachedM op fetch) addBody none) ((cachedM op fetch).bind .trials) (l.map Sum.inr) x =
        ({ x with c := l.foldl (Client.addOne sid) x.c, l := l' }, .next) ∧
      l'.sid = some sid ∧ l'.study = .stored sid ∧ l'.trials = x.l.trials ∧ l'.states = x.l.states := by
  induction l generalizing x with
  | nil => exact ⟨x.l, rfl, hsid, hst, rfl, rfl⟩
  | cons p t ih =>
    obtain ⟨e0, he0⟩ := hex
    simp only [List.map_cons, forLoop_cons, List.foldl_cons]
    have hstep : exec (cachedM op fetch) addBody none ((cachedM op fetch).bind .trials (Sum.inr p) x) =
        ({ x with c := Client.addOne sid x.c p, l := { x.l with trial := some (some p) } }, .next) := by
      simp [addBody, block, exec, cachedM, setL, ok, hsid, hst, he0, updAlias, setStudies, Client.addOne]
    rw [hstep]
    simp only []
    obtain ⟨l', e2, s2, k2, t2, u2⟩ := ih { x with c := Client.addOne sid x.c p, l := { x.l with trial := some (some p) } } hsid hst
      ⟨(entryD x.c.studies sid).addTrial p, find_upsert_same x.c.studies sid (fun e => e.addTrial p)⟩
    exact ⟨l', e2, s2, k2, t2, u2⟩

/-- the body of the bookkeeping loop of `_read_trials_from_remote_storage` -/
def noteBody : Stmt := block [
  .ite (.not (.prim .trialFinished)) (block [.act .unfinishedAddTrial, .cont]) .skip,
  .act .watermarkMaxTrial,
  .ite (.prim .trialInUnfinished) (.act .unfinishedRemoveTrial) .skip]

theorem note_step (op : Op) (fetch : Fetch) (sid : Nat) (p : Nat × TrialS) (x : CSt)
    (hst : x.l.study = .stored sid) (e0 : Entry) (he0 : find x.c.studies sid = some e0) :
    ∃ fl, (fl = .next ∨ fl = .cont) ∧
      exec (cachedM op fetch) noteBody none ((cachedM op fetch).bind .trials (Sum.inr p) x) =
        ({ x with c := { x.c with studies := insert x.c.studies sid (e0.noteState p) }, l := { x.l with trial := some (some p) } }, fl) := by
  cases hfin : p.2.state.isFinished with
  | false =>
    refine ⟨.cont, .inr rfl, ?_⟩
    simp [noteBody, block, exec, evalCond, cachedM, setL, ok, hst, he0, updAlias, setStudies, aliasEntry, hfin,
      upsert, entryD, Entry.noteState]
  | true =>
    refine ⟨.next, .inl rfl, ?_⟩
    cases hc : e0.unfinished.contains p.1 with
    | true =>
      have hc' : p.1 ∈ e0.unfinished := by simpa using hc
      simp [noteBody, block, exec, evalCond, cachedM, setL, ok, hst, he0, updAlias, setStudies, aliasEntry, hfin, hc, hc',
        upsert, entryD, Entry.noteState, find_insert_same, insert_insert]
    | false =>
      have hc' : p.1 ∉ e0.unfinished := by simpa using hc
      simp [noteBody, block, exec, evalCond, cachedM, setL, ok, hst, he0, updAlias, setStudies, aliasEntry, hfin, hc, hc',
        upsert, entryD, Entry.noteState, find_insert_same, insert_insert, uremove_of_not_contains _ _ hc]

theorem note_loop (op : Op) (fetch : Fetch) (sid : Nat) (l : List (Nat × TrialS)) (x : CSt)
    (hst : x.l.study = .stored sid) (e0 : Entry) (he0 : find x.c.studies sid = some e0) :
    ∃ l', forLoop (exec (cachedM op fetch) noteBody none) ((cachedM op fetch).bind .trials) (l.map Sum.inr) x =
        ({ x with c := { x.c with studies := insert x.c.studies sid (l.foldl Entry.noteState e0) }, l := l' }, .next) ∧
      l'.sid = x.l.sid ∧ l'.study = .stored sid := by
  induction l generalizing x e0 with
  | nil =>
    refine ⟨x.l, ?_, rfl, hst⟩
    simp [forLoop, insert_self _ _ _ he0]
  | cons p t ih =>
    simp only [List.map_cons, forLoop_cons, List.foldl_cons]
    obtain ⟨fl, hfl, hstep⟩ := note_step op fetch sid p x hst e0 he0
    rw [hstep]
    obtain ⟨l', e2, s2, k2⟩ := ih ({ x with c := { x.c with studies := insert x.c.studies sid (e0.noteState p) }, l := { x.l with trial := some (some p) } } : CSt) hst (e0.noteState p) (by simp [find_insert_same])
    refine ⟨l', ?_, s2, k2⟩
    rcases hfl with rfl | rfl <;> simp only [] <;> rw [e2] <;> simp [insert_insert]

/-- the backend's `_get_trials` by the hand model (`fetchRdb`; a `states` argument filters on the database side) -/
def handFetch : Fetch := fun s sid st inc w =>
  some (match fetchRdb s sid inc w with
    | .ok l => .ok (l.filter (fun p => stateIn st p.2.state))
    | .error e => .error e)

theorem addOne_fold_find (sid : Nat) (l : List (Nat × TrialS)) (c : Client) (h : ∃ e, find c.studies sid = some e) :
    ∃ e, find (l.foldl (Client.addOne sid) c).studies sid = some e := by
  induction l generalizing c with
  | nil => exact h
  | cons p t ih => exact ih _ ⟨_, find_upsert_same c.studies sid (fun e => e.addTrial p)⟩

abbrev readS : Stmt := CacheMethods.readTrialsFromRemoteStorage

/-- `_read_trials_from_remote_storage(study_id)` as generated is `Client.sync` -/
theorem exec_read (op : Op) (sid : Nat) (x : CSt) (hl : x.l = { sid := some sid }) :
    (∃ err l', (x.c.sync x.s sid).2 = some err ∧
        exec (cachedM op handFetch) readS none x = ({ x with c := (x.c.sync x.s sid).1, l := l' }, .raised (.err err))) ∨
    (∃ l' rv fl, (x.c.sync x.s sid).2 = none ∧ (fl = .ret ∨ fl = .next) ∧
        exec (cachedM op handFetch) readS none x = ({ s := x.s, c := (x.c.sync x.s sid).1, l := l', retv := rv }, fl)) := by
  obtain ⟨s, c, lo, rv0⟩ := x
  simp only [] at hl
  subst hl
  have hdef : readS = .locked (.seq (.ite (.not (.prim .studyIdInStudies)) (.act .initStudyInfo) .skip)
      (.seq (.act .aliasStudy) (.seq (.act (.backendGetTrials true))
        (.seq (.ite (.not (.prim .trialsTruthy)) (.ret .none) .skip)
          (.seq (.call .studyIdTrials .drop (.seq (.act .aliasStudy) (.forIn .trials addBody)))
            (.forIn .trials noteBody)))))) := rfl
  -- the entry after `if study_id not in self._studies: …`
  obtain ⟨e0, he0⟩ : ∃ e0, find (upsert c.studies sid id) sid = some e0 := ⟨_, find_upsert_same _ _ _⟩
  have hpre : exec (cachedM op handFetch) (.ite (.not (.prim .studyIdInStudies)) (.act .initStudyInfo) .skip) none
      { s := s, c := c, l := { sid := some sid }, retv := rv0 } =
      ({ s := s, c := { c with studies := upsert c.studies sid id }, l := { sid := some sid }, retv := rv0 }, .next) := by
    cases hf : find c.studies sid with
    | none => simp [exec, evalCond, cachedM, hf, ok, setStudies, upsert, entryD]
    | some e => simp [exec, evalCond, cachedM, hf, ok, setStudies, upsert, entryD, insert_self _ _ _ hf]
  have hentry : entryD (upsert c.studies sid id) sid = e0 := by simp [entryD, he0]
  rw [hdef, exec_locked, exec_seq, hpre]
  simp only []
  rw [exec_seq]
  have halias : exec (cachedM op handFetch) (.act .aliasStudy) none
      { s := s, c := { c with studies := upsert c.studies sid id }, l := { sid := some sid }, retv := rv0 } =
      ({ s := s, c := { c with studies := upsert c.studies sid id }, l := { sid := some sid, study := .stored sid }, retv := rv0 }, .next) := by
    simp [exec, cachedM, he0, ok, setL]
  rw [halias]
  simp only []
  rw [exec_seq]
  simp only [Client.sync, hentry]
  cases hfetch : fetchRdb s sid e0.unfinished e0.watermark with
  | error err =>
    left
    refine ⟨err, { sid := some sid, study := .stored sid }, rfl, ?_⟩
    have hf3 : exec (cachedM op handFetch) (.act (.backendGetTrials true)) none
        { s := s, c := { c with studies := upsert c.studies sid id }, l := { sid := some sid, study := .stored sid }, retv := rv0 } =
        ({ s := s, c := { c with studies := upsert c.studies sid id }, l := { sid := some sid, study := .stored sid }, retv := rv0 }, .raised (.err err)) := by
      simp [exec, cachedM, aliasEntry, he0, handFetch, hfetch]
    rw [hf3]
  | ok l =>
    right
    have hf3 : exec (cachedM op handFetch) (.act (.backendGetTrials true)) none
        { s := s, c := { c with studies := upsert c.studies sid id }, l := { sid := some sid, study := .stored sid }, retv := rv0 } =
        ({ s := s, c := { c with studies := upsert c.studies sid id }, l := { sid := some sid, study := .stored sid, trials := some l }, retv := rv0 }, .next) := by
      simp [exec, cachedM, aliasEntry, he0, handFetch, hfetch, ok, setL, stateIn]
    rw [hf3]
    simp only []
    rw [exec_seq]
    cases l with
    | nil =>
      refine ⟨{ sid := some sid, study := .stored sid, trials := some [] }, some .unit, .ret, (by trivial), .inl rfl, ?_⟩
      have h4 : exec (cachedM op handFetch) (.ite (.not (.prim .trialsTruthy)) (.ret .none) .skip) none
          { s := s, c := { c with studies := upsert c.studies sid id }, l := { sid := some sid, study := .stored sid, trials := some [] }, retv := rv0 } =
          ({ s := s, c := { c with studies := upsert c.studies sid id }, l := { sid := some sid, study := .stored sid, trials := some [] }, retv := some .unit }, .ret) := by
        simp [exec, evalCond, cachedM, ok]
      rw [h4]
      simp [upsert_upsert]
      simp [upsert, entryD]
    | cons p t =>
      have h4 : exec (cachedM op handFetch) (.ite (.not (.prim .trialsTruthy)) (.ret .none) .skip) none
          { s := s, c := { c with studies := upsert c.studies sid id }, l := { sid := some sid, study := .stored sid, trials := some (p :: t) }, retv := rv0 } =
          ({ s := s, c := { c with studies := upsert c.studies sid id }, l := { sid := some sid, study := .stored sid, trials := some (p :: t) }, retv := rv0 }, .next) := by
        simp [exec, evalCond, cachedM, ok]
      rw [h4]
      simp only []
      rw [exec_seq, exec_call]
      have henter : (cachedM op handFetch).enter .studyIdTrials
          { s := s, c := { c with studies := upsert c.studies sid id }, l := { sid := some sid, study := .stored sid, trials := some (p :: t) }, retv := rv0 } =
          ({ s := s, c := { c with studies := upsert c.studies sid id }, l := { sid := some sid, trials := some (p :: t) }, retv := none }, none) := by
        simp [cachedM, ok]
      rw [henter]
      simp only []
      rw [exec_seq]
      have hal2 : exec (cachedM op handFetch) (.act .aliasStudy) none
          { s := s, c := { c with studies := upsert c.studies sid id }, l := { sid := some sid, trials := some (p :: t) }, retv := none } =
          ({ s := s, c := { c with studies := upsert c.studies sid id }, l := { sid := some sid, study := .stored sid, trials := some (p :: t) }, retv := none }, .next) := by
        simp [exec, cachedM, he0, ok, setL]
      rw [hal2]
      simp only []
      rw [exec_forIn]
      have hit : ∀ y : CSt, y.l.trials = some (p :: t) →
          (cachedM op handFetch).items .trials y = (y, .ok ((p :: t).map Sum.inr)) := by
        intro y hy; simp [cachedM, hy]
      rw [hit _ rfl]
      simp only []
      obtain ⟨l1, e1, _, _, _, _⟩ := add_loop op handFetch sid (p :: t)
        { s := s, c := { c with studies := upsert c.studies sid id }, l := { sid := some sid, study := .stored sid, trials := some (p :: t) }, retv := none } rfl rfl ⟨e0, he0⟩
      rw [e1]
      simp only []
      -- back in `_read_trials_from_remote_storage`
      have hleave : ∀ (a b : CSt), (cachedM op handFetch).leave .drop a b = { b with l := a.l, retv := a.retv } := by
        intro a b; rfl
      rw [hleave]
      simp only []
      rw [exec_forIn, hit _ rfl]
      simp only []
      obtain ⟨e1', he1'⟩ := addOne_fold_find sid (p :: t) { c with studies := upsert c.studies sid id } ⟨e0, he0⟩
      obtain ⟨l2, e2, _, _⟩ := note_loop op handFetch sid (p :: t)
        { s := s, c := (p :: t).foldl (Client.addOne sid) { c with studies := upsert c.studies sid id }, l := { sid := some sid, study := .stored sid, trials := some (p :: t) }, retv := rv0 } rfl e1' he1'
      refine ⟨l2, rv0, .next, (by trivial), .inr rfl, ?_⟩
      rw [e2]
      have hE : entryD ((p :: t).foldl (Client.addOne sid) { c with studies := upsert c.studies sid id }).studies sid = e1' := by
        simp only [entryD, he1', Option.getD_some]
      simp only [upsert] at hE
      simp only [upsert, hE]

theorem sync_ok_entry (s : Spec) (c : Client) (sid : Nat) (h : (c.sync s sid).2 = none) :
    ∃ e', find (c.sync s sid).1.studies sid = some e' := by
  unfold Client.sync at h ⊢
  simp only [] at h ⊢
  split
  · rename_i err hf; rw [hf] at h; simp at h
  · exact ⟨_, by simp only []; exact find_upsert_same _ _ _⟩

theorem readAll_eq (e : Entry) (states : Option (List TState)) :
    Cache.sortByNumber ((match states with
      | some sts => e.trials.filter (fun (kv : Nat × (Nat × TrialS)) => sts.contains kv.2.2.state)
      | none => e.trials).map (fun (kv : Nat × (Nat × TrialS)) => kv.2)) = e.readAll states := by
  cases states with
  | none =>
    simp only [Entry.readAll, stateIn]
    rw [List.filter_eq_self.2 (fun _ _ => rfl)]
  | some sts => simp [Entry.readAll, stateIn, List.filter_map, Function.comp_def]

/-- `get_all_trials` (also behind `get_n_trials` of BaseStorage) -/
theorem interp_getAllTrials_body (s : Spec) (c : Client) (op : Op) (sid : Nat) (states : Option (List TState))
    (hsid : opSid op = some sid) (hstates : opStates op = states) :
    interpCached CacheMethods.getAllTrials handFetch s c op =
      some (match c.sync s sid with
        | (c', some e) => (s, c', .err e)
        | (c', none) => (s, c', .trials ((entryD c'.studies sid).readAll states))) := by
  have hdef : CacheMethods.getAllTrials = .seq (.call .studyId .drop readS)
      (.locked (block [.act .aliasStudy, .ite (.not (.prim .statesIsNone)) (.act .selectByStates) (.act .selectAll),
        .act .sortByNumber, .ite (.prim .deepcopy) (.ret .trials) (.ret .trials)])) := rfl
  unfold interpCached
  rw [hdef, exec_seq, exec_call]
  have henter : (cachedM op handFetch).enter .studyId { s := s, c := c, l := initLocals op } =
      ({ s := s, c := c, l := { sid := some sid }, retv := none }, none) := by
    simp [cachedM, initLocals, hsid, ok]
  rw [henter]
  simp only []
  have hleave : ∀ (a b : CSt), (cachedM op handFetch).leave .drop a b = { b with l := a.l, retv := a.retv } := by
    intro a b; rfl
  rcases exec_read op sid { s := s, c := c, l := { sid := some sid }, retv := none } rfl with
    ⟨err, l', herr, hex⟩ | ⟨l', rv, fl, hok, hfl, hex⟩
  · rw [hex]
    simp only [hleave] at herr ⊢
    cases hs : c.sync s sid with
    | mk c' r =>
      rw [hs] at herr
      simp only [] at herr
      subst herr
      simp [finishCached]
  · simp only [] at hok
    obtain ⟨e', he'⟩ := sync_ok_entry s c sid hok
    have hE : entryD (c.sync s sid).1.studies sid = e' := by simp [entryD, he']
    rw [hex]
    have htail : ∀ x : CSt, x.l = initLocals op → x.c = (c.sync s sid).1 → x.s = s →
        finishCached (exec (cachedM op handFetch)
          (.locked (block [.act .aliasStudy, .ite (.not (.prim .statesIsNone)) (.act .selectByStates) (.act .selectAll),
            .act .sortByNumber, .ite (.prim .deepcopy) (.ret .trials) (.ret .trials)])) none x) =
          some (s, (c.sync s sid).1, .trials ((entryD (c.sync s sid).1.studies sid).readAll states)) := by
      intro x hl hc hs
      obtain ⟨xs, xc, xl, xr⟩ := x
      simp only [] at hl hc hs
      subst hl hc hs
      rw [hE, ← readAll_eq]
      cases states with
      | none => simp [block, exec, evalCond, cachedM, initLocals, hsid, hstates, he', ok, setL, aliasEntry, finishCached]
      | some sts => simp [block, exec, evalCond, cachedM, initLocals, hsid, hstates, he', ok, setL, aliasEntry, finishCached]
    cases hs : c.sync s sid with
    | mk c' r =>
      rw [hs] at hok htail
      simp only [] at hok htail
      subst hok
      simp only [hs]
      rcases hfl with rfl | rfl <;> simp only [hleave] <;> exact htail _ rfl rfl rfl

/-! ## `RDBStorage._get_trials`, the servicer's `GetTrials`, `GrpcClientCache` -/

/-- the generated `RDBStorage._get_trials` on the rows of an existing study: the state filter of the query, then
`rdbFilter` — whichever of the three queries is issued, and also when the database refuses the `IN (…)` list and the
Python fallback filters -/
theorem interp_rdbGetTrials (ex tooMany : Bool) (rows : List (Nat × TrialS)) (states : Option (List TState))
    (inc : List Nat) (w : Int) :
    interpRdb CacheMethods.rdbGetTrials ex tooMany rows states inc w =
      some (if ex then .ok (rdbFilter inc w (rows.filter (fun p => stateIn states p.2.state))) else .error .keyError) := by
  cases ex with
  | false => simp [interpRdb, CacheMethods.rdbGetTrials, block, exec, rdbM]
  | true =>
    by_cases h1 : (inc.filter (fun (i : Nat) => decide ((i : Int) ≤ w))).length > 0 <;> by_cases h2 : w > -1 <;>
      cases tooMany <;> cases states <;>
      simp [interpRdb, CacheMethods.rdbGetTrials, block, exec, evalCond, rdbM, catches, CExn.mro, rdbFilter, h1, h2, stateIn,
        List.filter_filter] <;> (try exact (List.filter_eq_self.2 (fun _ _ => rfl)).symm)

/-- … hence, as the backend's fetch on the contract model: `fetchRdb` (then the state filter), whatever the SQL variable
limit is -/
theorem rdbFetch_eq (tooMany : Bool) (s : Spec) (sid : Nat) (states : Option (List TState)) (inc : List Nat) (w : Int) :
    rdbFetch CacheMethods.rdbGetTrials tooMany s sid states inc w =
      some (match fetchRdb s sid inc w with
        | .ok l => .ok (l.filter (fun p => stateIn states p.2.state))
        | .error e => .error e) := by
  unfold rdbFetch
  rw [interp_rdbGetTrials]
  unfold fetchRdb
  cases hs : s.study? sid with
  | none => simp
  | some st =>
    simp only [Option.isSome_some, if_true]
    congr 2
    unfold rdbFilter
    simp only []
    split
    · simp [List.filter_filter, Bool.and_comm]
    · split
      · simp [List.filter_filter, Bool.and_comm]
      · rfl

/-- the servicer's `GetTrials`: the backend's list filtered by `servicerFilter`, NOT_FOUND for its KeyError -/
theorem interp_servicerGetTrials_ok (l : List (Nat × TrialS)) (inc : List Nat) (w : Int) :
    interpGetTrials CacheMethods.servicerGetTrials (.trials l) inc w = some (.ok (servicerFilter inc w l)) := by
  simp [interpGetTrials, CacheMethods.servicerGetTrials, block, exec, srvM, servicerFilter]

theorem interp_servicerGetTrials_err (inc : List Nat) (w : Int) :
    interpGetTrials CacheMethods.servicerGetTrials (.err .keyError) inc w = some (.error .keyError) := by
  simp [interpGetTrials, CacheMethods.servicerGetTrials, block, exec, srvM, catches, CExn.mro, errMro]



/-- loop body of `GrpcClientCache._read_trials_from_remote_storage` -/
def absorbBody : Stmt := block [.act .decodeTrial, .call .studyIdTrial .drop CacheMethods.cacheAddTrialToCache]

theorem absorb_step (P : PParams) (x : PSt) (p : Nat × TrialS) (e0 : Entry) (he0 : find x.p.studies x.sid = some e0) :
    exec (proxyM P) absorbBody none ((proxyM P).bind .resTrials p x) =
      ({ x with p := { studies := insert x.p.studies x.sid (e0.absorb1 p) }, trial := some p }, .next) := by
  obtain ⟨px, sid, states, study, req, res, trial, dict, trials, result, retv⟩ := x
  simp only [] at he0
  cases hfin : p.2.state.isFinished <;>
    simp [absorbBody, block, exec, exec_call, evalCond, proxyM, CacheMethods.cacheAddTrialToCache, he0, pUpd, pEntry, hfin,
      find_insert_same, insert_insert, Entry.absorb1, Entry.noteState, Entry.addTrial]

theorem absorb_loop (P : PParams) (l : List (Nat × TrialS)) (x : PSt) (e0 : Entry) (he0 : find x.p.studies x.sid = some e0) :
    ∃ tr, forLoop (exec (proxyM P) absorbBody none) ((proxyM P).bind .resTrials) l x =
      ({ x with p := { studies := insert x.p.studies x.sid (l.foldl Entry.absorb1 e0) }, trial := tr }, .next) := by
  induction l generalizing x e0 with
  | nil => exact ⟨x.trial, by simp [forLoop, insert_self _ _ _ he0]⟩
  | cons p t ih =>
    simp only [forLoop_cons, List.foldl_cons]
    rw [absorb_step P x p e0 he0]
    simp only []
    obtain ⟨tr, h⟩ := ih ({ x with p := { studies := insert x.p.studies x.sid (e0.absorb1 p) }, trial := some p } : PSt)
      (e0.absorb1 p) (by simp [find_insert_same])
    exact ⟨tr, by rw [h]; simp [insert_insert]⟩

abbrev cread : Stmt := CacheMethods.cacheReadTrialsFromRemoteStorage

/-- what `GrpcClientCache.get_all_trials` makes of the servicer's backend's answer, by the hand model (`Proxy.getAll`) -/
def getAllSpec (answer : Out) (p : Proxy) (sid : Nat) (states : Option (List TState)) :
    Proxy × Except Err (List (Nat × TrialS)) :=
  let e := entryD p.studies sid
  match answer with
  | .trials l =>
    let e' := e.absorb (servicerFilter e.unfinished e.watermark l)
    ({ studies := insert p.studies sid e' }, .ok (e'.readAll states))
  | .err err => ({ studies := erase p.studies sid }, .error err)
  | _ => ({ studies := insert p.studies sid e }, .error .runtimeError)


theorem cread_split : cread = .seq (.ite (.not (.prim .studyIdInStudies)) (.act .initStudyInfo) .skip)
    (.seq (.act .aliasStudy) (.seq (.act .makeGetTrialsRequest)
      (.seq (.tryExcept (.act .rpcGetTrials) (.onExc [.rpcError] (block [
          .ite (.prim .rpcNotFound) (block [.act .popStudy, .raise .keyError]) .skip, .reraise]) .reraise) .skip)
        (.seq (.ite (.not (.prim .resTrialsTruthy)) (.ret .none) .skip) (.forIn .resTrials absorbBody))))) := rfl

/-- the first three statements of `_read_trials_from_remote_storage`: the entry exists, is aliased, the request holds its
unfinished set and watermark -/
theorem cread_prefix (P : PParams) (x : PSt) (rest : Stmt) :
    exec (proxyM P) (.seq (.ite (.not (.prim .studyIdInStudies)) (.act .initStudyInfo) .skip)
      (.seq (.act .aliasStudy) (.seq (.act .makeGetTrialsRequest) rest))) none x =
    exec (proxyM P) rest none
      { x with p := { studies := insert x.p.studies x.sid (entryD x.p.studies x.sid) }, study := some x.sid,
               req := some ((entryD x.p.studies x.sid).unfinished, (entryD x.p.studies x.sid).watermark) } := by
  obtain ⟨px, sid, states, study, req, res, trial, dict, trials, result, retv⟩ := x
  cases hf : find px.studies sid with
  | none => simp [exec, evalCond, proxyM, hf, entryD, find_insert_same, pEntry]
  | some e => simp [exec, evalCond, proxyM, hf, entryD, find_insert_same, pEntry, insert_self _ _ _ hf]

theorem exec_cread_ok (P : PParams) (l : List (Nat × TrialS))
    (hrpc : ∀ inc w, P.rpcD inc w = some (.ok (servicerFilter inc w l))) (x : PSt) :
    (exec (proxyM P) cread none x).1.p = { studies := insert x.p.studies x.sid ((entryD x.p.studies x.sid).absorb
        (servicerFilter (entryD x.p.studies x.sid).unfinished (entryD x.p.studies x.sid).watermark l)) } ∧
      (exec (proxyM P) cread none x).1.sid = x.sid ∧ (exec (proxyM P) cread none x).1.states = x.states ∧
      ((exec (proxyM P) cread none x).2 = .ret ∨ (exec (proxyM P) cread none x).2 = .next) := by
  rw [cread_split, cread_prefix, exec_seq]
  obtain ⟨px, sid, states, study, req, res, trial, dict, trials, result, retv⟩ := x
  simp only []
  generalize hfl : servicerFilter (entryD px.studies sid).unfinished (entryD px.studies sid).watermark l = fl
  have h4 : exec (proxyM P) (.tryExcept (.act .rpcGetTrials) (.onExc [.rpcError] (block [
          .ite (.prim .rpcNotFound) (block [.act .popStudy, .raise .keyError]) .skip, .reraise]) .reraise) .skip) none
      ({ p := { studies := insert px.studies sid (entryD px.studies sid) }, sid := sid, states := states, study := some sid, req := some ((entryD px.studies sid).unfinished, (entryD px.studies sid).watermark), res := res, trial := trial, dict := dict, trials := trials, result := result, retv := retv } : PSt) =
      (({ p := { studies := insert px.studies sid (entryD px.studies sid) }, sid := sid, states := states, study := some sid, req := some ((entryD px.studies sid).unfinished, (entryD px.studies sid).watermark), res := some fl, trial := trial, dict := dict, trials := trials, result := result, retv := retv } : PSt), .next) := by
    simp [exec, proxyM, hrpc, hfl]
  rw [h4]
  simp only []
  rw [exec_seq]
  cases fl with
  | nil => simp [exec, evalCond, proxyM, Entry.absorb]
  | cons q t =>
    have h5 : exec (proxyM P) (.ite (.not (.prim .resTrialsTruthy)) (.ret .none) .skip) none
        ({ p := { studies := insert px.studies sid (entryD px.studies sid) }, sid := sid, states := states, study := some sid, req := some ((entryD px.studies sid).unfinished, (entryD px.studies sid).watermark), res := some (q :: t), trial := trial, dict := dict, trials := trials, result := result, retv := retv } : PSt) =
        (({ p := { studies := insert px.studies sid (entryD px.studies sid) }, sid := sid, states := states, study := some sid, req := some ((entryD px.studies sid).unfinished, (entryD px.studies sid).watermark), res := some (q :: t), trial := trial, dict := dict, trials := trials, result := result, retv := retv } : PSt), .next) := by
      simp [exec, evalCond, proxyM]
    rw [h5]
    simp only []
    rw [exec_forIn]
    have hit : ∀ y : PSt, y.res = some (q :: t) → (proxyM P).items .resTrials y = (y, .ok (q :: t)) := by
      intro y hy; simp [proxyM, hy]
    rw [hit _ rfl]
    simp only []
    obtain ⟨tr, h⟩ := absorb_loop P (q :: t)
      ({ p := { studies := insert px.studies sid (entryD px.studies sid) }, sid := sid, states := states, study := some sid, req := some ((entryD px.studies sid).unfinished, (entryD px.studies sid).watermark), res := some (q :: t), trial := trial, dict := dict, trials := trials, result := result, retv := retv } : PSt)
      (entryD px.studies sid) (by simp [find_insert_same])
    rw [h]
    simp [insert_insert, Entry.absorb]
theorem cacheGetAll_split : G.cacheGetAllTrials = .locked (.seq (.call .studyId .drop cread)
    (block [.act .aliasStudy, .ite (.not (.prim .statesIsNone)) (.act .selectByStates) (.act .selectAll),
      .act .sortByNumber, .ret .trials])) := rfl

/-- the locked tail of `GrpcClientCache.get_all_trials` -/
theorem cache_tail (P : PParams) (y : PSt) (e' : Entry) (he' : find y.p.studies y.sid = some e') :
    exec (proxyM P) (block [.act .aliasStudy, .ite (.not (.prim .statesIsNone)) (.act .selectByStates) (.act .selectAll),
      .act .sortByNumber, .ret .trials]) none y =
      ({ y with study := some y.sid, dict := none, trials := some (e'.readAll y.states),
                retv := some (.trials (e'.readAll y.states)) }, .ret) := by
  obtain ⟨px, sid, states, study, req, res, trial, dict, trials, result, retv⟩ := y
  simp only [] at he'
  rw [← readAll_eq]
  cases states <;> simp [block, exec, evalCond, proxyM, he', pEntry]

theorem interp_cacheGetAll_ok (l : List (Nat × TrialS)) (p : Proxy) (sid : Nat) (states : Option (List TState)) :
    G.cacheGetAll (.trials l) p sid states = some (getAllSpec (.trials l) p sid states) := by
  unfold Program.cacheGetAll interpProxy
  rw [cacheGetAll_split, exec_locked, exec_seq, exec_call]
  have hrpc : ∀ inc w, ({ noCache with rpcD := interpGetTrials G.servicerGetTrials (.trials l) } : PParams).rpcD inc w =
      some (.ok (servicerFilter inc w l)) := fun inc w => interp_servicerGetTrials_ok l inc w
  generalize ({ noCache with rpcD := interpGetTrials G.servicerGetTrials (.trials l) } : PParams) = P at hrpc ⊢
  have henter : (proxyM P).enter .studyId ({ p := p, sid := sid, states := states } : PSt) =
      (({ p := p, sid := sid, states := states } : PSt), none) := rfl
  rw [henter]
  simp only []
  obtain ⟨h1, h2, h3, h4⟩ := exec_cread_ok P l hrpc ({ p := p, sid := sid, states := states } : PSt)
  generalize exec (proxyM P) cread none ({ p := p, sid := sid, states := states } : PSt) = r at h1 h2 h3 h4
  obtain ⟨x2, fl⟩ := r
  simp only [] at h1 h2 h3 h4
  have hleave : ∀ (a b : PSt), (proxyM P).leave .drop a b =
      { b with study := a.study, trial := a.trial, dict := a.dict, trials := a.trials, retv := a.retv } := fun _ _ => rfl
  have hfind : find x2.p.studies x2.sid = some ((entryD p.studies sid).absorb
      (servicerFilter (entryD p.studies sid).unfinished (entryD p.studies sid).watermark l)) := by
    rw [h1, h2]; simp [find_insert_same]
  rcases h4 with rfl | rfl <;>
  · simp only [hleave]
    have ht := cache_tail P ({ p := x2.p, sid := x2.sid, states := x2.states, req := x2.req, res := x2.res, result := x2.result } : PSt) _ hfind
    rw [ht]
    simp [h1, h2, h3, asList, getAllSpec]

theorem interp_servicerGetTrials_err' (inc : List Nat) (w : Int) :
    interpGetTrials G.servicerGetTrials (.err .keyError) inc w = some (.error .keyError) :=
  interp_servicerGetTrials_err inc w

theorem interp_cacheGetAll_err (p : Proxy) (sid : Nat) (states : Option (List TState)) :
    G.cacheGetAll (.err .keyError) p sid states = some (getAllSpec (.err .keyError) p sid states) := by
  unfold Program.cacheGetAll interpProxy
  rw [cacheGetAll_split, exec_locked, exec_seq, exec_call]
  have hrpc : ∀ inc w, ({ noCache with rpcD := interpGetTrials G.servicerGetTrials (.err .keyError) } : PParams).rpcD inc w =
      some (.error .keyError) := fun inc w => interp_servicerGetTrials_err inc w
  generalize ({ noCache with rpcD := interpGetTrials G.servicerGetTrials (.err .keyError) } : PParams) = P at hrpc ⊢
  have henter : (proxyM P).enter .studyId ({ p := p, sid := sid, states := states } : PSt) =
      (({ p := p, sid := sid, states := states } : PSt), none) := rfl
  rw [henter]
  simp only []
  rw [cread_split, cread_prefix, exec_seq]
  simp [exec, evalCond, proxyM, hrpc, catches, CExn.mro, block, asList, getAllSpec, erase_insert]

theorem interp_cacheDelete (p : Proxy) (sid : Nat) : G.cacheDelete p sid = some { studies := erase p.studies sid } := by
  simp [Program.cacheDelete, interpProxy, G, CacheMethods.program, CacheMethods.cacheDeleteStudyCache, exec, proxyM]

/-! ## the generated methods composed: every callee is the interpreter of its own generated body -/

/-- the backend's `_get_trials` as generated is the hand model's fetch, whatever the SQL variable limit -/
theorem rdbFetch_hand (tooMany : Bool) : rdbFetch G.rdbGetTrials tooMany = handFetch := by
  funext s sid states inc w
  exact rdbFetch_eq tooMany s sid states inc w

theorem unit_or_err (s : Spec) (op : Op)
    (h : match op with
      | .setStudyUserAttr .. | .setStudySystemAttr .. | .setTrialParam .. | .setTrialInter .. | .setTrialUserAttr ..
      | .setTrialSystemAttr .. | .deleteStudy .. => True
      | _ => False) :
    (step s op).2 = .unit ∨ ∃ e, (step s op).2 = .err e := by
  cases op <;> simp only [] at h <;> simp only [step] <;> (repeat' split) <;>
    first | exact .inl rfl | exact .inr ⟨_, rfl⟩

theorem derive_id (op : Op) (out : Out)
    (h : match op with
      | .getTrialNumberFromId _ | .getTrialParam .. | .getNTrials .. => False
      | _ => True) : derive op out = out := by
  cases op <;> simp only [] at h <;> cases out <;> rfl

theorem derive_not_trial (op : Op) (out : Out) (h1 : ∀ id t, out ≠ .trial id t) (h2 : ∀ l, out ≠ .trials l) :
    derive op out = out := by
  cases op <;> cases out <;> first | rfl | exact absurd rfl (h1 _ _) | exact absurd rfl (h2 _)

/-- **gen_callCached_eq**: every public method of `_CachedStorage` as generated from the source (over the generated
`RDBStorage._get_trials`, with or without the SQL variable limit) is `Cache.callCached`. -/
theorem gen_callCached_eq (tooMany : Bool) (s : Spec) (c : Client) (op : Op) :
    G.callCached tooMany s c op = some (callCached s c op) := by
  unfold Program.callCached
  rw [rdbFetch_hand]
  cases op with
  | createStudy name dirs =>
    rw [show lookup (methodOf (.createStudy name dirs)) G.cached = some CacheMethods.createNewStudy from rfl]
    simp only [interp_createNewStudy, derive]
  | deleteStudy sid =>
    rw [show lookup (methodOf (.deleteStudy sid)) G.cached = some CacheMethods.deleteStudy from rfl]
    simp only [interp_deleteStudy, derive]
  | getStudyNameFromId sid =>
    rw [show lookup (methodOf (.getStudyNameFromId sid)) G.cached = some CacheMethods.getStudyNameFromId from rfl]
    simp only [interp_getStudyNameFromId, derive]
  | getStudyDirections sid =>
    rw [show lookup (methodOf (.getStudyDirections sid)) G.cached = some CacheMethods.getStudyDirections from rfl]
    simp only [interp_getStudyDirections, derive]
  | createTrial sid tm ir =>
    rw [show lookup (methodOf (.createTrial sid tm ir)) G.cached = some CacheMethods.createNewTrial from rfl]
    simp only [interp_createNewTrial, derive]
  | getTrialIdFromNumber sid n =>
    rw [show lookup (methodOf (.getTrialIdFromNumber sid n)) G.cached = some CacheMethods.getTrialIdFromStudyIdTrialNumber from rfl]
    simp only [interp_getTrialIdFromNumber, derive]
  | getTrial tid =>
    rw [show lookup (methodOf (.getTrial tid)) G.cached = some CacheMethods.getTrial from rfl]
    simp only []
    rw [interp_getTrial_body _ s c _ tid rfl rfl]
    simp only [callCached]
    cases c.serveTrial tid <;> rfl
  | getTrialNumberFromId tid =>
    rw [show lookup (methodOf (.getTrialNumberFromId tid)) G.cached = some CacheMethods.getTrial from rfl]
    simp only []
    rw [interp_getTrial_body _ s c _ tid rfl rfl]
    simp only [callCached]
    cases c.serveTrial tid with
    | miss =>
      have hne : ∀ id t, (step s (.getTrialNumberFromId tid)).2 ≠ .trial id t := by
        intro id t; simp only [step]; (repeat' split) <;> simp
      have hne2 : ∀ l, (step s (.getTrialNumberFromId tid)).2 ≠ .trials l := by
        intro l; simp only [step]; (repeat' split) <;> simp
      simp only [derive_not_trial _ _ hne hne2]
    | hit id t => rfl
    | crash => rfl
  | getTrialParam tid name =>
    rw [show lookup (methodOf (.getTrialParam tid name)) G.cached = some CacheMethods.getTrial from rfl]
    simp only []
    rw [interp_getTrial_body _ s c _ tid rfl rfl]
    simp only [callCached]
    cases c.serveTrial tid with
    | miss =>
      have hne : ∀ id t, (step s (.getTrialParam tid name)).2 ≠ .trial id t := by
        intro id t; simp only [step]; (repeat' split) <;> simp
      have hne2 : ∀ l, (step s (.getTrialParam tid name)).2 ≠ .trials l := by
        intro l; simp only [step]; (repeat' split) <;> simp
      simp only [derive_not_trial _ _ hne hne2]
    | hit id t => rfl
    | crash => rfl
  | getAllTrials sid states =>
    rw [show lookup (methodOf (.getAllTrials sid states)) G.cached = some CacheMethods.getAllTrials from rfl]
    simp only []
    rw [interp_getAllTrials_body s c _ sid states rfl rfl]
    simp only [callCached]
    cases hs : c.sync s sid with
    | mk c' r => cases r <;> rfl
  | getNTrials sid states =>
    rw [show lookup (methodOf (.getNTrials sid states)) G.cached = some CacheMethods.getAllTrials from rfl]
    simp only []
    rw [interp_getAllTrials_body s c _ sid states rfl rfl]
    simp only [callCached]
    cases hs : c.sync s sid with
    | mk c' r => cases r <;> rfl
  | setStudyUserAttr sid k v =>
    rw [show lookup (methodOf (.setStudyUserAttr sid k v)) G.cached = some (.act (.backend .setStudyUserAttr)) from rfl]
    simp only []
    unfold interpCached
    rw [exec_forward_unit .setStudyUserAttr _ _ rfl _ (unit_or_err _ _ trivial)]
    simp only [derive_id (.setStudyUserAttr sid k v) _ trivial]
    rfl
  | setStudySystemAttr sid k v =>
    rw [show lookup (methodOf (.setStudySystemAttr sid k v)) G.cached = some (.act (.backend .setStudySystemAttr)) from rfl]
    simp only []
    unfold interpCached
    rw [exec_forward_unit .setStudySystemAttr _ _ rfl _ (unit_or_err _ _ trivial)]
    simp only [derive_id (.setStudySystemAttr sid k v) _ trivial]
    rfl
  | setTrialParam tid name pr ir =>
    rw [show lookup (methodOf (.setTrialParam tid name pr ir)) G.cached = some (.act (.backend .setTrialParam)) from rfl]
    simp only []
    unfold interpCached
    rw [exec_forward_unit .setTrialParam _ _ rfl _ (unit_or_err _ _ trivial)]
    simp only [derive_id (.setTrialParam tid name pr ir) _ trivial]
    rfl
  | setTrialInter tid st v =>
    rw [show lookup (methodOf (.setTrialInter tid st v)) G.cached = some (.act (.backend .setTrialIntermediateValue)) from rfl]
    simp only []
    unfold interpCached
    rw [exec_forward_unit .setTrialIntermediateValue _ _ rfl _ (unit_or_err _ _ trivial)]
    simp only [derive_id (.setTrialInter tid st v) _ trivial]
    rfl
  | setTrialUserAttr tid k v =>
    rw [show lookup (methodOf (.setTrialUserAttr tid k v)) G.cached = some (.act (.backend .setTrialUserAttr)) from rfl]
    simp only []
    unfold interpCached
    rw [exec_forward_unit .setTrialUserAttr _ _ rfl _ (unit_or_err _ _ trivial)]
    simp only [derive_id (.setTrialUserAttr tid k v) _ trivial]
    rfl
  | setTrialSystemAttr tid k v =>
    rw [show lookup (methodOf (.setTrialSystemAttr tid k v)) G.cached = some (.act (.backend .setTrialSystemAttr)) from rfl]
    simp only []
    unfold interpCached
    rw [exec_forward_unit .setTrialSystemAttr _ _ rfl _ (unit_or_err _ _ trivial)]
    simp only [derive_id (.setTrialSystemAttr tid k v) _ trivial]
    rfl
  | setTrialStateValues tid st v =>
    rw [show lookup (methodOf (.setTrialStateValues tid st v)) G.cached =
      some (.seq (.act (.backend .setTrialStateValues)) (.ret .backendResult)) from rfl]
    simp only []
    unfold interpCached
    rw [exec_forward_ret .setTrialStateValues _ _ rfl]
    simp only [derive_id (.setTrialStateValues tid st v) _ trivial]
    rfl
  | getStudyIdFromName name =>
    rw [show lookup (methodOf (.getStudyIdFromName name)) G.cached =
      some (.seq (.act (.backend .getStudyIdFromName)) (.ret .backendResult)) from rfl]
    simp only []
    unfold interpCached
    rw [exec_forward_ret .getStudyIdFromName _ _ rfl]
    simp only [derive_id (.getStudyIdFromName name) _ trivial]
    rfl
  | getStudyUserAttrs sid =>
    rw [show lookup (methodOf (.getStudyUserAttrs sid)) G.cached =
      some (.seq (.act (.backend .getStudyUserAttrs)) (.ret .backendResult)) from rfl]
    simp only []
    unfold interpCached
    rw [exec_forward_ret .getStudyUserAttrs _ _ rfl]
    simp only [derive_id (.getStudyUserAttrs sid) _ trivial]
    rfl
  | getStudySystemAttrs sid =>
    rw [show lookup (methodOf (.getStudySystemAttrs sid)) G.cached =
      some (.seq (.act (.backend .getStudySystemAttrs)) (.ret .backendResult)) from rfl]
    simp only []
    unfold interpCached
    rw [exec_forward_ret .getStudySystemAttrs _ _ rfl]
    simp only [derive_id (.getStudySystemAttrs sid) _ trivial]
    rfl
  | getAllStudies =>
    rw [show lookup (methodOf .getAllStudies) G.cached =
      some (.seq (.act (.backend .getAllStudies)) (.ret .backendResult)) from rfl]
    simp only []
    unfold interpCached
    rw [exec_forward_ret .getAllStudies _ _ rfl]
    simp only [derive_id .getAllStudies _ trivial]
    rfl
  | getBestTrial sid =>
    rw [show lookup (methodOf (.getBestTrial sid)) G.cached =
      some (.seq (.act (.backend .getBestTrial)) (.ret .backendResult)) from rfl]
    simp only []
    unfold interpCached
    rw [exec_forward_ret .getBestTrial _ _ rfl]
    simp only [derive_id (.getBestTrial sid) _ trivial]
    rfl

/-- **gen_callServer_eq**: the servicer's backend (the storage, or a generated `_CachedStorage` on it) -/
theorem gen_callServer_eq (tooMany : Bool) (s : Spec) (sc : Option Client) (op : Op) :
    G.callServer tooMany s sc op = some (callServer s sc op) := by
  cases sc with
  | none => rfl
  | some c => simp only [Program.callServer, gen_callCached_eq, callServer]

theorem sync_err_key (s : Spec) (c : Client) (sid : Nat) (e : Err) (h : (c.sync s sid).2 = some e) : e = .keyError := by
  unfold Client.sync fetchRdb at h
  simp only [] at h
  split at h
  · rename_i err hf
    split at hf
    · simp only [Option.some.injEq] at h; cases hf; exact h.symm
    · cases hf
  · cases h

/-- what the servicer's backend answers to `get_all_trials(study_id, deepcopy=False)`: a list, or KeyError -/
theorem server_getAll_out (s : Spec) (sc : Option Client) (sid : Nat) :
    (∃ l, (callServer s sc (.getAllTrials sid none)).2.2 = .trials l) ∨
      (callServer s sc (.getAllTrials sid none)).2.2 = .err .keyError := by
  cases sc with
  | none =>
    simp only [callServer, step]
    split
    · exact .inr rfl
    · exact .inl ⟨_, rfl⟩
  | some c =>
    simp only [callServer, callCached]
    cases hs : c.sync s sid with
    | mk c' r =>
      cases r with
      | none => exact .inl ⟨_, rfl⟩
      | some e =>
        have := sync_err_key s c sid e (by rw [hs])
        subst this
        exact .inr rfl

theorem server_delete_out (s : Spec) (sc : Option Client) (sid : Nat) :
    (callServer s sc (.deleteStudy sid)).2.2 = .unit ∨ ∃ e, (callServer s sc (.deleteStudy sid)).2.2 = .err e := by
  cases sc with
  | none => exact unit_or_err s (.deleteStudy sid) trivial
  | some c => exact unit_or_err s (.deleteStudy sid) trivial

/-- `GrpcClientCache.get_all_trials` as generated (over the generated servicer `GetTrials`) is the client part of
`Proxy.getAll`, for either answer the servicer's backend can give -/
theorem gen_cacheGetAll_eq (answer : Out) (h : (∃ l, answer = .trials l) ∨ answer = .err .keyError) (p : Proxy) (sid : Nat)
    (states : Option (List TState)) : G.cacheGetAll answer p sid states = some (getAllSpec answer p sid states) := by
  rcases h with ⟨l, rfl⟩ | rfl
  · exact interp_cacheGetAll_ok l p sid states
  · exact interp_cacheGetAll_err p sid states

theorem getAll_eq_spec (s : Spec) (sc : Option Client) (p : Proxy) (sid : Nat) (states : Option (List TState)) :
    p.getAll s sc sid states =
      ((callServer s sc (.getAllTrials sid none)).1, (callServer s sc (.getAllTrials sid none)).2.1,
        (getAllSpec (callServer s sc (.getAllTrials sid none)).2.2 p sid states).1,
        (getAllSpec (callServer s sc (.getAllTrials sid none)).2.2 p sid states).2) := by
  unfold Proxy.getAll getAllSpec
  simp only []
  cases hc : callServer s sc (.getAllTrials sid none) with
  | mk s' r =>
    obtain ⟨sc', out⟩ := r
    cases out <;> rfl

/-- `GrpcStorageProxy.get_all_trials` as generated -/
theorem interp_proxyGetAllTrials (P : PParams) (p p' : Proxy) (sid : Nat) (states : Option (List TState))
    (r : Except Err (List (Nat × TrialS))) (h : P.cacheGetAll p = some (p', r)) :
    interpProxy G.proxyGetAllTrials P p sid states = some (p', match r with | .ok l => .trials l | .error e => .err e) := by
  cases r <;> simp [interpProxy, G, CacheMethods.program, CacheMethods.proxyGetAllTrials, block, exec, evalCond, proxyM, h]

/-- `GrpcStorageProxy.delete_study` as generated -/
theorem interp_proxyDeleteStudy (P : PParams) (p p' : Proxy) (sid : Nat) (h : P.cacheDelete p = some p')
    (hout : P.callD = .unit ∨ ∃ e, P.callD = .err e) :
    interpProxy G.proxyDeleteStudy P p sid none = some (match P.callD with | .unit => (p', .unit) | out => (p, out)) := by
  rcases hout with hu | ⟨e, he⟩
  · simp [interpProxy, G, CacheMethods.program, CacheMethods.proxyDeleteStudy, block, exec, evalCond, proxyM, h, hu]
  · cases e <;>
      simp [interpProxy, G, CacheMethods.program, CacheMethods.proxyDeleteStudy, block, exec, evalCond, proxyM, h, he, catches,
        CExn.mro]

/-- `GrpcStorageProxy.get_trial` as generated: the servicer's answer, NOT_FOUND turned back into KeyError -/
theorem interp_proxyGetTrial (P : PParams) (p : Proxy) :
    interpProxy G.proxyGetTrial P p 0 none = some (p, P.callD) := by
  cases h : P.callD with
  | err e =>
    cases e <;>
      simp [interpProxy, G, CacheMethods.program, CacheMethods.proxyGetTrial, block, exec, evalCond, proxyM, h, catches, CExn.mro]
  | _ => simp [interpProxy, G, CacheMethods.program, CacheMethods.proxyGetTrial, block, exec, evalCond, proxyM, h]

/-- **gen_callProxy_eq**: every public method of `GrpcStorageProxy` with the generated client cache, servicer `GetTrials`
and server-side `_CachedStorage` is `Cache.callProxy`. -/
theorem gen_callProxy_eq (tooMany : Bool) (s : Spec) (sc : Option Client) (p : Proxy) (op : Op) :
    G.callProxy tooMany s sc p op = some (callProxy s sc p op) := by
  cases op with
  | getAllTrials sid states =>
    simp only [Program.callProxy, gen_callServer_eq, callProxy, getAll_eq_spec]
    have h := server_getAll_out s sc sid
    generalize callServer s sc (.getAllTrials sid none) = r at h ⊢
    obtain ⟨s', sc', answer⟩ := r
    simp only [] at h ⊢
    rw [interp_proxyGetAllTrials _ p _ sid states _ (gen_cacheGetAll_eq answer h p sid states)]
    rcases h with ⟨l, rfl⟩ | rfl <;> rfl
  | getNTrials sid states =>
    simp only [Program.callProxy, gen_callServer_eq, callProxy, getAll_eq_spec]
    have h := server_getAll_out s sc sid
    generalize callServer s sc (.getAllTrials sid none) = r at h ⊢
    obtain ⟨s', sc', answer⟩ := r
    simp only [] at h ⊢
    rw [interp_proxyGetAllTrials _ p _ sid states _ (gen_cacheGetAll_eq answer h p sid states)]
    rcases h with ⟨l, rfl⟩ | rfl <;> rfl
  | deleteStudy sid =>
    simp only [Program.callProxy, gen_callServer_eq, callProxy]
    rw [interp_proxyDeleteStudy _ p _ sid (interp_cacheDelete p sid) (server_delete_out s sc sid)]
    cases hc : callServer s sc (.deleteStudy sid) with
    | mk s' r =>
      obtain ⟨sc', out⟩ := r
      cases out <;> rfl
  | getTrial tid =>
    simp only [Program.callProxy, gen_callServer_eq, callProxy, interp_proxyGetTrial]
  | _ => simp only [Program.callProxy, gen_callServer_eq, callProxy]

/-- **gen_sysCall_eq**: one storage call of any client of a system — raw, cached, proxied onto the storage or onto one of
the cached clients — with every cache running the generated methods is `Cache.Sys.call`. -/
theorem gen_sysCall_eq (tooMany : Bool) (y : Sys) (i : Nat) (op : Op) : G.sysCall tooMany y i op = some (y.call i op) := by
  unfold Program.sysCall Sys.call
  cases hn : y.nodes[i]? with
  | none => rfl
  | some node =>
    cases node with
    | raw => rfl
    | cached c => simp only [gen_callCached_eq]
    | proxy srv p =>
      simp only []
      cases hsrv : srv.bind (fun j => match y.nodes[j]? with | some (.cached c) => some (j, c) | _ => none) with
      | none => simp only [gen_callProxy_eq]
      | some jc =>
        obtain ⟨j, c⟩ := jc
        simp only [gen_callProxy_eq]
        cases hc : callProxy y.backend (some c) p op with
        | mk s' r =>
          obtain ⟨sc', p', out⟩ := r
          cases sc' <;> rfl

theorem gen_sysRun_eq (tooMany : Bool) (y : Sys) (calls : List (Nat × Op)) : G.sysRun tooMany y calls = some (y.run calls) := by
  induction calls generalizing y with
  | nil => rfl
  | cons c rest ih =>
    simp only [Program.sysRun, gen_sysCall_eq, Sys.run, List.foldl_cons]
    exact ih _

/-! ## the theorems of C08 hold of the generated code -/

/-- **gen_cached_answers_equal_backend**: every public method of `_CachedStorage` *as generated from the source* returns
exactly what the backend would return at that moment (reads about a deleted study excepted), never changes what is
written, and keeps the invariant `cache_covers` — for every well-formed backend state and every cache state satisfying
the invariant, with or without the SQL variable limit. -/
theorem gen_cached_answers_equal_backend (tooMany : Bool) (s : Spec) (hW : Wf s) (c : Client) (h : Inv s c) (op : Op) :
    ∃ r, G.callCached tooMany s c op = some r ∧ r.1 = (step s op).1 ∧ Inv r.1 r.2.1 ∧
      (Targets s op → r.2.2 = (step s op).2) :=
  ⟨_, gen_callCached_eq tooMany s c op, cached_call_backend s c op, cache_covers_call s hW c h op,
    cached_answers_equal_backend s hW c h op⟩
example : G.callCached false wS3 (wA0.noteCreated 0 wNew) (.getAllTrials 0 none) =
    some (wS3, ((wA0.noteCreated 0 wNew).sync wS3 0).1, .trials (wS3.trialsOf 0)) := by decide

/-- **gen_sync_then_equal**: right after the generated `get_all_trials` has synced, it returns exactly the backend's trials of
the study, in the backend's order, for every state filter; it raises KeyError exactly when the backend would. -/
theorem gen_sync_then_equal (tooMany : Bool) (s : Spec) (hW : Wf s) (c : Client) (sid : Nat) (h : Inv s c)
    (states : Option (List TState)) :
    ∃ r, G.callCached tooMany s c (.getAllTrials sid states) = some r ∧ r.2.2 = (step s (.getAllTrials sid states)).2 :=
  ⟨_, gen_callCached_eq tooMany s c _, sync_then_equal s hW c sid h states⟩

/-- **gen_finished_never_stale**: when the generated `get_trial` answers from the cache (no backend call), the answer
carries the requested id, is finished, and equals the backend's record. -/
theorem gen_finished_never_stale (tooMany : Bool) (s : Spec) (c : Client) (h : Inv s c) (tid id : Nat) (t : TrialS)
    (hs : c.serveTrial tid = .hit id t) :
    G.callCached tooMany s c (.getTrial tid) = some (s, c, .trial id t) ∧
      id = tid ∧ s.trials[tid]? = some t ∧ t.state.isFinished = true := by
  refine ⟨?_, (finished_never_stale s c h tid).2 id t hs⟩
  rw [gen_callCached_eq]
  simp only [callCached, hs]

/-- **gen_create_keeps_watermark** (finding F6 on the generated code): the history that hid a foreign trial before the
repair — A syncs, B creates a trial, A creates a finished template, B's trial finishes — now shows both trials. -/
theorem gen_create_finished_template_repaired :
    ∃ r1, G.callCached false wS1 wA0 (.createTrial 0 (some wTmpl) false) = some r1 ∧ r1.1 = wS2 ∧
      ∃ r2, G.callCached false wS3 r1.2.1 (.getAllTrials 0 none) = some r2 ∧ r2.2.2 = .trials (wS3.trialsOf 0) := by
  refine ⟨_, gen_callCached_eq _ _ _ _, by decide, _, gen_callCached_eq _ _ _ _, ?_⟩
  decide

/-- **gen_fetch_filters_agree**: the generated `RDBStorage._get_trials` and the generated servicer `GetTrials` select the
same trials of a study (`id in included or id > watermark`), whatever query / fallback the former takes. -/
theorem gen_fetch_filters_agree (tooMany : Bool) (rows : List (Nat × TrialS)) (inc : List Nat) (w : Int) :
    interpRdb G.rdbGetTrials true tooMany rows none inc w = interpGetTrials G.servicerGetTrials (.trials rows) inc w := by
  rw [show G.rdbGetTrials = CacheMethods.rdbGetTrials from rfl, interp_rdbGetTrials,
    show G.servicerGetTrials = CacheMethods.servicerGetTrials from rfl, interp_servicerGetTrials_ok]
  simp only [if_true, stateIn]
  rw [List.filter_eq_self.2 (fun _ _ => rfl), servicer_filter_eq_rdb_filter]
example : interpGetTrials G.servicerGetTrials (.trials [(1, mkTrial 0 0 none), (2, mkTrial 0 1 none), (5, mkTrial 0 2 none)]) [1, 7] 3 =
    some (.ok [(1, mkTrial 0 0 none), (5, mkTrial 0 2 none)]) := by rfl
example : interpRdb G.rdbGetTrials true true [(1, mkTrial 0 0 none), (2, mkTrial 0 1 none), (5, mkTrial 0 2 none)] none [1, 7] 3 =
    some (.ok [(1, mkTrial 0 0 none), (5, mkTrial 0 2 none)]) := by rfl

/-- **gen_proxy_call_spec**: each public method of `GrpcStorageProxy` with the generated client cache / servicer / server-side
cache leaves the backend exactly as the direct call would, keeps the invariants of both caches, and returns what the
backend would return at that moment. -/
theorem gen_proxy_call_spec (tooMany : Bool) (s : Spec) (hW : Wf s) (sc : Option Client) (hS : SInv s sc) (p : Proxy)
    (hP : PInv s p) (op : Op) :
    ∃ r, G.callProxy tooMany s sc p op = some r ∧ r.1 = (step s op).1 ∧ SInv (step s op).1 r.2.1 ∧
      PInv (step s op).1 r.2.2.1 ∧ (Targets s op → r.2.2.2 = (step s op).2) :=
  ⟨_, gen_callProxy_eq tooMany s sc p op, proxy_call_spec s hW sc hS p hP op⟩

/-- **gen_all_clients_see_backend_partial**: start from an empty database with any number of clients of any kind running
the generated methods, let them execute any interleaved history of storage calls, then let any client make any call: it
receives exactly what the underlying storage — which holds exactly what the same calls made directly would have stored —
answers at that moment (a cached read about a deleted study excepted: F27). -/
theorem gen_all_clients_see_backend_partial (tooMany : Bool) (nodes : List Node) (hfresh : ∀ n, n ∈ nodes → isFreshNode n)
    (calls : List (Nat × Op)) (i : Nat) (op : Op) :
    ∃ y r, G.sysRun tooMany { backend := Storage.init, nodes := nodes } calls = some y ∧
      G.sysCall tooMany y i op = some r ∧
      y.backend = C01.after Storage.init (calls.map (·.2)) ∧ (Targets y.backend op → r.2 = (step y.backend op).2) := by
  refine ⟨_, _, gen_sysRun_eq _ _ _, gen_sysCall_eq _ _ _ _, ?_⟩
  exact all_clients_see_backend_partial nodes hfresh calls i op
example : (G.sysRun false { backend := Storage.init, nodes := demoNodes } demoCalls).map (fun y => (y.backend.trialsOf 0).length) = some 3 := by
  decide
example : ((G.sysRun true { backend := Storage.init, nodes := demoNodes } demoCalls).bind
    (fun y => G.sysCall true y 1 (.getAllTrials 0 none))).map (·.2) = some (step demoSys.backend (.getAllTrials 0 none)).2 := by decide

end OptunaVerif.C08Gen
